(* C05 — A Spec is admitted iff well-formed per SPEC.md; any single defect rejects it. *)
From Coq Require Import String Ascii List Bool NArith ZArith.
From CDI Require Import Base SpecModel Doc Decode DecodeProofs Parser Version Annotations Validate ValidateProofs
  DefectProofs Judge05 Judge05Proofs.
Import ListNotations.
Open Scope string_scope.

(* a document is accepted iff it decodes (only known members, well-typed values) to a well-formed Spec *)
Theorem C05_accepts_iff_WF : forall d, accepts d = Ok tt <-> exists s, spec_of_doc d = Ok s /\ WF s.
Proof. exact accepts_iff_WF. Qed.
Print Assumptions C05_accepts_iff_WF.

(* the validation pipeline (typed route: Cache.WriteSpec) accepts exactly the well-formed Specs *)
Theorem C05_validate_iff_WF : forall s, validate_spec s = Ok tt <-> WF s.
Proof. exact validate_iff_WF. Qed.
Print Assumptions C05_validate_iff_WF.

(* no document and no Spec value crashes the library; everything not accepted is rejected with an error *)
Theorem C05_accepts_total : forall d, accepts d <> Panic.
Proof. exact accepts_total. Qed.
Print Assumptions C05_accepts_total.
Theorem C05_validate_total : forall s, validate_spec s <> Panic.
Proof. exact validate_total. Qed.
Print Assumptions C05_validate_total.
Theorem C05_not_WF_rejected : forall s, ~ WF s <-> validate_spec s = Err.
Proof. exact not_WF_rejected. Qed.
Print Assumptions C05_not_WF_rejected.
Theorem C05_accepts_cases : forall d, accepts d = Ok tt \/ accepts d = Err.
Proof. exact accepts_cases. Qed.
Print Assumptions C05_accepts_cases.

(* any single defect — 24 constructors for the kinds of the property text, each quantified over its position:
   spec level or any device (In e (all_edits s), In a (all_annots s), In d (s_devices s)), any element of any list —
   makes the Spec ill-formed, hence rejected with an error, also when it arrives as a document *)
Theorem C05_single_defect_rejects : forall s, Defect s -> ~ WF s.
Proof. exact single_defect_rejects. Qed.
Print Assumptions C05_single_defect_rejects.
Theorem C05_defect_rejected : forall s, Defect s -> validate_spec s = Err.
Proof. exact defect_rejected. Qed.
Print Assumptions C05_defect_rejected.
Theorem C05_defect_document_rejected : forall d s, spec_of_doc d = Ok s -> Defect s -> accepts d = Err.
Proof. exact defect_document_rejected. Qed.
Print Assumptions C05_defect_document_rejected.

(* an unknown member in ANY object of the document tree (spec, any device, any edits, any device node / hook /
   mount entry, intelRdt) makes the document undecodable, hence rejected *)
Theorem C05_unknown_key_rejects : forall d, Unknown KSpec d -> spec_of_doc d = Err.
Proof. exact unknown_key_rejects. Qed.
Print Assumptions C05_unknown_key_rejects.
Theorem C05_unknown_key_not_accepted : forall d, Unknown KSpec d -> accepts d = Err.
Proof. exact unknown_key_not_accepted. Qed.
Print Assumptions C05_unknown_key_not_accepted.

(* two members with the same name in ANY object of the document tree (the Spec, a device, any edits, any list entry,
   an annotations map): the strict YAML layer refuses the document; [accepts_strict] = that check, then [accepts] *)
Theorem C05_has_dup_iff : forall d, has_dup d = true <-> HasDup d.
Proof. exact has_dup_iff. Qed.
Print Assumptions C05_has_dup_iff.
Theorem C05_duplicate_key_rejects : forall d, HasDup d -> accepts_strict d = Err.
Proof. exact duplicate_key_rejects. Qed.
Print Assumptions C05_duplicate_key_rejects.
Theorem C05_accepts_strict_iff_WF : forall d,
  accepts_strict d = Ok tt <-> ~ HasDup d /\ exists s, spec_of_doc d = Ok s /\ WF s.
Proof. exact accepts_strict_iff_WF. Qed.
Print Assumptions C05_accepts_strict_iff_WF.
Theorem C05_accepts_strict_total : forall d, accepts_strict d <> Panic.
Proof. exact accepts_strict_total. Qed.
Print Assumptions C05_accepts_strict_total.

(* a versioned feature used at any place forces the declared version up (with C06's meaning of [required]) *)
Theorem C05_mount_type_needs_040 : forall s v,
  uses_mount_type s -> declared (s_version s) = Some v -> ver_gtb "v0.4.0" v = true -> ~ WF s.
Proof. exact mount_type_needs_040. Qed.
Print Assumptions C05_mount_type_needs_040.
Theorem C05_v070_feature_needs_070 : forall s v,
  uses_v070 s -> declared (s_version s) = Some v -> ver_gtb "v0.7.0" v = true -> ~ WF s.
Proof. exact v070_feature_needs_070. Qed.
Print Assumptions C05_v070_feature_needs_070.

(* the annotation-key check of the code is the Kubernetes qualified-name grammar *)
Theorem C05_k8s_qualified_iff : forall k, k8s_qualified_b k = true <-> QualKey k.
Proof. exact k8s_qualified_iff. Qed.
Print Assumptions C05_k8s_qualified_iff.

(* the oracle evaluated on observed verdicts decides the declarative predicate, and says what its bit means *)
Theorem C05_wf_b_iff : forall s, wf_b s = true <-> WF s.
Proof. exact wf_b_iff. Qed.
Print Assumptions C05_wf_b_iff.
Theorem C05_oracle_doc_meaning : forall d obs parsed,
  oracle05 (CDoc d obs parsed) = true ->
  obs <> [] /\ forall o, In o obs -> o <> 2 /\ (o = 0 <-> ~ HasDup d /\ exists s, spec_of_doc d = Ok s /\ WF s).
Proof. exact oracle05_doc_meaning. Qed.
Print Assumptions C05_oracle_doc_meaning.
Theorem C05_oracle_typed_meaning : forall s obs,
  oracle05 (CTyped s obs) = true -> obs <> [] /\ forall o, In o obs -> o <> 2 /\ (o = 0 <-> WF s).
Proof. exact oracle05_typed_meaning. Qed.
Print Assumptions C05_oracle_typed_meaning.
(* what the model predicts always satisfies the property: the oracle can fail only where the correspondence fails *)
Theorem C05_corr_implies_oracle : forall c, case_obs c <> [] -> corr05 c = true -> oracle05 c = true.
Proof. exact corr_implies_oracle. Qed.
Print Assumptions C05_corr_implies_oracle.

(* the decoder's member names are the encoder's (Doc.v), which C09/C18 tie to specs-go/config.go *)
Theorem C05_layout_names_agree : map (fun p => (fst p, fst (snd p))) encoder_probes = decoder_fields.
Proof. exact layout_names_agree. Qed.
Print Assumptions C05_layout_names_agree.

(* non-vacuity: a Spec using every optional field is well-formed and its document is accepted; defects exist *)
Example C05_example_WF : WF ex_spec.
Proof. exact ex_spec_WF. Qed.
Example C05_example_accepted : accepts (doc_of_spec ex_spec) = Ok tt.
Proof. exact ex_doc_accepted. Qed.
Example C05_example_defect : Defect ex_null_hook /\ validate_spec ex_null_hook = Err.
Proof. exact (conj ex_null_hook_defect ex_null_hook_rejected). Qed.
Example C05_example_unknown :
  Unknown KSpec (DObj [("devices", DArr [DObj [("name", DStr "d");
                        ("containerEdits", DObj [("hooks", DArr [DNull; DObj [("hookName", DStr "prestart"); ("pth", DStr "/p")]])])]])]).
Proof. exact unknown_example. Qed.

(* the validation constants regenerated from the source on this run (hook stages, device node types, permission characters,
   closID rule, annotation size and name-length limits) are the ones of the model and of WF *)
From CDI Require Import ConstTie.
From CDIGen Require Import ConstGen.
Theorem C05_constants_tie :
  sort_strings ConstGen.hook_names = sort_strings Validate.hook_names /\
  sort_strings ConstGen.node_types = sort_strings Validate.node_types /\
  sort_strings ConstGen.perm_chars = sort_strings model_perm_chars /\
  ConstGen.annot_size_limit = Validate.annot_size_limit /\
  ConstGen.closid_max = 4096%N /\ sort_strings ConstGen.closid_forbidden = ["."; ".."] /\ ConstGen.closid_badchars = [47%N; 10%N] /\
  forallb model_closid_rejects (ConstGen.closid_forbidden ++ map (fun b => String (ascii_of_N b) EmptyString) ConstGen.closid_badchars) = true /\
  ConstGen.qname_max = 63 /\ ConstGen.dns_subdomain_max = 253 /\ ConstGen.dns_label_max = 63.
Proof. exact constants_tie. Qed.
Print Assumptions C05_constants_tie.
