(* C11 — With auto-refresh the cache converges to the directory contents by itself.
   Statements over the watcher machine of CDI.Watch (file system, kernel watches, tracked map, the two event
   queues, cached per-directory view) for the code as it stands ([fixed_variant]); the event rules are the
   observed inotify/fsnotify table ([op_effect]).  [run] folds ANY list of labels: file-system operations, fsnotify
   reads, event handling, queries and extra events in any interleaving, i.e. every pacing. *)
From Coq Require Import String Ascii List Bool.
From CDI Require Import Base Paths Watch WatchProofs WatchVariants.
Import ListNotations.
Open Scope string_scope.

(* the invariants I0-I5 (CDI.WatchProofs.Inv) hold initially, are preserved by every transition, hence hold in
   every reachable state *)
Theorem C11_invariants_initially : forall dirs f, Inv dirs (init dirs f).
Proof. exact init_inv. Qed.
Print Assumptions C11_invariants_initially.

Theorem C11_invariants_preserved : forall dirs s l, Inv dirs s -> Inv dirs (step fixed_variant dirs s l).
Proof. exact step_inv. Qed.
Print Assumptions C11_invariants_preserved.

Theorem C11_invariants_reachable : forall dirs f ls, Inv dirs (run fixed_variant dirs (init dirs f) ls).
Proof. exact reachable_inv. Qed.
Print Assumptions C11_invariants_reachable.

(* convergence: after EVERY finite execution, when both event queues are empty a query leaves, for every
   configured directory, exactly what a scan of the current file system sees in the cache, and answers (devices
   with their defining files; files and directories in error) like a freshly built cache *)
Theorem C11_convergence : forall dirs f ls,
  let s := run fixed_variant dirs (init dirs f) ls in
  kq s = [] -> cq s = [] ->
  (forall d, In d dirs -> cache (query fixed_variant dirs s) d = view (fs s) d) /\
  answer dirs (query fixed_variant dirs s) = fresh dirs (fs s).
Proof. exact convergence. Qed.
Print Assumptions C11_convergence.

(* the hypothesis is always reachable: once the operations cease, |kq|+|cq| deliveries empty both queues without
   touching the file system, and then a query answers like a fresh cache — for every history *)
Theorem C11_eventual_convergence : forall dirs f ls,
  let s := run fixed_variant dirs (init dirs f) ls in
  let s' := drain fixed_variant dirs (length (kq s) + length (cq s)) s in
  fs s' = fs s /\ answer dirs (query fixed_variant dirs s') = fresh dirs (fs s).
Proof. exact eventual_convergence. Qed.
Print Assumptions C11_eventual_convergence.

(* the pinned code's variants do not converge (why the fixes 824d7cd and 4c15c01 are needed) *)
Theorem C11_convergence_refuted_linux_mask : exists dirs f ls,
  let s := run linux_mask_variant dirs (init dirs f) ls in
  kq s = [] /\ cq s = [] /\ answer dirs (query linux_mask_variant dirs s) <> fresh dirs (fs s).
Proof. exact linux_mask_refuted. Qed.
Print Assumptions C11_convergence_refuted_linux_mask.

Theorem C11_convergence_refuted_update_order : exists dirs f ls,
  let s := run old_update_variant dirs (init dirs f) ls in
  kq s = [] /\ cq s = [] /\ answer dirs (query old_update_variant dirs s) <> fresh dirs (fs s).
Proof. exact update_order_refuted. Qed.
Print Assumptions C11_convergence_refuted_update_order.

(* and neither does a mask without Rename (a file renamed away) *)
Theorem C11_convergence_refuted_no_rename_mask : exists dirs f ls,
  let s := run no_rename_variant dirs (init dirs f) ls in
  kq s = [] /\ cq s = [] /\ answer dirs (query no_rename_variant dirs s) <> fresh dirs (fs s).
Proof. exact no_rename_refuted. Qed.
Print Assumptions C11_convergence_refuted_no_rename_mask.

(* The atomicity of the handler's update + refresh is an assumption of the machine, and it matters: with
   file-system operations between watcher.Add and the scan of the same handler run (handle_split; with no operation
   in between it is handle) the code as it stands does not converge either.  Observed on the implementation:
   known finding C11/add-scan-window. *)
Theorem C11_convergence_refuted_nonatomic_refresh : exists dirs f pre between post,
  let s0 := run fixed_variant dirs (init dirs f) pre in
  let s := run fixed_variant dirs (handle_split fixed_variant dirs s0 between) post in
  kq s = [] /\ cq s = [] /\ answer dirs (query fixed_variant dirs s) <> fresh dirs (fs s).
Proof. exact add_scan_window_refuted. Qed.
Print Assumptions C11_convergence_refuted_nonatomic_refresh.

(* non-vacuity: on the three witness histories the code as it stands reaches empty queues and answers like a
   fresh cache; the first answer is a resolved device *)
Example C11_fixed_on_witnesses :
  (let s := run fixed_variant one_dir (init one_dir empty_dir) witness_linux_mask in
   kq s = [] /\ cq s = [] /\
   answer one_dir (query fixed_variant one_dir s) = ([("vendor.com/class=dev0", "/etc/cdi/a.json#t")], [])) /\
  (let s := run fixed_variant one_dir (init one_dir empty_dir) witness_update_order in
   let s' := drain fixed_variant one_dir 2 s in
   kq s' = [] /\ cq s' = [] /\ answer one_dir (query fixed_variant one_dir s') = ([], ["/etc/cdi"]) /\
   fresh one_dir (fs s') = ([], ["/etc/cdi"])) /\
  (let s := run fixed_variant one_dir (init one_dir empty_dir) witness_no_rename in
   kq s = [] /\ cq s = [] /\ answer one_dir (query fixed_variant one_dir s) = ([], [])).
Proof. exact fixed_on_witnesses. Qed.
