(* C13 — Device resolution follows Spec-directory precedence. *)
From Coq Require Import String List.
From CDI Require Import Base Cache.
Example C13_placeholder : scan nil = nil.
Proof. reflexivity. Qed.
Print Assumptions C13_placeholder.
