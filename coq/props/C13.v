(* C13 — A bad Spec file or directory affects only itself and is reported. *)
From Coq Require Import String Ascii List Bool Arith.
From CDI Require Import Base SpecModel Parser Paths Cache CacheProofs CacheErrors.
Import ListNotations.
Open Scope string_scope.

(* how a name resolves depends only on the loaded files that define it: invalid or unreadable files, files in other
   positions, unscannable or missing directories (which contribute nothing to the scan) never matter *)
Theorem C13_isolation : forall n fl1 fl2, defs n fl1 = defs n fl2 -> resolve_spec fl1 n = resolve_spec fl2 n.
Proof. exact isolation. Qed.
Print Assumptions C13_isolation.
Theorem C13_resolution_is_the_rule : forall fs n,
  unique_names (scan fs) -> get_device (refresh fs) n = resolve_spec (loaded (scan fs)) n.
Proof. exact refresh_resolves_fs. Qed.
Print Assumptions C13_resolution_is_the_rule.
Theorem C13_unusable_directory_skipped : forall prio d r, snd d = DMissing \/ snd d = DUnscannable ->
  scan_from prio (d :: r) = scan_from (S prio) r.
Proof. exact scan_skips_unusable. Qed.
Print Assumptions C13_unusable_directory_skipped.

(* every failing Spec file has an entry in the error report *)
Theorem C13_failed_reported : forall files p, In p (failed files) -> In p (error_keys (refresh_files files)).
Proof. exact failed_reported. Qed.
Print Assumptions C13_failed_reported.
(* an explicit refresh returns an error iff the report is non-empty *)
Theorem C13_refresh_fails_iff : forall c, refresh_fails c = true <-> error_keys c <> [].
Proof. exact refresh_fails_iff. Qed.
Print Assumptions C13_refresh_fails_iff.
(* the report after a refresh is a function of the current content only: an entry disappears at the first refresh
   after its cause is gone *)
Theorem C13_memoryless : forall fs1 fs2, scan fs1 = scan fs2 -> refresh fs1 = refresh fs2.
Proof. exact refresh_memoryless. Qed.
Print Assumptions C13_memoryless.
(* the report contains EXACTLY the failing files and the loaded files that are in a same-priority conflict (another
   loaded file of the same priority defines one of their devices): nothing else ever has an entry *)
Theorem C13_errors_exact : forall fs p,
  unique_names (scan fs) -> (In p (error_keys (refresh fs)) <-> In p (expected_error_keys (scan fs))).
Proof. exact errors_exact_fs. Qed.
Print Assumptions C13_errors_exact.
Theorem C13_errors_eq : forall files,
  sorted (loaded files) -> unique_names files -> error_keys (refresh_files files) = expected_error_keys files.
Proof. exact errors_eq. Qed.
Print Assumptions C13_errors_eq.
(* hence: an explicit refresh returns no error when every directory is readable or absent and every Spec file is valid
   and unconflicted *)
Theorem C13_all_good_no_error : forall fs,
  unique_names (scan fs) -> expected_error_keys (scan fs) = [] -> refresh_fails (refresh fs) = false.
Proof.
  intros fs U H. destruct (refresh_fails (refresh fs)) eqn:R; [|reflexivity].
  apply refresh_fails_iff in R. exfalso. apply R.
  destruct (error_keys (refresh fs)) as [|p r] eqn:K; [reflexivity|].
  assert (X : In p (expected_error_keys (scan fs))) by (apply errors_exact_fs; [exact U|rewrite K; left; reflexivity]).
  rewrite H in X. destruct X.
Qed.
Print Assumptions C13_all_good_no_error.

Example C13_example :
  let fs := [("/a", DUnscannable); ("/b", DDir [("bad.json", EFile None); ("ok.json", EFile (Some (mkSpec "0.3.0" "v.com/c" [] [mkDevice "d" [] (mkEdits ["A=1"] [] [] [] None [])] empty_edits)))]); ("/c", DMissing)] in
  list_devices (refresh fs) = ["v.com/c=d"] /\ error_keys (refresh fs) = ["/b/bad.json"] /\ refresh_fails (refresh fs) = true.
Proof. vm_compute. repeat split; reflexivity. Qed.
