(* C08 — No untrusted input can crash the library. *)
From Coq Require Import String List.
From CDI Require Import Base Parser ParserProofs.
Theorem C08_placeholder : forall s, fst (parse_qualified_name s) <> Panic.
Proof. exact parse_total. Qed.
Print Assumptions C08_placeholder.
