(* C08 — No untrusted input can crash the library: the modelled entry points never panic, for EVERY input.
   (Termination: every modelled function is a structural recursion over finite strings / lists, as Go's range loops are.) *)
From Coq Require Import String Ascii List Bool Arith ZArith.
From CDI Require Import Base SpecModel Parser ParserProofs Annotations AnnotationsProofs Version VersionProofs
  Paths Oci Apply ApplySpec ApplyProofs Cache CacheProofs InjectSpec InjectProofs NoPanic Doc Decode Validate ValidateProofs.
Import ListNotations.
Open Scope string_scope.

(* every device-name string: ParseQualifiedName / IsQualifiedName and the validators *)
Theorem C08_parse_qualified_name_total : forall s, fst (parse_qualified_name s) <> Panic.
Proof. exact parse_total. Qed.
Print Assumptions C08_parse_qualified_name_total.
(* every annotation map, plugin name, device id and device list *)
Theorem C08_parse_annotations_total : forall m, parse_annotations m <> Panic.
Proof. exact parse_annotations_total. Qed.
Print Assumptions C08_parse_annotations_total.
Theorem C08_annotation_key_total : forall p id, annotation_key p id <> Panic.
Proof. exact annotation_key_total. Qed.
Print Assumptions C08_annotation_key_total.
Theorem C08_annotation_value_total : forall ds, annotation_value ds <> Panic.
Proof. exact annotation_value_total. Qed.
Print Assumptions C08_annotation_value_total.
Theorem C08_update_annotations_total : forall m p id ds, fst (update_annotations m p id ds) <> Panic.
Proof. exact update_total. Qed.
Print Assumptions C08_update_annotations_total.
(* every Spec value: the version requirement (incl. nil list entries) *)
Theorem C08_validate_version_total : forall s, validate_version s <> Panic.
Proof. exact validate_version_total. Qed.
Print Assumptions C08_validate_version_total.
(* every document tree used as Spec file content (after the text layer): strict decoding + the whole validation pipeline,
   incl. null list entries, one-letter names, wrong types in any position; and every typed Spec handed to the writer *)
Theorem C08_accepts_total : forall d, accepts d <> Panic.
Proof. exact accepts_total. Qed.
Print Assumptions C08_accepts_total.
Theorem C08_validate_spec_total : forall s, validate_spec s <> Panic.
Proof. exact validate_total. Qed.
Print Assumptions C08_validate_spec_total.
(* every OCI spec (unique device paths / mount destinations) with every valid edit list: Apply never dereferences nil *)
Theorem C08_apply_no_panic : forall host e o,
  wf_initial o = true -> valid_edits e = true -> snd (apply host e o) <> 2.
Proof. intros host e o W V. exact (proj1 (apply_meets_spec host e o W V)). Qed.
Print Assumptions C08_apply_no_panic.
(* every OCI spec injected with every request from every cache of loaded (valid) Specs *)
Theorem C08_inject_no_panic : forall host fl o names,
  loaded_valid fl -> wf_initial o = true -> snd (fst (inject_spec host fl (Some o) names)) <> 2.
Proof. exact inject_no_panic. Qed.
Print Assumptions C08_inject_no_panic.
(* C08_no_panic_partial: the theorems stop at the document tree.  Panics or hangs inside the YAML/JSON scanners, gojsonschema
   and regexp on raw bytes are not modelled; they are searched for by the byte-level stream of the harness (mutations of
   valid Spec files through ReadSpec / ParseSpec / a live auto-refresh cache in a child process / schema validation, each
   under a panic guard and a watchdog), which is testing, not proof. *)
