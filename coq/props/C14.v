(* C14 — Device resolution follows Spec-directory precedence. *)
From Coq Require Import String List.
From CDI Require Import Base Cache.
Example C14_placeholder : scan nil = nil.
Proof. reflexivity. Qed.
Print Assumptions C14_placeholder.
