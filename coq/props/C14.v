(* C14 — Injection changes nothing but the OCI spec and is repeatable. *)
From Coq Require Import String Ascii List Bool Arith ZArith.
From CDI Require Import Base SpecModel Parser Paths Oci Apply ApplySpec ApplyProofs Cache CacheProofs InjectSpec InjectProofs.
Import ListNotations.
Open Scope string_scope.

(* a history of injections: each step has its own host oracle (device nodes may have been re-created), OCI spec and request *)
Definition run_history (c : cache) (steps : list (hostfn * option oci * list string)) :=
  map (fun st => inject (fst (fst st)) c (snd (fst st)) (snd st)) steps.

(* For every history of any length: the k-th result is the declarative result computed from the loaded files and the host
   oracle OF THAT STEP — no memory of earlier injections, host attributes read at each injection *)
Theorem C14_history_repeatable : forall fs steps,
  unique_names (scan fs) ->
  run_history (refresh fs) steps =
  map (fun st => inject_spec (fst (fst st)) (loaded (scan fs)) (snd (fst st)) (snd st)) steps.
Proof.
  intros fs steps U. unfold run_history. apply map_ext. intro st. apply inject_refines_spec_fs. exact U.
Qed.
Print Assumptions C14_history_repeatable.
(* unspecified device attributes come from the host oracle given to THIS application (apply_meets_spec, C03) *)
Theorem C14_attributes_from_current_host : forall host e o,
  wf_initial o = true -> valid_edits e = true -> snd (apply host e o) = 0 ->
  devices_post host (o_uid o) (o_gid o) (o_devices o) (somes (e_nodes e)) (o_devices (fst (apply host e o))) = true.
Proof.
  intros host e o W V H. destruct (apply_meets_spec host e o W V) as [_ [_ P]]. destruct (P H) as [Q _].
  unfold apply_post_but_env in Q. repeat (apply andb_true_iff in Q as [Q _]). exact Q.
Qed.
Print Assumptions C14_attributes_from_current_host.
(* C14_partial: in this pure model the cache is not an output of injection, so that the cached Specs and devices are left
   unchanged by the real code (and can be written back) is decided by the correspondence runs: the JSON image of every cached
   Spec and device through the query API before the first and after every injection, and a write-back + read-back of every
   cached Spec. *)

Example C14_example :
  let fs := [("/etc/cdi", DDir [("a.json", EFile (Some (mkSpec "0.5.0" "v.com/c" [] [mkDevice "d1" [] (mkEdits [] [Some (mkDevnode "/dev/x" "/dev/host" "" 0 0 None "" None None)] [] [] None [])] empty_edits)))])] in
  let o := mkOci [] 0 0 [] [] empty_hooks [] [] None "" in
  let h1 := host_of [("/dev/host", ("c", 1, 2)%Z)] in let h2 := host_of [("/dev/host", ("b", 7, 8)%Z)] in
  map (fun r => option_map (fun x => map (fun d => (od_type d, od_major d, od_minor d)) (o_devices x)) (snd r))
      (run_history (refresh fs) [(h1, Some o, ["v.com/c=d1"]); (h2, Some o, ["v.com/c=d1"]); (h1, Some o, ["v.com/c=d1"])]) =
  [Some [("c", 1, 2)%Z]; Some [("b", 7, 8)%Z]; Some [("c", 1, 2)%Z]].
Proof. vm_compute. reflexivity. Qed.
