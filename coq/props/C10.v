(* C10 — Spec files are published atomically.
   The writer's program writer_ops p (pkg/cdi/spec.go, Spec.write) is quantified over
     p : target name, new content, random part of the temporary name, descriptor number,
         ANY chunking of the write, ANY fault (mkdir/create failure, write failure after ANY byte prefix,
         rename failure);
     k : ANY crash point (the first k operations were executed; k beyond the end = ran to completion);
     st0 : ANY initial directory (with or without a previous file under the target, any other files,
         hard links included) in which CreateTemp's name is unused.
   content st n = the bytes a reader finds under name n (None: no such file). *)
From Coq Require Import String Ascii List Bool Arith.
From CDI Require Import Base Paths AtomicWrite AtomicWriteProofs.
Import ListNotations.
Open Scope string_scope.

(* the temporary file can never be taken for a Spec file by the scanner, whatever CreateTemp puts in the
   middle (not only digits), and so can no other name ending in .tmp *)
Theorem C10_tmp_not_spec : forall rnd, is_spec_name ("spec." ++ rnd ++ ".tmp") = false.
Proof. exact tmp_not_spec. Qed.
Print Assumptions C10_tmp_not_spec.
Theorem C10_ends_tmp_not_spec : forall s, is_spec_name (s ++ ".tmp") = false.
Proof. exact ends_tmp_not_spec. Qed.
Print Assumptions C10_ends_tmp_not_spec.

(* at every crash point: under every Spec file name the previous content (or still no file), or - under the
   target only - the complete new content *)
Theorem C10_atomic_publication : forall p st0 k n,
  wf st0 -> lookup (w_tmp p) (names st0) = None -> is_spec_name n = true ->
  let st := run (firstn k (writer_ops p)) st0 in
  content st n = content st0 n \/ (n = w_target p /\ content st n = Some (w_new p)).
Proof. exact atomic_publication. Qed.
Print Assumptions C10_atomic_publication.

(* an inode that is reachable under a Spec file name at some point is never written afterwards *)
Theorem C10_published_immutable : forall p st0 k k' n i,
  wf st0 -> lookup (w_tmp p) (names st0) = None -> k <= k' ->
  is_spec_name n = true -> lookup n (names (run (firstn k (writer_ops p)) st0)) = Some i ->
  dget (data (run (firstn k' (writer_ops p)) st0)) i = dget (data (run (firstn k (writer_ops p)) st0)) i.
Proof. exact published_immutable. Qed.
Print Assumptions C10_published_immutable.

(* a reader that opens the target at any point k and reads the inode at any later points reads one byte
   string throughout: the complete previous or the complete new content *)
Theorem C10_reader_sees_old_or_new : forall p st0 k i,
  wf st0 -> lookup (w_tmp p) (names st0) = None -> is_spec_name (w_target p) = true ->
  lookup (w_target p) (names (run (firstn k (writer_ops p)) st0)) = Some i ->
  exists b, (content st0 (w_target p) = Some b \/ b = w_new p) /\
            forall k', k <= k' -> dget (data (run (firstn k' (writer_ops p)) st0)) i = b.
Proof. exact reader_sees_old_or_new. Qed.
Print Assumptions C10_reader_sees_old_or_new.

(* the same for EVERY schedule of a reader that reads piecewise (os.ReadFile) while the writer advances:
   sched1 any history, then open(target), then sched2 any interleaving of writer steps and reads *)
Theorem C10_reader_any_schedule : forall p st0 sched1 sched2,
  wf st0 -> lookup (w_tmp p) (names st0) = None -> is_spec_name (w_target p) = true ->
  Forall read_only sched2 ->
  forall b, r_result (snd (sys_run (sched1 ++ EvR (ROpen (w_target p)) :: sched2)%list (st0, writer_ops p, reader0))) = Some b ->
  content st0 (w_target p) = Some b \/ b = w_new p.
Proof. exact reader_any_schedule. Qed.
Print Assumptions C10_reader_any_schedule.

(* after a failed write (any fault; at any point, also run to completion) or a write interrupted before the
   rename, every Spec file name shows exactly what it showed before *)
Theorem C10_failed_write_leaves_nothing_loadable : forall p st0 k n,
  wf st0 -> lookup (w_tmp p) (names st0) = None ->
  w_fault p <> NoFault \/ k <= rename_pos p ->
  is_spec_name n = true -> content (run (firstn k (writer_ops p)) st0) n = content st0 n.
Proof. exact failed_write_leaves_nothing_loadable. Qed.
Print Assumptions C10_failed_write_leaves_nothing_loadable.

(* no name other than the temporary one and the target ever appears *)
Theorem C10_only_tmp_and_target_appear : forall p st0 k n,
  lookup (w_tmp p) (names st0) = None ->
  lookup n (names (run (firstn k (writer_ops p)) st0)) <> None ->
  lookup n (names st0) <> None \/ n = w_target p \/ n = w_tmp p.
Proof. exact only_tmp_and_target_appear. Qed.
Print Assumptions C10_only_tmp_and_target_appear.

(* a complete undisturbed run changes the target and nothing else (used by C16); the temporary name is gone *)
Theorem C10_touches_only_target : forall p st0 k,
  wf st0 -> lookup (w_tmp p) (names st0) = None -> is_spec_name (w_target p) = true ->
  w_fault p = NoFault -> length (writer_ops p) <= k ->
  content (run (firstn k (writer_ops p)) st0) (w_target p) = Some (w_new p) /\
  forall n, n <> w_target p -> content (run (firstn k (writer_ops p)) st0) n = content st0 n.
Proof. exact touches_only_target. Qed.
Print Assumptions C10_touches_only_target.

(* the boolean predicate which the judge evaluates on every prefix of an OBSERVED system-call sequence is the
   statement of C10_atomic_publication, and holds on every prefix of the model program *)
Theorem C10_judge_predicate_is_the_statement : forall st0 tgt new st n,
  entry_ok st0 tgt new st n = true <->
  content st n = content st0 n \/ (n = tgt /\ content st n = Some new).
Proof. exact entry_ok_true. Qed.
Print Assumptions C10_judge_predicate_is_the_statement.
Theorem C10_atomic_ok_b_holds : forall p st0 k,
  wf st0 -> lookup (w_tmp p) (names st0) = None ->
  atomic_ok_b st0 (w_target p) (w_new p) (run (firstn k (writer_ops p)) st0) = true.
Proof. exact atomic_ok_b_holds. Qed.
Print Assumptions C10_atomic_ok_b_holds.

(* non-vacuity: a directory with a previous file satisfies the hypotheses; the overwrite shows old at the
   first seven crash points and new afterwards; the temporary file holds partial content on the way and stays
   behind after a failed write; the predicate rejects an in-place rewrite *)
Example C10_hypotheses_satisfiable :
  wf ex_st0 /\ lookup (w_tmp (ex_p NoFault)) (names ex_st0) = None /\ is_spec_name (w_target (ex_p NoFault)) = true.
Proof. exact (conj ex_wf (conj (ex_fresh NoFault) eq_refl)). Qed.
Example C10_all_prefixes_example :
  map (fun k => content (run (firstn k (writer_ops (ex_p NoFault))) ex_st0) "vendor.yaml") [0; 1; 2; 3; 4; 5; 6; 7; 8] =
  [Some "old: content"; Some "old: content"; Some "old: content"; Some "old: content"; Some "old: content";
   Some "old: content"; Some "old: content"; Some "new: content"; Some "new: content"].
Proof. exact ex_all_prefixes. Qed.
Example C10_partial_content_exists_but_only_in_tmp :
  content (run (firstn 3 (writer_ops (ex_p NoFault))) ex_st0) "spec.123456789.tmp" = Some "new:" /\
  listing (run (firstn 99 (writer_ops (ex_p (WriteFails 6)))) ex_st0) =
    [("other.json", "{other}"); ("spec.123456789.tmp", "new: c"); ("vendor.yaml", "old: content")] /\
  listing (run (firstn 99 (writer_ops (ex_p RenameFails))) ex_st0) = [("other.json", "{other}"); ("vendor.yaml", "old: content")] /\
  listing (run (firstn 99 (writer_ops (ex_p NoFault))) ex_st0) = [("other.json", "{other}"); ("vendor.yaml", "new: content")].
Proof. exact ex_partial_tmp. Qed.
Example C10_in_place_rewrite_violates :
  map (atomic_ok_b ex_st0 "vendor.yaml" "new: content")
      (trace ex_st0 [OpenW 3 "vendor.yaml" true false true; WriteChunk 3 "new:"; WriteChunk 3 " content"; Close 3]) =
  [true; false; false; true; true].
Proof. exact ex_in_place_violates. Qed.
