(* C09 — Written Spec files read back equal, in both encodings. *)
From Coq Require Import String Ascii List Bool Arith ZArith.
From CDI Require Import Base SpecModel Doc Decode Codec CodecProofs.
Import ListNotations.
Open Scope string_scope.

(* structure layer, for EVERY Spec value whose integers lie in the ranges of their Go types (any Spec held in memory):
   decoding the encoded document gives the Spec back, equal in every field and list order — all optional fields, nil list
   entries, explicit zero pointers, numeric extremes, every string *)
Theorem C09_struct_roundtrip : forall s, spec_ranges s = true -> spec_of_doc (doc_of_spec s) = Ok s.
Proof. exact struct_roundtrip. Qed.
Print Assumptions C09_struct_roundtrip.

(* the text layer (encoding/json or yaml.v3 emitter followed by the yaml.v2-based scanner) as an explicit parameter: whenever
   it is faithful on the document of s the file reads back as s, and the two encodings are interchangeable *)
Theorem C09_file_roundtrip : forall (text : doc -> option doc) s,
  spec_ranges s = true -> text (doc_of_spec s) = Some (doc_of_spec s) -> read_back text s = Ok s.
Proof. exact file_roundtrip. Qed.
Print Assumptions C09_file_roundtrip.
Theorem C09_json_yaml_interchangeable : forall (text_json text_yaml : doc -> option doc) s,
  spec_ranges s = true ->
  text_json (doc_of_spec s) = Some (doc_of_spec s) -> text_yaml (doc_of_spec s) = Some (doc_of_spec s) ->
  read_back text_json s = read_back text_yaml s.
Proof. exact json_yaml_interchangeable. Qed.
Print Assumptions C09_json_yaml_interchangeable.
(* Since repair D29 Spec.write keeps the YAML encoding of a Spec only if the parser of Spec files reads it back as the same
   Spec, and writes the document in JSON syntax otherwise.  Hence for ANY behaviour of the YAML text layer — faithful, lossy or
   failing — a .yaml file reads back as a Spec with the JSON image of the original as soon as the JSON text layer carries the
   document; and where the YAML text layer is faithful the file is the YAML encoding, as before. *)
From CDI Require Import YamlFallback.
Theorem C09_yaml_file_reads_back : forall (text_yaml text_json : doc -> option doc) (same_image : spec -> spec -> bool),
  (forall a b, same_image a b = true -> doc_of_spec a = doc_of_spec b) ->
  forall s, spec_ranges s = true -> text_json (doc_of_spec s) = Some (doc_of_spec s) ->
  exists s', read_yaml_file text_yaml text_json same_image s = Ok s' /\ doc_of_spec s' = doc_of_spec s.
Proof. exact yaml_file_reads_back. Qed.
Print Assumptions C09_yaml_file_reads_back.
Theorem C09_yaml_file_unchanged_when_faithful : forall (text_yaml text_json : doc -> option doc) (same_image : spec -> spec -> bool),
  (forall a, same_image a a = true) ->
  forall s, spec_ranges s = true -> text_yaml (doc_of_spec s) = Some (doc_of_spec s) ->
  yaml_file text_yaml text_json same_image s = text_yaml (doc_of_spec s) /\ read_yaml_file text_yaml text_json same_image s = Ok s.
Proof. exact yaml_file_unchanged_when_faithful. Qed.
Print Assumptions C09_yaml_file_unchanged_when_faithful.
(* C09_roundtrip_partial: faithfulness of the JSON text layer on whole documents is proved for its strings (below) and swept by
   the correspondence runs in every kind of string position; the token structure around the strings, and the YAML emitter where
   it is kept, are exercised only.  No input class is set aside any more (former known findings C09/json-c1-controls,
   C09/json-nel, C09/yaml-leading-blank-multiline: repaired, D20 and D29). *)

Example C09_example :
  let s := mkSpec "0.7.0" "vendor.com/class" [("k", "v")]
             [mkDevice "d" [] (mkEdits ["A=b"] [None; Some (mkDevnode "/dev/a" "" "c" 9223372036854775807 (-9223372036854775808) (Some 4294967295%Z) "" (Some 0%Z) None)]
                                [Some (mkHook "prestart" "/h" [] [""] (Some (-1)%Z))] [] (Some (mkRdt "" "" "" false false)) [0%Z; 4294967295%Z])]
             empty_edits in
  spec_ranges s = true /\ spec_of_doc (doc_of_spec s) = Ok s.
Proof. vm_compute. split; reflexivity. Qed.

(* ---- the writer encodes with the yaml tags, the reader decodes with the json tags: per field of the layout REGENERATED from
   specs-go/config.go both tags carry the same name and the same omitempty flag; the encoder model emits exactly the layout's
   members, and the decoder model looks for exactly the encoder's member names ---- *)
From CDI Require Import Schema SchemaInst SchemaInstProofs DecodeProofs.
From CDIGen Require Import LayoutGen.
Theorem C09_tags_agree :
  forallb (fun sf => forallb (fun f => String.eqb (f_json f) (f_yaml f) && Bool.eqb (f_json_omit f) (f_yaml_omit f)) (snd sf)) layout = true.
Proof. exact tags_agree. Qed.
Print Assumptions C09_tags_agree.
Theorem C09_encoder_follows_layout : encoder_probes = map (fun sf => (fst sf, layout_probe (snd sf))) layout.
Proof. exact encoder_follows_layout. Qed.
Print Assumptions C09_encoder_follows_layout.
Theorem C09_decoder_names_are_encoder_names : map (fun p => (fst p, fst (snd p))) encoder_probes = decoder_fields.
Proof. exact layout_names_agree. Qed.
Print Assumptions C09_decoder_names_are_encoder_names.

(* ---- the JSON side of the text layer, proved at the level of one string (JsonString.v: byte-level models of encoding/json's
   string escaping and of the yaml.v2-derived reader + double-quoted-scalar scanner that reads every Spec file, .json included;
   both tied to the real code on every swept string by the CaseStr cases of Judge09).  For EVERY valid UTF-8 string outside
   the two known-finding classes the literal written by json.Marshal is scanned back to the same bytes ---- *)
From CDI Require Import JsonString JsonStringProofs JsonStringFix.
(* the library's writer: encoding/json followed by escapeUnreadable (pkg/cdi/spec.go, repaired defect D20).  For EVERY valid UTF-8
   string, with no exception, the literal written into a .json Spec file is scanned back to the same bytes ... *)
Theorem C09_spec_json_string_layer : forall s, valid_utf8 s = true -> yaml_dq_scan (spec_json_escape s) = Some s.
Proof. exact spec_json_string_layer. Qed.
Print Assumptions C09_spec_json_string_layer.
(* ... and outside the two classes that needed the repair the file is the one encoding/json alone would have written *)
Theorem C09_spec_json_escape_same : forall s,
  valid_utf8 s = true -> has_c1 s = false -> has_nel s = false -> spec_json_escape s = json_escape s.
Proof. exact spec_json_escape_same. Qed.
Print Assumptions C09_spec_json_escape_same.
(* encoding/json alone (what the library wrote before the repair; former known findings C09/json-c1-controls, C09/json-nel): *)
Theorem C09_json_string_layer : forall s,
  valid_utf8 s = true -> has_c1 s = false -> has_nel s = false -> yaml_dq_scan (json_escape s) = Some s.
Proof. exact json_string_layer. Qed.
Print Assumptions C09_json_string_layer.
(* the two hypotheses are needed there — the former findings are defects of the faithful model of encoding/json + reader too:
   a string with U+007F (U+0080..U+009F except U+0085, U+FFFE, U+FFFF: c1_witnesses) makes the document unreadable ... *)
Theorem C09_json_string_layer_c1_refuted :
  exists s, valid_utf8 s = true /\ has_c1 s = true /\ has_nel s = false /\ yaml_dq_scan (json_escape s) = None.
Proof. exact json_string_layer_c1_refuted. Qed.
Print Assumptions C09_json_string_layer_c1_refuted.
(* ... and so does EVERY valid string of that class: has_c1 is exactly the set of strings whose .json file cannot be read back *)
Theorem C09_json_string_layer_c1_unreadable : forall s,
  valid_utf8 s = true -> has_c1 s = true -> yaml_dq_scan (json_escape s) = None.
Proof. exact json_string_layer_c1_unreadable. Qed.
Print Assumptions C09_json_string_layer_c1_unreadable.
(* ... and U+0085 is read as a line break and folded into a space: the string comes back altered *)
Theorem C09_json_string_layer_nel_refuted :
  exists s s', valid_utf8 s = true /\ has_c1 s = false /\ has_nel s = true /\ yaml_dq_scan (json_escape s) = Some s' /\ s' <> s.
Proof. exact json_string_layer_nel_refuted. Qed.
Print Assumptions C09_json_string_layer_nel_refuted.
(* the hypotheses are satisfiable by a string exercising every branch of the escaping: NUL, tab, newline, another control, quote,
   backslash, < > &, blanks, U+2028, a two-, three- and four-byte character, U+FEFF, U+FFFD *)
Example C09_json_string_example :
  let s := String (ascii_of_N 0) (String (ascii_of_N 9) (String (ascii_of_N 10) (String (ascii_of_N 31) "")))
           ++ " ""q"" \ </a> & " ++ utf8_encs [233%N; 8232%N; 26085%N; 65279%N; 65533%N; 128512%N] ++ "  " in
  valid_utf8 s = true /\ has_c1 s = false /\ has_nel s = false /\ yaml_dq_scan (json_escape s) = Some s.
Proof. vm_compute. repeat split; reflexivity. Qed.
