(* C19 — The cdi and validate commands report what the library computes.
   Only theorem statements, each closed by [exact] of a lemma proved in CDI.CliProofs.

   The proof part of C19 is deliberately thin (the property is mostly differential: the built binaries are run
   against the library on the same directories, see Judge19.v): the theorems fix what "lists exactly" and "exits
   non-zero iff" mean for the text formats of cmd/cdi and cmd/validate (Cli.v), and show that the rendering of a
   library answer loses nothing and shows nothing else: every listing, sent through the byte level (lines joined
   by newlines, split again), parses back to exactly the answer it was rendered from. *)
From Coq Require Import String Ascii List Bool NArith ZArith.
From CDI Require Import Base Parser Cli CliProofs Judge19.
Import ListNotations.
Open Scope string_scope.

(* the byte level: an output whose lines contain no newline is split back into exactly those lines *)
Theorem C19_lines_of_unlines : forall ls,
  Forall (fun l => no_nl l = true) ls -> lines_of (unlines ls) = ls.
Proof. exact lines_of_unlines. Qed.
Print Assumptions C19_lines_of_unlines.

(* lists exactly: for EVERY library view whose names / paths are free of newlines (vendors also of the double
   quote and the comma, classes of the space — see view_ok), the devices, vendors (with their Spec file counts),
   classes (with their vendors), Spec files per vendor, Spec directories and the files in error (with their error
   counts, whatever the message texts) read off the command's output are exactly the library's *)
Theorem C19_cli_lists_exactly : forall v,
  view_ok v ->
  parse_devices (via_bytes (render_devices v)) = Some (list_devices v) /\
  parse_vendors (via_bytes (render_vendors v)) = Some (list_vendors v) /\
  parse_classes (via_bytes (render_classes v)) = Some (list_classes v) /\
  parse_specs (via_bytes (render_specs v)) = Some (list_specs v) /\
  parse_dirs (via_bytes (render_dirs v)) = Some (list_dirs v) /\
  (forall gs, egroups_count gs = v_errors v -> msgs_ok gs ->
              parse_errors (via_bytes (render_errors v gs)) = Some (list_errors v)).
Proof. exact cli_lists_exactly. Qed.
Print Assumptions C19_cli_lists_exactly.

(* the renderers of that theorem are the ones the command model runs for the plain listing sub-commands (the
   ones the correspondence compares byte for byte with the binaries' output) *)
Theorem C19_render_sub_plain : forall v,
  render_sub SDevices v = render_devices v /\ render_sub SVendors v = render_vendors v /\
  render_sub SClasses v = render_classes v /\ render_sub (SSpecs []) v = render_specs v /\
  render_sub SDirs v = render_dirs v.
Proof. exact render_sub_plain. Qed.
Print Assumptions C19_render_sub_plain.

(* the hypothesis is met by everything the library can put into a view built from valid Specs: vendors and
   classes in the vendor/class grammar, devices that are valid qualified names (C07's grammar), paths and
   directories without a newline *)
Theorem C19_valid_view_ok : forall v,
  Forall (fun d => exists ve c n, QN (d_name d) ve c n) (v_devices v) ->
  Forall VC (v_vendors v) -> Forall VC (v_classes v) ->
  Forall (fun g => Forall (fun sf => no_nl (sf_path sf) = true) (snd g)) (v_specs v) ->
  Forall (fun e => no_nl (fst e) = true) (v_errors v) -> Forall (fun d => no_nl d = true) (v_dirs v) ->
  view_ok v.
Proof. exact valid_view_ok. Qed.
Print Assumptions C19_valid_view_ok.

(* ... and it is necessary: a name containing a newline is not listed exactly *)
Theorem C19_cli_lists_newline_refuted :
  exists names, parse_devices (via_bytes (render_devices_l names)) <> Some names.
Proof. exact cli_lists_newline_refuted. Qed.
Print Assumptions C19_cli_lists_newline_refuted.

(* the individual formats, at line level, for arbitrary entries (no newline condition needed there) *)
Theorem C19_parse_render_devices : forall names, parse_devices (render_devices_l names) = Some names.
Proof. exact parse_render_devices. Qed.
Print Assumptions C19_parse_render_devices.
Theorem C19_parse_render_specs : forall gs, parse_specs (render_specs_l gs) = Some gs.
Proof. exact parse_render_specs. Qed.
Print Assumptions C19_parse_render_specs.
Theorem C19_parse_render_dirs : forall dirs, parse_dirs (render_dirs_l dirs) = Some dirs.
Proof. exact parse_render_dirs. Qed.
Print Assumptions C19_parse_render_dirs.
Theorem C19_parse_render_errors : forall gs : list (string * list emsg),
  Forall (fun g => Forall emsg_ok (snd g)) gs -> parse_errors (render_errors_m gs) = Some (egroups_count gs).
Proof. exact parse_render_errors. Qed.
Print Assumptions C19_parse_render_errors.

(* exit status: with --spec-dirs every sub-command exits non-zero iff the library reports cache errors ... *)
Theorem C19_cli_exit_iff_errors : forall s v, exit_code true s v <> 0%Z <-> v_errors v <> [].
Proof. exact cli_exit_iff_errors. Qed.
Print Assumptions C19_cli_exit_iff_errors.
(* ... the validate sub-command also without it ... *)
Theorem C19_cli_validate_sub_exit : forall given v, exit_code given SValidate v <> 0%Z <-> v_errors v <> [].
Proof. exact cli_validate_sub_exit. Qed.
Print Assumptions C19_cli_validate_sub_exit.
(* ... and the error listing replaces the sub-command's own output exactly then *)
Theorem C19_cli_shows_errors_iff_exit : forall given s v,
  shows_errors given s v = true <-> exit_code given s v <> 0%Z.
Proof. exact cli_shows_errors_iff_exit. Qed.
Print Assumptions C19_cli_shows_errors_iff_exit.

(* cdi inject: absent a malformed pattern the library is handed exactly the listed devices matched by some
   pattern, each once *)
Theorem C19_inject_selection_mem : forall rows sel x,
  inject_selection rows = Some sel ->
  (In x sel <-> exists ms, In (x, ms) rows /\ any_yes ms = true).
Proof. exact inject_selection_mem. Qed.
Print Assumptions C19_inject_selection_mem.
Theorem C19_inject_selection_nodup : forall rows sel, inject_selection rows = Some sel -> NoDup sel.
Proof. exact inject_selection_nodup. Qed.
Print Assumptions C19_inject_selection_nodup.

(* cmd/validate exits non-zero iff some document fails validation (or the schema cannot be loaded), and names on
   stdout exactly the documents that validate *)
Theorem C19_validate_exit_iff : forall docs,
  validate_exit docs <> 0%Z <-> exists d, In d docs /\ snd d = false.
Proof. exact validate_exit_iff. Qed.
Print Assumptions C19_validate_exit_iff.
Theorem C19_validate_load_failure : forall banner docs, snd (run_validate false banner docs) <> 0%Z.
Proof. exact validate_load_failure. Qed.
Print Assumptions C19_validate_load_failure.
Theorem C19_validate_reports_valid : forall banner docs,
  filter_map parse_valid_line (tl (validate_stdout banner docs)) = map fst (filter snd docs).
Proof. exact validate_reports_valid. Qed.
Print Assumptions C19_validate_reports_valid.

(* the hypotheses are satisfiable: a view with two vendors, a shadowed device, two files in error, and an error
   listing with a multi-line message *)
Definition example_view : lib_view :=
  mkView ["/etc/cdi"; "/var/run/cdi"] ["v1.com"; "v2.com"] ["gpu"; "net"]
         [("v1.com", [mkSpecfile "/etc/cdi/a.json" "gpu" 0; mkSpecfile "/var/run/cdi/a2.json" "gpu" 1]);
          ("v2.com", [mkSpecfile "/var/run/cdi/b.yaml" "net" 1])]
         [mkDevinfo "v1.com/gpu=d0" "/var/run/cdi/a2.json" 1 false; mkDevinfo "v2.com/net=d0" "/var/run/cdi/b.yaml" 1 true]
         [("/etc/cdi/bad.json", 1%N); ("/etc/cdi/worse.yaml", 2%N)].
Definition example_msgs : list (string * list emsg) :=
  [("/etc/cdi/bad.json", [("0: failed to load CDI Spec", ["(root): devices is required"])]);
   ("/etc/cdi/worse.yaml", [("0: first", []); ("1: second", [])])].

Example example_view_ok : view_ok example_view.
Proof.
  apply valid_view_ok; unfold example_view; cbn [v_devices v_vendors v_classes v_specs v_errors v_dirs].
  - repeat (constructor; [apply ParserProofs.exists_qn_iff; reflexivity|]). constructor.
  - repeat (constructor; [apply ParserProofs.vc_b_iff; reflexivity|]). constructor.
  - repeat (constructor; [apply ParserProofs.vc_b_iff; reflexivity|]). constructor.
  - repeat constructor.
  - repeat constructor.
  - repeat constructor.
Qed.
Example example_msgs_ok : egroups_count example_msgs = v_errors example_view /\ msgs_ok example_msgs.
Proof. split; [reflexivity|repeat constructor]. Qed.
Example example_listing :
  via_bytes (render_classes example_view) = ["CDI device classes found:"; "  0. gpu (2 vendors: v1.com, v1.com)"; "  1. net (1 vendors: v2.com)"]
  /\ exit_code true SDevices example_view = 1%Z
  /\ judge19 [CList true LDevices example_view [] (unlines (render_errors example_view example_msgs)) 1 []] = ([], []).
Proof. vm_compute. repeat split. Qed.
