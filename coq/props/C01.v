(* C01 — Device resolution follows Spec-directory precedence. *)
From Coq Require Import String Ascii List Bool Arith.
From CDI Require Import Base SpecModel Parser Paths Cache CacheProofs SortProofs CacheListings.
Import ListNotations.
Open Scope string_scope.

(* For EVERY list of configured directories and every population (fsview): after a refresh a name resolves iff, among the
   loaded files that define it, exactly one has the highest priority, and then to that file's definition.  (unique_names:
   every loaded file has unique device names, which validation guarantees for a loadable Spec.) *)
Theorem C01_refresh_resolves : forall fs n,
  unique_names (scan fs) -> get_device (refresh fs) n = resolve_spec (loaded (scan fs)) n.
Proof. exact refresh_resolves_fs. Qed.
Print Assumptions C01_refresh_resolves.
(* the same for every scanned-file list in ascending priority order (histories: every refresh is refresh of the current content) *)
Theorem C01_refresh_resolves_files : forall files n,
  sorted (loaded files) -> unique_names files -> get_device (refresh_files files) n = resolve_spec (loaded files) n.
Proof. exact refresh_resolves. Qed.
Print Assumptions C01_refresh_resolves_files.
(* every sequence of directory changes and refreshes: after a refresh, resolution is the rule on the current contents *)
Theorem C01_history_resolves : forall ops st n,
  let st' := fold_left cstep (ops ++ [ORefresh]) st in
  unique_names (scan (fst st')) -> get_device (snd st') n = resolve_spec (loaded (scan (fst st'))) n.
Proof. exact history_resolves. Qed.
Print Assumptions C01_history_resolves.
Theorem C01_scan_sorted : forall fs, sorted (loaded (scan fs)).
Proof. exact scan_sorted. Qed.
Print Assumptions C01_scan_sorted.

(* definitions AND conflicts below the highest-priority directory that defines n never change the outcome *)
Theorem C01_lower_dirs_irrelevant : forall n p fl1 fl2,
  from_prio p fl1 = from_prio p fl2 -> (exists f, In f (defs n fl1) /\ p <= lf_prio f) ->
  resolve_spec fl1 n = resolve_spec fl2 n.
Proof. exact lower_dirs_irrelevant. Qed.
Print Assumptions C01_lower_dirs_irrelevant.

(* listings: exactly those derivable from the loaded files *)
Theorem C01_list_devices_exact : forall files n,
  sorted (loaded files) -> unique_names files ->
  (In n (list_devices (refresh_files files)) <-> resolve_spec (loaded files) n <> None).
Proof. exact list_devices_exact. Qed.
Print Assumptions C01_list_devices_exact.
Theorem C01_list_vendors_exact : forall files v,
  In v (list_vendors (refresh_files files)) <-> exists f, In f (loaded files) /\ vendor_of f = v.
Proof. exact list_vendors_exact. Qed.
Print Assumptions C01_list_vendors_exact.
Theorem C01_list_classes_exact : forall files k,
  In k (list_classes (refresh_files files)) <-> exists f, In f (loaded files) /\ class_of f = k.
Proof. exact list_classes_exact. Qed.
Print Assumptions C01_list_classes_exact.
Theorem C01_vendor_specs_exact : forall files v,
  vendor_specs (c_specs (refresh_files files)) v = filter (fun f => String.eqb v (vendor_of f)) (loaded files).
Proof. intros files v. unfold refresh_files, refresh_st. cbn [c_specs]. rewrite vendor_specs_exact. reflexivity. Qed.
Print Assumptions C01_vendor_specs_exact.

(* ... and as lists: the listings ARE the canonical (sorted, duplicate-free) listings of what the loaded files define *)
Theorem C01_list_devices_eq : forall files,
  sorted (loaded files) -> unique_names files -> list_devices (refresh_files files) = resolvable (loaded files).
Proof. exact list_devices_eq. Qed.
Print Assumptions C01_list_devices_eq.
Theorem C01_list_vendors_eq : forall files,
  list_vendors (refresh_files files) = sort_strings (dedup_s (map vendor_of (loaded files))).
Proof. exact list_vendors_eq. Qed.
Print Assumptions C01_list_vendors_eq.
Theorem C01_list_classes_eq : forall files,
  list_classes (refresh_files files) = sort_strings (dedup_s (map class_of (loaded files))).
Proof. exact list_classes_eq. Qed.
Print Assumptions C01_list_classes_eq.
Theorem C01_canonical_listing : forall l1 l2,
  (forall x, In x l1 <-> In x l2) -> sort_strings (dedup_s l1) = sort_strings (dedup_s l2).
Proof. exact canonical_listing. Qed.
Print Assumptions C01_canonical_listing.

(* everything that is not a .json/.yaml file directly inside a configured directory is ignored *)
Theorem C01_scan_ignores_entry : forall prio dpath l x,
  (is_spec_name (fst x) = false \/ snd x = ESub) ->
  scan_dir prio (dpath, DDir (x :: l)) = scan_dir prio (dpath, DDir l).
Proof. exact scan_ignores_entry. Qed.
Print Assumptions C01_scan_ignores_entry.
Theorem C01_scan_skips_unusable : forall prio d r, snd d = DMissing \/ snd d = DUnscannable ->
  scan_from prio (d :: r) = scan_from (S prio) r.
Proof. exact scan_skips_unusable. Qed.
Print Assumptions C01_scan_skips_unusable.

(* non-vacuity and the witness of the repaired defect D3: two files in directory 0 and one in directory 1 define d *)
Definition ex_spec (fp : string) : spec :=
  mkSpec "0.3.0" "v.com/c" [] [mkDevice "d" [] (mkEdits [fp] [] [] [] None [])] empty_edits.
Definition ex_fs : fsview :=
  [("/etc/cdi", DDir [("b.json", EFile (Some (ex_spec "FP=b"))); ("a.json", EFile (Some (ex_spec "FP=a"))); ("x.txt", EFile None)]);
   ("/run/cdi", DDir [("c.yaml", EFile (Some (ex_spec "FP=c"))); ("sub", ESub)])].
Example C01_example :
  list_devices (refresh ex_fs) = ["v.com/c=d"] /\
  option_map (fun cd => lf_path (cd_file cd)) (get_device (refresh ex_fs) "v.com/c=d") = Some "/run/cdi/c.yaml" /\
  error_keys (refresh ex_fs) = ["/etc/cdi/a.json"; "/etc/cdi/b.json"].
Proof. vm_compute. repeat split; reflexivity. Qed.
