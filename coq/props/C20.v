(* C20 — Reconfiguring a cache equals creating a new one, with bounded resources.
   Model: CDI.Configure (cache.go NewCache/Configure/configure/Refresh/refreshIfRequired, watch.setup/start/stop/update,
   the delivery branch of watch.watch; default-cache.go; spec-dirs.go WithSpecDirs).  Histories are arbitrary lists of
   New | Configure | SetFdShortage | FsOp | Query | Refresh | DefaultConfigure | DefaultGet from a process without a cache. *)
From Coq Require Import String Ascii List Bool Arith.
From CDI Require Import Base Paths Configure ConfigureProofs ConfigureRes ConfigureSim ConfigureEquiv ConfigureDefault
  ConfigureView ConfigureAuto ConfigureObserve ConfigureExamples.
Import ListNotations.
Open Scope string_scope.

(* Resources do not grow with the number of reconfigurations: after ANY history (any options, directory changes,
   descriptor shortages at any step, explicit or default cache) there is at most one open watcher and at most one watcher
   goroutine, and none at all in manual mode or while no cache exists. *)
Theorem C20_resources_bounded : forall defs fs0 ops,
  let w := run (world0 defs fs0) ops in
  length (open w) <= 1 /\ length (gors w) <= 1 /\
  match cache w with
  | Some c => auto c = false -> open w = [] /\ gors w = []
  | None => open w = [] /\ gors w = []
  end.
Proof. exact resources_bounded. Qed.
Print Assumptions C20_resources_bounded.

(* After any history [pre], a non-empty (re)configuration (Cache.Configure or cdi.Configure) leaves a cache that is
   indistinguishable, for every continuation [tail], from the cache a fresh process creates with all the options that took
   effect so far, on the same directory contents and in the same descriptor situation: same outputs of every later
   operation, same observables at the end, and the two stay similar (same directories, mode, cached answer, directory
   errors, and in auto mode the same tracked map and the same watcher presence). *)
Theorem C20_configure_equiv_new : forall defs fs0 pre o os tail,
  let w := run (world0 defs fs0) pre in
  cache w <> None -> (o = Configure os \/ o = DefaultConfigure os) -> os <> [] ->
  let w1 := fst (step w o) in
  let w2 := fresh w (applied false pre ++ os) in
  run_outs w1 tail = run_outs w2 tail /\ observe (run w1 tail) = observe (run w2 tail) /\ wsim (run w1 tail) (run w2 tail).
Proof. exact configure_equiv_new. Qed.
Print Assumptions C20_configure_equiv_new.

(* The same for creation in the middle of a process' life (NewCache, cdi.Configure or GetDefaultCache as first use). *)
Theorem C20_create_equiv_new : forall defs fs0 pre o os tail,
  let w := run (world0 defs fs0) pre in
  cache w = None -> (o = New os \/ o = DefaultConfigure os \/ (o = DefaultGet /\ os = [])) ->
  let w1 := fst (step w o) in
  let w2 := fresh w os in
  run_outs w1 tail = run_outs w2 tail /\ observe (run w1 tail) = observe (run w2 tail) /\ wsim (run w1 tail) (run w2 tail).
Proof. exact create_equiv_new. Qed.
Print Assumptions C20_create_equiv_new.

(* At ANY point of a history that keeps the shortage discipline (while no descriptor can be had only (re)configuration
   happens), once descriptors are available: (directories, mode, tracked key set in auto mode, the devices and per-file
   errors answered after Refresh()+query) are those of a cache newly created with the options that took effect, on the
   current directory contents. *)
Theorem C20_observe_equiv_new : forall defs fs0 ops,
  let w := run (world0 defs fs0) ops in
  disciplined true ops = true -> fd_ok w = true -> cache w <> None ->
  observe w = observe (fresh w (applied false ops)).
Proof. exact observe_equiv_new. Qed.
Print Assumptions C20_observe_equiv_new.

(* ... and without that discipline the statement is false of the faithful model (an event handled during the shortage
   empties an auto-refresh cache whose watcher is intact; neither queries nor Refresh() rescan it). *)
Theorem C20_observe_equiv_new_refuted_without_discipline :
  exists defs fs0 ops,
    let w := run (world0 defs fs0) ops in
    fd_ok w = true /\ cache w <> None /\ disciplined true ops = false /\
    observe w <> observe (fresh w (applied false ops)).
Proof. exact observe_equiv_new_refuted_without_discipline. Qed.
Print Assumptions C20_observe_equiv_new_refuted_without_discipline.

(* A cache set up while no watcher could be created (auto-refresh on, nil watcher) rescans on EVERY query: the answer is the
   scan of the current contents, which is the full view as soon as descriptors are available. *)
Theorem C20_shortage_still_answers : forall w c,
  cache w = Some c -> auto c = true -> watcher c = None ->
  snd (step w Query) = OAnswer (fst (scan w c)) (snd (scan w c)) (direrrs c) /\
  (fd_ok w = true -> scan w c = view (dirs c) (fs w)).
Proof. exact shortage_still_answers. Qed.
Print Assumptions C20_shortage_still_answers.

(* Auto-refresh is active iff enabled and follows exactly the configured directories: after any disciplined history, an
   auto-refresh cache — with a watcher or without one — answers a query with the view of its current directory list on the
   current contents, with no explicit refresh. *)
Theorem C20_auto_answers_current : forall defs fs0 ops c,
  let w := run (world0 defs fs0) ops in
  disciplined true ops = true -> fd_ok w = true -> cache w = Some c -> auto c = true ->
  exists de, snd (step w Query) = OAnswer (fst (view (dirs c) (fs w))) (snd (view (dirs c) (fs w))) de.
Proof. exact auto_answers_current. Qed.
Print Assumptions C20_auto_answers_current.

(* The package-level default cache is an ordinary cache: every history written with cdi.Configure / GetDefaultCache is,
   state by state and output by output, the history with NewCache(options) at first use and Cache.Configure afterwards —
   whether it is configured before or after its first use. *)
Theorem C20_default_cache_same : forall ops w,
  run w ops = run w (explicit (is_some (cache w)) ops) /\
  run_outs w ops = run_outs w (explicit (is_some (cache w)) ops).
Proof. exact default_cache_same. Qed.
Print Assumptions C20_default_cache_same.

(* non-vacuity: a history with a reconfiguration during a shortage reaches (auto-refresh, nil watcher) and answers from the
   contents written afterwards; it is disciplined; one watcher after five reconfigurations; manual mode holds nothing;
   default cache configured before / after first use *)
Example C20_example_shortage :
  option_map watcher (cache ex_w) = Some None /\ option_map auto (cache ex_w) = Some true /\ fd_ok ex_w = true /\
  open ex_w = [] /\ gors ex_w = [] /\
  snd (step ex_w Query) = OAnswer ["v/c=d0@/a/x.json"; "v/c=d1@/a/y.json"; "v/c=d2@/b/z.yaml"] ["/b/bad.json"] ["/a"; "/b"].
Proof. exact ex_shortage. Qed.
Example C20_example_disciplined : disciplined true ex_hist = true /\ cache ex_w <> None.
Proof. exact ex_disciplined. Qed.
Example C20_example_one_watcher :
  open ex_w2 = [3] /\ gors ex_w2 = [3] /\ next ex_w2 = 4 /\
  option_map tracked (cache ex_w2) = Some [("/a", true); ("/missing", false)] /\
  option_map cached (cache ex_w2) = Some (["v/c=d0@/a/x.json"], []) /\
  snd (step ex_w2 Query) = OAnswer ["v/c=d0@/a/x.json"; "v/c=m@/missing/m.json"] [] [] /\
  option_map cached (cache (fst (step (fst (step ex_w2 Query)) (FsOp (WriteFile "/a" "p.json" (Good ["v/c=probe"])))))) =
    Some (["v/c=d0@/a/x.json"; "v/c=m@/missing/m.json"; "v/c=probe@/a/p.json"], []).
Proof. exact ex_one_watcher. Qed.
