(* C07 — Qualified device name grammar is exact, total and round-trips.
   Only theorem statements, each closed by [exact] of a lemma proved in CDI.ParserProofs. *)
From Coq Require Import String Ascii List Bool.
From CDI Require Import Base Parser ParserProofs Judge07.
Open Scope string_scope.

(* exactness: the parser succeeds with parts (v,c,n) iff s = v/c=n with v, c, n in the grammar *)
Theorem C07_parse_ok_iff : forall s v c n,
  fst (parse_qualified_name s) = Ok (v, c, n) <-> QN s v c n.
Proof. exact parse_ok_iff. Qed.
Print Assumptions C07_parse_ok_iff.

(* ... and fails with an error iff s has no such decomposition *)
Theorem C07_parse_err_iff : forall s,
  fst (parse_qualified_name s) = Err <-> ~ exists v c n, QN s v c n.
Proof. exact parse_err_iff. Qed.
Print Assumptions C07_parse_err_iff.

(* totality: no byte string makes the parser or the validators panic *)
Theorem C07_parse_total : forall s, fst (parse_qualified_name s) <> Panic.
Proof. exact parse_total. Qed.
Print Assumptions C07_parse_total.
Theorem C07_validate_vc_total : forall s, validate_vc s <> Panic.
Proof. exact validate_vc_total. Qed.
Print Assumptions C07_validate_vc_total.
Theorem C07_validate_dn_total : forall s, validate_dn s <> Panic.
Proof. exact validate_dn_total. Qed.
Print Assumptions C07_validate_dn_total.

(* the validators decide exactly the vendor/class and device-name grammars *)
Theorem C07_validate_vc_iff : forall s, validate_vc s = Ok tt <-> VC s.
Proof. exact validate_vc_iff. Qed.
Print Assumptions C07_validate_vc_iff.
Theorem C07_validate_dn_iff : forall s, validate_dn s = Ok tt <-> DN s.
Proof. exact validate_dn_iff. Qed.
Print Assumptions C07_validate_dn_iff.

(* success: the returned parts are the decomposition and recompose to the input exactly *)
Theorem C07_parse_recompose : forall s v c n,
  fst (parse_qualified_name s) = Ok (v, c, n) ->
  snd (parse_qualified_name s) = (v, c, n) /\ qualified_name v c n = s.
Proof. exact parse_recompose. Qed.
Print Assumptions C07_parse_recompose.

(* failure: vendor and class empty, the input returned verbatim as the name *)
Theorem C07_parse_err_outputs : forall s,
  fst (parse_qualified_name s) = Err -> snd (parse_qualified_name s) = ("", "", s).
Proof. exact parse_err_outputs. Qed.
Print Assumptions C07_parse_err_outputs.

(* composing valid parts and parsing returns those parts *)
Theorem C07_compose_parse : forall v c n, VC v -> VC c -> DN n ->
  parse_qualified_name (qualified_name v c n) = (Ok (v, c, n), (v, c, n)).
Proof. exact compose_parse. Qed.
Print Assumptions C07_compose_parse.

(* the decomposition of a qualified name is unique *)
Theorem C07_QN_unique : forall s v c n v' c' n',
  QN s v c n -> QN s v' c' n' -> (v, c, n) = (v', c', n').
Proof. exact QN_unique. Qed.
Print Assumptions C07_QN_unique.

Theorem C07_is_qualified_iff : forall s,
  is_qualified_name s = Ok true <-> exists v c n, QN s v c n.
Proof. exact is_qualified_iff. Qed.
Print Assumptions C07_is_qualified_iff.

(* the oracle used on the implementation's outputs decides the same grammar *)
Theorem C07_oracle_decides_grammar : forall s, exists_qn s = true <-> exists v c n, QN s v c n.
Proof. exact exists_qn_iff. Qed.
Print Assumptions C07_oracle_decides_grammar.
Theorem C07_vc_b_iff : forall s, vc_b s = true <-> VC s.
Proof. exact vc_b_iff. Qed.
Print Assumptions C07_vc_b_iff.
Theorem C07_dn_b_iff : forall s, dn_b s = true <-> DN s.
Proof. exact dn_b_iff. Qed.
Print Assumptions C07_dn_b_iff.

(* the defect repaired by the fix commit: the code without the single-letter guard panics *)
Theorem C07_pinned_refuted : exists s, VC s /\ validate_vc_pinned s = Panic.
Proof. exact validate_vc_pinned_refuted. Qed.
Print Assumptions C07_pinned_refuted.

(* non-vacuity *)
Example C07_nonvacuous : QN "vendor.com/gpu-0=dev:1" "vendor.com" "gpu-0" "dev:1".
Proof. exact qn_nonvacuous. Qed.
Example C07_single_letters : QN "a/b=c" "a" "b" "c".
Proof. exact qn_single_letters. Qed.
