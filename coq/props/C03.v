(* C03 — Container edits are applied to the OCI spec with the documented semantics. *)
From Coq Require Import String Ascii List Bool ZArith.
From CDI Require Import Base SpecModel Paths Oci Apply ApplySpec.
Import ListNotations.
Open Scope string_scope.

Example C03_env_known_finding_witness :
  add_multiple_env ["FOO=1"] ["FOO=2"] = ["FOO=1"; "FOO=2"].
Proof. reflexivity. Qed.
Print Assumptions C03_env_known_finding_witness.
