(* C03 — Container edits are applied to the OCI spec with the documented semantics. *)
From Coq Require Import String Ascii List Bool Arith ZArith.
From CDI Require Import Base SpecModel Paths Oci Apply ApplySpec ApplyProofs CleanProofs DepthProofs.
Import ListNotations.
Open Scope string_scope.

(* For EVERY host (lstat oracle), every initial OCI spec with unique device paths and mount destinations and every valid
   (loaded) edit list: Apply never dereferences a nil entry, succeeds exactly when every device node can be completed
   from the host node, and then the resulting spec satisfies the whole declarative postcondition of ApplySpec.v
   (devices_post, cgroup_post, mounts_post, hooks_post, gids_post, rdt_post, uid/gid/rest unchanged) including env_post:
   every variable named by the edits is defined exactly once, with the value of its last edit, all other entries keep their
   value and order. *)
Theorem C03_apply_meets_spec : forall host e o,
  wf_initial o = true -> valid_edits e = true ->
  let r := apply host e o in
  snd r <> 2 /\
  (snd r = 0 <-> exists devs, all_some (map (expected_dev host (o_uid o) (o_gid o)) (somes (e_nodes e))) = Some devs) /\
  (snd r = 0 ->
     apply_post_but_env host e o (fst r) = true /\
     env_post (o_env o) (e_env e) (o_env (fst r)) = true).
Proof. exact apply_meets_spec. Qed.
Print Assumptions C03_apply_meets_spec.

(* the environment postcondition for EVERY initial environment (existing definitions of the variables, duplicates, entries
   without '=') and every edit list ... *)
Theorem C03_env_post : forall init entries, env_post init entries (add_multiple_env init entries) = true.
Proof. exact env_post_holds. Qed.
Print Assumptions C03_env_post.
(* ... which the generator of the dependency alone does not give (its cache of the initial env is keyed by whole entries, so a
   variable the OCI env already defines is appended a second time): the reason for dropEnv in Apply, repaired defect D19 *)
Theorem C03_generator_alone_refuted : exists init entries,
  env_known_class init entries = true /\ env_post init entries (gen_add_multiple_env init entries) = false.
Proof. exact gen_env_post_refuted. Qed.
Print Assumptions C03_generator_alone_refuted.

(* mounts: the result is ordered by destination depth and keeps, for every depth, the previous relative order; these two
   facts determine the list, so it is the result of ANY stable sort (no model of Go's sort.Stable is needed) *)
Theorem C03_sort_sorted : forall l, sorted_by_depth (sort_mounts l) = true.
Proof. exact sort_mounts_sorted. Qed.
Print Assumptions C03_sort_sorted.
Theorem C03_sort_stable : forall l k, depth_class k (sort_mounts l) = depth_class k l.
Proof. exact sort_mounts_stable. Qed.
Print Assumptions C03_sort_stable.
Theorem C03_stable_sort_unique : forall l1 l2,
  sorted_by_depth l1 = true -> sorted_by_depth l2 = true -> (forall k, depth_class k l1 = depth_class k l2) -> l1 = l2.
Proof. intros l1 l2 H1 H2. apply stable_sort_unique; apply sorted_by_depth_srt; assumption. Qed.
Print Assumptions C03_stable_sort_unique.

(* "parents before children": the depth of an absolute destination is its number of components (the root counts one), a
   proper non-root ancestor directory is strictly shallower than anything below it, and therefore never placed after it *)
Theorem C03_depth_is_component_count : forall p, is_rooted p = true -> abs_depth p = Nat.max 1 (length (snd (norm p))).
Proof. exact depth_abs. Qed.
Print Assumptions C03_depth_is_component_count.
Theorem C03_parents_before_children : forall (l : list ocimount) a y b x,
  sorted_by_depth l = true -> l = (a ++ y :: b)%list -> In x b -> ~ proper_ancestor (om_dest x) (om_dest y).
Proof. exact parents_before_children. Qed.
Print Assumptions C03_parents_before_children.

(* replace-by-key steps (device paths, mount destinations) on lists with unique keys *)
Theorem C03_devices_closed_form : forall l devs, nodup_s (map od_path l) = true ->
  fold_left devstep devs l =
  (filter (fun y => negb (mem_s (od_path y) (map od_path devs))) l ++ dedup_last od_path devs)%list.
Proof. exact devsteps. Qed.
Print Assumptions C03_devices_closed_form.

(* nothing else changes *)
Theorem C03_frame : forall host e o pairs,
  expect_all host (o_uid o) (o_gid o) (somes (e_nodes e)) = Some pairs ->
  let o' := apply_result e o pairs in
  o_rest o' = o_rest o /\ o_uid o' = o_uid o /\ o_gid o' = o_gid o /\
  (e_env e = [] -> o_env o' = o_env o) /\ (e_nodes e = [] -> o_devices o' = o_devices o /\ o_cgroup o' = o_cgroup o) /\
  (e_mounts e = [] -> o_mounts o' = o_mounts o) /\ (e_hooks e = [] -> o_hooks o' = o_hooks o) /\
  (e_gids e = [] -> o_gids o' = o_gids o) /\ (e_rdt e = None -> o_rdt o' = o_rdt o).
Proof. exact apply_frame. Qed.
Print Assumptions C03_frame.

(* non-vacuity: a populated spec and an edit list with repeated paths, destinations and variable names *)
Definition ex_host : hostfn := host_of [("/dev/a", ("c", 10, 1)%Z); ("/dev/b", ("b", 8, 0)%Z)].
Definition ex_oci : oci :=
  mkOci ["PATH=/bin"; "A=0"; "TERM"; "A=00"] 1000 1000 [5%Z]
        [mkOciMount "/a/b" "bind" "/x" [] ""; mkOciMount "/a" "bind" "/y" [] ""] empty_hooks
        [mkOciDev "/dev/a" "c" 1 1 None None None] [] None "rest".
Definition ex_edits : edits :=
  mkEdits ["A=1"; "B=2"; "A=3"]
          [Some (mkDevnode "/dev/a" "" "" 0 0 None "" None None); Some (mkDevnode "/dev/b" "" "" 0 0 None "rw" None None);
           Some (mkDevnode "/dev/a" "" "c" 5 6 None "" (Some 7%Z) None)]
          [Some (mkHook "prestart" "/bin/h" [] [] None); Some (mkHook "poststop" "/bin/g" [] [] None)]
          [Some (mkMount "/h1" "/a/b" [] ""); Some (mkMount "/h2" "/" [] ""); Some (mkMount "/h3" "/a/b" [] "")]
          (Some (mkRdt "c" "" "" false false)) [0%Z; 5%Z; 6%Z; 6%Z].
Example C03_hypotheses_satisfiable :
  wf_initial ex_oci = true /\ valid_edits ex_edits = true /\
  snd (apply ex_host ex_edits ex_oci) = 0 /\
  o_env (fst (apply ex_host ex_edits ex_oci)) = ["PATH=/bin"; "TERM"; "A=3"; "B=2"] /\
  map om_dest (o_mounts (fst (apply ex_host ex_edits ex_oci))) = ["/a"; "/"; "/a/b"] /\
  o_gids (fst (apply ex_host ex_edits ex_oci)) = [5%Z; 6%Z].
Proof. vm_compute. repeat split; reflexivity. Qed.
