(* C17 — The builtin schema validator decides exactly what the shipped schema files say. *)
From Coq Require Import String Ascii List Bool ZArith QArith.
From CDI Require Import Base SpecModel Doc Schema SchemaProofs.
From CDIGen Require Import SchemaGen.
Import ListNotations.
Close Scope Q_scope.
Open Scope string_scope.

(* the executable validator returns, for every schema of the AST and every document, the verdict of the declarative
   draft-07 semantics [Valid] (type, minimum/maximum over the rationals, required, properties, patternProperties,
   additionalProperties, items; Unsupported nodes validate nothing) *)
Theorem C17_validate_iff_Valid : forall s d, validate s d = true <-> Valid s d.
Proof. exact validate_iff_Valid. Qed.
Print Assumptions C17_validate_iff_Valid.

Theorem C17_validate_false_iff : forall s d, validate s d = false <-> ~ Valid s d.
Proof. exact validate_false_iff. Qed.
Print Assumptions C17_validate_false_iff.

(* the pattern fragment: the executable matcher decides "some substring of at least n characters without LF" *)
Theorem C17_pat_matches_iff : forall p k, pat_matches p k = true <-> Matches p k.
Proof. exact pat_matches_iff. Qed.
Print Assumptions C17_pat_matches_iff.

(* the schema regenerated from schema/schema.json and schema/defs.json uses no keyword outside the modelled fragment *)
Theorem C17_builtin_in_fragment : in_fragment builtin = true.
Proof. exact builtin_in_fragment. Qed.
Print Assumptions C17_builtin_in_fragment.

(* the three-valued validator the judge uses as reference verdict (unknown at Unsupported nodes) is the validator itself
   on every schema inside the fragment *)
Theorem C17_validate3_in_fragment : forall s d, in_fragment s = true -> validate3 s d = Some (validate s d).
Proof. exact validate3_in_fragment. Qed.
Print Assumptions C17_validate3_in_fragment.

(* on every document whose annotations are well-formed, every entry point of package schema returns the verdict
   of the shipped schema (ValidateType/Validate, ValidateReader/ReadAndValidate, ValidateFile .json/.yaml/other,
   ValidateData of JSON and of YAML bytes) *)
Theorem C17_entry_points_agree : forall d,
  annotations_wf d -> Forall (fun ep => ep (CfgSchema builtin) d = validate builtin d) entry_points.
Proof. exact entry_points_agree. Qed.
Print Assumptions C17_entry_points_agree.

(* the same for any externally loaded schema, on documents ValidateData can decode (top-level object or null) *)
Theorem C17_entry_points_agree_any : forall s d,
  annotations_wf d -> top_decodable d = true -> Forall (fun ep => ep (CfgSchema s) d = validate s d) entry_points.
Proof. exact entry_points_agree_any. Qed.
Print Assumptions C17_entry_points_agree_any.

(* the verdict does not depend on the encoding handed to an entry point that takes both *)
Theorem C17_encoding_invariant : forall c d,
  v_data_json c d = v_data_yaml c d /\ v_file_other_json c d = v_file_yaml c d.
Proof. exact encoding_invariant. Qed.
Print Assumptions C17_encoding_invariant.

(* the defect repaired by fix 6c1c860 (annotation check skipped for JSON bytes) *)
Theorem C17_encoding_invariant_pinned_refuted : exists c d, v_data_json_pinned c d <> v_data_yaml c d.
Proof. exact encoding_invariant_pinned_refuted. Qed.
Print Assumptions C17_encoding_invariant_pinned_refuted.

(* the none schema and a nil schema never reject a decodable (parseable, top-level object or null) document, at any entry point *)
Theorem C17_nop_accepts : forall d, top_decodable d = true -> Forall (fun ep => ep CfgNop d = true) entry_points.
Proof. exact nop_accepts. Qed.
Print Assumptions C17_nop_accepts.
Theorem C17_nop_funnel_accepts : forall d,
  v_type CfgNop d = true /\ v_reader CfgNop d = true /\ v_file_json CfgNop d = true.
Proof. exact nop_funnel_accepts. Qed.
Print Assumptions C17_nop_funnel_accepts.
Theorem C17_nil_accepts : forall d, top_decodable d = true -> Forall (fun ep => ep CfgNil d = true) entry_points.
Proof. exact nil_accepts. Qed.
Print Assumptions C17_nil_accepts.
(* the defect repaired by fix 748fe15: the no-op schema still ran the annotation content check *)
Theorem C17_nop_accepts_pinned_refuted : exists d, top_decodable d = true /\ run_data_pinned_nop CfgNop d = false.
Proof. exact nop_accepts_pinned_refuted. Qed.
Print Assumptions C17_nop_accepts_pinned_refuted.

(* hypotheses are satisfiable and the verdicts are not constant *)
Example C17_example_wf : annotations_wf good_doc /\ top_decodable good_doc = true.
Proof. exact good_doc_wf. Qed.
Example C17_example_verdicts :
  validate example_schema (DObj [("path", DStr "/dev/x"); ("uid", DInt 4294967295); ("ratio", DFrac 1 2); ("opts", DArr [DStr "ro"; DNull])]) = true /\
  validate example_schema (DObj [("uid", DInt 1)]) = false /\
  validate example_schema (DObj [("path", DInt 1)]) = false /\
  validate example_schema (DObj [("path", DStr "p"); ("uid", DInt 4294967296)]) = false /\
  validate example_schema (DObj [("path", DStr "p"); ("uid", DFrac 3 2)]) = false /\
  validate example_schema (DObj [("path", DStr "p"); ("ratio", DFrac 3 2)]) = false /\
  validate example_schema (DObj [("path", DStr "p"); ("opts", DArr [DInt 1])]) = false /\
  validate example_schema (DObj [("path", DStr "p"); ("xy", DBool true)]) = false /\
  validate example_schema (DObj [("path", DStr "p"); ("x", DStr "s")]) = false /\
  validate example_schema (DArr []) = false.
Proof. exact example_verdicts. Qed.

(* every member the shipped schema requires of an object is written by the encoder of the Go struct the object is decoded into,
   under the same name in both encodings and also when empty: the in-memory route (Validate(spec), on the re-encoded value)
   sees the members the other routes see in the document.  Re-checked against both regenerated fragments on every run. *)
From CDI Require Import SchemaLayoutTie.
Theorem C17_required_members_always_encoded :
  forallb (fun p => required_kept (fst p) (snd p)) object_structs = true.
Proof. exact required_members_always_encoded. Qed.
Print Assumptions C17_required_members_always_encoded.
