(* C02 — Device resolution follows Spec-directory precedence. *)
From Coq Require Import String List.
From CDI Require Import Base Cache.
Example C02_placeholder : scan nil = nil.
Proof. reflexivity. Qed.
Print Assumptions C02_placeholder.
