(* C02 — Injection is the ordered composition of the selected Specs' and devices' edits. *)
From Coq Require Import String Ascii List Bool Arith.
From CDI Require Import Base SpecModel Parser Paths Oci Apply Cache CacheProofs InjectSpec InjectProofs.
Import ListNotations.
Open Scope string_scope.

(* For every directory population, host oracle, OCI spec (or nil) and EVERY request list: InjectDevices on the refreshed
   cache equals the declarative inject_spec, which is built from the precedence rule only. *)
Theorem C02_inject_refines_spec : forall host fs o names,
  unique_names (scan fs) -> inject host (refresh fs) o names = inject_spec host (loaded (scan fs)) o names.
Proof. exact inject_refines_spec_fs. Qed.
Print Assumptions C02_inject_refines_spec.
(* all requested names resolvable: exactly ONE application (C03) of the combined edit list *)
Theorem C02_inject_is_apply_combined : forall host fl o names,
  (forall n, In n names -> resolve_spec fl n <> None) ->
  inject_spec host fl (Some o) names = ([], snd (apply host (combined fl names) o), Some (fst (apply host (combined fl names) o))).
Proof. exact inject_all_resolvable. Qed.
Print Assumptions C02_inject_is_apply_combined.
(* every contribution to the combined list is the spec-level edit list of a file a requested name resolves to, or the
   edits of the definition a requested name resolves to: nothing of unrequested devices, shadowed or uninvolved files *)
Theorem C02_provenance : forall fl names before e,
  In e (contributions fl before names) ->
  exists n cd, In n names /\ resolve_spec fl n = Some cd /\ (e = s_edits (lf_spec (cd_file cd)) \/ e = d_edits (cd_dev cd)).
Proof. exact contributions_provenance. Qed.
Print Assumptions C02_provenance.
(* spec-level edits once per file: #contributions = #resolvable requested names + #distinct files they resolve to *)
Theorem C02_spec_edits_once : forall fl names before,
  length (contributions fl before names) =
  length (filter (fun n => negb (unresolvable fl n)) names) + distinct_files fl before names.
Proof. exact contributions_count. Qed.
Print Assumptions C02_spec_edits_once.

Definition ex_dev (n fp : string) : device := mkDevice n [] (mkEdits [fp] [] [] [] None []).
Definition ex_fs2 : fsview :=
  [("/etc/cdi", DDir [("a.json", EFile (Some (mkSpec "0.3.0" "v.com/c" [] [ex_dev "d1" "D=a1"; ex_dev "d2" "D=a2"] (mkEdits ["S=a"] [] [] [] None []))))]);
   ("/run/cdi", DDir [("b.json", EFile (Some (mkSpec "0.3.0" "v.com/c" [] [ex_dev "d2" "D=b2"; ex_dev "d3" "D=b3"] (mkEdits ["S=b"] [] [] [] None []))))])].
Example C02_example :
  e_env (combined (loaded (scan ex_fs2)) ["v.com/c=d3"; "v.com/c=d1"; "v.com/c=d2"]) = ["S=b"; "D=b3"; "S=a"; "D=a1"; "D=b2"].
Proof. vm_compute. reflexivity. Qed.
