(* C16 — Generated Spec file names are confined; write and remove are symmetric. *)
From Coq Require Import String Ascii List Bool.
From CDI Require Import Base SpecModel Parser ParserProofs Paths PathsProofs CleanProofs Cache CacheProofs.
Import ListNotations.
Open Scope string_scope.

(* for every valid vendor and class and EVERY transient id the generated name is one normal path component *)
Theorem C16_spec_name_single_component : forall v c,
  VC v -> VC c -> single_component (generate_spec_name v c) = true.
Proof. exact spec_name_single_component. Qed.
Print Assumptions C16_spec_name_single_component.
Theorem C16_transient_name_single_component : forall v c tid,
  VC v -> VC c -> single_component (generate_transient_spec_name v c tid) = true.
Proof. exact transient_name_single_component. Qed.
Print Assumptions C16_transient_name_single_component.

(* hence the file lands directly inside the directory: Clean's normal form of dir/name is the one of dir
   extended by exactly that component — for every directory spelling *)
Theorem C16_join_confined : forall d n,
  d <> "" -> single_component n = true ->
  norm (d ++ "/" ++ n) = (is_rooted d, (snd (norm d) ++ [n])%list).
Proof. exact join_confined. Qed.
Print Assumptions C16_join_confined.
Theorem C16_join_confined_ext : forall d n,
  d <> "" -> single_component n = true ->
  norm ((d ++ "/" ++ n) ++ ".yaml") = (is_rooted d, (snd (norm d) ++ [(n ++ ".yaml")%string])%list).
Proof. exact join_confined_ext. Qed.
Print Assumptions C16_join_confined_ext.

(* write and remove derive their target from the same function of (directories, name) *)
Theorem C16_remove_path_eq_target : forall dirs n, remove_path dirs n = target_path dirs n.
Proof. exact remove_path_eq_target. Qed.
Print Assumptions C16_remove_path_eq_target.
Theorem C16_write_path_from_target : forall dirs n,
  write_path dirs n = option_map (fun p => with_default_ext (clean p)) (remove_path dirs n).
Proof. exact write_path_from_target. Qed.
Print Assumptions C16_write_path_from_target.
(* filepath.Clean is idempotent, for every path; hence the path the writer finally uses (newSpec cleans it and applies the
   default extension once more) IS the path the remover removes, for every directory list and every name *)
Theorem C16_clean_idempotent : forall p, clean (clean p) = clean p.
Proof. exact clean_idempotent. Qed.
Print Assumptions C16_clean_idempotent.
Theorem C16_write_path_eq_remove_path : forall dirs n, write_path dirs n = remove_path dirs n.
Proof. exact write_path_eq_remove_path. Qed.
Print Assumptions C16_write_path_eq_remove_path.

(* after a refresh the written Spec's devices resolve to it: a file whose priority is the highest of all loaded files
   (it lies in the last configured directory) wins for every device it defines, unless another file of that same
   directory defines the device too *)
Theorem C16_resolves_to_written : forall n a f b,
  defines n f = true ->
  (forall g, In g (a ++ b)%list -> lf_prio g <= lf_prio f) ->
  (forall g, In g (a ++ b)%list -> lf_prio g = lf_prio f -> defines n g = false) ->
  exists d, def_in f n (s_devices (lf_spec f)) = Some d /\ resolve_spec (a ++ f :: b)%list n = Some (mkCdev f d).
Proof. exact top_unique_resolves. Qed.
Print Assumptions C16_resolves_to_written.

Example C16_write_path_example :
  write_path ["/etc/cdi"; "/var/run//cdi/"] (generate_transient_spec_name "vendor.com" "gpu" "pod/ctr") =
  Some "/var/run/cdi/vendor.com-gpu_pod_ctr.yaml".
Proof. exact write_path_example. Qed.
