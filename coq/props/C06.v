(* C06 — Minimum required CDI version is exact and independent of where a feature is used. *)
From Coq Require Import String Ascii List Bool Permutation.
From CDI Require Import Base SpecModel Version VersionProofs.
From CDIGen Require Import VersionGen.
Import ListNotations.
Open Scope string_scope.

(* the table regenerated from specs-go/version.go is SPEC.md's table and every predicate it names is modelled *)
Theorem C06_table_matches_SPEC : map fst version_table = released_versions.
Proof. exact table_matches_SPEC. Qed.
Print Assumptions C06_table_matches_SPEC.
Theorem C06_table_predicates_known :
  forallb (fun e => match snd e with None => true | Some n => match pred_of n with Some _ => true | None => false end end)
          version_table = true.
Proof. exact table_predicates_known. Qed.
Print Assumptions C06_table_predicates_known.

(* exactness: highest introduction version among the features used anywhere — spec level or any device at any position *)
Theorem C06_required_exact : forall s,
  exists f4 f5 f6 f7,
    required s = required_spec f4 f5 f6 f7 /\
    (f4 = true <-> uses_mount_type s) /\
    (f5 = true <-> uses_digit_name s \/ uses_hostpath s) /\
    (f6 = true <-> uses_annotations s \/ uses_dotted_class s) /\
    (f7 = true <-> uses_v070 s).
Proof. exact required_exact. Qed.
Print Assumptions C06_required_exact.

(* reordering the devices changes neither the minimum version nor version validity *)
Theorem C06_required_perm : forall s s', same_but_devices s s' -> required s = required s'.
Proof. exact required_perm. Qed.
Print Assumptions C06_required_perm.
Theorem C06_validate_version_perm : forall s s', same_but_devices s s' -> validate_version s = validate_version s'.
Proof. exact validate_version_perm. Qed.
Print Assumptions C06_validate_version_perm.

(* version-valid iff the declared version is released and not lower than the minimum *)
Theorem C06_version_valid_iff : forall s,
  validate_version s = Ok tt <->
  exists v, declared (s_version s) = Some v /\ ver_gtb (required s) v = false.
Proof. exact version_valid_iff. Qed.
Print Assumptions C06_version_valid_iff.
Theorem C06_ver_order_on_table :
  forallb (fun a => forallb (fun b => Bool.eqb (ver_gtb (fst a) (fst b)) (Nat.ltb (snd b) (snd a)))
     (combine released_versions (seq 0 9))) (combine released_versions (seq 0 9)) = true.
Proof. exact ver_order_on_table. Qed.
Print Assumptions C06_ver_order_on_table.

Theorem C06_validate_version_total : forall s, validate_version s <> Panic.
Proof. exact validate_version_total. Qed.
Print Assumptions C06_validate_version_total.

(* the defect repaired by the fix commit *)
Theorem C06_pinned_refuted :
  exists s s', same_but_devices s s' /\ requires040_pinned s <> requires040_pinned s'.
Proof. exact requires040_pinned_refuted. Qed.
Print Assumptions C06_pinned_refuted.

Example C06_example :
  minimum_required_version (mkSpec "0.3.0" "v.com/c" [] [ex_dev_typed; ex_dev_plain] empty_edits) = "0.4.0".
Proof. exact required_example. Qed.
