(* C04 — Device resolution follows Spec-directory precedence. *)
From Coq Require Import String List.
From CDI Require Import Base Cache.
Example C04_placeholder : scan nil = nil.
Proof. reflexivity. Qed.
Print Assumptions C04_placeholder.
