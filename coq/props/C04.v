(* C04 — An unresolvable request leaves the OCI spec untouched and names every miss. *)
From Coq Require Import String Ascii List Bool Arith ZArith.
From CDI Require Import Base SpecModel Parser Paths Oci Apply Cache CacheProofs InjectSpec InjectProofs.
Import ListNotations.
Open Scope string_scope.

Theorem C04_inject_refines_spec : forall host fs o names,
  unique_names (scan fs) -> inject host (refresh fs) o names = inject_spec host (loaded (scan fs)) o names.
Proof. exact inject_refines_spec_fs. Qed.
Print Assumptions C04_inject_refines_spec.
(* some requested name does not resolve (unknown, malformed, conflict-removed, ... : anything resolve_spec rejects):
   exactly the misses, in request order with repetitions, an error, and the OCI spec handed in is returned as it was *)
Theorem C04_inject_unresolved : forall host fl o names,
  (exists n, In n names /\ resolve_spec fl n = None) ->
  inject_spec host fl (Some o) names = (filter (unresolvable fl) names, 1, Some o).
Proof. exact inject_unresolved. Qed.
Print Assumptions C04_inject_unresolved.
(* a nil OCI spec is refused with all requested names *)
Theorem C04_inject_nil : forall host fl names, inject_spec host fl None names = (names, 1, None).
Proof. exact inject_nil. Qed.
Print Assumptions C04_inject_nil.

Example C04_example :
  let fs := [("/etc/cdi", DDir [("a.json", EFile (Some (mkSpec "0.3.0" "v.com/c" [] [mkDevice "d1" [] (mkEdits ["A=1"] [] [] [] None [])] empty_edits)))])] in
  let o := mkOci ["X=y"] 0%Z 0%Z [] [] empty_hooks [] [] None "" in
  inject (host_of []) (refresh fs) (Some o) ["nope"; "v.com/c=d1"; ""; "nope"] = (["nope"; ""; "nope"], 1, Some o).
Proof. vm_compute. reflexivity. Qed.
