(* C12 — Concurrent use of a cache is race-free and every result reflects one snapshot.

   Model: threads are sequences of actions Lock/Unlock/RLock/RUnlock/Rd/Wr/Block; any number of threads, any
   interleaving, non-reentrant mutexes (CDI.Conc).  The paths of the cache's exported operations, of the
   sync.Once body of the default cache and of the watcher goroutine are REGENERATED from pkg/cdi on every run
   (CDIGen.LockGen, tools/gen_locks.py); `cache_program` = every thread runs any sequence of (pieces of) them. *)
From Coq Require Import String List Bool Arith.
From CDI Require Import Conc ConcProofs ConcInst ScanSwitch Judge12.
From CDIGen Require Import LockGen.
Import ListNotations.
Open Scope string_scope.

(* ===== general theorems: any guard map, any number of mutexes, any program of checker-approved paths ===== *)

(* soundness of the executable check: a program whose threads run sequences of approved paths starts well-locked *)
Theorem C12_check_paths_sound : forall guard nmut ps s0,
  check_paths guard nmut ps = true -> program (map snd ps) s0 -> init_ok guard nmut s0.
Proof. exact program_init_ok. Qed.
Print Assumptions C12_check_paths_sound.
(* ... also when threads leave out accesses of the approved paths (the generated paths omit repeated accesses) *)
Theorem C12_check_paths_sound_sub : forall guard nmut ps s0,
  check_paths guard nmut ps = true -> program_sub (map snd ps) s0 -> init_ok guard nmut s0.
Proof. exact program_sub_init_ok. Qed.
Print Assumptions C12_check_paths_sound_sub.

(* data-race freedom: in no reachable state are two different threads about to perform conflicting accesses
   (same guarded variable, at least one write) *)
Theorem C12_race_free : forall guard nmut s0 s i j a b ra rb x m,
  init_ok guard nmut s0 -> reach s0 s -> guard x = Some m ->
  thr s i = a :: ra -> thr s j = b :: rb -> conflict a b x -> i = j.
Proof. exact race_free. Qed.
Print Assumptions C12_race_free.

(* while a thread holds a mutex exclusively no other thread accesses a variable it guards; while it holds it
   shared no other thread writes one *)
Theorem C12_critical_sections_atomic : forall guard nmut s0 s i j a s' x m,
  init_ok guard nmut s0 -> reach s0 s -> guard x = Some m -> step s j a s' ->
  (own s m = Some i -> accesses a x -> j = i) /\ (holds s i m -> a = Wr x -> j = i).
Proof. exact critical_sections_atomic. Qed.
Print Assumptions C12_critical_sections_atomic.

(* over whole executions: from a state where thread i holds m, for as long as i does not release m, every write
   (every access, if held exclusively) of a variable guarded by m is i's own: what i reads is one snapshot *)
Theorem C12_snapshot_consistency : forall guard nmut s0 s i m tr s',
  init_ok guard nmut s0 -> reach s0 s -> holds s i m -> run s tr s' ->
  (forall a, In (i, a) tr -> is_release m a = false) ->
  holds s' i m /\
  (forall j x, In (j, Wr x) tr -> guard x = Some m -> j = i) /\
  (own s m = Some i -> forall j a x, In (j, a) tr -> accesses a x -> guard x = Some m -> j = i).
Proof. exact snapshot_consistency. Qed.
Print Assumptions C12_snapshot_consistency.

(* no deadlock through locks: whenever some thread has work left other than waiting for an event, some thread can
   take a step that is not such a wait (an acquisition counts only if the mutex is completely free, so the claim
   holds under the RWMutex writer preference and any scheduler) *)
Theorem C12_single_lock_no_deadlock : forall guard nmut s0 s i a r,
  init_ok guard nmut s0 -> reach s0 s -> thr s i = a :: r -> a <> Block ->
  exists k a' r' s', thr s k = a' :: r' /\ enabled s a' /\ step s k a' s'.
Proof. exact single_lock_no_deadlock. Qed.
Print Assumptions C12_single_lock_no_deadlock.

(* nobody waits for an event while holding a mutex; releases are by holders (no unlock-of-unlocked fatal error) *)
Theorem C12_block_holds_nothing : forall guard nmut s0 s i r m,
  init_ok guard nmut s0 -> reach s0 s -> thr s i = Block :: r -> ~ holds s i m.
Proof. exact block_holds_nothing. Qed.
Print Assumptions C12_block_holds_nothing.
Theorem C12_unlock_by_owner : forall guard nmut s0 s i m r,
  init_ok guard nmut s0 -> reach s0 s -> thr s i = Unlock m :: r -> own s m = Some i.
Proof. exact unlock_by_owner. Qed.
Print Assumptions C12_unlock_by_owner.

(* ===== the instance: the paths regenerated from the source pass the checks (vm_compute, every run) ===== *)
Theorem C12_translator_ok : translator_errors = [].
Proof. exact translator_ok. Qed.
Print Assumptions C12_translator_ok.
Theorem C12_vocabulary_found : vocabulary_ok = true.
Proof. exact vocabulary_found. Qed.
Print Assumptions C12_vocabulary_found.
Theorem C12_cache_well_locked : check_paths cguard nmutexes paths = true.
Proof. exact cache_well_locked. Qed.
Print Assumptions C12_cache_well_locked.
Theorem C12_cache_pieces_well_locked : check_paths cguard nmutexes all_pieces = true.
Proof. exact cache_pieces_well_locked. Qed.
Print Assumptions C12_cache_pieces_well_locked.

(* ... hence, for the cache program (any number of goroutines calling the public operations in any order, the
   default-cache initialisation, any number of watcher goroutines): *)
Theorem C12_cache_race_free : forall s0 s i j a b ra rb x m,
  cache_program s0 -> reach s0 s -> cguard x = Some m ->
  thr s i = a :: ra -> thr s j = b :: rb -> conflict a b x -> i = j.
Proof. exact cache_race_free. Qed.
Print Assumptions C12_cache_race_free.

Theorem C12_cache_snapshot_consistency : forall s0 s i tr s',
  cache_program s0 -> reach s0 s -> holds s i cache_mutex -> run s tr s' ->
  (forall a, In (i, a) tr -> is_release cache_mutex a = false) ->
  holds s' i cache_mutex /\
  (forall j x, In (j, Wr x) tr -> cguard x = Some cache_mutex -> j = i) /\
  (own s cache_mutex = Some i -> forall j a x, In (j, a) tr -> accesses a x -> cguard x = Some cache_mutex -> j = i).
Proof. exact cache_snapshot_consistency. Qed.
Print Assumptions C12_cache_snapshot_consistency.

Theorem C12_cache_no_deadlock : forall s0 s i a r,
  cache_program s0 -> reach s0 s -> thr s i = a :: r -> a <> Block ->
  exists k a' r' s', thr s k = a' :: r' /\ enabled s a' /\ step s k a' s'.
Proof. exact cache_no_deadlock. Qed.
Print Assumptions C12_cache_no_deadlock.

(* every public operation makes all its reads of specs/devices/errors (slots and maps) in one stretch during
   which it never releases the cache mutex: by C12_cache_snapshot_consistency nobody writes them meanwhile *)
Theorem C12_queries_one_section : forall n p,
  In (n, p) api_paths ->
  exists pre mid post, p = (pre ++ mid ++ post)%list /\
    (forall x, In x snapshot_vars -> ~ In (Rd x) pre /\ ~ In (Rd x) post) /\
    (forall a, In a mid -> is_release cache_mutex a = false).
Proof. exact cache_queries_one_section. Qed.
Print Assumptions C12_queries_one_section.

(* a critical section that replaces one of specs/devices/errors replaces all three (no half-built index is ever
   visible outside the section), and the maps they point to are never modified after publication *)
Theorem C12_refresh_swaps_together : forall n p pre sec post,
  In (n, p) paths -> p = (pre ++ Lock cache_mutex :: sec ++ Unlock cache_mutex :: post)%list ->
  (forall a, In a sec -> a <> Lock cache_mutex /\ a <> Unlock cache_mutex) ->
  forall x, In x snapshot_slots -> In (Wr x) sec -> forall y, In y snapshot_slots -> In (Wr y) sec.
Proof. exact cache_refresh_swaps_together. Qed.
Print Assumptions C12_refresh_swaps_together.
Theorem C12_snapshot_maps_immutable : forall n p x, In (n, p) paths -> In x snapshot_contents -> ~ In (Wr x) p.
Proof. exact cache_snapshot_maps_immutable. Qed.
Print Assumptions C12_snapshot_maps_immutable.

(* the scan itself: a directory scan that overlaps ONE atomic replacement of a file (rename over an existing name,
   after the scan has read k files) returns the old directory or the new one, never a mixture *)
Theorem C12_scan_atomic_switch : forall d f c k,
  NoDup (map fst d) -> scan_switch d f c k = d \/ scan_switch d f c k = set_file d f c.
Proof. exact scan_atomic_switch. Qed.
Print Assumptions C12_scan_atomic_switch.

(* the hypotheses are satisfiable: an API call running beside the watcher goroutine is a cache program,
   and so is every program whose threads run whole generated paths *)
Example C12_example_program : cache_program example_state.
Proof. exact example_is_cache_program. Qed.
Theorem C12_whole_paths_program : forall s0, program (map snd paths) s0 -> cache_program s0.
Proof. exact whole_paths_program. Qed.
Print Assumptions C12_whole_paths_program.
