(* C15 — CDI annotations written by the helper parse back to the same request. *)
From Coq Require Import String Ascii List Bool.
From CDI Require Import Base Parser ParserProofs Annotations AnnotationsProofs.
Import ListNotations.
Open Scope string_scope.

(* a key that is returned is under the CDI prefix and is a legal Kubernetes annotation key
   (k8s checks the lower-cased key) — for all plugin names and device ids, all lengths *)
Theorem C15_key_is_legal : forall plugin devid k,
  annotation_key plugin devid = Ok k ->
  has_prefix annotation_prefix k = true /\ k8s_qualified_b (to_lower k) = true.
Proof. exact key_is_legal. Qed.
Print Assumptions C15_key_is_legal.

Theorem C15_key_spec : forall plugin devid k,
  annotation_key plugin devid = Ok k ->
  plugin <> "" /\ devid <> "" /\ k = annotation_prefix ++ key_name plugin devid /\
  String.length (key_name plugin devid) <= 63 /\ KeyName (key_name plugin devid).
Proof. exact annotation_key_spec. Qed.
Print Assumptions C15_key_spec.

(* the value of a non-empty request parses back to exactly the requested devices, in order *)
Theorem C15_value_roundtrip : forall ds v,
  ds <> [] -> annotation_value ds = Ok v -> split_all "," v = ds /\ all_qualified ds = Ok tt.
Proof. exact value_roundtrip. Qed.
Print Assumptions C15_value_roundtrip.

Theorem C15_value_err_iff : forall ds, annotation_value ds = Err <-> ~ Forall qualified ds.
Proof. exact annotation_value_err_iff. Qed.
Print Assumptions C15_value_err_iff.

(* failure leaves the map exactly as it was *)
Theorem C15_update_fail_unchanged : forall m p id ds,
  fst (update_annotations m p id ds) <> Ok tt -> snd (update_annotations m p id ds) = m.
Proof. exact update_fail_unchanged. Qed.
Print Assumptions C15_update_fail_unchanged.

(* success adds exactly one, previously unused, key and changes nothing else *)
Theorem C15_update_adds_one : forall m p id ds,
  fst (update_annotations m p id ds) = Ok tt ->
  exists k v, annotation_key p id = Ok k /\ annotation_value ds = Ok v /\ alookup k m = None /\
              snd (update_annotations m p id ds) = ainsert k v m /\
              alookup k (ainsert k v m) = Some v /\
              (forall k', k' <> k -> alookup k' (ainsert k v m) = alookup k' m).
Proof. exact update_adds_one. Qed.
Print Assumptions C15_update_adds_one.

Theorem C15_never_overwrites : forall m p id ds k,
  annotation_key p id = Ok k -> alookup k m <> None -> update_annotations m p id ds = (Err, m).
Proof. exact never_overwrites. Qed.
Print Assumptions C15_never_overwrites.

(* parsing: exactly the CDI-prefixed entries, each with its devices in order; error iff some device is unqualified *)
Theorem C15_parse_ok_iff : forall m l,
  parse_annotations m = Ok l <->
  l = map (fun kv => (fst kv, split_all "," (snd kv))) (cdi_entries m) /\
  Forall (fun kv => Forall qualified (split_all "," (snd kv))) (cdi_entries m).
Proof. exact parse_annotations_ok_iff. Qed.
Print Assumptions C15_parse_ok_iff.

Theorem C15_parse_ignores_foreign : forall m, cdi_entries m = [] -> parse_annotations m = Ok [].
Proof. exact parse_ignores_foreign. Qed.
Print Assumptions C15_parse_ignores_foreign.

Theorem C15_parse_unqualified_fails : forall m k v d,
  In (k, v) m -> is_cdi_key k = true -> In d (split_all "," v) -> ~ qualified d ->
  parse_annotations m = Err.
Proof. exact parse_unqualified_fails. Qed.
Print Assumptions C15_parse_unqualified_fails.

(* the round trip through the map *)
Theorem C15_update_then_parse : forall m p id ds l,
  ds <> [] ->
  fst (update_annotations m p id ds) = Ok tt ->
  parse_annotations m = Ok l ->
  exists k l', annotation_key p id = Ok k /\
    parse_annotations (snd (update_annotations m p id ds)) = Ok l' /\
    In (k, ds) l' /\ (forall x, In x l -> In x l') /\ length l' = S (length l).
Proof. exact update_then_parse. Qed.
Print Assumptions C15_update_then_parse.

(* nothing panics *)
Theorem C15_key_total : forall p id, annotation_key p id <> Panic.
Proof. exact annotation_key_total. Qed.
Print Assumptions C15_key_total.
Theorem C15_value_total : forall ds, annotation_value ds <> Panic.
Proof. exact annotation_value_total. Qed.
Print Assumptions C15_value_total.
Theorem C15_update_total : forall m p id ds, fst (update_annotations m p id ds) <> Panic.
Proof. exact update_total. Qed.
Print Assumptions C15_update_total.
Theorem C15_parse_total : forall m, parse_annotations m <> Panic.
Proof. exact parse_annotations_total. Qed.
Print Assumptions C15_parse_total.

Example C15_key_example : annotation_key "vendor.com-gpu" "pod1/ctr0" = Ok "cdi.k8s.io/vendor.com-gpu_pod1_ctr0".
Proof. exact key_example. Qed.
Example C15_update_example :
  update_annotations [("foo", "bar")] "v.dev" "0" ["vendor.com/gpu=0"; "vendor.com/gpu=1"]
  = (Ok tt, [("cdi.k8s.io/v.dev_0", "vendor.com/gpu=0,vendor.com/gpu=1"); ("foo", "bar")]).
Proof. exact update_example. Qed.
