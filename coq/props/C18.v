(* C18 — Every Spec the library accepts also passes the builtin schema. *)
From Coq Require Import String Ascii List Bool ZArith.
From CDI Require Import Base SpecModel Doc Schema SchemaProofs SchemaInst SchemaInstProofs.
From CDIGen Require Import SchemaGen LayoutGen.
Import ListNotations.
Open Scope string_scope.

(* Over ALL Spec values: if the Spec has the consequences of library validity the schema cares about (lib_ok: at least
   one device, no null deviceNodes/hooks/mounts entry), its integers lie in the ranges of their Go types (in_go_ranges)
   and hook timeouts lie within 0..2^32-1, then the JSON image of the Spec (doc_of_spec, the encoder tied to the
   regenerated layout below) passes the schema regenerated from schema/schema.json and schema/defs.json. *)
Theorem C18_lib_valid_passes_schema : forall s,
  lib_ok s -> in_go_ranges s -> timeouts_ok s -> validate builtin (doc_of_spec s) = true.
Proof. exact lib_valid_passes_schema. Qed.
Print Assumptions C18_lib_valid_passes_schema.

(* the proviso on hook timeouts cannot be dropped: timeout -1 is a Go int, the library accepts it, the schema does not *)
Theorem C18_timeout_hypothesis_needed_refuted :
  exists s, lib_ok s /\ in_go_ranges s /\ validate builtin (doc_of_spec s) = false.
Proof. exact timeout_hypothesis_needed_refuted. Qed.
Print Assumptions C18_timeout_hypothesis_needed_refuted.

(* installing the builtin schema as Spec validator (Validate on the in-memory Spec, on read and on write) never rejects *)
Theorem C18_validator_never_rejects_loadable : forall s,
  lib_ok s -> in_go_ranges s -> timeouts_ok s -> v_type (CfgSchema builtin) (doc_of_spec s) = true.
Proof. exact validator_never_rejects_loadable. Qed.
Print Assumptions C18_validator_never_rejects_loadable.

(* with the library's annotation rules (lib_annots_ok) also every other entry point accepts the document the library
   writes — ValidateData and ValidateFile of the .json and of the .yaml file, which run the annotation content check *)
Theorem C18_written_files_pass : forall s,
  lib_ok s -> lib_annots_ok s -> in_go_ranges s -> timeouts_ok s ->
  Forall (fun ep => ep (CfgSchema builtin) (doc_of_spec s) = true) entry_points.
Proof. exact written_files_pass. Qed.
Print Assumptions C18_written_files_pass.

(* per struct of specs-go/config.go, against the regenerated definitions *)
Theorem C18_devnode_passes : forall d, devnode_ranges d = true -> validate defs_DeviceNode (enc_devnode d) = true.
Proof. exact devnode_passes. Qed.
Print Assumptions C18_devnode_passes.
Theorem C18_mount_passes : forall m, validate defs_Mount (enc_mount m) = true.
Proof. exact mount_passes. Qed.
Print Assumptions C18_mount_passes.
Theorem C18_hook_passes : forall h, hook_timeout_ok h = true -> validate defs_Hook (enc_hook h) = true.
Proof. exact hook_passes. Qed.
Print Assumptions C18_hook_passes.
Theorem C18_edits_pass : forall e,
  edits_no_null e = true -> edits_ranges e = true -> forallb hook_timeout_ok (somes (e_hooks e)) = true ->
  validate defs_containerEdits (enc_edits e) = true.
Proof. exact edits_pass. Qed.
Print Assumptions C18_edits_pass.

(* the tie of the hand-written encoder and records to specs-go/config.go (layout regenerated on every run) *)
Theorem C18_encoder_follows_layout : encoder_probes = map (fun sf => (fst sf, layout_probe (snd sf))) layout.
Proof. exact encoder_follows_layout. Qed.
Print Assumptions C18_encoder_follows_layout.
Theorem C18_types_follow_layout : assumed_types = map (fun sf => (fst sf, map f_type (snd sf))) layout.
Proof. exact types_follow_layout. Qed.
Print Assumptions C18_types_follow_layout.
Theorem C18_tags_agree :
  forallb (fun sf => forallb (fun f => String.eqb (f_json f) (f_yaml f) && Bool.eqb (f_json_omit f) (f_yaml_omit f)) (snd sf)) layout = true.
Proof. exact tags_agree. Qed.
Print Assumptions C18_tags_agree.

(* the hypotheses are satisfiable, with the numeric extremes of every integer field *)
Example C18_example :
  lib_ok c18_example_spec /\ lib_annots_ok c18_example_spec /\ in_go_ranges c18_example_spec /\ timeouts_ok c18_example_spec.
Proof. exact c18_example_hyps. Qed.

(* ---- the link to the library's own validation (C05): what the library accepts has the two properties assumed above ---- *)
From CDI Require Import Decode Version Validate ValidateProofs LibLink.
Theorem C18_wf_lib_ok : forall s, WF s -> lib_ok s /\ lib_annots_ok s.
Proof. exact wf_lib_ok. Qed.
Print Assumptions C18_wf_lib_ok.
(* the property at full strength: every Spec value that validate_spec (the model of Spec.validate, C05) accepts — integers
   within their Go types, hook timeouts within 0..2^32-1 — passes the builtin schema regenerated from the shipped files *)
Theorem C18_library_valid_passes_schema : forall s,
  validate_spec s = Ok tt -> in_go_ranges s -> timeouts_ok s -> validate builtin (doc_of_spec s) = true.
Proof. exact library_valid_passes_schema. Qed.
Print Assumptions C18_library_valid_passes_schema.

(* every member the shipped schema requires of an object is written by the encoder of the Go struct the object is decoded into,
   under the same name in both encodings and also when empty: the in-memory route (Validate(spec), on the re-encoded value)
   sees the members the other routes see in the document.  Re-checked against both regenerated fragments on every run. *)
From CDI Require Import SchemaLayoutTie.
Theorem C18_required_members_always_encoded :
  forallb (fun p => required_kept (fst p) (snd p)) object_structs = true.
Proof. exact required_members_always_encoded. Qed.
Print Assumptions C18_required_members_always_encoded.
