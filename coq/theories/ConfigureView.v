(* ConfigureView.v — association lists, directory operations and the scan result [view] of Configure.v: which
   changes leave which part of the answer alone. *)
From Coq Require Import String Ascii List Bool Arith Lia.
From CDI Require Import Base Paths Configure ConfigureProofs.
Import ListNotations.
Open Scope string_scope.

(* ---------- membership through the normalisations ---------- *)
Lemma mem_s_In x l : mem_s x l = true <-> In x l.
Proof.
  unfold mem_s. rewrite existsb_exists. split.
  - intros (y & I & E). apply String.eqb_eq in E. subst. exact I.
  - intros I. exists x. split; [exact I|apply String.eqb_refl].
Qed.

Lemma In_insert_sorted x y l : In x (insert_sorted y l) <-> x = y \/ In x l.
Proof.
  induction l as [|z r IH]; cbn; [intuition|].
  destruct (str_ltb z y); cbn; [rewrite IH|]; intuition.
Qed.

Lemma In_sort_strings x l : In x (sort_strings l) <-> In x l.
Proof.
  induction l as [|y r IH]; cbn; [tauto|]. rewrite In_insert_sorted, IH. intuition.
Qed.

Lemma In_dedup_s x l : In x (dedup_s l) <-> In x l.
Proof.
  induction l as [|y r IH]; cbn; [tauto|].
  destruct (mem_s y r) eqn:M.
  - rewrite IH. apply mem_s_In in M. split; [auto|]. intros [<-|H]; auto.
  - cbn. rewrite IH. tauto.
Qed.

Lemma In_norm_set x l : In x (norm_set l) <-> In x l.
Proof. unfold norm_set. rewrite In_sort_strings, In_dedup_s. tauto. Qed.

(* ---------- association lists ---------- *)
Lemma lookup_in {A} d (l : list (string * A)) v : lookup d l = Some v -> In (d, v) l.
Proof.
  induction l as [|[k b] r IH]; cbn; [discriminate|].
  destruct (String.eqb d k) eqn:E.
  - apply String.eqb_eq in E. subst. intros [= ->]. auto.
  - auto.
Qed.

Lemma lookup_map_keys {A} d (f : string -> A) l :
  lookup d (map (fun k => (k, f k)) l) = if mem_s d l then Some (f d) else None.
Proof.
  induction l as [|k r IH]; cbn; [reflexivity|].
  destruct (String.eqb d k) eqn:E; cbn; [apply String.eqb_eq in E; subst; reflexivity|exact IH].
Qed.

Lemma lookup_map_val {A B} d (g : string * A -> string * B) (h : string -> A -> B) l :
  (forall kv, g kv = (fst kv, h (fst kv) (snd kv))) ->
  lookup d (map g l) = option_map (h d) (lookup d l).
Proof.
  intros H. induction l as [|[k b] r IH]; cbn; [reflexivity|]. rewrite H. cbn [fst snd].
  destruct (String.eqb d k) eqn:E; [apply String.eqb_eq in E; subst; reflexivity|exact IH].
Qed.

Lemma lookup_remove_key {A} d k (l : list (string * A)) :
  lookup d (remove_key k l) = if String.eqb d k then None else lookup d l.
Proof.
  induction l as [|[k' v] r IH]; cbn; [destruct (String.eqb d k); reflexivity|].
  destruct (String.eqb k k') eqn:E1.
  - apply String.eqb_eq in E1. subst k'. rewrite IH. destruct (String.eqb d k); reflexivity.
  - cbn. destruct (String.eqb d k') eqn:E2.
    + apply String.eqb_eq in E2. subst k'. rewrite String.eqb_sym, E1. reflexivity.
    + exact IH.
Qed.

Lemma lookup_set_key {A} d k (v : A) l :
  lookup d (set_key k v l) = if String.eqb d k then Some v else lookup d l.
Proof.
  unfold set_key. cbn. destruct (String.eqb d k) eqn:E; [reflexivity|]. rewrite lookup_remove_key, E. reflexivity.
Qed.

Lemma remove_key_absent {A} k (l : list (string * A)) : lookup k l = None -> remove_key k l = l.
Proof.
  induction l as [|[k' v] r IH]; cbn; [reflexivity|].
  destruct (String.eqb k k'); [discriminate|]. intros H. rewrite IH; auto.
Qed.

Lemma filter_remove_key_nonspec n (c : dirc) :
  is_spec_name n = false ->
  filter (fun nf : string * file => is_spec_name (fst nf)) (remove_key n c) = filter (fun nf : string * file => is_spec_name (fst nf)) c.
Proof.
  intros N. induction c as [|[k v] r IH]; cbn; [reflexivity|].
  destruct (String.eqb n k) eqn:E.
  - apply String.eqb_eq in E. subst k. rewrite N. exact IH.
  - cbn. rewrite IH. reflexivity.
Qed.

(* ---------- directory operations ---------- *)
Definition target (o : fsop) : string :=
  match o with WriteFile d _ _ | RemoveFile d _ | MkDir d | RmDir d => d end.

Lemma fires_target fs_ o d s : fires fs_ o = Some (d, s) -> d = target o.
Proof.
  destruct o; cbn.
  - destruct (dir_exists fs_ d0 && is_spec_name n); [intros [= <- _]; reflexivity|discriminate].
  - destruct (file_exists fs_ d0 n); [intros [= <- _]; reflexivity|discriminate].
  - discriminate.
  - destruct (dir_exists fs_ d0); [intros [= <- _]; reflexivity|discriminate].
Qed.

Lemma fs_apply_other fs_ o d : d <> target o -> lookup d (fs_apply fs_ o) = lookup d fs_.
Proof.
  intros N. apply String.eqb_neq in N.
  destruct o; cbn [fs_apply target] in *.
  - destruct (lookup d0 fs_); [rewrite lookup_set_key, N|]; reflexivity.
  - destruct (lookup d0 fs_); [rewrite lookup_set_key, N|]; reflexivity.
  - destruct (lookup d0 fs_); [|rewrite lookup_set_key, N]; reflexivity.
  - rewrite lookup_remove_key, N. reflexivity.
Qed.

Lemma spec_entries_lookup fs1 fs2 d : lookup d fs1 = lookup d fs2 -> spec_entries fs1 d = spec_entries fs2 d.
Proof. unfold spec_entries. intros ->. reflexivity. Qed.
Lemma dir_exists_lookup fs1 fs2 d : lookup d fs1 = lookup d fs2 -> dir_exists fs1 d = dir_exists fs2 d.
Proof. unfold dir_exists. intros ->. reflexivity. Qed.

Lemma spec_entries_missing fs_ d : dir_exists fs_ d = false -> spec_entries fs_ d = [].
Proof. unfold dir_exists, spec_entries. destruct (lookup d fs_); [discriminate|reflexivity]. Qed.

(* an operation that raises no accepted event in an existing directory leaves that directory's Spec entries alone *)
Lemma quiet_same_dir fs_ o :
  fires fs_ o = None -> dir_exists fs_ (target o) = true ->
  spec_entries (fs_apply fs_ o) (target o) = spec_entries fs_ (target o) /\ dir_exists (fs_apply fs_ o) (target o) = true.
Proof.
  unfold dir_exists, spec_entries. destruct o; cbn [fires fs_apply target]; unfold dir_exists, file_exists.
  - destruct (lookup d fs_) as [c|] eqn:L; [|discriminate]. cbn [andb].
    destruct (is_spec_name n) eqn:N; [discriminate|]. intros _ _.
    rewrite lookup_set_key, String.eqb_refl. split; [|reflexivity].
    unfold set_key. cbn [filter fst]. rewrite N. apply filter_remove_key_nonspec, N.
  - destruct (lookup d fs_) as [c|] eqn:L; [|discriminate].
    destruct (lookup n c) eqn:Ln; [discriminate|]. intros _ _.
    rewrite lookup_set_key, String.eqb_refl, (remove_key_absent _ _ Ln). auto.
  - destruct (lookup d fs_) as [c|] eqn:L; [|discriminate]. rewrite L. auto.
  - destruct (lookup d fs_); discriminate.
Qed.

Lemma quiet_entries fs_ o d :
  dir_exists fs_ d = true -> (fires fs_ o = None \/ d <> target o) ->
  spec_entries (fs_apply fs_ o) d = spec_entries fs_ d /\ dir_exists (fs_apply fs_ o) d = true.
Proof.
  intros X H. destruct (string_dec d (target o)) as [->|N].
  - destruct H as [H|H]; [apply quiet_same_dir; auto|congruence].
  - pose proof (fs_apply_other fs_ o d N) as L. split.
    + apply spec_entries_lookup, L.
    + rewrite (dir_exists_lookup _ _ _ L). exact X.
Qed.

(* file changes never remove a directory *)
Lemma fires_file_keeps_dirs fs_ o d : fires fs_ o = Some (d, false) -> forall d', dir_exists fs_ d' = true -> dir_exists (fs_apply fs_ o) d' = true.
Proof.
  intros H d' X. destruct (string_dec d' (target o)) as [->|N].
  - unfold dir_exists in *. destruct o; cbn [fires fs_apply target] in *.
    + destruct (lookup d0 fs_); [rewrite lookup_set_key, String.eqb_refl; reflexivity|discriminate].
    + destruct (lookup d0 fs_); [rewrite lookup_set_key, String.eqb_refl; reflexivity|discriminate].
    + discriminate.
    + destruct (dir_exists fs_ d0); discriminate H.
  - rewrite (dir_exists_lookup _ _ _ (fs_apply_other fs_ o d' N)). exact X.
Qed.

(* ---------- the scan result ---------- *)
Lemma flat_map_ext_in {A B} (f g : A -> list B) l : (forall x, In x l -> f x = g x) -> flat_map f l = flat_map g l.
Proof.
  induction l as [|a r IH]; cbn; [reflexivity|]. intros H. rewrite (H a), IH; auto.
Qed.

Lemma flat_map_filter {A B} (f : A -> list B) p l :
  (forall x, In x l -> p x = false -> f x = []) -> flat_map f (filter p l) = flat_map f l.
Proof.
  induction l as [|a r IH]; cbn; [reflexivity|]. intros H.
  destruct (p a) eqn:P; cbn; rewrite IH; auto. rewrite (H a); auto.
Qed.

Lemma view_congr ds fs1 fs2 :
  (forall d, In d ds -> spec_entries fs1 d = spec_entries fs2 d) -> view ds fs1 = view ds fs2.
Proof.
  intros H. unfold view.
  rewrite (flat_map_ext_in (dir_defs fs1) (dir_defs fs2)), (flat_map_ext_in (dir_errs fs1) (dir_errs fs2)); auto;
    intros d I; unfold dir_defs, dir_errs; rewrite (H d I); reflexivity.
Qed.

Lemma view_filter ds p fs_ :
  (forall d, In d ds -> p d = false -> spec_entries fs_ d = []) -> view (filter p ds) fs_ = view ds fs_.
Proof.
  intros H. unfold view.
  rewrite (flat_map_filter (dir_defs fs_)), (flat_map_filter (dir_errs fs_)); auto;
    intros d I P; unfold dir_defs, dir_errs; rewrite (H d I P); reflexivity.
Qed.

(* ---------- the tracked map after watch.update ---------- *)
Lemma lookup_upd_tracked fs_ o tr rm d :
  lookup d (upd_tracked fs_ o tr rm) =
  option_map (fun b => (b && negb (mem_s d rm)) || (o && dir_exists fs_ d)) (lookup d tr).
Proof.
  unfold upd_tracked, upd_tr1.
  rewrite (lookup_map_val d _ (fun k b => b || (o && dir_exists fs_ k))).
  - rewrite (lookup_map_val d _ (fun k (b : bool) => b && negb (mem_s k rm))).
    + destruct (lookup d tr); reflexivity.
    + intros [k b]. cbn [fst snd]. destruct (mem_s k rm); [rewrite andb_false_r|rewrite andb_true_r]; reflexivity.
  - intros [k b]. cbn [fst snd]. destruct b; reflexivity.
Qed.

Lemma upd_tracked_keys fs_ o tr rm : map fst (upd_tracked fs_ o tr rm) = map fst tr.
Proof.
  unfold upd_tracked, upd_tr1. rewrite !map_map. apply map_ext. intros [k b]. cbn [fst snd].
  destruct (mem_s k rm); cbn [fst snd]; [reflexivity|]. destruct b; reflexivity.
Qed.

(* no directory was added by an update without removals: every tracked-false directory is missing (or the watcher is closed) *)
Lemma upd_flag_false fs_ o tr d :
  upd_flag fs_ o tr [] = false -> lookup d tr = Some false -> o && dir_exists fs_ d = false.
Proof.
  unfold upd_flag, upd_pending. cbn [negb orb]. intros E L.
  assert (I : In d (map fst (filter (fun kv : string * bool => negb (snd kv)) (upd_tr1 tr [])))).
  { apply in_map_iff. exists (d, false). split; [reflexivity|]. apply filter_In. split; [|reflexivity].
    unfold upd_tr1. apply in_map_iff. exists (d, false). split; [reflexivity|]. apply lookup_in, L. }
  destruct (o && dir_exists fs_ d) eqn:X; [|reflexivity].
  assert (existsb (fun d0 => o && dir_exists fs_ d0) (map fst (filter (fun kv : string * bool => negb (snd kv)) (upd_tr1 tr []))) = true).
  { apply existsb_exists. exists d. auto. }
  congruence.
Qed.
