(* Doc.v — the JSON value tree [doc] and the encoder [doc_of_spec] mirroring encoding/json on the
   structs of specs-go/config.go.

   Numbers.  draft-07 (and gojsonschema) decide "integer" by VALUE: 1.0 and 1e3 are integers.  Hence
   [DInt z] stands for every JSON number whose mathematical value is the integer z, whatever its
   spelling, and [DFrac n d] for a number with the non-integral value n/d (the harness prints lowest
   terms, d > 1; nothing below relies on that).

   Objects are association lists in document order.  Documents with duplicate member names are
   outside the modelled space (encoding/json keeps the last one, YAML rejects them); the harness
   never generates them and the encoder never produces them for maps with distinct keys.

   Encoder ([doc_of_spec]) decisions, all as encoding/json behaves:
   - a member tagged omitempty is left out when its value is "", 0, false, a nil pointer, a nil or
     empty slice or map; omitempty on a struct-typed member (Spec.containerEdits) has no effect;
   - a nil entry of a pointer slice ([None] here) is encoded as null;
   - [devices] has no omitempty.  SpecModel identifies nil and empty slices; the encoder takes the
     empty list to be Go's nil slice — what decoding a document without (or with a null) devices
     member yields — which encoding/json emits as null.  (A non-nil empty slice would give [] ; the
     library rejects a Spec without devices either way, so no library-valid Spec is affected.)
   - maps are emitted in the order of the association list (the harness hands them over sorted by
     key, as encoding/json emits them). *)
From Coq Require Import String Ascii List Bool ZArith.
From CDI Require Import Base SpecModel.
Import ListNotations.
Open Scope string_scope.

Inductive doc :=
| DNull
| DBool (b : bool)
| DInt (z : Z)
| DFrac (num : Z) (den : positive)
| DStr (s : string)
| DArr (l : list doc)
| DObj (l : list (string * doc)).

(* structural equality (used by the judges to compare the encoder with json.Marshal) *)
Fixpoint doc_eqb (a b : doc) {struct a} : bool :=
  match a, b with
  | DNull, DNull => true
  | DBool x, DBool y => Bool.eqb x y
  | DInt x, DInt y => Z.eqb x y
  | DFrac n d, DFrac n' d' => Z.eqb n n' && Pos.eqb d d'
  | DStr x, DStr y => String.eqb x y
  | DArr l, DArr l' =>
      (fix go (l l' : list doc) : bool :=
         match l, l' with
         | [], [] => true
         | x :: r, y :: r' => doc_eqb x y && go r r'
         | _, _ => false
         end) l l'
  | DObj l, DObj l' =>
      (fix go (l l' : list (string * doc)) : bool :=
         match l, l' with
         | [], [] => true
         | (k, x) :: r, (k', y) :: r' => String.eqb k k' && doc_eqb x y && go r r'
         | _, _ => false
         end) l l'
  | _, _ => false
  end.

Definition keys (f : list (string * doc)) : list string := map fst f.

(* first member with the given name *)
Fixpoint member (k : string) (f : list (string * doc)) : option doc :=
  match f with
  | [] => None
  | (k', v) :: r => if String.eqb k k' then Some v else member k r
  end.

(* ---- omitempty helpers: a member or nothing ---- *)
Definition always (k : string) (v : doc) : option (string * doc) := Some (k, v).
Definition omit_s (k v : string) : option (string * doc) := if String.eqb v "" then None else Some (k, DStr v).
Definition omit_z (k : string) (v : Z) : option (string * doc) := if Z.eqb v 0 then None else Some (k, DInt v).
Definition omit_b (k : string) (v : bool) : option (string * doc) := if v then Some (k, DBool true) else None.
Definition omit_o (k : string) (v : option Z) : option (string * doc) := option_map (fun z => (k, DInt z)) v.
Definition omit_l (k : string) (l : list doc) : option (string * doc) :=
  match l with [] => None | _ => Some (k, DArr l) end.
Definition omit_m (k : string) (l : list (string * doc)) : option (string * doc) :=
  match l with [] => None | _ => Some (k, DObj l) end.
Definition omit_p (k : string) (o : option doc) : option (string * doc) := option_map (fun d => (k, d)) o.

Definition enc_strs (l : list string) : list doc := map DStr l.
Definition enc_ptr {A} (enc : A -> doc) (o : option A) : doc := match o with Some a => enc a | None => DNull end.

(* ---- the structs, members in declaration order ---- *)
Definition enc_devnode (d : devnode) : doc :=
  DObj (somes [ always "path" (DStr (dn_path d)); omit_s "hostPath" (dn_hostpath d); omit_s "type" (dn_type d);
                omit_z "major" (dn_major d); omit_z "minor" (dn_minor d); omit_o "fileMode" (dn_filemode d);
                omit_s "permissions" (dn_perms d); omit_o "uid" (dn_uid d); omit_o "gid" (dn_gid d) ]).

Definition enc_mount (m : mount) : doc :=
  DObj (somes [ always "hostPath" (DStr (m_host m)); always "containerPath" (DStr (m_ctr m));
                omit_l "options" (enc_strs (m_opts m)); omit_s "type" (m_type m) ]).

Definition enc_hook (h : hook) : doc :=
  DObj (somes [ always "hookName" (DStr (h_name h)); always "path" (DStr (h_path h));
                omit_l "args" (enc_strs (h_args h)); omit_l "env" (enc_strs (h_env h));
                omit_o "timeout" (h_timeout h) ]).

Definition enc_rdt (r : rdt) : doc :=
  DObj (somes [ omit_s "closID" (r_closid r); omit_s "l3CacheSchema" (r_l3 r); omit_s "memBwSchema" (r_membw r);
                omit_b "enableCMT" (r_cmt r); omit_b "enableMBM" (r_mbm r) ]).

Definition enc_edits (e : edits) : doc :=
  DObj (somes [ omit_l "env" (enc_strs (e_env e));
                omit_l "deviceNodes" (map (enc_ptr enc_devnode) (e_nodes e));
                omit_l "hooks" (map (enc_ptr enc_hook) (e_hooks e));
                omit_l "mounts" (map (enc_ptr enc_mount) (e_mounts e));
                omit_p "intelRdt" (option_map enc_rdt (e_rdt e));
                omit_l "additionalGids" (map DInt (e_gids e)) ]).

Definition enc_annots (m : annots) : list (string * doc) := map (fun kv => (fst kv, DStr (snd kv))) m.

Definition enc_device (d : device) : doc :=
  DObj (somes [ always "name" (DStr (d_name d)); omit_m "annotations" (enc_annots (d_annot d));
                always "containerEdits" (enc_edits (d_edits d)) ]).

Definition enc_devices (l : list device) : doc :=
  match l with [] => DNull | _ => DArr (map enc_device l) end.

Definition doc_of_spec (s : spec) : doc :=
  DObj (somes [ always "cdiVersion" (DStr (s_version s)); always "kind" (DStr (s_kind s));
                omit_m "annotations" (enc_annots (s_annot s));
                always "devices" (enc_devices (s_devices s));
                always "containerEdits" (enc_edits (s_edits s)) ]).

(* ---- probes: the member names an encoder can emit, and the ones it always emits ----
   Encoding a value with every field non-empty lists all member names in order; encoding the zero
   value lists exactly the members without (effective) omitempty.  LayoutChecks ties both lists to
   the layout regenerated from specs-go/config.go. *)
Definition obj_keys (d : doc) : list string := match d with DObj f => keys f | _ => [] end.

Definition full_devnode := mkDevnode "p" "h" "c" 1 1 (Some 1%Z) "r" (Some 1%Z) (Some 1%Z).
Definition zero_devnode := mkDevnode "" "" "" 0 0 None "" None None.
Definition full_mount := mkMount "h" "c" ["o"] "t".
Definition zero_mount := mkMount "" "" [] "".
Definition full_hook := mkHook "n" "p" ["a"] ["e"] (Some 1%Z).
Definition zero_hook := mkHook "" "" [] [] None.
Definition full_rdt := mkRdt "c" "l" "m" true true.
Definition zero_rdt := mkRdt "" "" "" false false.
Definition full_edits := mkEdits ["A=b"] [Some full_devnode] [Some full_hook] [Some full_mount] (Some full_rdt) [1%Z].
Definition full_device := mkDevice "d" [("k", "v")] full_edits.
Definition zero_device := mkDevice "" [] empty_edits.
Definition full_spec := mkSpec "1.0.0" "v.com/c" [("k", "v")] [full_device] full_edits.
Definition zero_spec := mkSpec "" "" [] [] empty_edits.

(* struct name, member names when everything is set, member names of the zero value *)
Definition encoder_probes : list (string * (list string * list string)) :=
  [ ("Spec", (obj_keys (doc_of_spec full_spec), obj_keys (doc_of_spec zero_spec)));
    ("Device", (obj_keys (enc_device full_device), obj_keys (enc_device zero_device)));
    ("ContainerEdits", (obj_keys (enc_edits full_edits), obj_keys (enc_edits empty_edits)));
    ("DeviceNode", (obj_keys (enc_devnode full_devnode), obj_keys (enc_devnode zero_devnode)));
    ("Mount", (obj_keys (enc_mount full_mount), obj_keys (enc_mount zero_mount)));
    ("Hook", (obj_keys (enc_hook full_hook), obj_keys (enc_hook zero_hook)));
    ("IntelRdt", (obj_keys (enc_rdt full_rdt), obj_keys (enc_rdt zero_rdt))) ].

(* the Go types the records and the range predicate [in_go_ranges] (SchemaInst) assume, per struct *)
Definition assumed_types : list (string * list string) :=
  [ ("Spec", ["string"; "string"; "map[string]string"; "[]Device"; "ContainerEdits"]);
    ("Device", ["string"; "map[string]string"; "ContainerEdits"]);
    ("ContainerEdits", ["[]string"; "[]*DeviceNode"; "[]*Hook"; "[]*Mount"; "*IntelRdt"; "[]uint32"]);
    ("DeviceNode", ["string"; "string"; "string"; "int64"; "int64"; "*os.FileMode"; "string"; "*uint32"; "*uint32"]);
    ("Mount", ["string"; "string"; "[]string"; "string"]);
    ("Hook", ["string"; "string"; "[]string"; "[]string"; "*int"]);
    ("IntelRdt", ["string"; "string"; "string"; "bool"; "bool"]) ].
