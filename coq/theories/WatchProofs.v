(* WatchProofs.v — the watcher machine of Watch.v (code as it stands: fixed_variant) converges:
   invariants I0–I5 hold in every reachable state, whatever the interleaving of file-system operations,
   fsnotify reads, event handling, queries and extra events; hence with both queues empty a query answers
   like a freshly built cache. *)
From Coq Require Import String Ascii List Bool Arith Lia.
From CDI Require Import Base Paths Watch.
Import ListNotations.
Open Scope string_scope.

Notation V := fixed_variant.

(* ---------- strings, maps, association lists ---------- *)
Lemma ext_aux_join d n acc : ext_aux (d ++ String "/" n) acc = ext_aux n None.
Proof.
  revert acc. induction d as [|c r IH]; intro acc.
  - reflexivity.
  - change ((String c r) ++ String "/" n) with (String c (r ++ String "/" n)).
    cbn [ext_aux]. destruct (Ascii.eqb c "/"); [apply IH|]. destruct (Ascii.eqb c "."); apply IH.
Qed.
Lemma ext_join d n : ext (d ++ "/" ++ n) = ext n.
Proof. unfold ext. change ("/" ++ n) with (String "/" n). apply ext_aux_join. Qed.

Lemma upd_same {A} (f : string -> A) k v : upd f k v k = v.
Proof. unfold upd. rewrite String.eqb_refl. reflexivity. Qed.
Lemma upd_other {A} (f : string -> A) k v x : x <> k -> upd f k v x = f x.
Proof. unfold upd. intro H. apply String.eqb_neq in H. rewrite H. reflexivity. Qed.

Lemma mem_s_In x l : mem_s x l = true <-> In x l.
Proof.
  unfold mem_s. rewrite existsb_exists. split.
  - intros (y & Hy & E). apply String.eqb_eq in E. subst. exact Hy.
  - intro H. exists x. split; [exact H|apply String.eqb_refl].
Qed.

Lemma lookup_del_same n l : lookup n (del n l) = None.
Proof.
  induction l as [|[m c] r IH]; [reflexivity|]. unfold del in *. cbn [filter fst].
  destruct (String.eqb m n) eqn:E; cbn [negb]; [exact IH|]. cbn [lookup]. rewrite E. exact IH.
Qed.
Lemma lookup_del_other m n l : m <> n -> lookup m (del n l) = lookup m l.
Proof.
  intro H. induction l as [|[k c] r IH]; [reflexivity|]. unfold del in *. cbn [filter fst].
  destruct (String.eqb k n) eqn:E; cbn [negb lookup].
  - apply String.eqb_eq in E. subst k. assert (X : String.eqb n m = false) by (apply String.eqb_neq; congruence).
    rewrite X. exact IH.
  - rewrite IH. reflexivity.
Qed.
Lemma lookup_app n l1 l2 :
  lookup n (l1 ++ l2)%list = match lookup n l1 with Some c => Some c | None => lookup n l2 end.
Proof.
  induction l1 as [|[m c] r IH]; [reflexivity|]. cbn [app lookup]. destruct (String.eqb m n); [reflexivity|exact IH].
Qed.
Lemma lookup_put_same n c l : lookup n (put n c l) = Some c.
Proof. unfold put. rewrite lookup_app, lookup_del_same. cbn [lookup]. rewrite String.eqb_refl. reflexivity. Qed.
Lemma lookup_put_other m n c l : m <> n -> lookup m (put n c l) = lookup m l.
Proof.
  intro H. unfold put. rewrite lookup_app, lookup_del_other by exact H.
  destruct (lookup m l); [reflexivity|]. cbn [lookup].
  assert (X : String.eqb n m = false) by (apply String.eqb_neq; congruence). rewrite X. reflexivity.
Qed.

Lemma view_l_del_nonspec n l : is_spec_name n = false -> view_l (del n l) = view_l l.
Proof.
  intro H. induction l as [|[m c] r IH]; [reflexivity|]. unfold view_l, del in *. cbn [filter fst].
  destruct (String.eqb m n) eqn:E; cbn [negb].
  - apply String.eqb_eq in E. subst m. rewrite H. exact IH.
  - cbn [filter fst]. rewrite IH. reflexivity.
Qed.
Lemma view_l_put_nonspec n c l : is_spec_name n = false -> view_l (put n c l) = view_l l.
Proof.
  intro H. unfold put, view_l. rewrite filter_app. cbn [filter fst]. rewrite H, app_nil_r.
  apply view_l_del_nonspec. exact H.
Qed.

Lemma view_upd_same f d nd : view (upd f d nd) d = match nd with Some l => view_l l | None => [] end.
Proof. unfold view. rewrite upd_same. reflexivity. Qed.
Lemma file_upd_same f d l n : file (upd f d (Some l)) d n = lookup n l.
Proof. unfold file. rewrite upd_same. reflexivity. Qed.
Lemma ex_upd_same f d nd : ex (upd f d nd) d = is_some nd.
Proof. unfold ex. rewrite upd_same. reflexivity. Qed.

(* ---------- the filter of the code as it stands ---------- *)
Lemma accepts_ev o d n :
  accepts V (Ev o d n) = match o with Create | Write => is_spec_name n | Chmod => false | _ => true end.
Proof.
  unfold accepts, filter_accepts, is_spec_name.
  destruct o; cbn [eopk epath existsb in_ops eop_eqb v_mask fixed_variant orb andb]; try reflexivity;
    rewrite ext_join; reflexivity.
Qed.
Lemma accepts_self d : accepts V (EvSelf d) = true.
Proof. reflexivity. Qed.
Lemma survives_self f d : survives f (EvSelf d) = true.
Proof. reflexivity. Qed.

Lemma survives_ext f f' e : f' (edir e) = f (edir e) -> survives f' e = survives f e.
Proof.
  intro H. unfold survives, exists_path, file, ex. destruct e as [o d n|d]; cbn [edir eopk] in *; try rewrite H; reflexivity.
Qed.

(* ---------- the rule table: shape of the events, and every change of a watched view is signalled ---------- *)
Lemma op_effect_spec f o nd evs :
  op_effect f o = Some (nd, evs) ->
  Forall (fun e => edir e = odir o) evs /\
  (nd = None -> In (EvSelf (odir o)) evs).
Proof.
  destruct o as [d n c|d n c|d n c|d a b|d n|d n|d|d]; cbn [op_effect odir]; destruct (f d) as [l|]; try discriminate.
  - destruct (lookup n l); intro H; inversion H; subst; (split; [|discriminate]).
    + repeat constructor.
    + destruct (is_empty c); repeat constructor.
  - intro H; inversion H; subst. split; [repeat constructor|discriminate].
  - destruct (lookup n l); [discriminate|]. intro H; inversion H; subst. split; [repeat constructor|discriminate].
  - destruct (lookup a l); [|discriminate]. destruct (String.eqb a b); intro H; inversion H; subst;
      (split; [repeat constructor|discriminate]).
  - destruct (lookup n l); [|discriminate]. intro H; inversion H; subst. split; [repeat constructor|discriminate].
  - destruct (lookup n l); [|discriminate]. intro H; inversion H; subst. split; [repeat constructor|discriminate].
  - intro H; inversion H; subst. split; [constructor|discriminate].
  - intro H; inversion H; subst. split.
    + apply Forall_app. split; [|repeat constructor]. apply Forall_forall. intros e He.
      apply in_map_iff in He as (p & <- & _). reflexivity.
    + intros _. apply in_or_app. right. left. reflexivity.
Qed.

Lemma op_effect_rmall f o evs : op_effect f o = Some (None, evs) -> exists d, o = ORmAll d.
Proof.
  destruct o as [d n c|d n c|d n c|d a b|d n|d n|d|d]; cbn [op_effect]; destruct (f d) as [l|]; try discriminate.
  - destruct (lookup n l); discriminate.
  - destruct (lookup n l); discriminate.
  - destruct (lookup a l); [|discriminate]. destruct (String.eqb a b); discriminate.
  - destruct (lookup n l); discriminate.
  - destruct (lookup n l); discriminate.
  - intros _. exists d. reflexivity.
Qed.

(* an event that the code accepts and whose file (if it needs one) is another Spec-named file keeps its file *)
Lemma survives_put_nonspec f d l n c e :
  f d = Some l -> is_spec_name n = false -> edir e = d ->
  survives f e = true -> accepts V e = true -> survives (upd f d (Some (put n c l))) e = true.
Proof.
  intros Hf Hn Hd Hs Ha. destruct e as [o d' m|d']; cbn [edir] in Hd; subst d'; [|reflexivity].
  rewrite accepts_ev in Ha. unfold survives, exists_path in *. cbn [eopk] in *.
  destruct o; try reflexivity; try discriminate;
    (rewrite file_upd_same; unfold file in Hs; rewrite Hf in Hs;
     rewrite lookup_put_other; [exact Hs|intro; subst; congruence]).
Qed.

Lemma op_watched f o nd evs :
  op_effect f o = Some (nd, evs) -> ex f (odir o) = true ->
  let f' := upd f (odir o) nd in
  (exists e, In e evs /\ survives f' e = true /\ accepts V e = true) \/
  (view f' (odir o) = view f (odir o) /\
   forall e, edir e = odir o -> survives f e = true -> accepts V e = true -> survives f' e = true).
Proof.
  intros E X f'. subst f'. unfold ex in X.
  destruct o as [d n c|d n c|d n c|d a b|d n|d n|d|d]; cbn [op_effect odir] in *;
    destruct (f d) as [l|] eqn:Hf; try discriminate.
  - (* OWrite *)
    destruct (is_spec_name n) eqn:SN.
    + left. destruct (lookup n l) eqn:L; inversion E; subst.
      * exists (Ev Write d n). split; [left; reflexivity|]. split.
        -- unfold survives, exists_path. cbn [eopk]. rewrite file_upd_same, lookup_put_same. reflexivity.
        -- rewrite accepts_ev. exact SN.
      * exists (Ev Create d n). split; [left; reflexivity|]. split.
        -- unfold survives, exists_path. cbn [eopk]. rewrite file_upd_same, lookup_put_same. reflexivity.
        -- rewrite accepts_ev. exact SN.
    + right. assert (nd = Some (put n c l)) as -> by (destruct (lookup n l); inversion E; reflexivity). split.
      * rewrite view_upd_same. unfold view. rewrite Hf. apply view_l_put_nonspec. exact SN.
      * intros e Hd Hs Ha. eapply survives_put_nonspec; eauto.
  - (* OMoveIn *)
    inversion E; subst. destruct (is_spec_name n) eqn:SN.
    + left. exists (Ev Create d n). split; [left; reflexivity|]. split.
      * unfold survives, exists_path. cbn [eopk]. rewrite file_upd_same, lookup_put_same. reflexivity.
      * rewrite accepts_ev. exact SN.
    + right. split.
      * rewrite view_upd_same. unfold view. rewrite Hf. apply view_l_put_nonspec. exact SN.
      * intros e Hd Hs Ha. eapply survives_put_nonspec; eauto.
  - (* OLinkIn *)
    destruct (lookup n l) eqn:L; [discriminate|]. inversion E; subst. destruct (is_spec_name n) eqn:SN.
    + left. exists (Ev Create d n). split; [left; reflexivity|]. split.
      * unfold survives, exists_path. cbn [eopk]. rewrite file_upd_same, lookup_put_same. reflexivity.
      * rewrite accepts_ev. exact SN.
    + right. split.
      * rewrite view_upd_same. unfold view. rewrite Hf. apply view_l_put_nonspec. exact SN.
      * intros e Hd Hs Ha. eapply survives_put_nonspec; eauto.
  - (* ORename *)
    destruct (lookup a l) eqn:L; [|discriminate]. destruct (String.eqb a b) eqn:AB; inversion E; subst.
    + right. split.
      * rewrite view_upd_same. unfold view. rewrite Hf. reflexivity.
      * intros e Hd Hs _. rewrite <- Hs. apply survives_ext. rewrite Hd, upd_same. symmetry. exact Hf.
    + left. exists (Ev Rename d a). split; [left; reflexivity|]. split; [reflexivity|]. rewrite accepts_ev. reflexivity.
  - (* OMoveOut *)
    destruct (lookup n l); [|discriminate]. inversion E; subst.
    left. exists (Ev Rename d n). split; [left; reflexivity|]. split; [reflexivity|]. rewrite accepts_ev. reflexivity.
  - (* ORemove *)
    destruct (lookup n l); [|discriminate]. inversion E; subst.
    left. exists (Ev Remove d n). split; [left; reflexivity|]. split; [reflexivity|]. rewrite accepts_ev. reflexivity.
  - (* ORmAll *)
    inversion E; subst. left. exists (EvSelf d). split; [apply in_or_app; right; left; reflexivity|].
    split; reflexivity.
Qed.

(* ---------- invariants ---------- *)
Section Inv.
  Variable dirs : list dname.

  Definition firesk (s : state) (e : event) : bool := survives (fs s) e && accepts V e.
  Definition pending (s : state) (d : dname) : Prop :=
    (exists e, In e (kq s) /\ edir e = d /\ firesk s e = true) \/
    (exists e, In e (cq s) /\ edir e = d /\ accepts V e = true).

  (* I0: the keys of tracked are the configured directories *)
  Definition I0 s := forall d, tr s d = None <-> mem_s d dirs = false.
  (* I1: a kernel watch exists only on a tracked, existing directory *)
  Definition I1 s := forall d, kw s d = true -> tr s d = Some true /\ ex (fs s) d = true.
  (* I2: a tracked directory without a kernel watch has its own removal event pending *)
  Definition I2 s := forall d, tr s d = Some true -> kw s d = false -> In (EvSelf d) (kq s) \/ In (EvSelf d) (cq s).
  (* I3 (per directory): the cached view is current, or an event that will cause a refresh is pending,
     or the directory exists untracked (the next query re-adds it and refreshes) *)
  Definition I3 s := forall d, mem_s d dirs = true ->
    cache s d = view (fs s) d \/ pending s d \/ (tr s d = Some false /\ ex (fs s) d = true).
  (* I4: an unwatched directory contributes nothing to the cached view *)
  Definition I4 s := forall d, tr s d <> Some true -> cache s d = [].
  (* I5: a configured directory is reported in error exactly while it is untracked *)
  Definition I5 s := forall d, derr s d = true <-> tr s d = Some false.
  Definition Inv s := I0 s /\ I1 s /\ I2 s /\ I3 s /\ I4 s /\ I5 s.

  Ltac inv_split := unfold Inv, I0, I1, I2, I3, I4, I5; split; [|split; [|split; [|split; [|split]]]].

  Lemma init_inv f : Inv (init dirs f).
  Proof.
    unfold init, Inv, I0, I1, I2, I3, I4, I5. cbn [fs kw tr derr kq cq cache].
    split; [|split; [|split; [|split; [|split]]]].
    - intro d. destruct (mem_s d dirs); split; intro; congruence.
    - intros d H. apply andb_true_iff in H as [M X]. rewrite M, X. split; reflexivity.
    - intros d T K. destruct (mem_s d dirs); [|discriminate]. cbn [andb] in K. congruence.
    - intros d M. left. unfold scan. rewrite M. reflexivity.
    - intros d T. unfold scan. destruct (mem_s d dirs); [|reflexivity].
      unfold view, ex, is_some in *. destruct (f d); [exfalso; apply T; reflexivity|reflexivity].
    - intro d. destruct (mem_s d dirs); cbn [andb]; [|split; discriminate].
      destruct (ex f d); cbn [negb]; split; intro; congruence.
  Qed.

  Lemma pending_self s d : In (EvSelf d) (kq s) \/ In (EvSelf d) (cq s) -> pending s d.
  Proof.
    intros [H|H]; [left|right]; exists (EvSelf d); (split; [exact H|split; reflexivity]).
  Qed.

  (* file-system operations *)
  Lemma apply_inv s o : Inv s -> Inv (apply_op s o).
  Proof.
    intros (H0 & H1 & H2 & H3 & H4 & H5). unfold apply_op.
    destruct (op_effect (fs s) o) as [[nd evs]|] eqn:E; [|inv_split; assumption].
    destruct (op_effect_spec _ _ _ _ E) as [Hev Hself].
    assert (Hkq : forall e, In e (kq s) -> In e (if kw s (odir o) then (kq s ++ evs)%list else kq s)).
    { intros e He. destruct (kw s (odir o)); [apply in_or_app; left|]; exact He. }
    assert (Hkw : forall d, (match nd with None => upd (kw s) (odir o) false | Some _ => kw s end) d = true -> kw s d = true).
    { intros d. destruct nd; [tauto|]. unfold upd. destruct (String.eqb d (odir o)); [discriminate|tauto]. }
    inv_split; cbn [fs kw tr derr kq cq cache].
    - exact H0.
    - (* I1 *)
      intros d H. pose proof (Hkw d H) as K. destruct (H1 d K) as [T X]. split; [exact T|].
      destruct (String.eqb d (odir o)) eqn:D.
      + apply String.eqb_eq in D. subst d. rewrite ex_upd_same. destruct nd; [reflexivity|].
        rewrite upd_same in H. discriminate.
      + apply String.eqb_neq in D. unfold ex. rewrite upd_other by exact D. exact X.
    - (* I2 *)
      intros d T K. destruct (kw s d) eqn:K0.
      + (* the watch was lost by this very operation *)
        destruct nd as [l|]; [congruence|].
        destruct (String.eqb d (odir o)) eqn:D; [|apply String.eqb_neq in D; rewrite upd_other in K by exact D; congruence].
        apply String.eqb_eq in D. subst d. left. rewrite K0. apply in_or_app. right. apply Hself. reflexivity.
      + destruct (H2 d T K0) as [H|H]; [left; apply Hkq; exact H|right; exact H].
    - (* I3 *)
      intros d M. destruct (String.eqb d (odir o)) eqn:D.
      + apply String.eqb_eq in D. subst d. destruct (kw s (odir o)) eqn:K.
        * destruct (H1 (odir o) K) as [T X].
          destruct (op_watched _ _ _ _ E X) as [(e & He & Hs & Ha)|[Hv Hp]].
          -- right. left. left. exists e. split; [apply in_or_app; right; exact He|]. split.
             ++ rewrite Forall_forall in Hev. apply Hev. exact He.
             ++ unfold firesk. cbn [fs]. rewrite Hs, Ha. reflexivity.
          -- destruct (H3 (odir o) M) as [C|[[(e & He & Hd & Hf)|(e & He & Hd & Ha)]|[T' _]]].
             ++ left. rewrite Hv. exact C.
             ++ right. left. left. exists e. split; [apply in_or_app; left; exact He|]. split; [exact Hd|].
                unfold firesk in *. cbn [fs]. apply andb_true_iff in Hf as [Hs Ha]. rewrite Ha, (Hp e Hd Hs Ha). reflexivity.
             ++ right. left. right. exists e. auto.
             ++ congruence.
        * destruct (tr s (odir o)) as [[|]|] eqn:T.
          -- right. left. destruct (H2 (odir o) T K) as [H|H].
             ++ left. exists (EvSelf (odir o)). split; [exact H|split; reflexivity].
             ++ right. exists (EvSelf (odir o)). split; [exact H|split; reflexivity].
          -- destruct (ex (upd (fs s) (odir o) nd) (odir o)) eqn:X.
             ++ right. right. split; reflexivity.
             ++ left. rewrite H4 by congruence. rewrite view_upd_same. rewrite ex_upd_same in X.
                destruct nd; [discriminate|reflexivity].
          -- apply H0 in T. congruence.
      + apply String.eqb_neq in D.
        assert (Hfs : upd (fs s) (odir o) nd d = fs s d) by (apply upd_other; exact D).
        destruct (H3 d M) as [C|[[(e & He & Hd & Hf)|(e & He & Hd & Ha)]|[T X]]].
        * left. unfold view. rewrite Hfs. exact C.
        * right. left. left. exists e. split; [apply Hkq; exact He|]. split; [exact Hd|].
          unfold firesk in *. cbn [fs]. rewrite (survives_ext (fs s)); [exact Hf|]. rewrite Hd. exact Hfs.
        * right. left. right. exists e. auto.
        * right. right. split; [exact T|]. unfold ex. rewrite Hfs. exact X.
    - exact H4.
    - exact H5.
  Qed.

  Lemma noise_inv s o d n : Inv s -> Inv (noise s o d n).
  Proof.
    intros (H0 & H1 & H2 & H3 & H4 & H5). unfold noise. inv_split; cbn [fs kw tr derr kq cq cache];
      [exact H0|exact H1| | |exact H4|exact H5].
    - intros d' T K. destruct (H2 d' T K) as [H|H]; [left; apply in_or_app; left; exact H|right; exact H].
    - intros d' M. destruct (H3 d' M) as [C|[[(e & He & Hd & Hf)|P]|R]]; auto.
      + right. left. left. exists e. split; [apply in_or_app; left; exact He|]. split; assumption.
      + right. left. right. exact P.
  Qed.

  (* fsnotify reads one kernel event *)
  Lemma read_inv s : Inv s -> Inv (read s).
  Proof.
    intros (H0 & H1 & H2 & H3 & H4 & H5). unfold read. destruct (kq s) as [|e r] eqn:Q; [inv_split; assumption|].
    assert (Hcq : forall x, In x (cq s) -> In x (if survives (fs s) e then (cq s ++ [e])%list else cq s)).
    { intros x Hx. destruct (survives (fs s) e); [apply in_or_app; left|]; exact Hx. }
    inv_split; cbn [fs kw tr derr kq cq cache]; [exact H0|exact H1| | |exact H4|exact H5].
    - intros d T K. destruct (H2 d T K) as [H|H].
      + rewrite Q in H. destruct H as [->|H]; [|left; exact H].
        right. rewrite survives_self. apply in_or_app. right. left. reflexivity.
      + right. apply Hcq. exact H.
    - intros d M. destruct (H3 d M) as [C|[[(x & Hx & Hd & Hf)|(x & Hx & Hd & Ha)]|R]]; auto.
      + rewrite Q in Hx. destruct Hx as [<-|Hx].
        * right. left. right. exists e. unfold firesk in Hf. apply andb_true_iff in Hf as [Hs Ha].
          rewrite Hs. split; [apply in_or_app; right; left; reflexivity|]. split; assumption.
        * right. left. left. exists x. split; [exact Hx|]. split; assumption.
      + right. left. right. exists x. split; [apply Hcq; exact Hx|]. split; assumption.
  Qed.

  (* update() + refresh() under the lock, as run for an accepted event (removed: the directory whose own removal
     event is being handled, if it was tracked) and by a query that added a directory *)
  Lemma upref_inv s c' removed :
    I0 s -> I1 s -> I5 s ->
    (forall d, removed = Some d -> tr s d = Some true) ->
    (forall d, tr s d = Some true -> kw s d = false -> removed <> Some d -> In (EvSelf d) (kq s) \/ In (EvSelf d) c') ->
    Inv (refresh dirs (fst (update V dirs (mkst (fs s) (kw s) (tr s) (derr s) (kq s) c' (cache s)) removed))).
  Proof.
    intros H0 H1 H5 Hrem H2.
    unfold update, refresh. cbn [v_removed_first fixed_variant fst fs kw tr derr kq cq cache].
    set (f := fs s). set (t1 := mark_tr removed (tr s)).
    assert (Ht1 : forall d, t1 d = Some false \/ (t1 d = tr s d /\ removed <> Some d)).
    { intro d. subst t1. unfold mark_tr. destruct removed as [r|]; [|right; split; [reflexivity|discriminate]].
      destruct (String.eqb d r) eqn:D.
      - apply String.eqb_eq in D. subst. left. apply upd_same.
      - apply String.eqb_neq in D. right. split; [apply upd_other; exact D|congruence]. }
    assert (Hnone : forall d, t1 d = None <-> tr s d = None).
    { intro d. destruct (Ht1 d) as [E|[E _]]; [|rewrite E; tauto].
      rewrite E. split; [discriminate|]. intro N. subst t1. unfold mark_tr in E. destruct removed as [r|]; [|congruence].
      destruct (String.eqb d r) eqn:D.
      - apply String.eqb_eq in D. subst. rewrite (Hrem r eq_refl) in N. discriminate.
      - apply String.eqb_neq in D. rewrite upd_other in E by exact D. congruence. }
    inv_split; cbn [fs kw tr derr kq cq cache].
    - (* I0 *) intro d. split.
      + intro T. apply H0. apply Hnone. unfold readd_tr in T. destruct (t1 d) as [[|]|]; congruence.
      + intro M. apply H0 in M. apply Hnone in M. unfold readd_tr. rewrite M. reflexivity.
    - (* I1 *) intros d H. unfold readd_kw, readd_tr in *. destruct (Ht1 d) as [E|[E _]].
      + rewrite E in *. rewrite H. split; reflexivity.
      + rewrite E in *. destruct (tr s d) as [[|]|] eqn:T.
        * split; [reflexivity|apply (H1 d H)].
        * rewrite H. split; reflexivity.
        * destruct (H1 d H). congruence.
    - (* I2 *) intros d T K. unfold readd_kw, readd_tr in *. destruct (Ht1 d) as [E|[E N]].
      + rewrite E in *. inversion T. congruence.
      + rewrite E in *. destruct (tr s d) as [[|]|] eqn:T0; [|inversion T; congruence|discriminate].
        apply (H2 d T0 K N).
    - (* I3 *) intros d M. left. unfold scan. rewrite M. reflexivity.
    - (* I4 *) intros d T. unfold scan. destruct (mem_s d dirs) eqn:M; [|reflexivity].
      unfold readd_tr in T. destruct (t1 d) as [[|]|] eqn:E.
      + exfalso. apply T. reflexivity.
      + unfold view, ex, is_some in *. fold f. destruct (f d); [exfalso; apply T; reflexivity|reflexivity].
      + apply Hnone in E. apply H0 in E. congruence.
    - (* I5 *) intro d. unfold readd_derr, readd_tr. destruct (Ht1 d) as [E|[E N]].
      + rewrite E. destruct (ex f d); cbn [negb]; split; intro; congruence.
      + rewrite E. assert (X : mark_derr removed (derr s) d = derr s d).
        { unfold mark_derr. destruct removed as [r|]; [|reflexivity]. apply upd_other. congruence. }
        destruct (tr s d) as [[|]|] eqn:T.
        * rewrite X. rewrite (H5 d), T. tauto.
        * destruct (ex f d); cbn [negb]; split; intro; congruence.
        * rewrite X. rewrite (H5 d), T. tauto.
  Qed.

  (* the watcher goroutine handles one event *)
  Lemma handle_inv s : Inv s -> Inv (handle V dirs s).
  Proof.
    intros (H0 & H1 & H2 & H3 & H4 & H5). unfold handle. destruct (cq s) as [|e r] eqn:Q; [inv_split; assumption|].
    destruct (accepts V e) eqn:A.
    - apply upref_inv; try assumption.
      + intros d R. destruct e as [o d' n|d']; [discriminate|]. destruct (tr s d') as [[|]|] eqn:T; try discriminate.
        inversion R; subst. exact T.
      + intros d T K N. destruct (H2 d T K) as [H|H]; [left; exact H|]. rewrite Q in H.
        destruct H as [->|H]; [|right; exact H]. exfalso. apply N. rewrite T. reflexivity.
    - inv_split; cbn [fs kw tr derr kq cq cache]; [exact H0|exact H1| | |exact H4|exact H5].
      + intros d T K. destruct (H2 d T K) as [H|H]; [left; exact H|]. rewrite Q in H.
        destruct H as [->|H]; [|right; exact H]. rewrite accepts_self in A. discriminate.
      + intros d M. destruct (H3 d M) as [C|[[P|(x & Hx & Hd & Ha)]|R]]; auto.
        * right. left. left. exact P.
        * rewrite Q in Hx. destruct Hx as [<-|Hx]; [congruence|].
          right. left. right. exists x. split; [exact Hx|]. split; assumption.
  Qed.

  (* invariants only look at the state pointwise *)
  Lemma inv_ext s s' :
    fs s' = fs s -> kq s' = kq s -> cq s' = cq s ->
    (forall d, kw s' d = kw s d) -> (forall d, tr s' d = tr s d) -> (forall d, derr s' d = derr s d) ->
    (forall d, cache s' d = cache s d) -> Inv s -> Inv s'.
  Proof.
    intros Ef Ek Ec Ekw Etr Ede Eca (H0 & H1 & H2 & H3 & H4 & H5).
    inv_split.
    - intro d. rewrite Etr. apply H0.
    - intros d H. rewrite Etr, Ef. rewrite Ekw in H. apply (H1 d H).
    - intros d T K. rewrite Ek, Ec. rewrite Etr in T. rewrite Ekw in K. apply (H2 d T K).
    - intros d M. rewrite Eca, Etr, Ef. destruct (H3 d M) as [C|[P|R]]; auto.
      right. left. unfold pending, firesk in *. rewrite Ek, Ec, Ef. exact P.
    - intros d T. rewrite Eca. apply H4. rewrite <- Etr. exact T.
    - intro d. rewrite Ede, Etr. apply H5.
  Qed.

  Lemma readd_any_false f t d :
    readd_any dirs f t = false -> mem_s d dirs = true -> t d = Some false -> ex f d = false.
  Proof.
    intros H M T. unfold readd_any in H. destruct (ex f d) eqn:X; [|reflexivity].
    assert (existsb (fun d => match t d with Some false => ex f d | _ => false end) dirs = true); [|congruence].
    apply existsb_exists. exists d. split; [apply mem_s_In; exact M|]. rewrite T. exact X.
  Qed.

  (* a query *)
  Lemma query_inv s : Inv s -> Inv (query V dirs s).
  Proof.
    intros I. pose proof I as (H0 & H1 & H2 & H3 & H4 & H5). unfold query.
    destruct (update V dirs s None) as [s1 flag] eqn:U.
    assert (S1 : s1 = fst (update V dirs s None)) by (rewrite U; reflexivity).
    assert (F : flag = readd_any dirs (fs s) (tr s)) by (unfold update in U; inversion U; reflexivity).
    destruct flag.
    - subst s1. destruct s as [f k t e q c ca]. apply (upref_inv (mkst f k t e q c ca)); try assumption.
      + discriminate.
      + intros d T K _. apply (H2 d T K).
    - subst s1. symmetry in F.
      assert (Hx : forall d, tr s d = Some false -> ex (fs s) d = false).
      { intros d T. apply (readd_any_false _ _ _ F); [|exact T].
        destruct (mem_s d dirs) eqn:M; [reflexivity|]. apply H0 in M. congruence. }
      apply (inv_ext s); [reflexivity|reflexivity|reflexivity| | | |reflexivity|exact I];
        intro d; unfold update; cbn [v_removed_first fixed_variant fst fs kw tr derr kq cq cache mark_tr mark_derr].
      + unfold readd_kw. destruct (tr s d) as [[|]|] eqn:T; try reflexivity.
        rewrite (Hx d T). destruct (kw s d) eqn:K; [|reflexivity]. destruct (H1 d K). congruence.
      + unfold readd_tr. destruct (tr s d) as [[|]|] eqn:T; try reflexivity. rewrite (Hx d T). reflexivity.
      + unfold readd_derr. destruct (tr s d) as [[|]|] eqn:T; try reflexivity.
        rewrite (Hx d T). symmetry. apply H5. exact T.
  Qed.

  Lemma step_inv s l : Inv s -> Inv (step V dirs s l).
  Proof.
    intro I. destruct l; cbn [step].
    - apply apply_inv; exact I.
    - apply read_inv; exact I.
    - apply handle_inv; exact I.
    - apply handle_inv. apply read_inv. exact I.
    - apply query_inv; exact I.
    - apply noise_inv; exact I.
  Qed.

  Lemma run_inv ls : forall s, Inv s -> Inv (run V dirs s ls).
  Proof. induction ls as [|l r IH]; intros s I; [exact I|]. cbn [run fold_left]. apply IH. apply step_inv. exact I. Qed.

  Lemma reachable_inv f ls : Inv (run V dirs (init dirs f) ls).
  Proof. apply run_inv. apply init_inv. Qed.

  (* ---------- convergence ---------- *)
  Lemma query_fs s : fs (query V dirs s) = fs s.
  Proof. unfold query, update. cbn [v_removed_first fixed_variant]. destruct (_ || _); reflexivity. Qed.

  Lemma query_converges s :
    Inv s -> kq s = [] -> cq s = [] ->
    let s' := query V dirs s in
    forall d, mem_s d dirs = true -> cache s' d = view (fs s) d /\ derr s' d = negb (ex (fs s) d).
  Proof.
    intros (H0 & H1 & H2 & H3 & H4 & H5) Qk Qc s' d M. subst s'.
    assert (Hderr : derr (fst (update V dirs s None)) d = negb (ex (fs s) d)).
    { unfold update. cbn [v_removed_first fixed_variant fst derr mark_tr mark_derr]. unfold readd_derr.
      destruct (tr s d) as [[|]|] eqn:T; [|reflexivity|apply H0 in T; congruence].
      destruct (kw s d) eqn:K.
      - destruct (H1 d K) as [_ X]. rewrite X. destruct (derr s d) eqn:E; [apply H5 in E; congruence|reflexivity].
      - destruct (H2 d T K) as [H|H]; [rewrite Qk in H|rewrite Qc in H]; destruct H. }
    unfold query. destruct (update V dirs s None) as [s1 flag] eqn:U.
    assert (F : flag = readd_any dirs (fs s) (tr s)) by (unfold update in U; inversion U; reflexivity).
    cbn [fst] in Hderr. destruct flag.
    - split; [|exact Hderr]. unfold refresh. cbn [cache]. unfold scan. rewrite M.
      unfold update in U. inversion U. reflexivity.
    - split; [|exact Hderr].
      assert (C : cache s1 d = cache s d) by (unfold update in U; inversion U; reflexivity). rewrite C.
      destruct (H3 d M) as [E|[[(e & He & _)|(e & He & _)]|[T X]]].
      + exact E.
      + rewrite Qk in He. destruct He.
      + rewrite Qc in He. destruct He.
      + symmetry in F. rewrite (readd_any_false _ _ _ F M T) in X. discriminate.
  Qed.

  Lemma answer_ext s1 s2 :
    (forall d, In d dirs -> cache s1 d = cache s2 d) -> (forall d, In d dirs -> derr s1 d = derr s2 d) ->
    answer dirs s1 = answer dirs s2.
  Proof.
    intros Hc Hd. unfold answer.
    assert (E : map (fun d => (d, cache s1 d)) dirs = map (fun d => (d, cache s2 d)) dirs).
    { apply map_ext_in. intros d Hin. rewrite (Hc d Hin). reflexivity. }
    rewrite E. f_equal. f_equal.
    clear E Hc. induction dirs as [|d r IH]; [reflexivity|]. cbn [filter].
    rewrite (Hd d (or_introl eq_refl)). rewrite IH; [reflexivity|]. intros x Hx. apply Hd. right. exact Hx.
  Qed.

  Theorem convergence f ls :
    let s := run V dirs (init dirs f) ls in
    kq s = [] -> cq s = [] ->
    (forall d, In d dirs -> cache (query V dirs s) d = view (fs s) d) /\
    answer dirs (query V dirs s) = fresh dirs (fs s).
  Proof.
    intros s Qk Qc. pose proof (query_converges s (reachable_inv f ls) Qk Qc) as H. cbn zeta in H.
    split.
    - intros d Hd. apply H. apply mem_s_In. exact Hd.
    - unfold fresh. apply answer_ext; intros d Hd; apply mem_s_In in Hd; destruct (H d Hd) as [Hc He].
      + rewrite Hc. unfold init. cbn [cache]. unfold scan. rewrite Hd. reflexivity.
      + rewrite He. unfold init. cbn [derr]. rewrite Hd. reflexivity.
  Qed.

  (* ---------- when the operations cease the queues do drain ---------- *)
  Lemma handle_queues s : kq (handle V dirs s) = kq s /\ cq (handle V dirs s) = tl (cq s) /\ fs (handle V dirs s) = fs s.
  Proof.
    unfold handle. destruct (cq s) as [|e r] eqn:Q.
    - rewrite Q. repeat split; reflexivity.
    - destruct (accepts V e); [|repeat split; reflexivity].
      unfold refresh, update. cbn [v_removed_first fixed_variant fst fs kq cq]. repeat split; reflexivity.
  Qed.
  Lemma read_queues s :
    kq (read s) = tl (kq s) /\ fs (read s) = fs s /\
    (length (cq (read s)) <= length (cq s) + (if kq s then 0 else 1)) /\ (kq s = [] -> cq (read s) = cq s).
  Proof.
    unfold read. destruct (kq s) as [|e r] eqn:Q.
    - rewrite Q. cbn [tl]. repeat split; try reflexivity. lia.
    - cbn [kq cq fs tl]. repeat split; try reflexivity; [|discriminate].
      destruct (survives (fs s) e); [rewrite app_length; cbn [length]; lia|lia].
  Qed.

  Lemma deliver_measure s :
    let s' := step V dirs s LDeliver in
    fs s' = fs s /\ length (kq s') + length (cq s') <= pred (length (kq s) + length (cq s)).
  Proof.
    cbn [step]. destruct (handle_queues (read s)) as (Hk & Hc & Hf). destruct (read_queues s) as (Rk & Rf & Rl & Re).
    split; [congruence|]. rewrite Hk, Hc, Rk.
    destruct (kq s) as [|e r] eqn:Q.
    - rewrite (Re eq_refl). cbn [tl length]. destruct (cq s); cbn; lia.
    - cbn [tl length] in *. destruct (cq (read s)) as [|x y]; cbn [tl length] in *; lia.
  Qed.

  Lemma drain_quiescent n : forall s,
    length (kq s) + length (cq s) <= n ->
    let s' := drain V dirs n s in kq s' = [] /\ cq s' = [] /\ fs s' = fs s.
  Proof.
    induction n as [|n IH]; intros s H.
    - cbn [drain]. destruct (kq s), (cq s); cbn in H; try lia. auto.
    - cbn [drain]. destruct (deliver_measure s) as [Hf Hm]. cbn zeta in *.
      destruct (IH (step V dirs s LDeliver)) as (A & B & C); [lia|]. cbn zeta in *. rewrite Hf in C. auto.
  Qed.

  Lemma drain_is_run n : forall s, drain V dirs n s = run V dirs s (repeat LDeliver n).
  Proof. induction n as [|n IH]; intro s; [reflexivity|]. cbn [drain repeat run fold_left]. apply IH. Qed.

  (* for EVERY history: once the changes have ceased and the pending events have been delivered, a query answers
     like a freshly built cache *)
  Theorem eventual_convergence f ls :
    let s := run V dirs (init dirs f) ls in
    let s' := drain V dirs (length (kq s) + length (cq s)) s in
    fs s' = fs s /\ answer dirs (query V dirs s') = fresh dirs (fs s).
  Proof.
    intros s s'. destruct (drain_quiescent _ s (le_n _)) as (A & B & C). fold s' in A, B, C.
    split; [exact C|]. rewrite <- C. subst s' s. rewrite drain_is_run in *.
    unfold run in *. rewrite <- fold_left_app in *. apply convergence; assumption.
  Qed.
End Inv.
