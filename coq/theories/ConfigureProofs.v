(* ConfigureProofs.v — lemmas about the configure machine (Configure.v) behind property C20. *)
From Coq Require Import String Ascii List Bool Arith Lia.
From CDI Require Import Base Paths Configure.
Import ListNotations.
Open Scope string_scope.

(* ================================================================================================
   1. update / setup / configure in closed form
   ================================================================================================ *)
Definition upd_tr1 (tr : list (string * bool)) (rm : list string) : list (string * bool) :=
  map (fun kv : string * bool => if mem_s (fst kv) rm then (fst kv, false) else kv) tr.
Definition upd_tracked (fs_ : fsys) (o : bool) (tr : list (string * bool)) (rm : list string) : list (string * bool) :=
  map (fun kv : string * bool => if snd kv then kv else (fst kv, o && dir_exists fs_ (fst kv))) (upd_tr1 tr rm).
Definition upd_pending (tr : list (string * bool)) (rm : list string) : list string :=
  map fst (filter (fun kv : string * bool => negb (snd kv)) (upd_tr1 tr rm)).
Definition upd_direrrs (fs_ : fsys) (o : bool) (tr : list (string * bool)) (de rm : list string) : list string :=
  norm_set (filter (fun d => negb (mem_s d (upd_pending tr rm))) (rm ++ de)
            ++ filter (fun d => negb (o && dir_exists fs_ d)) (upd_pending tr rm))%list.
Definition upd_flag (fs_ : fsys) (o : bool) (tr : list (string * bool)) (rm : list string) : bool :=
  negb (match rm with [] => true | _ => false end) || existsb (fun d => o && dir_exists fs_ d) (upd_pending tr rm).

Lemma update_some fs_ o c rm x :
  watcher c = Some x ->
  update fs_ o c rm =
  (mkC (dirs c) (auto c) (Some x) (upd_tracked fs_ o (tracked c) rm) (upd_direrrs fs_ o (tracked c) (direrrs c) rm) (cached c),
   upd_flag fs_ o (tracked c) rm).
Proof. intros H. unfold update. rewrite H. reflexivity. Qed.

Lemma update_none fs_ o c rm : watcher c = None -> update fs_ o c rm = (c, true).
Proof. intros H. unfold update. rewrite H. reflexivity. Qed.

Lemma update_keeps fs_ o c rm :
  let c' := fst (update fs_ o c rm) in
  dirs c' = dirs c /\ auto c' = auto c /\ watcher c' = watcher c /\ cached c' = cached c /\
  map fst (tracked c') = map fst (tracked c).
Proof.
  destruct (watcher c) as [x|] eqn:W.
  - rewrite (update_some _ _ _ _ _ W). cbn [fst dirs auto watcher cached tracked]. repeat split; auto.
    unfold upd_tracked, upd_tr1. rewrite !map_map. apply map_ext. intros [k b]. cbn [fst snd].
    destruct (mem_s k rm); cbn [fst snd]; [reflexivity|]. destruct b; reflexivity.
  - rewrite (update_none _ _ _ _ W). cbn [fst]. repeat split; auto.
Qed.

(* ---- resources ---- *)
Definition res_pre (w : world) (wa : option wid) : Prop :=
  match wa with
  | None => open w = [] /\ gors w = []
  | Some x => (open w = [x] /\ gors w = [x]) \/ (open w = [] /\ gors w = [])
  end.
Definition res_ok (w : world) (c : cstate) : Prop :=
  match watcher c with
  | None => open w = [] /\ gors w = []
  | Some x => if auto c then open w = [x] /\ gors w = [x] else open w = [] /\ gors w = []
  end.
Definition Inv (w : world) : Prop :=
  match cache w with None => open w = [] /\ gors w = [] | Some c => res_ok w c end.

Lemma res_ok_pre w c : res_ok w c -> res_pre w (watcher c).
Proof. unfold res_ok, res_pre. destruct (watcher c); [destruct (auto c)|]; tauto. Qed.

Lemma remove_n_single x : remove_n x [x] = [].
Proof. unfold remove_n. cbn. rewrite Nat.eqb_refl. reflexivity. Qed.

(* the tracked map and directory errors watch.setup produces when a watcher can be created *)
Definition setup_tracked (fs_ : fsys) (ds : list string) : list (string * bool) :=
  upd_tracked fs_ true (map (fun d => (d, false)) (norm_set ds)) [].
Definition setup_direrrs (fs_ : fsys) (ds : list string) : list string :=
  upd_direrrs fs_ true (map (fun d => (d, false)) (norm_set ds)) [] [].
Definition scan_of (ok : bool) (ds : list string) (fs_ : fsys) : answer := if ok then view ds fs_ else empty_answer.

Ltac cfields := cbn [defdirs fs fd_ok next open gors cache dirs auto watcher tracked direrrs cached fst snd].

Lemma configure_spec w c os :
  res_pre w (watcher c) ->
  let cfg := fold_left apply_cfg os (dirs c, auto c) in
  let w' := configure w c os in
  defdirs w' = defdirs w /\ fs w' = fs w /\ fd_ok w' = fd_ok w /\
  exists c', cache w' = Some c' /\ dirs c' = fst cfg /\ auto c' = snd cfg /\
    cached c' = scan_of (fd_ok w) (fst cfg) (fs w) /\
    (if snd cfg then
       if fd_ok w then
         watcher c' = Some (next w) /\ open w' = [next w] /\ gors w' = [next w] /\
         tracked c' = setup_tracked (fs w) (fst cfg) /\ direrrs c' = setup_direrrs (fs w) (fst cfg)
       else
         watcher c' = None /\ open w' = [] /\ gors w' = [] /\
         tracked c' = map (fun d => (d, false)) (norm_set (fst cfg)) /\ direrrs c' = norm_set (fst cfg ++ [])%list
     else open w' = [] /\ gors w' = [] /\ direrrs c' = []).
Proof.
  intros P cfg w'. subst w'. unfold configure. fold cfg.
  Ltac fin := unfold set_cache, refresh, scan, scan_of; cfields;
    repeat match goal with H : _ = _ |- _ => rewrite H end;
    repeat split; auto; eexists; (split; [reflexivity|]); cfields; repeat split; auto.
  destruct cfg as [ds au] eqn:Ecfg. cbn [fst snd].
  (* stop *)
  assert (S : exists w2 wa2 tr2,
             stop w (mkC ds au (watcher c) (tracked c) [] (cached c)) = (w2, mkC ds au wa2 tr2 [] (cached c)) /\
             defdirs w2 = defdirs w /\ fs w2 = fs w /\ fd_ok w2 = fd_ok w /\ next w2 = next w /\ open w2 = [] /\ gors w2 = []).
  { unfold stop. cbn [watcher dirs auto tracked direrrs cached]. unfold res_pre in P.
    destruct (watcher c) as [x|].
    - eexists _, _, _. split; [reflexivity|]. cbn. repeat split; auto.
      + destruct P as [[-> _]|[-> _]]; [apply remove_n_single | reflexivity].
      + destruct P as [[_ ->]|[_ ->]]; [apply remove_n_single | reflexivity].
    - eexists _, _, _. split; [reflexivity|]. destruct P as [-> ->]. repeat split; auto. }
  destruct S as (w2 & wa2 & tr2 & -> & D2 & F2 & K2 & N2 & O2 & G2).
  cbn [auto].
  destruct au.
  - (* auto-refresh: setup, start *)
    unfold setup. cbn [dirs auto watcher tracked direrrs cached]. rewrite K2.
    destruct (fd_ok w) eqn:FD.
    + erewrite update_some by reflexivity. cbn [fst dirs auto watcher tracked direrrs cached].
      unfold start. cbn [watcher open defdirs fs fd_ok next gors cache]. unfold mem_n. cbn [existsb]. rewrite Nat.eqb_refl. cbn [orb].
      fin.
    + unfold start. cbn [watcher]. fin.
  - fin.
Qed.
