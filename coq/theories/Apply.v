(* Apply.v — executable model of ContainerEdits.Apply (pkg/cdi/container-edits.go:72-163), of
   fillMissingInfo (container-edits_unix.go:59-87), of the CDI->OCI mapping (oci.go) and of the
   runtime-tools generator calls Apply makes (generate.go at the pinned version). *)
From Coq Require Import String Ascii List Bool Arith ZArith.
From CDI Require Import Base SpecModel Paths Oci.
Import ListNotations.
Open Scope string_scope.

(* the lstat oracle: host path -> (type, major, minor) of a device node; None: missing or not a device node *)
Definition hostfn := string -> option (string * Z * Z).
Fixpoint host_of (l : list (string * (string * Z * Z))) : hostfn :=
  fun p => match l with
           | [] => None
           | (q, info) :: r => if String.eqb p q then Some info else host_of r p
           end.

(* ---------------- environment (generate.go: createEnvCacheMap, AddMultipleProcessEnv, addEnv) ------------ *)
Definition env_name (entry : string) : string :=
  match split_first "=" entry with Some (n, _) => n | None => entry end.
Definition envmap := list (string * nat).
Fixpoint emap_get (k : string) (m : envmap) : option nat :=
  match m with [] => None | (k', i) :: r => if String.eqb k k' then Some i else emap_get k r end.
Definition emap_set (k : string) (i : nat) (m : envmap) : envmap := (k, i) :: m.
(* the cache built from the initial env is keyed by the WHOLE entry (the dependency's defect, finding F1) *)
Fixpoint env_cache_aux (env : list string) (i : nat) (m : envmap) : envmap :=
  match env with [] => m | e :: r => env_cache_aux r (S i) (emap_set e i m) end.
Definition env_cache (env : list string) : envmap := env_cache_aux env 0 [].
Fixpoint list_set {A} (l : list A) (i : nat) (x : A) : list A :=
  match l, i with
  | [], _ => []
  | _ :: r, 0 => x :: r
  | y :: r, S i' => y :: list_set r i' x
  end.
Definition add_env (st : list string * envmap) (entry : string) : list string * envmap :=
  let '(env, m) := st in
  match emap_get (env_name entry) m with
  | Some idx => (list_set env idx entry, m)
  | None => ((env ++ [entry])%list, emap_set (env_name entry) (length env) m)
  end.
(* the generator alone: NewFromSpec on the env as it is, then AddMultipleProcessEnv *)
Definition gen_add_multiple_env (env : list string) (entries : list string) : list string :=
  fst (fold_left add_env entries (env, env_cache env)).
(* dropEnv (container-edits.go): the variables about to be set are removed from the OCI env first, because the generator
   would append a second definition instead of replacing the one that is there (its cache knows whole entries only) *)
Definition drop_env (env entries : list string) : list string :=
  filter (fun x => negb (mem_s (env_name x) (map env_name entries))) env.
Definition add_multiple_env (env : list string) (entries : list string) : list string :=
  gen_add_multiple_env (drop_env env entries) entries.

(* ---------------- device nodes ---------------- *)
Definition fill_missing (host : hostfn) (d : devnode) : result devnode :=
  let hp := if String.eqb (dn_hostpath d) "" then dn_path d else dn_hostpath d in
  let d1 := mkDevnode (dn_path d) hp (dn_type d) (dn_major d) (dn_minor d) (dn_filemode d) (dn_perms d) (dn_uid d) (dn_gid d) in
  if negb (String.eqb (dn_type d) "") && (negb (Z.eqb (dn_major d) 0) || String.eqb (dn_type d) "p") then Ok d1
  else match host hp with
       | None => Err
       | Some (t, ma, mi) =>
           if negb (String.eqb (dn_type d) "") && negb (String.eqb (dn_type d) t) then Err
           else
             let ty := if String.eqb (dn_type d) "" then t else dn_type d in
             let '(ma', mi') := if Z.eqb (dn_major d) 0 && negb (String.eqb ty "p") then (ma, mi) else (dn_major d, dn_minor d) in
             Ok (mkDevnode (dn_path d) hp ty ma' mi' (dn_filemode d) (dn_perms d) (dn_uid d) (dn_gid d))
       end.

Definition devnode_to_oci (d : devnode) : ocidev :=
  mkOciDev (dn_path d) (dn_type d) (dn_major d) (dn_minor d) (dn_filemode d) (dn_uid d) (dn_gid d).

(* RemoveDevice: first match only *)
Fixpoint remove_first {A} (p : A -> bool) (l : list A) : list A :=
  match l with [] => [] | x :: r => if p x then r else x :: remove_first p r end.
(* AddDevice: overwrite the first remaining match in place, else append *)
Fixpoint add_device (dev : ocidev) (l : list ocidev) : list ocidev :=
  match l with
  | [] => [dev]
  | x :: r => if String.eqb (od_path x) (od_path dev) then dev :: r else x :: add_device dev r
  end.

Definition apply_node (host : hostfn) (o : oci) (d : devnode) : result oci :=
  match fill_missing host d with
  | Err => Err | Panic => Panic
  | Ok dn =>
      let dev0 := devnode_to_oci dn in
      let uid := match od_uid dev0 with None => if (0 <? o_uid o)%Z then Some (o_uid o) else None | u => u end in
      let gid := match od_gid dev0 with None => if (0 <? o_gid o)%Z then Some (o_gid o) else None | g => g end in
      let dev := mkOciDev (od_path dev0) (od_type dev0) (od_major dev0) (od_minor dev0) (od_filemode dev0) uid gid in
      let devs := add_device dev (remove_first (fun x => String.eqb (od_path x) (od_path dev)) (o_devices o)) in
      let o1 := set_devices o devs in
      if String.eqb (od_type dev) "b" || String.eqb (od_type dev) "c" then
        let access := if String.eqb (dn_perms d) "" then "rwm" else dn_perms d in
        Ok (set_cgroup o1 (o_cgroup o1 ++ [mkCgRule true (od_type dev) (Some (od_major dev)) (Some (od_minor dev)) access])%list)
      else Ok o1
  end.

(* ---------------- mounts ---------------- *)
Definition mount_to_oci (m : mount) : ocimount := mkOciMount (m_ctr m) (m_type m) (m_host m) (m_opts m) "".
Definition apply_mount (mounts : list ocimount) (m : mount) : list ocimount :=
  (remove_first (fun x => String.eqb (om_dest x) (m_ctr m)) mounts ++ [mount_to_oci m])%list.
Definition mount_depth (m : ocimount) : nat := count_char "/" (clean (om_dest m)).
(* insertion sort by depth, inserting after equal keys: THE stable sort (any stable sort gives the same list) *)
Fixpoint insert_mount (x : ocimount) (l : list ocimount) : list ocimount :=
  match l with
  | [] => [x]
  | y :: r => if Nat.ltb (mount_depth x) (mount_depth y) then x :: l else y :: insert_mount x r
  end.
Definition sort_mounts (l : list ocimount) : list ocimount := fold_left (fun acc x => insert_mount x acc) l [].

(* ---------------- hooks ---------------- *)
Definition hook_to_oci (h : hook) : ocihook := mkOciHook (h_path h) (h_args h) (h_env h) (h_timeout h).
Definition add_hook (hs : ocihooks) (h : hook) : result ocihooks :=
  let oh := hook_to_oci h in
  let n := h_name h in
  if String.eqb n "prestart" then Ok (mkOciHooks (hk_prestart hs ++ [oh]) (hk_create_runtime hs) (hk_create_container hs) (hk_start_container hs) (hk_poststart hs) (hk_poststop hs))%list
  else if String.eqb n "poststart" then Ok (mkOciHooks (hk_prestart hs) (hk_create_runtime hs) (hk_create_container hs) (hk_start_container hs) (hk_poststart hs ++ [oh]) (hk_poststop hs))%list
  else if String.eqb n "poststop" then Ok (mkOciHooks (hk_prestart hs) (hk_create_runtime hs) (hk_create_container hs) (hk_start_container hs) (hk_poststart hs) (hk_poststop hs ++ [oh]))%list
  else if String.eqb n "createRuntime" then Ok (mkOciHooks (hk_prestart hs) (hk_create_runtime hs ++ [oh]) (hk_create_container hs) (hk_start_container hs) (hk_poststart hs) (hk_poststop hs))%list
  else if String.eqb n "createContainer" then Ok (mkOciHooks (hk_prestart hs) (hk_create_runtime hs) (hk_create_container hs ++ [oh]) (hk_start_container hs) (hk_poststart hs) (hk_poststop hs))%list
  else if String.eqb n "startContainer" then Ok (mkOciHooks (hk_prestart hs) (hk_create_runtime hs) (hk_create_container hs) (hk_start_container hs ++ [oh]) (hk_poststart hs) (hk_poststop hs))%list
  else Err.

(* ---------------- additional gids ---------------- *)
Definition add_gid (gids : list Z) (g : Z) : list Z :=
  if Z.eqb g 0 then gids else if existsb (Z.eqb g) gids then gids else (gids ++ [g])%list.

(* ---------------- Apply ---------------- *)
(* the outcome: the (possibly partially) edited spec and whether an error was returned / a nil entry dereferenced *)
Fixpoint apply_nodes (host : hostfn) (o : oci) (l : list (option devnode)) : oci * nat :=
  match l with
  | [] => (o, 0)
  | None :: _ => (o, 2)
  | Some d :: r => match apply_node host o d with
                   | Ok o' => apply_nodes host o' r
                   | Err => (o, 1)
                   | Panic => (o, 2)
                   end
  end.
Fixpoint apply_mounts (ms : list ocimount) (l : list (option mount)) : list ocimount * nat :=
  match l with
  | [] => (ms, 0)
  | None :: _ => (ms, 2)
  | Some m :: r => apply_mounts (apply_mount ms m) r
  end.
Fixpoint apply_hooks (hs : ocihooks) (l : list (option hook)) : ocihooks * nat :=
  match l with
  | [] => (hs, 0)
  | None :: _ => (hs, 2)
  | Some h :: r => match add_hook hs h with Ok hs' => apply_hooks hs' r | _ => (hs, 1) end
  end.

(* returns the spec after the call and the outcome class: 0 ok, 1 error returned, 2 panic *)
Definition apply (host : hostfn) (e : edits) (o : oci) : oci * nat :=
  let o1 := match e_env e with [] => o | env => set_env o (add_multiple_env (o_env o) env) end in
  let '(o2, c2) := apply_nodes host o1 (e_nodes e) in
  if negb (Nat.eqb c2 0) then (o2, c2) else
  let '(o3, c3) := match e_mounts e with
                   | [] => (o2, 0)
                   | ms => let '(l, c) := apply_mounts (o_mounts o2) ms in
                           if Nat.eqb c 0 then (set_mounts o2 (sort_mounts l), 0) else (set_mounts o2 l, c)
                   end in
  if negb (Nat.eqb c3 0) then (o3, c3) else
  let '(hs, c4) := apply_hooks (o_hooks o3) (e_hooks e) in
  let o4 := set_hooks o3 hs in
  if negb (Nat.eqb c4 0) then (o4, c4) else
  let o5 := match e_rdt e with Some r => set_rdt o4 (Some r) | None => o4 end in
  (set_gids o5 (fold_left add_gid (e_gids e) (o_gids o5)), 0).

(* Append: container-edits.go:200-221 *)
Definition append_edits (a b : edits) : edits :=
  mkEdits (e_env a ++ e_env b) (e_nodes a ++ e_nodes b) (e_hooks a ++ e_hooks b) (e_mounts a ++ e_mounts b)
          (match e_rdt b with Some r => Some r | None => e_rdt a end) (e_gids a ++ e_gids b).
