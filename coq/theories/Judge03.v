(* Judge03.v — evaluation of harness cases for C03 (ContainerEdits.Apply). *)
From Coq Require Import String Ascii List Bool Arith ZArith.
From CDI Require Import Base SpecModel Paths Oci Apply ApplySpec.
Import ListNotations.
Open Scope string_scope.

(* mode: 0 = whole postcondition, 1 = everything but the environment, 2 = the environment only
   (inputs inside the class of known finding C03/env-existing-name are emitted as a mode-1 and a mode-2 case) *)
Inductive case03 :=
  C03 (mode : nat) (host : list (string * (string * Z * Z))) (e : edits) (o o' : oci) (outcome : nat).

Definition corr03 (c : case03) : bool :=
  match c with
  | C03 _ host e o o' outcome =>
      let '(m, c) := apply (host_of host) e o in oci_eqb m o' && Nat.eqb c outcome
  end.

Definition oracle03 (c : case03) : bool :=
  match c with
  | C03 mode host e o o' outcome =>
      negb (Nat.eqb outcome 2) &&
      (if wf_initial o && valid_edits e then
         let h := host_of host in
         let defined := match all_some (map (expected_dev h (o_uid o) (o_gid o)) (somes (e_nodes e))) with Some _ => true | None => false end in
         Bool.eqb (Nat.eqb outcome 0) defined &&
         (if Nat.eqb outcome 0 then
            (if Nat.eqb mode 2 then true else apply_post_but_env h e o o') &&
            (if Nat.eqb mode 1 then true else env_post (o_env o) (e_env e) (o_env o'))
          else true)
       else true)
  end.

Definition judge03 (cases : list case03) : list nat * list nat :=
  (bad_indices corr03 0 cases, bad_indices oracle03 0 cases).
