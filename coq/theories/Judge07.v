(* Judge07.v — evaluation of harness cases for C07: correspondence of the parser model with the
   observed behaviour of pkg/parser, and the property's oracle on the observed outputs. *)
From Coq Require Import String Ascii List Bool Arith.
From CDI Require Import Base Parser.
Import ListNotations.
Open Scope string_scope.

Definition triple := (string * string * string)%type.
Definition triple_eqb (a b : triple) : bool :=
  let '(a1, a2, a3) := a in let '(b1, b2, b3) := b in
  String.eqb a1 b1 && String.eqb a2 b2 && String.eqb a3 b3.

Record obs07 := mkObs07 {
  o_pqn : option (triple * bool);        (* ParseQualifiedName: parts, err<>nil; None = panicked *)
  o_isq : option bool;                   (* IsQualifiedName *)
  o_pd : option triple;                  (* ParseDevice *)
  o_pq : option (string * string);       (* ParseQualifier *)
  o_vv : option bool;                    (* ValidateVendorName returned an error *)
  o_vc : option bool;                    (* ValidateClassName returned an error *)
  o_vd : option bool                     (* ValidateDeviceName returned an error *)
}.

Inductive case07 :=
| CStr (s : string) (o : obs07)
| CTriple (v c n : string) (q : option string).   (* QualifiedName(v,c,n) *)

Definition res_err (r : result unit) : option bool :=
  match r with Ok _ => Some false | Err => Some true | Panic => None end.

Definition model07 (s : string) : obs07 :=
  let '(r, out) := parse_qualified_name s in
  {| o_pqn := match r with Panic => None | Ok _ => Some (out, false) | Err => Some (out, true) end;
     o_isq := match is_qualified_name s with Ok b => Some b | _ => None end;
     o_pd := Some (parse_device s);
     o_pq := Some (parse_qualifier s);
     o_vv := res_err (validate_vc s);
     o_vc := res_err (validate_vc s);
     o_vd := res_err (validate_dn s) |}.

Definition obs07_eqb (a b : obs07) : bool :=
  option_eqb (pair_eqb triple_eqb Bool.eqb) (o_pqn a) (o_pqn b) &&
  option_eqb Bool.eqb (o_isq a) (o_isq b) &&
  option_eqb triple_eqb (o_pd a) (o_pd b) &&
  option_eqb (pair_eqb String.eqb String.eqb) (o_pq a) (o_pq b) &&
  option_eqb Bool.eqb (o_vv a) (o_vv b) &&
  option_eqb Bool.eqb (o_vc a) (o_vc b) &&
  option_eqb Bool.eqb (o_vd a) (o_vd b).

Definition corr07 (c : case07) : bool :=
  match c with
  | CStr s o => obs07_eqb (model07 s) o
  | CTriple v c n q => option_eqb String.eqb q (Some (qualified_name v c n))
  end.

(* The property, evaluated on what the implementation returned (no reference to the parser model):
   success  => the parts satisfy the grammar and recompose to the input;
   failure  => ("", "", input) is returned and the input has no decomposition at all;
   the validators decide VC / DN; nothing panics. *)
Definition oracle07 (c : case07) : bool :=
  match c with
  | CStr s o =>
      match o_pqn o with
      | Some ((v, c, n), false) =>
          vc_b v && vc_b c && dn_b n && String.eqb s (qualified_name v c n)
      | Some ((v, c, n), true) =>
          String.eqb v "" && String.eqb c "" && String.eqb n s && negb (exists_qn s)
      | None => false
      end &&
      option_eqb Bool.eqb (o_isq o) (Some (exists_qn s)) &&
      option_eqb Bool.eqb (o_vv o) (Some (negb (vc_b s))) &&
      option_eqb Bool.eqb (o_vc o) (Some (negb (vc_b s))) &&
      option_eqb Bool.eqb (o_vd o) (Some (negb (dn_b s))) &&
      match o_pd o with Some _ => true | None => false end &&
      match o_pq o with Some _ => true | None => false end
  | CTriple v c n q => option_eqb String.eqb q (Some (v ++ "/" ++ c ++ "=" ++ n))
  end.

Definition judge07 (cases : list case07) : list nat * list nat :=
  (bad_indices corr07 0 cases, bad_indices oracle07 0 cases).
