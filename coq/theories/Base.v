(* Base.v — shared vocabulary of the CDI models: Go call results (value / error / panic),
   byte classes, byte strings, list helpers.  Executable definitions plus their basic lemmas. *)
From Coq Require Import String Ascii List Bool Arith NArith ZArith Lia.
Import ListNotations.
Open Scope string_scope.

(* Result of a modelled Go call: value, error return, or run-time panic. *)
Inductive result (A : Type) : Type :=
| Ok (a : A)
| Err
| Panic.
Arguments Ok {A} a. Arguments Err {A}. Arguments Panic {A}.

Definition bind {A B} (r : result A) (f : A -> result B) : result B :=
  match r with Ok a => f a | Err => Err | Panic => Panic end.

Definition is_ok {A} (r : result A) : bool := match r with Ok _ => true | _ => false end.
Definition is_err {A} (r : result A) : bool := match r with Err => true | _ => false end.
Definition is_panic {A} (r : result A) : bool := match r with Panic => true | _ => false end.

(* outcome class of a Go call as observed by the harness: 0 = ok, 1 = error, 2 = panic *)
Definition rclass {A} (r : result A) : nat := match r with Ok _ => 0 | Err => 1 | Panic => 2 end.

(* ---- byte classes ---- *)
Definition byte_in (lo hi : N) (c : ascii) : bool :=
  let n := N_of_ascii c in (lo <=? n)%N && (n <=? hi)%N.
Definition is_upper (c : ascii) : bool := byte_in 65 90 c.
Definition is_lower (c : ascii) : bool := byte_in 97 122 c.
Definition is_letter (c : ascii) : bool := byte_in 65 90 c || byte_in 97 122 c.
Definition is_digit (c : ascii) : bool := byte_in 48 57 c.
Definition is_alnum (c : ascii) : bool := is_letter c || is_digit c.

Definition to_lower_c (c : ascii) : ascii :=
  if is_upper c then ascii_of_N (N_of_ascii c + 32) else c.

(* ---- strings ---- *)
Fixpoint forallb_s (p : ascii -> bool) (s : string) : bool :=
  match s with EmptyString => true | String c r => p c && forallb_s p r end.

Fixpoint existsb_s (p : ascii -> bool) (s : string) : bool :=
  match s with EmptyString => false | String c r => p c || existsb_s p r end.

Fixpoint contains (x : ascii) (s : string) : bool :=
  match s with EmptyString => false | String c r => Ascii.eqb c x || contains x r end.

Fixpoint map_s (f : ascii -> ascii) (s : string) : string :=
  match s with EmptyString => EmptyString | String c r => String (f c) (map_s f r) end.
Definition to_lower (s : string) : string := map_s to_lower_c s.

Fixpoint count_char (x : ascii) (s : string) : nat :=
  match s with EmptyString => 0 | String c r => (if Ascii.eqb c x then 1 else 0) + count_char x r end.

(* strings.SplitN(s, sep, 2) for a one-byte separator: None when sep does not occur *)
Fixpoint split_first (sep : ascii) (s : string) : option (string * string) :=
  match s with
  | EmptyString => None
  | String c r =>
      if Ascii.eqb c sep then Some (EmptyString, r)
      else match split_first sep r with
           | Some (a, b) => Some (String c a, b)
           | None => None
           end
  end.

(* strings.Split(s, sep) for a one-byte separator (never returns the empty list) *)
Fixpoint split_all (sep : ascii) (s : string) : list string :=
  match s with
  | EmptyString => [EmptyString]
  | String c r =>
      if Ascii.eqb c sep then EmptyString :: split_all sep r
      else match split_all sep r with
           | x :: xs => String c x :: xs
           | [] => [String c EmptyString]
           end
  end.

Fixpoint join_with (sep : string) (l : list string) : string :=
  match l with [] => "" | [x] => x | x :: r => x ++ sep ++ join_with sep r end.

(* strings.ReplaceAll(s, old, new) for one-byte old and new *)
Definition replace_char (o n : ascii) (s : string) : string :=
  map_s (fun c => if Ascii.eqb c o then n else c) s.

Fixpoint has_prefix (p s : string) : bool :=
  match p, s with
  | EmptyString, _ => true
  | String a p', String b s' => Ascii.eqb a b && has_prefix p' s'
  | _, _ => false
  end.

Fixpoint drop_s (n : nat) (s : string) : string :=
  match n, s with 0, _ => s | S n', String _ r => drop_s n' r | _, EmptyString => EmptyString end.

Definition trim_prefix (p s : string) : string :=
  if has_prefix p s then drop_s (String.length p) s else s.

Definition has_suffix (suf s : string) : bool :=
  let ls := String.length s in let lf := String.length suf in
  Nat.leb lf ls && String.eqb (drop_s (ls - lf) s) suf.

(* Go slice s[i:j] on strings: panics unless i <= j <= len s *)
Definition go_slice (s : string) (i j : nat) : result string :=
  if Nat.leb i j && Nat.leb j (String.length s) then Ok (substring i (j - i) s) else Panic.

Definition last_char (s : string) : option ascii :=
  match s with EmptyString => None | _ => get (String.length s - 1) s end.

Definition first_char (s : string) : option ascii :=
  match s with EmptyString => None | String c _ => Some c end.

(* byte-lexical order on strings, as Go's < on strings *)
Fixpoint str_ltb (a b : string) : bool :=
  match a, b with
  | EmptyString, EmptyString => false
  | EmptyString, String _ _ => true
  | String _ _, EmptyString => false
  | String x a', String y b' =>
      if (N_of_ascii x <? N_of_ascii y)%N then true
      else if (N_of_ascii y <? N_of_ascii x)%N then false
      else str_ltb a' b'
  end.
Definition str_leb (a b : string) : bool := negb (str_ltb b a).

(* ---- list helpers ---- *)
Fixpoint list_eqb {A} (eqb : A -> A -> bool) (l1 l2 : list A) : bool :=
  match l1, l2 with
  | [], [] => true
  | x :: r1, y :: r2 => eqb x y && list_eqb eqb r1 r2
  | _, _ => false
  end.

Definition option_eqb {A} (eqb : A -> A -> bool) (a b : option A) : bool :=
  match a, b with
  | None, None => true
  | Some x, Some y => eqb x y
  | _, _ => false
  end.

Definition pair_eqb {A B} (ea : A -> A -> bool) (eb : B -> B -> bool) (x y : A * B) : bool :=
  ea (fst x) (fst y) && eb (snd x) (snd y).

Definition mem_s (x : string) (l : list string) : bool := existsb (String.eqb x) l.

Fixpoint insert_sorted (x : string) (l : list string) : list string :=
  match l with
  | [] => [x]
  | y :: r => if str_ltb y x then y :: insert_sorted x r else x :: l
  end.
Definition sort_strings (l : list string) : list string := fold_right insert_sorted [] l.

Fixpoint dedup_s (l : list string) : list string :=
  match l with
  | [] => []
  | x :: r => if mem_s x r then dedup_s r else x :: dedup_s r
  end.

(* indices (from i) of the elements where f is false — used by the case judges *)
Fixpoint bad_indices {A} (f : A -> bool) (i : nat) (l : list A) : list nat :=
  match l with
  | [] => []
  | x :: r => if f x then bad_indices f (S i) r else i :: bad_indices f (S i) r
  end.

(* ---- basic lemmas ---- *)
Lemma list_eqb_eq {A} (eqb : A -> A -> bool) :
  (forall x y, eqb x y = true <-> x = y) -> forall l1 l2, list_eqb eqb l1 l2 = true <-> l1 = l2.
Proof.
  intros H l1. induction l1 as [|x r IH]; intros [|y r2]; cbn; split; intro E; try congruence; try discriminate.
  - apply andb_true_iff in E as [E1 E2]. apply H in E1. apply IH in E2. congruence.
  - inversion E; subst. apply andb_true_iff. split; [apply H; reflexivity|apply IH; reflexivity].
Qed.

Lemma split_first_spec sep s a b :
  split_first sep s = Some (a, b) -> s = a ++ String sep b /\ contains sep a = false.
Proof.
  revert a b; induction s as [|c r IH]; cbn; intros a b H; [discriminate|].
  destruct (Ascii.eqb c sep) eqn:E.
  - apply Ascii.eqb_eq in E; subst. inversion H; subst; cbn; auto.
  - destruct (split_first sep r) as [[a' b']|] eqn:E2; [|discriminate].
    inversion H; subst. destruct (IH _ _ eq_refl) as [-> Hc]. cbn. rewrite E. auto.
Qed.

Lemma split_first_none sep s : split_first sep s = None <-> contains sep s = false.
Proof.
  induction s as [|c r IH]; cbn; [tauto|].
  destruct (Ascii.eqb c sep); cbn.
  - split; discriminate.
  - destruct (split_first sep r) as [[a b]|]; split; intro H; try discriminate.
    + apply IH in H. discriminate.
    + apply IH; reflexivity.
    + apply IH in H. exact H.
Qed.

Lemma split_first_complete sep a b :
  contains sep a = false -> split_first sep (a ++ String sep b) = Some (a, b).
Proof.
  induction a as [|c r IH]; cbn; intro H.
  - rewrite Ascii.eqb_refl. reflexivity.
  - apply orb_false_iff in H as [H1 H2]. rewrite H1, (IH H2). reflexivity.
Qed.

Lemma length_app a b : String.length (a ++ b) = String.length a + String.length b.
Proof. induction a; cbn; auto. Qed.

Lemma app_assoc_s a b c : (a ++ b) ++ c = a ++ (b ++ c).
Proof. induction a; cbn; congruence. Qed.

Lemma app_nil_r_s a : a ++ "" = a.
Proof. induction a; cbn; congruence. Qed.

Lemma forallb_s_app p a b : forallb_s p (a ++ b) = forallb_s p a && forallb_s p b.
Proof. induction a; cbn; [reflexivity|]. rewrite IHa, andb_assoc. reflexivity. Qed.

Lemma contains_app x a b : contains x (a ++ b) = contains x a || contains x b.
Proof. induction a; cbn; [reflexivity|]. rewrite IHa, orb_assoc. reflexivity. Qed.

Lemma forallb_not_contains p x s :
  forallb_s p s = true -> p x = false -> contains x s = false.
Proof.
  induction s as [|c r IH]; cbn; [reflexivity|]. intros H Hx.
  apply andb_true_iff in H as [Hc Hr]. rewrite (IH Hr Hx), orb_false_r.
  destruct (Ascii.eqb c x) eqn:E; [|reflexivity]. apply Ascii.eqb_eq in E. congruence.
Qed.

Lemma snoc_decomp s : s <> "" -> exists m l, s = m ++ String l "".
Proof.
  induction s as [|c r IH]; [congruence|]. intros _.
  destruct r as [|c' r'].
  - exists "", c. reflexivity.
  - destruct IH as (m & l & E); [discriminate|]. exists (String c m), l. cbn. rewrite <- E. reflexivity.
Qed.

Lemma eqb_empty_false s : s <> "" -> String.eqb s "" = false.
Proof. destruct s; [congruence|reflexivity]. Qed.

Lemma substring_prefix m r : substring 0 (String.length m) (m ++ r) = m.
Proof. induction m; cbn; [destruct r; reflexivity | congruence]. Qed.

Lemma get_snoc m l : get (String.length m) (m ++ String l "") = Some l.
Proof. induction m; cbn; auto. Qed.

Lemma split_all_nonnil sep s : split_all sep s <> [].
Proof.
  induction s as [|c r IH]; cbn; [discriminate|].
  destruct (Ascii.eqb c sep); [discriminate|]. destruct (split_all sep r); discriminate.
Qed.

Lemma split_all_nosep sep s : contains sep s = false -> split_all sep s = [s].
Proof.
  induction s as [|c r IH]; cbn; [reflexivity|]. intro H.
  apply orb_false_iff in H as [H1 H2]. rewrite H1, (IH H2). reflexivity.
Qed.

Lemma split_all_app sep a b :
  contains sep a = false -> split_all sep (a ++ String sep b) = a :: split_all sep b.
Proof.
  induction a as [|c r IH]; cbn; intro H.
  - rewrite Ascii.eqb_refl. reflexivity.
  - apply orb_false_iff in H as [H1 H2]. rewrite H1, (IH H2). reflexivity.
Qed.

Lemma split_join sep ds :
  ds <> [] -> Forall (fun d => contains sep d = false) ds ->
  split_all sep (join_with (String sep "") ds) = ds.
Proof.
  induction ds as [|d r IH]; [congruence|]. intros _ H. inversion H as [|? ? Hd Hr]; subst.
  destruct r as [|d2 r2].
  - cbn. apply split_all_nosep. exact Hd.
  - change (join_with (String sep "") (d :: d2 :: r2)) with (d ++ String sep "" ++ join_with (String sep "") (d2 :: r2)).
    change (String sep "" ++ join_with (String sep "") (d2 :: r2)) with (String sep (join_with (String sep "") (d2 :: r2))).
    rewrite split_all_app by exact Hd. f_equal. apply IH; [discriminate|exact Hr].
Qed.
