(* SpecModel.v — records mirroring specs-go/config.go.  List entries of pointer type are [option]
   (a null entry in a document decodes to a nil pointer); nil and empty slices/maps are identified,
   as every use in the library (len, range, omitempty) identifies them. *)
From Coq Require Import String Ascii List Bool ZArith.
From CDI Require Import Base.
Import ListNotations.
Open Scope string_scope.

Record devnode := mkDevnode {
  dn_path : string; dn_hostpath : string; dn_type : string; dn_major : Z; dn_minor : Z;
  dn_filemode : option Z; dn_perms : string; dn_uid : option Z; dn_gid : option Z }.
Record mount := mkMount { m_host : string; m_ctr : string; m_opts : list string; m_type : string }.
Record hook := mkHook { h_name : string; h_path : string; h_args : list string; h_env : list string; h_timeout : option Z }.
Record rdt := mkRdt { r_closid : string; r_l3 : string; r_membw : string; r_cmt : bool; r_mbm : bool }.
Record edits := mkEdits {
  e_env : list string; e_nodes : list (option devnode); e_hooks : list (option hook);
  e_mounts : list (option mount); e_rdt : option rdt; e_gids : list Z }.
Definition annots := list (string * string).
Record device := mkDevice { d_name : string; d_annot : annots; d_edits : edits }.
Record spec := mkSpec { s_version : string; s_kind : string; s_annot : annots; s_devices : list device; s_edits : edits }.

Definition empty_edits : edits := mkEdits [] [] [] [] None [].

(* every ContainerEdits of a Spec: the devices' ones, then the spec-level ones *)
Definition all_edits (s : spec) : list edits := map d_edits (s_devices s) ++ [s_edits s].

Fixpoint somes {A} (l : list (option A)) : list A :=
  match l with [] => [] | Some x :: r => x :: somes r | None :: r => somes r end.

(* boolean equalities, used by the judges *)
Definition Z_opt_eqb := option_eqb Z.eqb.
Definition ls_eqb := list_eqb String.eqb.
Definition devnode_eqb (a b : devnode) : bool :=
  String.eqb (dn_path a) (dn_path b) && String.eqb (dn_hostpath a) (dn_hostpath b) &&
  String.eqb (dn_type a) (dn_type b) && Z.eqb (dn_major a) (dn_major b) && Z.eqb (dn_minor a) (dn_minor b) &&
  Z_opt_eqb (dn_filemode a) (dn_filemode b) && String.eqb (dn_perms a) (dn_perms b) &&
  Z_opt_eqb (dn_uid a) (dn_uid b) && Z_opt_eqb (dn_gid a) (dn_gid b).
Definition mount_eqb (a b : mount) : bool :=
  String.eqb (m_host a) (m_host b) && String.eqb (m_ctr a) (m_ctr b) && ls_eqb (m_opts a) (m_opts b) &&
  String.eqb (m_type a) (m_type b).
Definition hook_eqb (a b : hook) : bool :=
  String.eqb (h_name a) (h_name b) && String.eqb (h_path a) (h_path b) && ls_eqb (h_args a) (h_args b) &&
  ls_eqb (h_env a) (h_env b) && Z_opt_eqb (h_timeout a) (h_timeout b).
Definition rdt_eqb (a b : rdt) : bool :=
  String.eqb (r_closid a) (r_closid b) && String.eqb (r_l3 a) (r_l3 b) && String.eqb (r_membw a) (r_membw b) &&
  Bool.eqb (r_cmt a) (r_cmt b) && Bool.eqb (r_mbm a) (r_mbm b).
Definition edits_eqb (a b : edits) : bool :=
  ls_eqb (e_env a) (e_env b) && list_eqb (option_eqb devnode_eqb) (e_nodes a) (e_nodes b) &&
  list_eqb (option_eqb hook_eqb) (e_hooks a) (e_hooks b) &&
  list_eqb (option_eqb mount_eqb) (e_mounts a) (e_mounts b) &&
  option_eqb rdt_eqb (e_rdt a) (e_rdt b) && list_eqb Z.eqb (e_gids a) (e_gids b).
Definition annots_eqb (a b : annots) : bool := list_eqb (pair_eqb String.eqb String.eqb) a b.
Definition device_eqb (a b : device) : bool :=
  String.eqb (d_name a) (d_name b) && annots_eqb (d_annot a) (d_annot b) && edits_eqb (d_edits a) (d_edits b).
Definition spec_eqb (a b : spec) : bool :=
  String.eqb (s_version a) (s_version b) && String.eqb (s_kind a) (s_kind b) && annots_eqb (s_annot a) (s_annot b) &&
  list_eqb device_eqb (s_devices a) (s_devices b) && edits_eqb (s_edits a) (s_edits b).
