(* Parser.v — executable model of pkg/parser/parser.go (byte level) and the qualified-name grammar,
   stated independently of the code.  No proofs here (see ParserProofs.v). *)
From Coq Require Import String Ascii List Bool Arith NArith Lia.
From CDI Require Import Base.
Import ListNotations.
Open Scope string_scope.

(* ---------------- model of the code ---------------- *)
Definition vc_mid (c : ascii) : bool :=
  is_alnum c || Ascii.eqb c "_" || Ascii.eqb c "-" || Ascii.eqb c ".".
Definition dn_mid (c : ascii) : bool := vc_mid c || Ascii.eqb c ":".

(* validateVendorOrClassName: parser.go:146-170.  name[1:len-1] is the Panic-capable slice. *)
Definition validate_vc (name : string) : result unit :=
  match name with
  | EmptyString => Err
  | String c0 _ =>
      if negb (is_letter c0) then Err
      else if Nat.eqb (String.length name) 1 then Ok tt
      else bind (go_slice name 1 (String.length name - 1)) (fun mid =>
        if negb (forallb_s vc_mid mid) then Err
        else match last_char name with
             | Some l => if is_alnum l then Ok tt else Err
             | None => Panic
             end)
  end.

(* the code before the single-letter fix (kept as documentation of defect D1) *)
Definition validate_vc_pinned (name : string) : result unit :=
  match name with
  | EmptyString => Err
  | String c0 _ =>
      if negb (is_letter c0) then Err
      else bind (go_slice name 1 (String.length name - 1)) (fun mid =>
        if negb (forallb_s vc_mid mid) then Err
        else match last_char name with
             | Some l => if is_alnum l then Ok tt else Err
             | None => Panic
             end)
  end.

(* ValidateDeviceName: parser.go:177-197 *)
Definition validate_dn (name : string) : result unit :=
  match name with
  | EmptyString => Err
  | String c0 _ =>
      if negb (is_alnum c0) then Err
      else if Nat.eqb (String.length name) 1 then Ok tt
      else bind (go_slice name 1 (String.length name - 1)) (fun mid =>
        if negb (forallb_s dn_mid mid) then Err
        else match last_char name with
             | Some l => if is_alnum l then Ok tt else Err
             | None => Panic
             end)
  end.

(* ParseQualifier: parser.go:107-113 *)
Definition parse_qualifier (kind : string) : string * string :=
  match split_first "/" kind with
  | Some (v, c) => if (String.eqb v "" || String.eqb c "") then ("", kind) else (v, c)
  | None => ("", kind)
  end.

(* ParseDevice: parser.go:81-98 *)
Definition parse_device (device : string) : string * string * string :=
  match device with
  | EmptyString => ("", "", device)
  | String c0 _ =>
      if Ascii.eqb c0 "/" then ("", "", device)
      else match split_first "=" device with
           | None => ("", "", device)
           | Some (q, n) =>
               if (String.eqb q "" || String.eqb n "") then ("", "", device)
               else let '(v, c) := parse_qualifier q in
                    if String.eqb v "" then ("", "", device) else (v, c, n)
           end
  end.

(* ParseQualifiedName: parser.go:52-75.  Second component: the three strings Go returns. *)
Definition parse_qualified_name (device : string)
  : result (string * string * string) * (string * string * string) :=
  let '(v, c, n) := parse_device device in
  let fail := ("", "", device) in
  if String.eqb v "" then (Err, fail)
  else if String.eqb c "" then (Err, fail)
  else if String.eqb n "" then (Err, fail)
  else match validate_vc v with
       | Panic => (Panic, fail) | Err => (Err, fail)
       | Ok _ =>
         match validate_vc c with
         | Panic => (Panic, fail) | Err => (Err, fail)
         | Ok _ =>
           match validate_dn n with
           | Panic => (Panic, fail) | Err => (Err, fail)
           | Ok _ => (Ok (v, c, n), (v, c, n))
           end
         end
       end.

Definition is_qualified_name (s : string) : result bool :=
  match fst (parse_qualified_name s) with Ok _ => Ok true | Err => Ok false | Panic => Panic end.

Definition qualified_name (v c n : string) : string := v ++ "/" ++ c ++ "=" ++ n.

(* ---------------- the grammar, stated independently of the code ---------------- *)
Inductive Shape (first mid last : ascii -> bool) : string -> Prop :=
| Shape1 c : first c = true -> last c = true -> Shape first mid last (String c "")
| ShapeN c m l : first c = true -> forallb_s mid m = true -> last l = true ->
                 Shape first mid last (String c (m ++ String l "")).
Definition VC := Shape is_letter vc_mid is_alnum.
Definition DN := Shape is_alnum dn_mid is_alnum.

Definition QN (s v c n : string) : Prop :=
  s = qualified_name v c n /\ VC v /\ VC c /\ DN n.

(* ---------------- executable decision procedures for the grammar (the oracle) -------- *)
(* written without slicing or splitting on the first separator: a left-to-right scan and a
   brute-force search over every separator position *)
Fixpoint mid_last (mid last : ascii -> bool) (s : string) : bool :=
  match s with
  | EmptyString => false
  | String c EmptyString => last c
  | String c r => mid c && mid_last mid last r
  end.
Definition shape_b (first mid last : ascii -> bool) (s : string) : bool :=
  match s with
  | EmptyString => false
  | String c EmptyString => first c && last c
  | String c r => first c && mid_last mid last r
  end.
Definition vc_b := shape_b is_letter vc_mid is_alnum.
Definition dn_b := shape_b is_alnum dn_mid is_alnum.

(* every way of writing s as a ++ String sep b *)
Fixpoint splits (sep : ascii) (s : string) : list (string * string) :=
  match s with
  | EmptyString => []
  | String c r =>
      (if Ascii.eqb c sep then [(EmptyString, r)] else [])
        ++ map (fun ab => (String c (fst ab), snd ab)) (splits sep r)
  end.

Definition exists_qn (s : string) : bool :=
  existsb (fun vr => vc_b (fst vr) &&
             existsb (fun cn => vc_b (fst cn) && dn_b (snd cn)) (splits "=" (snd vr)))
          (splits "/" s).
