(* ConfigureAuto.v — an auto-refresh cache answers every query from the current directory contents, whether its watcher
   exists or could not be created (C20: shortage_still_answers, auto_answers_current), and observes like a new cache at
   any point of a history (observe_equiv_new). *)
From Coq Require Import String Ascii List Bool Arith Lia.
From CDI Require Import Base Paths Configure ConfigureProofs ConfigureRes ConfigureSim ConfigureEquiv ConfigureView.
Import ListNotations.
Open Scope string_scope.

Arguments refresh_if_required : simpl never.
Arguments deliver : simpl never.

(* ---------- the nil-watcher path ---------- *)
Lemma shortage_still_answers w c :
  cache w = Some c -> auto c = true -> watcher c = None ->
  snd (step w Query) = OAnswer (fst (scan w c)) (snd (scan w c)) (direrrs c) /\
  (fd_ok w = true -> scan w c = view (dirs c) (fs w)).
Proof.
  intros C A W. cbn [step]. rewrite C. cbn [snd]. unfold refresh_if_required. rewrite A.
  rewrite (update_none _ _ _ _ W). split; [reflexivity|]. unfold scan. intros ->. reflexivity.
Qed.

(* ---------- the invariant behind the watcher path ---------- *)
Definition Kc (c : cstate) : Prop := map fst (tracked c) = norm_set (dirs c).
Definition Jc (fs_ : fsys) (c : cstate) : Prop :=
  (forall d, is_tracked c d = true -> dir_exists fs_ d = true) /\
  cached c = view (filter (is_tracked c) (dirs c)) fs_.
Definition J (w : world) : Prop :=
  forall c, cache w = Some c -> auto c = true -> Kc c /\ (watcher c <> None -> Jc (fs w) c).

Lemma in_keys_lookup {A} d (l : list (string * A)) : In d (map fst l) -> exists v, lookup d l = Some v.
Proof.
  induction l as [|[k v] r IH]; cbn; [tauto|].
  destruct (String.eqb d k) eqn:E; [eauto|]. intros [H|H]; [|auto].
  subst k. rewrite String.eqb_refl in E. discriminate.
Qed.

Lemma Kc_key c d : Kc c -> In d (dirs c) -> exists b, lookup d (tracked c) = Some b.
Proof. unfold Kc. intros K I. apply in_keys_lookup. rewrite K. apply In_norm_set, I. Qed.

(* the state right after update (watcher open) followed by a successful rescan *)
Lemma upd_J fs' ds au wa tr de rm :
  (forall d, In d ds -> exists b, lookup d tr = Some b) ->
  (forall d, lookup d tr = Some true -> mem_s d rm = false -> dir_exists fs' d = true) ->
  Jc fs' (mkC ds au wa (upd_tracked fs' true tr rm) de (view ds fs')).
Proof.
  intros KEY I1. unfold Jc, is_tracked. cfields. split.
  - intros d. rewrite lookup_upd_tracked. destruct (lookup d tr) as [b|] eqn:L; cbn [option_map]; [|discriminate].
    destruct b; cbn [andb orb].
    + destruct (mem_s d rm) eqn:M; cbn [negb orb]; [auto|]. intros _. apply I1; auto.
    + auto.
  - symmetry. apply view_filter. intros d I. rewrite lookup_upd_tracked.
    destruct (KEY d I) as (b & ->). cbn [option_map andb]. intros H. apply orb_false_elim in H. destruct H as (_ & H).
    apply spec_entries_missing, H.
Qed.

Lemma refresh_ok w c : fd_ok w = true ->
  refresh w c = mkC (dirs c) (auto c) (watcher c) (tracked c) (direrrs c) (view (dirs c) (fs w)).
Proof. intros F. unfold refresh, scan. rewrite F. reflexivity. Qed.

Lemma is_tracked_true c d : is_tracked c d = true <-> lookup d (tracked c) = Some true.
Proof. unfold is_tracked. destruct (lookup d (tracked c)) as [[|]|]; split; congruence. Qed.

(* refreshIfRequired(false) of an auto-refresh cache with an open watcher: afterwards the cache holds the current view *)
Lemma query_view w c x :
  fd_ok w = true -> auto c = true -> watcher c = Some x -> watcher_open w c = true -> Kc c -> Jc (fs w) c ->
  let c' := refresh_if_required w c false in
  cached c' = view (dirs c) (fs w) /\ Kc c' /\ Jc (fs w) c'.
Proof.
  intros F A W O K (I1 & J2). unfold refresh_if_required. rewrite A, O, (update_some _ _ _ _ _ W).
  destruct (upd_flag (fs w) true (tracked c) []) eqn:FL.
  - rewrite refresh_ok by exact F. cfields. split; [reflexivity|]. split.
    + unfold Kc. cfields. rewrite upd_tracked_keys. exact K.
    + apply upd_J.
      * intros d I. apply Kc_key; auto.
      * intros d L _. apply I1, is_tracked_true, L.
  - (* nothing was added: every directory that is not tracked is missing *)
    assert (MISS : forall d, In d (dirs c) -> is_tracked c d = false -> spec_entries (fs w) d = []).
    { intros d I T. destruct (Kc_key c d K I) as ([|] & L).
      - apply is_tracked_true in L. congruence.
      - apply spec_entries_missing. apply (upd_flag_false _ _ _ _ FL L). }
    assert (V : cached c = view (dirs c) (fs w)) by (rewrite J2; apply view_filter, MISS).
    cfields. split; [exact V|]. split.
    + unfold Kc. cfields. rewrite upd_tracked_keys. exact K.
    + unfold Jc, is_tracked. cfields. split.
      * intros d. rewrite lookup_upd_tracked. destruct (lookup d (tracked c)) as [b|] eqn:L; cbn [option_map]; [|discriminate].
        cbn [mem_s existsb negb]. rewrite andb_true_r. destruct b; cbn [orb andb]; [|auto].
        intros _. apply I1, is_tracked_true, L.
      * rewrite V. symmetry. apply view_filter. intros d I. rewrite lookup_upd_tracked.
        destruct (Kc_key c d K I) as (b & ->). cbn [option_map andb]. intros H. apply orb_false_elim in H. destruct H as (_ & H).
        apply spec_entries_missing, H.
Qed.

Lemma configure_J w c os : res_pre w (watcher c) -> J (configure w c os).
Proof.
  intros P. destruct (configure_spec w c os P) as (_ & F & _ & c' & C & Di & A & Ca & R).
  intros c0 C0 A0. rewrite C in C0. injection C0 as <-. rewrite A0 in A. rewrite <- A in R.
  destruct (fd_ok w) eqn:FD.
  - destruct R as (W & _ & _ & T & _). split.
    + unfold Kc. rewrite T, Di. unfold setup_tracked. rewrite upd_tracked_keys, map_map. cbn [fst]. apply map_id.
    + intros _. rewrite F.
      replace c' with (mkC (dirs c') (auto c') (watcher c') (tracked c') (direrrs c') (cached c')) by (destruct c'; reflexivity).
      rewrite T, Ca, Di. unfold scan_of, setup_tracked. apply upd_J.
      * intros d I. rewrite lookup_map_keys. apply In_norm_set, mem_s_In in I. rewrite I. eauto.
      * intros d L. rewrite lookup_map_keys in L. destruct (mem_s d _); discriminate.
  - destruct R as (W & _ & _ & T & _). split.
    + unfold Kc. rewrite T, Di, map_map. cbn [fst]. apply map_id.
    + congruence.
Qed.

Lemma J_frame w w' c c' :
  cache w = Some c -> cache w' = Some c' -> J w ->
  (auto c' = true -> auto c = true /\ (Kc c -> Kc c') /\
                     (watcher c' <> None -> watcher c <> None /\ (Kc c -> Jc (fs w) c -> Jc (fs w') c'))) ->
  J w'.
Proof.
  intros C C' Jw H c0 C0 A0. rewrite C' in C0. injection C0 as <-.
  destruct (H A0) as (A & K & R). destruct (Jw c C A) as (Kc0 & Jc0). split; [auto|].
  intros W. destruct (R W) as (W0 & G). auto.
Qed.

Definition ok_op (fd : bool) (o : op) : bool := match o with FsOp _ | Query | Refresh => fd | _ => true end.

Lemma step_J w o : Inv w -> J w -> ok_op (fd_ok w) o = true -> J (fst (step w o)).
Proof.
  intros I Jw OK. destruct o; cbn [step fst ok_op] in *.
  - destruct (cache w) eqn:C; [exact Jw|]. apply configure_J, inv_blank; auto.
  - destruct (cache w) eqn:C; [|exact Jw]. destruct os; [exact Jw|]. eapply configure_J, inv_some; eauto.
  - intros c C A. apply (Jw c C A).
  - (* FsOp *)
    destruct (cache w) as [c|] eqn:C; [|intros c C'; cbn in C'; congruence].
    assert (R : res_ok w c) by (unfold Inv in I; rewrite C in I; exact I).
    set (w' := mkW (defdirs w) (fs_apply (fs w) f) (fd_ok w) (next w) (open w) (gors w) (Some c)).
    assert (QUIET : (fires (fs w) f = None \/ exists d s, fires (fs w) f = Some (d, s) /\ (live w c && is_tracked c d) = false) -> J w').
    { intros Q. eapply (J_frame w w' c c); eauto. intros A. split; [exact A|]. split; [auto|]. intros W. split; [exact W|].
      intros K (I1 & J2). cbn [fs w'].
      assert (LV : live w c = true).
      { rewrite (res_ok_live _ _ R), A. unfold has_watcher. destruct (watcher c); [reflexivity|congruence]. }
      assert (QE : forall d, is_tracked c d = true -> fires (fs w) f = None \/ d <> target f).
      { intros d T. destruct Q as [Q|(d0 & s & Q & NT)]; [auto|]. right. rewrite LV in NT. cbn [andb] in NT.
        rewrite <- (fires_target _ _ _ _ Q). congruence. }
      split.
      - intros d T. apply quiet_entries; auto.
      - rewrite J2. apply view_congr. intros d Id. apply filter_In in Id. destruct Id as (_ & T).
        symmetry. apply quiet_entries; auto. }
    destruct (fires (fs w) f) as [[d self]|] eqn:FI; [|apply QUIET; auto].
    destruct (live w c && is_tracked c d) eqn:LT; [|apply QUIET; right; eauto].
    (* delivered: update, then a rescan of the new contents *)
    apply andb_prop in LT. destruct LT as (LV & TD).
    rewrite (res_ok_live _ _ R) in LV. apply andb_prop in LV. destruct LV as (A & HW).
    unfold has_watcher in HW. destruct (watcher c) as [x|] eqn:W; [|discriminate].
    assert (O : watcher_open w' c = true).
    { rewrite (res_ok_open w' c); [unfold has_watcher; rewrite W; reflexivity| |exact A]. exact R. }
    destruct (Jw c C A) as (K & JC). destruct JC as (I1 & J2); [congruence|].
    intros c0 C0 A0. cbn [set_cache cache] in C0. injection C0 as <-.
    unfold deliver. rewrite O, (update_some _ _ _ _ _ W), refresh_ok by exact OK. cfields. split.
    + unfold Kc. cfields. rewrite upd_tracked_keys. exact K.
    + intros _. cbn [fs w']. apply upd_J.
      * intros d0 I0. apply Kc_key; auto.
      * intros d0 L M. apply is_tracked_true in L. destruct self.
        -- (* the directory itself went away: every other tracked directory is untouched *)
           assert (N : d0 <> target f).
           { rewrite <- (fires_target _ _ _ _ FI). intros ->. cbn in M. rewrite String.eqb_refl in M. discriminate. }
           rewrite (dir_exists_lookup _ _ _ (fs_apply_other _ _ _ N)). auto.
        -- eapply fires_file_keeps_dirs; eauto.
  - (* Query *)
    destruct (cache w) as [c|] eqn:C; cbn [fst]; [|exact Jw].
    assert (R : res_ok w c) by (unfold Inv in I; rewrite C in I; exact I).
    intros c0 C0 A0. cbn [set_cache cache] in C0. injection C0 as <-.
    destruct (rir_keeps w c false) as (KD & KA & KW). rewrite KA in A0. destruct (Jw c C A0) as (K & JC).
    destruct (watcher c) as [x|] eqn:W.
    + destruct JC as (I1 & J2); [congruence|].
      assert (O : watcher_open w c = true) by (rewrite (res_ok_open _ _ R A0); unfold has_watcher; rewrite W; reflexivity).
      destruct (query_view w c x OK A0 W O K (conj I1 J2)) as (_ & K' & J').
      split; [exact K'|]. intros _. exact J'.
    + split; [|rewrite KW; congruence].
      unfold refresh_if_required. rewrite A0, (update_none _ _ _ _ W). exact K.
  - (* Refresh *)
    destruct (cache w) as [c|] eqn:C; [|exact Jw].
    assert (R : res_ok w c) by (unfold Inv in I; rewrite C in I; exact I).
    intros c0 C0 A0. cbn [set_cache cache] in C0. injection C0 as <-.
    destruct (rir_keeps w c (negb (auto c))) as (KD & KA & KW). rewrite KA in A0. rewrite A0 in *. cbn [negb] in *.
    destruct (Jw c C A0) as (K & JC).
    destruct (watcher c) as [x|] eqn:W.
    + destruct JC as (I1 & J2); [congruence|].
      assert (O : watcher_open w c = true) by (rewrite (res_ok_open _ _ R A0); unfold has_watcher; rewrite W; reflexivity).
      destruct (query_view w c x OK A0 W O K (conj I1 J2)) as (_ & K' & J').
      split; [exact K'|]. intros _. exact J'.
    + split; [|rewrite KW; congruence].
      unfold refresh_if_required. rewrite A0, (update_none _ _ _ _ W). exact K.
  - destruct (cache w) eqn:C.
    + destruct os; [exact Jw|]. eapply configure_J, inv_some; eauto.
    + apply configure_J, inv_blank; auto.
  - destruct (cache w) eqn:C; [exact Jw|]. apply configure_J, inv_blank; auto.
Qed.

Lemma step_fd_ok w o : Inv w ->
  fd_ok (fst (step w o)) = match o with SetFdShortage b => negb b | _ => fd_ok w end.
Proof.
  intros I.
  assert (CF : forall c os, res_pre w (watcher c) -> fd_ok (configure w c os) = fd_ok w).
  { intros c os P. destruct (configure_spec w c os P) as (_ & _ & K & _). exact K. }
  destruct o; cbn [step fst]; try reflexivity.
  - destruct (cache w) eqn:C; [reflexivity|]. apply CF, inv_blank; auto.
  - destruct (cache w) eqn:C; [|reflexivity]. destruct os; [reflexivity|]. eapply CF, inv_some; eauto.
  - destruct (cache w); [|reflexivity]. destruct (fires (fs w) f) as [[d s]|]; [destruct (live w c && is_tracked c d)|]; reflexivity.
  - destruct (cache w); reflexivity.
  - destruct (cache w); reflexivity.
  - destruct (cache w) eqn:C; [destruct os; [reflexivity|]; eapply CF, inv_some; eauto|]. apply CF, inv_blank; auto.
  - destruct (cache w) eqn:C; [reflexivity|]. apply CF, inv_blank; auto.
Qed.

Lemma disciplined_cons ok o r :
  disciplined ok (o :: r) = ok_op ok o && disciplined (match o with SetFdShortage b => negb b | _ => ok end) r.
Proof. destruct o; cbn; try reflexivity. Qed.

Lemma run_J ops : forall w, Inv w -> J w -> disciplined (fd_ok w) ops = true -> J (run w ops).
Proof.
  induction ops as [|o r IH]; intros w I Jw D; [exact Jw|].
  rewrite disciplined_cons in D. apply andb_prop in D. destruct D as (OK & D).
  cbn [run fold_left]. apply IH.
  - apply step_inv, I.
  - apply step_J; auto.
  - rewrite step_fd_ok by exact I. exact D.
Qed.

Lemma J_world0 defs fs_ : J (world0 defs fs_).
Proof. intros c C. cbn in C. discriminate. Qed.

(* ---------- the answer of an auto-refresh cache ---------- *)
Lemma query_answers w c :
  Inv w -> J w -> fd_ok w = true -> cache w = Some c -> auto c = true ->
  exists de, snd (step w Query) = OAnswer (fst (view (dirs c) (fs w))) (snd (view (dirs c) (fs w))) de.
Proof.
  intros I Jw F C A. destruct (watcher c) as [x|] eqn:W.
  - assert (R : res_ok w c) by (unfold Inv in I; rewrite C in I; exact I).
    destruct (Jw c C A) as (K & JC). destruct JC as (I1 & J2); [congruence|].
    assert (O : watcher_open w c = true) by (rewrite (res_ok_open _ _ R A); unfold has_watcher; rewrite W; reflexivity).
    destruct (query_view w c x F A W O K (conj I1 J2)) as (V & _).
    cbn [step]. rewrite C. cbn [snd]. unfold answer_of. rewrite V. eauto.
  - destruct (shortage_still_answers w c C A W) as (E & S). rewrite E, (S F). eauto.
Qed.

Theorem auto_answers_current defs fs0 ops c :
  let w := run (world0 defs fs0) ops in
  disciplined true ops = true -> fd_ok w = true -> cache w = Some c -> auto c = true ->
  exists de, snd (step w Query) = OAnswer (fst (view (dirs c) (fs w))) (snd (view (dirs c) (fs w))) de.
Proof.
  intros w D F C A. apply query_answers; auto.
  - apply run_inv, inv_world0.
  - apply (run_J ops (world0 defs fs0)); auto using inv_world0, J_world0.
Qed.
