(* ConfigureRes.v — the resource invariant of the configure machine (C20: bounded resources). *)
From Coq Require Import String Ascii List Bool Arith Lia.
From CDI Require Import Base Paths Configure ConfigureProofs.
Import ListNotations.
Open Scope string_scope.

Lemma res_ok_ext w w' c c' :
  open w' = open w -> gors w' = gors w -> watcher c' = watcher c -> auto c' = auto c -> res_ok w c -> res_ok w' c'.
Proof. unfold res_ok. intros -> -> -> ->. auto. Qed.

Lemma configure_inv w c os : res_pre w (watcher c) -> Inv (configure w c os).
Proof.
  intros P. destruct (configure_spec w c os P) as (_ & _ & _ & c' & C & _ & A & _ & R).
  unfold Inv. rewrite C. unfold res_ok. rewrite A.
  destruct (snd (fold_left apply_cfg os (dirs c, auto c))).
  - destruct (fd_ok w).
    + destruct R as (-> & -> & -> & _). auto.
    + destruct R as (-> & -> & -> & _). auto.
  - destruct R as (-> & -> & _). destruct (watcher c'); auto.
Qed.

Lemma rir_keeps w c force : let c' := refresh_if_required w c force in
  dirs c' = dirs c /\ auto c' = auto c /\ watcher c' = watcher c.
Proof.
  unfold refresh_if_required. destruct force; [cbn; auto|]. destruct (auto c) eqn:A; [|auto].
  destruct (update (fs w) (watcher_open w c) c []) as [c1 u] eqn:U.
  pose proof (update_keeps (fs w) (watcher_open w c) c []) as K. rewrite U in K. cbn [fst] in K.
  destruct K as (K1 & K2 & K3 & _). destruct u; cbn; rewrite ?K1, ?K2, ?K3; auto.
Qed.

Lemma deliver_keeps w c d self : let c' := deliver w c d self in
  dirs c' = dirs c /\ auto c' = auto c /\ watcher c' = watcher c.
Proof.
  unfold deliver.
  pose proof (update_keeps (fs w) (watcher_open w c) c (if self then [d] else [])) as (K1 & K2 & K3 & _).
  cbn. auto.
Qed.

Lemma inv_blank w : Inv w -> cache w = None -> res_pre w (watcher (blank w)).
Proof. unfold Inv. intros I E. rewrite E in I. exact I. Qed.
Lemma inv_some w c : Inv w -> cache w = Some c -> res_pre w (watcher c).
Proof. unfold Inv. intros I E. rewrite E in I. apply res_ok_pre; auto. Qed.

Lemma step_inv w o : Inv w -> Inv (fst (step w o)).
Proof.
  intros I. destruct o; cbn [step fst].
  - destruct (cache w) eqn:C; [exact I|]. apply configure_inv, inv_blank; auto.
  - destruct (cache w) eqn:C; [|exact I]. destruct os; [exact I|]. eapply configure_inv, inv_some; eauto.
  - unfold Inv in *. cbn. destruct (cache w); auto.
  - destruct (cache w) eqn:C.
    + destruct (fires (fs w) f) as [[d self]|].
      * destruct (live w c && is_tracked c d).
        -- unfold Inv, set_cache. cbn [cache].
           pose proof (deliver_keeps (mkW (defdirs w) (fs_apply (fs w) f) (fd_ok w) (next w) (open w) (gors w) (Some c)) c d self) as (_ & K2 & K3).
           unfold Inv in I. rewrite C in I. eapply res_ok_ext; [| | | |exact I]; auto.
        -- unfold Inv in *. cbn [cache]. rewrite C in *. exact I.
      * unfold Inv in *. cbn [cache]. rewrite C in *. exact I.
    + unfold Inv in *. cbn [cache]. rewrite C in *. exact I.
  - destruct (cache w) eqn:C; cbn [fst]; [|exact I].
    unfold Inv, set_cache. cbn [cache]. pose proof (rir_keeps w c false) as (_ & K2 & K3).
    unfold Inv in I. rewrite C in I. eapply res_ok_ext; [| | | |exact I]; auto.
  - destruct (cache w) eqn:C; [|exact I].
    unfold Inv, set_cache. cbn [cache]. pose proof (rir_keeps w c (negb (auto c))) as (_ & K2 & K3).
    unfold Inv in I. rewrite C in I. eapply res_ok_ext; [| | | |exact I]; auto.
  - destruct (cache w) eqn:C.
    + destruct os; [exact I|]. eapply configure_inv, inv_some; eauto.
    + apply configure_inv, inv_blank; auto.
  - destruct (cache w) eqn:C; [exact I|]. apply configure_inv, inv_blank; auto.
Qed.

Lemma run_inv ops : forall w, Inv w -> Inv (run w ops).
Proof. induction ops as [|o r IH]; intros w I; [exact I|]. cbn. apply IH, step_inv, I. Qed.

Lemma inv_world0 defs fs_ : Inv (world0 defs fs_).
Proof. unfold Inv. cbn. auto. Qed.

(* at most one open watcher, at most one watcher goroutine, none in manual mode or without a cache *)
Definition bounded (w : world) : Prop :=
  length (open w) <= 1 /\ length (gors w) <= 1 /\
  match cache w with
  | Some c => auto c = false -> open w = [] /\ gors w = []
  | None => open w = [] /\ gors w = []
  end.

Lemma inv_bounded w : Inv w -> bounded w.
Proof.
  unfold Inv, bounded, res_ok. destruct (cache w) as [c|].
  - destruct (watcher c) as [x|].
    + destruct (auto c); intros [-> ->]; cbn; repeat split; auto; discriminate.
    + intros [-> ->]; cbn; auto.
  - intros [-> ->]; cbn; auto.
Qed.

Lemma resources_bounded defs fs_ ops : bounded (run (world0 defs fs_) ops).
Proof. apply inv_bounded, run_inv, inv_world0. Qed.

(* the same from any state that satisfies the invariant (e.g. in the middle of a history) *)
Lemma resources_bounded_from w ops : Inv w -> bounded (run w ops).
Proof. intros I. apply inv_bounded, run_inv, I. Qed.
