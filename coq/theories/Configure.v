(* Configure.v — executable state machine for cache creation and reconfiguration
   (pkg/cdi/cache.go: NewCache/newCache, Configure/configure, Refresh, refreshIfRequired, watch.setup/start/stop/update,
   the delivery branch of watch.watch; default-cache.go: getOrCreateDefaultCache, Configure, GetDefaultCache;
   spec-dirs.go: WithSpecDirs).  No proofs here (ConfigureProofs.v).

   The process is a [world]: directory contents [fs], whether a new descriptor can be had [fd_ok], the open fsnotify
   watchers and the watcher goroutines (process-wide resources), and at most one cache object (an explicitly created
   cache, or the package-level default cache — the same slot, see [DefaultConfigure]/[DefaultGet]).

   Event delivery is atomic here: a change inside a directory that is watched by the cache's live watcher is followed at
   once by the goroutine's [update]+[refresh] (the asynchronous part is C11's subject). *)
From Coq Require Import String Ascii List Bool Arith.
From CDI Require Import Base Paths.
Import ListNotations.
Open Scope string_scope.

Definition wid := nat.

(* ---------- directory contents ---------- *)
Inductive file := Good (devs : list string) | Bad.       (* a loadable Spec defining these qualified devices | a file that fails to load *)
Definition dirc := list (string * file).                  (* entries of one directory: name -> file, first binding wins *)
Definition fsys := list (string * dirc).                  (* the existing directories *)

Fixpoint lookup {A} (k : string) (l : list (string * A)) : option A :=
  match l with
  | [] => None
  | (k', v) :: r => if String.eqb k k' then Some v else lookup k r
  end.
Fixpoint remove_key {A} (k : string) (l : list (string * A)) : list (string * A) :=
  match l with
  | [] => []
  | (k', v) :: r => if String.eqb k k' then remove_key k r else (k', v) :: remove_key k r
  end.
Definition set_key {A} (k : string) (v : A) (l : list (string * A)) : list (string * A) := (k, v) :: remove_key k l.

Definition dir_exists (fs : fsys) (d : string) : bool := match lookup d fs with Some _ => true | None => false end.
Definition file_exists (fs : fsys) (d n : string) : bool :=
  match lookup d fs with Some c => match lookup n c with Some _ => true | None => false end | None => false end.

Inductive fsop :=
| WriteFile (d n : string) (f : file)     (* create or rewrite with data (fails when the directory is missing) *)
| RemoveFile (d n : string)
| MkDir (d : string)
| RmDir (d : string).                      (* the directory with everything in it *)

Definition fs_apply (fs : fsys) (o : fsop) : fsys :=
  match o with
  | WriteFile d n f => match lookup d fs with Some c => set_key d (set_key n f c) fs | None => fs end
  | RemoveFile d n => match lookup d fs with Some c => set_key d (remove_key n c) fs | None => fs end
  | MkDir d => match lookup d fs with Some _ => fs | None => set_key d [] fs end
  | RmDir d => remove_key d fs
  end.

(* the directory in which the operation raises an event that passes the filter of watch.watch (mask Rename|Remove|Write|Create;
   Write/Create only for .json/.yaml names), and whether the event is the removal of the directory itself *)
Definition fires (fs : fsys) (o : fsop) : option (string * bool) :=
  match o with
  | WriteFile d n _ => if dir_exists fs d && is_spec_name n then Some (d, false) else None
  | RemoveFile d n => if file_exists fs d n then Some (d, false) else None
  | MkDir _ => None
  | RmDir d => if dir_exists fs d then Some (d, true) else None
  end.

(* ---------- what a scan of the configured directories yields (the query answer) ---------- *)
Definition spec_entries (fs : fsys) (d : string) : dirc :=
  match lookup d fs with Some c => filter (fun nf => is_spec_name (fst nf)) c | None => [] end.
Fixpoint live_entries (seen : list string) (c : dirc) : dirc :=      (* first binding of each name *)
  match c with
  | [] => []
  | (n, f) :: r => if mem_s n seen then live_entries seen r else (n, f) :: live_entries (n :: seen) r
  end.
(* the devices a directory defines, each with its defining file *)
Definition dir_defs (fs : fsys) (d : string) : list (string * string) :=
  flat_map (fun nf => match snd nf with Good ds => map (fun q => (q, d ++ "/" ++ fst nf)) ds | Bad => [] end)
           (live_entries [] (spec_entries fs d)).
(* precedence: the definition found in the directory listed last wins (the generated contents have no two files of one
   directory defining the same device: same-directory conflicts are C01's subject) *)
Fixpoint resolve_prio (l : list (string * string)) : list (string * string) :=
  match l with
  | [] => []
  | (q, p) :: r => if mem_s q (map fst r) then resolve_prio r else (q, p) :: resolve_prio r
  end.
(* a device as a query shows it: qualified name @ defining file (ListDevices + GetDevice(..).GetSpec().GetPath()) *)
Definition show_def (x : string * string) : string := fst x ++ "@" ++ snd x.
Definition dir_errs (fs : fsys) (d : string) : list string :=
  flat_map (fun nf => match snd nf with Good _ => [] | Bad => [d ++ "/" ++ fst nf] end) (live_entries [] (spec_entries fs d)).
Definition norm_set (l : list string) : list string := sort_strings (dedup_s l).

Definition answer := (list string * list string)%type.    (* the devices (name@defining file), key set of the per-file errors; both sorted *)
Definition empty_answer : answer := ([], []).
Definition view (dirs : list string) (fs : fsys) : answer :=
  (norm_set (map show_def (resolve_prio (flat_map (dir_defs fs) dirs))), norm_set (flat_map (dir_errs fs) dirs)).

(* ---------- the cache object ---------- *)
Inductive copt := WithSpecDirs (ds : list string) | WithAutoRefresh (b : bool).

Record cstate := mkC {
  dirs : list string;                   (* c.specDirs *)
  auto : bool;                          (* c.autoRefresh *)
  watcher : option wid;                 (* c.watch.watcher (None = nil pointer); closed watchers stay referenced *)
  tracked : list (string * bool);       (* c.watch.tracked (nil and empty are not distinguished) *)
  direrrs : list string;                (* key set of c.dirErrors *)
  cached : answer                       (* what c.devices / c.errors currently answer *)
}.

Record world := mkW {
  defdirs : list string;                (* cdi.DefaultSpecDirs *)
  fs : fsys;
  fd_ok : bool;                         (* a new descriptor can be obtained *)
  next : wid;
  open : list wid;                      (* fsnotify watchers not yet closed: inotify instance + its descriptors *)
  gors : list wid;                      (* running watch.watch goroutines, by the watcher they read from *)
  cache : option cstate
}.

Definition set_cache (w : world) (c : cstate) : world :=
  mkW (defdirs w) (fs w) (fd_ok w) (next w) (open w) (gors w) (Some c).

Definition apply_cfg (cfg : list string * bool) (o : copt) : list string * bool :=
  match o with
  | WithSpecDirs ds => (map clean ds, snd cfg)
  | WithAutoRefresh b => (fst cfg, b)
  end.
Definition cfg_of (defs : list string) (os : list copt) : list string * bool :=
  fold_left apply_cfg os (map clean defs, true).

Definition mem_n (x : nat) (l : list nat) : bool := existsb (Nat.eqb x) l.
Definition remove_n (x : nat) (l : list nat) : list nat := filter (fun y => negb (Nat.eqb x y)) l.

Definition watcher_open (w : world) (c : cstate) : bool :=
  match watcher c with Some x => mem_n x (open w) | None => false end.
(* the cache's watcher delivers events: it is open and its goroutine runs *)
Definition live (w : world) (c : cstate) : bool :=
  match watcher c with Some x => mem_n x (open w) && mem_n x (gors w) | None => false end.

Definition is_tracked (c : cstate) (d : string) : bool :=
  match lookup d (tracked c) with Some b => b | None => false end.

(* watch.update(dirErrors, removed...): returns the cache and whether a refresh is required *)
Definition update (fs_ : fsys) (isopen : bool) (c : cstate) (removed : list string) : cstate * bool :=
  match watcher c with
  | None => (c, true)
  | Some _ =>
      let tr1 := map (fun kv : string * bool => if mem_s (fst kv) removed then (fst kv, false) else kv) (tracked c) in
      let addable (d : string) := isopen && dir_exists fs_ d in            (* watcher.Add(dir) succeeds *)
      let tr2 := map (fun kv : string * bool => if snd kv then kv else (fst kv, addable (fst kv))) tr1 in
      let pending := map fst (filter (fun kv : string * bool => negb (snd kv)) tr1) in
      let added := existsb addable pending in
      let kept := filter (fun d => negb (mem_s d pending)) (removed ++ direrrs c)%list in
      let failed := filter (fun d => negb (addable d)) pending in
      (mkC (dirs c) (auto c) (watcher c) tr2 (norm_set (kept ++ failed)%list) (cached c),
       negb (match removed with [] => true | _ => false end) || added)
  end.

(* Cache.refresh: a scan needs descriptors (filepath.Walk opens each directory; without one it sees nothing and reports nothing) *)
Definition scan (w : world) (c : cstate) : answer := if fd_ok w then view (dirs c) (fs w) else empty_answer.
Definition refresh (w : world) (c : cstate) : cstate :=
  mkC (dirs c) (auto c) (watcher c) (tracked c) (direrrs c) (scan w c).

(* watch.stop *)
Definition stop (w : world) (c : cstate) : world * cstate :=
  match watcher c with
  | None => (w, c)
  | Some x =>
      (mkW (defdirs w) (fs w) (fd_ok w) (next w) (remove_n x (open w)) (remove_n x (gors w)) (cache w),
       mkC (dirs c) (auto c) (watcher c) [] (direrrs c) (cached c))
  end.

(* watch.setup *)
Definition setup (w : world) (c : cstate) : world * cstate :=
  let tr := map (fun d => (d, false)) (norm_set (dirs c)) in
  if fd_ok w then
    let x := next w in
    let w' := mkW (defdirs w) (fs w) (fd_ok w) (S x) (x :: open w) (gors w) (cache w) in
    (w', fst (update (fs w) true (mkC (dirs c) (auto c) (Some x) tr (direrrs c) (cached c)) []))
  else
    (w, mkC (dirs c) (auto c) None tr (norm_set (dirs c ++ direrrs c)%list) (cached c)).

(* watch.start: the goroutine returns at once when there is no watcher *)
Definition start (w : world) (c : cstate) : world :=
  match watcher c with
  | Some x => if mem_n x (open w) then mkW (defdirs w) (fs w) (fd_ok w) (next w) (open w) (x :: gors w) (cache w) else w
  | None => w
  end.

(* Cache.configure *)
Definition configure (w : world) (c : cstate) (os : list copt) : world :=
  let cfg := fold_left apply_cfg os (dirs c, auto c) in
  let c1 := mkC (fst cfg) (snd cfg) (watcher c) (tracked c) [] (cached c) in
  let '(w2, c2) := stop w c1 in
  let '(w3, c3) := if auto c2 then (let '(w', c') := setup w2 c2 in (start w' c', c')) else (w2, c2) in
  set_cache w3 (refresh w3 c3).

(* newCache *)
Definition blank (w : world) : cstate := mkC (map clean (defdirs w)) true None [] [] empty_answer.
Definition new_cache (w : world) (os : list copt) : world := configure w (blank w) os.

(* refreshIfRequired(force) *)
Definition refresh_if_required (w : world) (c : cstate) (force : bool) : cstate :=
  if force then refresh w c
  else if auto c then
    let '(c', upd) := update (fs w) (watcher_open w c) c [] in
    if upd then refresh w c' else c'
  else c.

(* ---------- operations ---------- *)
Inductive op :=
| New (os : list copt)                (* cdi.NewCache(os...) — the explicit cache of a history; ignored when a cache exists *)
| Configure (os : list copt)          (* cache.Configure(os...) *)
| SetFdShortage (b : bool)
| FsOp (f : fsop)
| Query                               (* ListDevices / GetErrors (any query entry point: all start with refreshIfRequired(false)) *)
| Refresh                             (* cache.Refresh() *)
| DefaultConfigure (os : list copt)   (* cdi.Configure(os...) *)
| DefaultGet.                         (* cdi.GetDefaultCache() *)

Inductive out :=
| ONone
| OAnswer (devs errs direrrs : list string).

Definition answer_of (c : cstate) : out := OAnswer (fst (cached c)) (snd (cached c)) (direrrs c).

Definition deliver (w : world) (c : cstate) (d : string) (self : bool) : cstate :=
  refresh w (fst (update (fs w) (watcher_open w c) c (if self then [d] else []))).

Definition step (w : world) (o : op) : world * out :=
  match o with
  | New os => (match cache w with None => new_cache w os | Some _ => w end, ONone)
  | Configure os =>
      (match cache w, os with
       | Some c, _ :: _ => configure w c os
       | _, _ => w
       end, ONone)
  | SetFdShortage b => (mkW (defdirs w) (fs w) (negb b) (next w) (open w) (gors w) (cache w), ONone)
  | FsOp f =>
      let w' := mkW (defdirs w) (fs_apply (fs w) f) (fd_ok w) (next w) (open w) (gors w) (cache w) in
      (match cache w, fires (fs w) f with
       | Some c, Some (d, self) => if live w c && is_tracked c d then set_cache w' (deliver w' c d self) else w'
       | _, _ => w'
       end, ONone)
  | Query =>
      match cache w with
      | Some c => let c' := refresh_if_required w c false in (set_cache w c', answer_of c')
      | None => (w, ONone)
      end
  | Refresh =>
      (match cache w with
       | Some c => set_cache w (refresh_if_required w c (negb (auto c)))
       | None => w
       end, ONone)
  | DefaultConfigure os =>
      (match cache w, os with
       | None, _ => new_cache w os
       | Some c, _ :: _ => configure w c os
       | Some _, [] => w
       end, ONone)
  | DefaultGet => (match cache w with None => new_cache w [] | Some _ => w end, ONone)
  end.

Definition run (w : world) (ops : list op) : world := fold_left (fun w o => fst (step w o)) ops w.
Fixpoint run_outs (w : world) (ops : list op) : list out :=
  match ops with
  | [] => []
  | o :: r => snd (step w o) :: run_outs (fst (step w o)) r
  end.

(* a process that has not created a cache yet *)
Definition world0 (defs : list string) (fs_ : fsys) : world := mkW defs fs_ true 0 [] [] None.

(* the options that took effect on the cache, in order ([created]: a cache exists before the first operation) *)
Fixpoint applied (created : bool) (ops : list op) : list copt :=
  match ops with
  | [] => []
  | New os :: r => if created then applied true r else (os ++ applied true r)%list
  | Configure os :: r => if created then (os ++ applied true r)%list else applied false r
  | DefaultConfigure os :: r => (os ++ applied true r)%list
  | DefaultGet :: r => applied true r
  | _ :: r => applied created r
  end.

(* a fresh process with the same directory contents and descriptor situation in which a cache is created with [os] *)
Definition fresh (w : world) (os : list copt) : world :=
  new_cache (mkW (defdirs w) (fs w) (fd_ok w) 0 [] [] None) os.

(* ---------- observables ---------- *)
Definition tracked_keys (c : cstate) : list string := if auto c then sort_strings (map fst (tracked c)) else [].
Definition watched_dirs (c : cstate) : list string :=
  if auto c then sort_strings (map fst (filter (fun kv => snd kv) (tracked c))) else [].

(* what a client sees after asking for the current state: Refresh() (forces a rescan in manual mode), then a query *)
Definition settled (w : world) : world := fst (step (fst (step w Refresh)) Query).
Definition settled_answer (w : world) : out := snd (step (fst (step w Refresh)) Query).
Definition devs_errs (o : out) : option answer := match o with OAnswer d e _ => Some (d, e) | ONone => None end.

Definition observe (w : world) : option (list string * bool * list string * option answer) :=
  match cache w with
  | None => None
  | Some c => Some (dirs c, auto c, tracked_keys c, devs_errs (settled_answer w))
  end.

(* the shortage discipline of the explored histories: while no descriptor can be had, only (re)configuration happens *)
Fixpoint disciplined (ok : bool) (ops : list op) : bool :=
  match ops with
  | [] => true
  | SetFdShortage b :: r => disciplined (negb b) r
  | (FsOp _ | Query | Refresh) :: r => ok && disciplined ok r
  | _ :: r => disciplined ok r
  end.
