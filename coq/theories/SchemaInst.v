(* SchemaInst.v — what C18 states about Spec values: the consequences of library validity the schema cares about
   ([lib_ok]), the value ranges of the Go field types ([in_go_ranges], types per LayoutGen via Doc.assumed_types),
   the proviso on hook timeouts, and the boolean body of the theorem (evaluated by the judge on generated Specs when
   the proof no longer goes through). *)
From Coq Require Import String Ascii List Bool ZArith.
From CDI Require Import Base SpecModel Doc Schema.
From CDIGen Require Import SchemaGen.
Import ListNotations.
Open Scope string_scope.

Definition in_range (lo hi z : Z) : bool := (lo <=? z)%Z && (z <=? hi)%Z.
Definition int64_b : Z -> bool := in_range (-9223372036854775808) 9223372036854775807.
Definition uint32_b : Z -> bool := in_range 0 4294967295.
Definition int_b : Z -> bool := int64_b.          (* Go int on the 64-bit platforms the project builds for *)
Definition opt_b (p : Z -> bool) (o : option Z) : bool := match o with Some z => p z | None => true end.

(* Go field types: Major, Minor int64; FileMode *os.FileMode (uint32); UID, GID *uint32; Timeout *int;
   AdditionalGIDs []uint32 *)
Definition devnode_ranges (d : devnode) : bool :=
  int64_b (dn_major d) && int64_b (dn_minor d) && opt_b uint32_b (dn_filemode d) &&
  opt_b uint32_b (dn_uid d) && opt_b uint32_b (dn_gid d).
Definition hook_ranges (h : hook) : bool := opt_b int_b (h_timeout h).
Definition edits_ranges (e : edits) : bool :=
  forallb devnode_ranges (somes (e_nodes e)) && forallb hook_ranges (somes (e_hooks e)) && forallb uint32_b (e_gids e).
Definition in_go_ranges_b (s : spec) : bool := forallb edits_ranges (all_edits s).
Definition in_go_ranges (s : spec) : Prop := in_go_ranges_b s = true.

(* the proviso of the property: hook timeouts within 0..2^32-1 *)
Definition hook_timeout_ok (h : hook) : bool := opt_b uint32_b (h_timeout h).
Definition timeouts_ok_b (s : spec) : bool :=
  forallb (fun e => forallb hook_timeout_ok (somes (e_hooks e))) (all_edits s).
Definition timeouts_ok (s : spec) : Prop := timeouts_ok_b s = true.

(* consequences of library validity (pkg/cdi Spec.validate, ContainerEdits.Validate) that the schema needs:
   at least one device; no null entry in a deviceNodes, hooks or mounts list.  Nothing else is needed: the schema
   constrains no string content and every member it requires has no omitempty. *)
Definition is_some {A} (o : option A) : bool := match o with Some _ => true | None => false end.
Definition edits_no_null (e : edits) : bool :=
  forallb is_some (e_nodes e) && forallb is_some (e_hooks e) && forallb is_some (e_mounts e).
Definition lib_ok_b (s : spec) : bool :=
  match s_devices s with [] => false | _ => true end && forallb edits_no_null (all_edits s).
Definition lib_ok (s : spec) : Prop := lib_ok_b s = true.

(* further consequence of library validity (validation.ValidateSpecAnnotations, since fix a071a8c) needed only for
   the routes that run the content check (ValidateData, ValidateFile of the written YAML file) *)
Definition lib_annots_ok_b (s : spec) : bool :=
  ann_ok (enc_annots (s_annot s)) && forallb (fun d => ann_ok (enc_annots (d_annot d))) (s_devices s).
Definition lib_annots_ok (s : spec) : Prop := lib_annots_ok_b s = true.

(* the body of lib_valid_passes_schema as a boolean *)
Definition passes_schema_b (s : spec) : bool := validate builtin (doc_of_spec s).
Definition c18_body_b (s : spec) : bool :=
  negb (lib_ok_b s && in_go_ranges_b s && timeouts_ok_b s) || passes_schema_b s.

(* the same with the three-valued validator: no claim where the verdict depends on a part of the schema that has left
   the modelled fragment (the judge's model-side search when the proof breaks after a schema change) *)
Definition c18_body3_b (s : spec) : bool :=
  negb (lib_ok_b s && in_go_ranges_b s && timeouts_ok_b s) ||
  match validate3 builtin (doc_of_spec s) with Some false => false | _ => true end.

(* the witness for the timeout proviso: a library-valid Spec with a hook timeout of -1 *)
Definition neg_timeout_spec : spec :=
  mkSpec "1.0.0" "vendor.com/class" []
    [mkDevice "d" [] (mkEdits [] [] [Some (mkHook "createContainer" "/bin/hook" [] [] (Some (-1)%Z))] [] None [])]
    empty_edits.
