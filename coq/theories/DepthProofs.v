(* DepthProofs.v — C03 "parents before children": the depth key of a mount (number of separators of the cleaned destination)
   is strictly smaller for a proper, non-root ancestor directory than for anything below it; in a list sorted by depth the
   ancestor therefore comes first. *)
From Coq Require Import String Ascii List Bool Arith Lia.
From CDI Require Import Base SpecModel Paths Oci Apply ApplySpec ApplyProofs CleanProofs.
Import ListNotations.
Open Scope string_scope.

Lemma count_char_app x a b : count_char x (a ++ b) = count_char x a + count_char x b.
Proof. induction a as [|c r IH]; cbn [append count_char]; [reflexivity|]. rewrite IH. lia. Qed.
Lemma count_none x s : contains x s = false -> count_char x s = 0.
Proof.
  induction s as [|c r IH]; cbn [contains count_char]; [reflexivity|]. intro H. apply orb_false_iff in H as [H1 H2].
  rewrite H1, (IH H2). reflexivity.
Qed.

Lemma count_join comps : Forall (fun c => contains "/" c = false) comps ->
  count_char "/" (join_with "/" comps) = length comps - 1.
Proof.
  induction 1 as [|c r Hc Hr IH]; [reflexivity|].
  destruct r as [|d r'].
  - cbn [join_with length]. rewrite count_none by exact Hc. reflexivity.
  - change (join_with "/" (c :: d :: r')) with (c ++ "/" ++ join_with "/" (d :: r')).
    rewrite !count_char_app, IH, count_none by exact Hc. cbn [length count_char]. cbn. lia.
Qed.

(* the depth of an absolute path in normal form: one separator per component (the root itself has one) *)
Theorem depth_rooted comps : comps_ok true comps ->
  count_char "/" (render (true, comps)) = Nat.max 1 (length comps).
Proof.
  intro H. pose proof (comps_no_slash _ _ H) as Hs. unfold render.
  change ("/" ++ join_with "/" comps) with (String "/" (join_with "/" comps)). cbn [count_char]. rewrite Ascii.eqb_refl.
  rewrite count_join by exact Hs. destruct comps as [|c r]; cbn [length]; lia.
Qed.

Definition abs_depth (p : string) : nat := count_char "/" (clean p).

Theorem depth_abs p : is_rooted p = true -> abs_depth p = Nat.max 1 (length (snd (norm p))).
Proof.
  intro R. unfold abs_depth, clean. pose proof (norm_ok p) as H. destruct (norm p) as [rooted comps] eqn:E.
  assert (Er : rooted = is_rooted p) by (unfold norm in E; injection E as <- _; reflexivity).
  cbn [snd] in *. rewrite R in H. rewrite Er, R. apply depth_rooted. exact H.
Qed.

(* p is a proper ancestor directory of q, and not the root *)
Definition proper_ancestor (p q : string) : Prop :=
  is_rooted p = true /\ is_rooted q = true /\ snd (norm p) <> [] /\
  exists ext, ext <> [] /\ snd (norm q) = (snd (norm p) ++ ext)%list.

Theorem ancestor_shallower p q : proper_ancestor p q -> abs_depth p < abs_depth q.
Proof.
  intros (Rp & Rq & Hne & ext & He & Hq). rewrite (depth_abs p Rp), (depth_abs q Rq), Hq, app_length.
  destruct (snd (norm p)) as [|a r]; [congruence|]. destruct ext as [|b t]; [congruence|]. cbn [length]. lia.
Qed.

(* in a list sorted by depth an element of strictly smaller depth is never after one of larger depth *)
Lemma sorted_before (l : list ocimount) : sorted_by_depth l = true ->
  forall a y b, l = (a ++ y :: b)%list -> forall x, In x b -> mount_depth y <= mount_depth x.
Proof.
  induction l as [|z r IH]; intros S a y b E x Hx; [destruct a; discriminate|].
  cbn [sorted_by_depth] in S. apply andb_true_iff in S as [S1 S2].
  destruct a as [|w a']; cbn [app] in E; injection E as -> E'.
  - subst r. apply Nat.leb_le. exact (proj1 (forallb_forall _ _) S1 x Hx).
  - exact (IH S2 a' y b E' x Hx).
Qed.

(* parents before children: after the sort, a mount whose destination is a proper non-root ancestor of another mount's
   destination is never placed after it *)
Theorem parents_before_children (l : list ocimount) a y b x :
  sorted_by_depth l = true -> l = (a ++ y :: b)%list -> In x b ->
  ~ proper_ancestor (om_dest x) (om_dest y).
Proof.
  intros S E Hx A. pose proof (sorted_before l S a y b E x Hx) as L.
  apply ancestor_shallower in A. unfold abs_depth in A. unfold mount_depth in L. lia.
Qed.
