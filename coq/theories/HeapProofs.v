(* HeapProofs.v — where the writes of InjectDevices / Apply go (Heap.v), and that the pointer-level code computes what the
   value-level model (Apply.v, Cache.v) says. *)
From Coq Require Import String Ascii List Bool Arith ZArith Lia.
From CDI Require Import Base SpecModel Parser Paths Oci Apply Cache CacheProofs InjectSpec InjectProofs Heap.
Import ListNotations.
Open Scope string_scope.
Open Scope list_scope.

(* ---------------- cells ---------------- *)
Lemma hread_app_l : forall (h x : heap) l, l < length h -> hread (h ++ x) l = hread h l.
Proof. intros h x l L. unfold hread. apply nth_error_app1. exact L. Qed.
Lemma hread_alloc_new : forall (h : heap) d, hread (h ++ [d]) (length h) = Some d.
Proof. intros h d. unfold hread. rewrite nth_error_app2 by lia. rewrite Nat.sub_diag. reflexivity. Qed.
Lemma hread_some_lt : forall (h : heap) l d, hread h l = Some d -> l < length h.
Proof. intros h l d H. unfold hread in H. apply nth_error_Some. rewrite H. discriminate. Qed.
Lemma hwrite_length : forall h l d, length (hwrite h l d) = length h.
Proof. induction h as [|x h IH]; intros [|l] d; simpl; try reflexivity. rewrite IH. reflexivity. Qed.
Lemma hread_hwrite_same : forall h l d, l < length h -> hread (hwrite h l d) l = Some d.
Proof. induction h as [|x h IH]; intros [|l] d L; simpl in *; try lia; try reflexivity. apply IH. lia. Qed.
Lemma hread_hwrite_other : forall h l l' d, l <> l' -> hread (hwrite h l d) l' = hread h l'.
Proof.
  induction h as [|x h IH]; intros [|l] [|l'] d N; simpl; try reflexivity; try congruence.
  apply IH. congruence.
Qed.
Lemma hwrite_hwrite : forall h l a b, hwrite (hwrite h l a) l b = hwrite h l b.
Proof. induction h as [|x h IH]; intros [|l] a b; simpl; try reflexivity. rewrite IH. reflexivity. Qed.

(* ---------------- fillMissingInfo through a pointer = fill_missing on the value, written back ---------------- *)
Lemma fill_cell_spec : forall host h l d, hread h l = Some d ->
  match fill_missing host d with
  | Ok d' => fill_cell host h l = (hwrite h l d', 0)
  | Err => exists d1, fill_cell host h l = (hwrite h l d1, 1)
  | Panic => False
  end.
Proof.
  intros host h l d R. unfold fill_cell, fill_missing. rewrite R. unfold with_hostpath.
  set (hp := if String.eqb (dn_hostpath d) "" then dn_path d else dn_hostpath d).
  destruct (negb (String.eqb (dn_type d) "") && (negb (Z.eqb (dn_major d) 0) || String.eqb (dn_type d) "p")).
  - reflexivity.
  - destruct (host hp) as [[[t ma] mi]|].
    + destruct (negb (String.eqb (dn_type d) "") && negb (String.eqb (dn_type d) t)).
      * eexists. reflexivity.
      * destruct (Z.eqb (dn_major d) 0 && negb (String.eqb (if String.eqb (dn_type d) "" then t else dn_type d) "p"));
          rewrite hwrite_hwrite; reflexivity.
    + eexists. reflexivity.
Qed.

(* what a call leaves of the heap it was given: the cells below `n` are as before, nothing was freed *)
Definition frame (n : nat) (h h' : heap) : Prop := length h <= length h' /\ forall l, l < n -> hread h' l = hread h l.
Lemma frame_refl : forall n h, frame n h h.
Proof. intros; split; [lia | reflexivity]. Qed.
Lemma frame_trans : forall n h1 h2 h3, frame n h1 h2 -> frame n h2 h3 -> frame n h1 h3.
Proof. intros n h1 h2 h3 [L1 F1] [L2 F2]. split; [lia|]. intros l L. rewrite F2, F1 by exact L. reflexivity. Qed.
Lemma frame_le : forall n m h h', m <= n -> frame n h h' -> frame m h h'.
Proof. intros n m h h' L [A B]. split; [exact A|]. intros l Hl. apply B. lia. Qed.

Lemma fill_cell_frame : forall host h l, frame l h (fst (fill_cell host h l)) /\
  (forall l', l' <> l -> hread (fst (fill_cell host h l)) l' = hread h l') /\ length (fst (fill_cell host h l)) = length h.
Proof.
  intros host h l. unfold fill_cell. destruct (hread h l) as [d|] eqn:R; [|simpl; repeat split; try lia; reflexivity].
  assert (W : forall a, frame l h (hwrite h l a) /\ (forall l', l' <> l -> hread (hwrite h l a) l' = hread h l') /\ length (hwrite h l a) = length h).
  { intro a. repeat split.
    - rewrite hwrite_length. lia.
    - intros l' L. apply hread_hwrite_other. lia.
    - intros l' N. apply hread_hwrite_other. congruence.
    - apply hwrite_length. }
  destruct (negb (String.eqb (dn_type d) "") && (negb (Z.eqb (dn_major d) 0) || String.eqb (dn_type d) "p")); [apply W|].
  destruct (host _) as [[[t ma] mi]|]; [|apply W].
  destruct (negb (String.eqb (dn_type d) "") && negb (String.eqb (dn_type d) t)); [apply W|].
  destruct (Z.eqb (dn_major d) 0 && negb (String.eqb (if String.eqb (dn_type d) "" then t else dn_type d) "p")); simpl; rewrite hwrite_hwrite; apply W.
Qed.

(* ---------------- one device node ---------------- *)
Lemma apply_node_split : forall host o d,
  apply_node host o d = match fill_missing host d with Ok dn => Ok (node_into_oci o d dn) | Err => Err | Panic => Panic end.
Proof.
  intros host o d. unfold apply_node, node_into_oci. destruct (fill_missing host d) as [dn| |]; try reflexivity.
  destruct (String.eqb _ "b" || String.eqb _ "c"); reflexivity.
Qed.

(* the code as it is: the result is the value-level one, and every cell that existed before is untouched *)
Lemma apply_node_h_copy : forall host h o l d, hread h l = Some d ->
  snd (apply_node_h true host h o l) = apply_node host o d /\ frame (length h) h (fst (apply_node_h true host h o l)).
Proof.
  intros host h o l d R. unfold apply_node_h. rewrite R. unfold halloc.
  pose proof (fill_cell_spec host (h ++ [d]) (length h) d (hread_alloc_new h d)) as S.
  pose proof (fill_cell_frame host (h ++ [d]) (length h)) as [F [_ LEN]].
  rewrite apply_node_split.
  assert (FR : frame (length h) h (fst (fill_cell host (h ++ [d]) (length h)))).
  { destruct F as [F1 F2]. split.
    - rewrite LEN, app_length. simpl. lia.
    - intros l' L. rewrite F2 by exact L. apply hread_app_l. exact L. }
  destruct (fill_missing host d) as [dn| |].
  - rewrite S. rewrite S in FR. simpl in FR. rewrite hread_hwrite_same by (rewrite app_length; simpl; lia). simpl. split; [reflexivity|exact FR].
  - destruct S as [d1 S]. rewrite S. rewrite S in FR. simpl. split; [reflexivity|exact FR].
  - contradiction.
Qed.

(* ---------------- the device-node loop ---------------- *)
Lemma ptr_ok_lt : forall h l, ptr_ok h (Some l) = true -> l < length h.
Proof. intros h l H. simpl in H. apply Nat.ltb_lt in H. exact H. Qed.
Lemma ptr_ok_mono : forall h h' p, length h <= length h' -> ptr_ok h p = true -> ptr_ok h' p = true.
Proof. intros h h' [l|] L H; [|reflexivity]. simpl in *. apply Nat.ltb_lt in H. apply Nat.ltb_lt. lia. Qed.
Lemma deref_node_frame : forall h h' p, frame (length h) h h' -> ptr_ok h p = true -> deref_node h' p = deref_node h p.
Proof. intros h h' [l|] [_ F] H; [|reflexivity]. simpl. apply F. apply ptr_ok_lt. exact H. Qed.
Lemma deref_nodes_frame : forall h h' ls, frame (length h) h h' -> forallb (ptr_ok h) ls = true ->
  map (deref_node h') ls = map (deref_node h) ls.
Proof.
  intros h h' ls F. induction ls as [|p r IH]; intro V; [reflexivity|]. simpl in V. apply andb_true_iff in V as [V1 V2].
  simpl. rewrite (deref_node_frame h h' p F V1), IH by exact V2. reflexivity.
Qed.

Lemma apply_nodes_h_copy : forall host ls h0 h o,
  frame (length h0) h0 h -> forallb (ptr_ok h0) ls = true ->
  snd (apply_nodes_h true host h o ls) = apply_nodes host o (map (deref_node h0) ls) /\
  frame (length h0) h0 (fst (apply_nodes_h true host h o ls)).
Proof.
  intros host ls. induction ls as [|p r IH]; intros h0 h o F V.
  - simpl. split; [reflexivity|exact F].
  - simpl in V. apply andb_true_iff in V as [V1 V2]. destruct p as [l|].
    + simpl. pose proof (ptr_ok_lt h0 l V1) as L.
      destruct F as [FL FR]. assert (R : hread h l = hread h0 l) by (apply FR; exact L).
      destruct (hread h0 l) as [d|] eqn:R0; [|apply nth_error_None in R0; lia].
      destruct (apply_node_h_copy host h o l d R) as [S FN].
      destruct (apply_node_h true host h o l) as [h1 res]. simpl in S, FN. rewrite S.
      assert (F1 : frame (length h0) h0 h1).
      { apply (frame_trans _ h0 h h1); [split; assumption|]. apply (frame_le (length h)); [lia|exact FN]. }
      destruct (apply_node host o d) as [o'| |].
      * apply IH; assumption.
      * simpl. split; [reflexivity|exact F1].
      * simpl. split; [reflexivity|exact F1].
    + simpl. split; [reflexivity|exact F].
Qed.

(* ---------------- Apply ---------------- *)
Lemma apply_split : forall host e o,
  apply host e o =
  let o1 := match e_env e with [] => o | env => set_env o (add_multiple_env (o_env o) env) end in
  let '(o2, c2) := apply_nodes host o1 (e_nodes e) in
  if negb (Nat.eqb c2 0) then (o2, c2) else apply_rest e o2.
Proof. intros. reflexivity. Qed.

Theorem apply_h_copy : forall host h e o, pedits_ok h e = true ->
  snd (apply_h true host h e o) = apply host (deref h e) o /\ frame (length h) h (fst (apply_h true host h e o)).
Proof.
  intros host h e o V.
  set (o1 := match pe_env e with [] => o | env => set_env o (add_multiple_env (o_env o) env) end).
  assert (E : apply host (deref h e) o =
              let '(o2, c2) := apply_nodes host o1 (map (deref_node h) (pe_nodes e)) in
              if negb (Nat.eqb c2 0) then (o2, c2) else apply_rest (deref h e) o2) by reflexivity.
  rewrite E. unfold apply_h. fold o1.
  destruct (apply_nodes_h_copy host (pe_nodes e) h h o1 (frame_refl _ h) V) as [S F].
  destruct (apply_nodes_h true host h o1 (pe_nodes e)) as [h2 [o2 c2]]. simpl in S, F. rewrite <- S.
  destruct (negb (Nat.eqb c2 0)); simpl; split; try reflexivity; exact F.
Qed.

(* ---------------- the walk over the request ---------------- *)
Lemma deref_append : forall h a b, deref h (append_pedits a b) = append_edits (deref h a) (deref h b).
Proof. intros. unfold deref, append_pedits, append_edits. simpl. rewrite map_app. reflexivity. Qed.
Lemma pedits_ok_append : forall h a b, pedits_ok h a = true -> pedits_ok h b = true -> pedits_ok h (append_pedits a b) = true.
Proof. intros h a b A B. unfold pedits_ok, append_pedits in *. simpl. rewrite forallb_app, A, B. reflexivity. Qed.
Lemma seen_rel : forall f seen, existsb (fid_eqb (fid_of f)) (map fid_of seen) = existsb (same_file f) seen.
Proof. intros f seen. induction seen as [|x r IH]; [reflexivity|]. simpl. rewrite IH. reflexivity. Qed.

Definition st_rel (h : heap) (sh : list string * list fid * pedits) (sp : list string * list lfile * edits) : Prop :=
  fst (fst sh) = fst (fst sp) /\ snd (fst sh) = map fid_of (snd (fst sp)) /\ deref h (snd sh) = snd sp /\ pedits_ok h (snd sh) = true.

Lemma inj_step_rel : forall h pl c sh sp n, Rep h pl c -> st_rel h sh sp -> st_rel h (inj_step_h pl sh n) (inj_step c sp n).
Proof.
  intros h pl c [[unres seen] acc] [[unres' seen'] acc'] n [OK R] [A [B [C D]]]. simpl in A, B, C, D. subst unres seen.
  unfold inj_step_h, inj_step. specialize (R n). unfold look, look_of in R.
  destruct (pl n) as [[[f se] de]|] eqn:P; destruct (get_device c n) as [cd|]; try discriminate.
  - injection R as Rf Rs Rd. destruct (OK n f se de P) as [Vs Vd]. subst f. rewrite seen_rel.
    destruct (existsb (same_file (cd_file cd)) seen').
    + repeat split; simpl; try reflexivity.
      * rewrite deref_append, C, Rd. reflexivity.
      * apply pedits_ok_append; assumption.
    + repeat split; simpl; try reflexivity.
      * rewrite !deref_append, C, Rs, Rd. reflexivity.
      * apply pedits_ok_append; [apply pedits_ok_append|]; assumption.
  - repeat split; simpl; assumption.
Qed.

Lemma inj_walk_rel_gen : forall h pl c names sh sp, Rep h pl c -> st_rel h sh sp ->
  st_rel h (fold_left (inj_step_h pl) names sh) (fold_left (inj_step c) names sp).
Proof.
  intros h pl c names. induction names as [|n r IH]; intros sh sp RP S; [exact S|].
  simpl. apply IH; [exact RP|]. apply inj_step_rel; assumption.
Qed.
Lemma inj_walk_rel : forall h pl c names, Rep h pl c -> st_rel h (inj_walk_h pl names) (inj_walk c names).
Proof. intros. apply inj_walk_rel_gen; [assumption|]. repeat split. Qed.

(* ---------------- InjectDevices ---------------- *)
Theorem inject_h_copy : forall host h pl c o names, Rep h pl c ->
  snd (inject_h true host h pl o names) = inject host c o names /\ frame (length h) h (fst (inject_h true host h pl o names)).
Proof.
  intros host h pl c o names RP. unfold inject_h, inject. destruct o as [o0|]; [|split; [reflexivity|apply frame_refl]].
  pose proof (inj_walk_rel h pl c names RP) as S.
  destruct (inj_walk_h pl names) as [[unres seen] acc]. destruct (inj_walk c names) as [[unres' seen'] acc'].
  destruct S as [A [_ [C D]]]. simpl in A, C, D. subst unres'.
  destruct unres as [|u us]; [|split; [reflexivity|apply frame_refl]].
  destruct (apply_h_copy host h acc o0 D) as [S F]. rewrite C in S.
  destruct (apply_h true host h acc o0) as [h' [o' code]]. simpl in S, F. rewrite <- S. split; [reflexivity|exact F].
Qed.

(* the cache the query API shows is the same afterwards *)
Lemma deref_frame : forall h h' e, frame (length h) h h' -> pedits_ok h e = true -> deref h' e = deref h e.
Proof. intros h h' e F V. unfold deref. rewrite (deref_nodes_frame h h' (pe_nodes e) F V). reflexivity. Qed.
Lemma pedits_ok_mono : forall h h' e, length h <= length h' -> pedits_ok h e = true -> pedits_ok h' e = true.
Proof.
  intros h h' e L V. unfold pedits_ok in *. rewrite forallb_forall in *. intros p I. apply (ptr_ok_mono h h' p L). apply V. exact I.
Qed.
Theorem Rep_frame : forall h h' pl c, Rep h pl c -> frame (length h) h h' -> Rep h' pl c.
Proof.
  intros h h' pl c [OK R] F. split.
  - intros n f se de P. destruct (OK n f se de P) as [A B]. destruct F as [L _]. split; apply (pedits_ok_mono h h'); assumption.
  - intro n. rewrite <- R. unfold look. destruct (pl n) as [[[f se] de]|] eqn:P; [|reflexivity].
    destruct (OK n f se de P) as [A B]. rewrite (deref_frame h h' se F A), (deref_frame h h' de F B). reflexivity.
Qed.

(* ---------------- histories ---------------- *)
Theorem run_h_copy : forall steps h pl c, Rep h pl c ->
  snd (run_h true h pl steps) = map (fun st => inject (fst (fst st)) c (snd (fst st)) (snd st)) steps /\
  Rep (fst (run_h true h pl steps)) pl c /\ frame (length h) h (fst (run_h true h pl steps)).
Proof.
  induction steps as [|[[host o] names] r IH]; intros h pl c RP.
  - simpl. split; [reflexivity|]. split; [exact RP|apply frame_refl].
  - simpl. destruct (inject_h_copy host h pl c o names RP) as [S F].
    destruct (inject_h true host h pl o names) as [h1 res]. simpl in S, F.
    pose proof (Rep_frame h h1 pl c RP F) as RP1.
    destruct (IH h1 pl c RP1) as [S2 [RP2 F2]].
    destruct (run_h true h1 pl r) as [h2 rs]. simpl in S2, RP2, F2. simpl. rewrite S, S2.
    split; [reflexivity|]. split; [exact RP2|].
    apply (frame_trans _ h h1 h2); [exact F|]. apply (frame_le (length h1)); [destruct F; lia|exact F2].
Qed.

(* ---------------- every cache has a pointer-level representation ---------------- *)
Lemma layout_nodes_ok : forall l h h' ls, layout_nodes h l = (h', ls) ->
  frame (length h) h h' /\ forallb (ptr_ok h') ls = true /\ map (deref_node h') ls = l.
Proof.
  induction l as [|[d|] r IH]; intros h h' ls E; simpl in E.
  - injection E as <- <-. split; [apply frame_refl|]. split; reflexivity.
  - destruct (layout_nodes (h ++ [d]) r) as [h1 ls1] eqn:E1. injection E as <- <-.
    destruct (IH _ _ _ E1) as [F [V D]]. rewrite app_length in F. simpl in F.
    assert (F0 : frame (length h) h h1).
    { destruct F as [L FR]. split; [rewrite app_length in L; simpl in L; lia|].
      intros l' L'. rewrite FR by lia. apply hread_app_l. exact L'. }
    split; [exact F0|]. split.
    + simpl. rewrite V. destruct F as [L _]. rewrite app_length in L. simpl in L.
      replace (Nat.ltb (length h) (length h1)) with true by (symmetry; apply Nat.ltb_lt; lia). reflexivity.
    + simpl. rewrite D. destruct F as [_ FR]. rewrite FR by lia. rewrite hread_alloc_new. reflexivity.
  - destruct (layout_nodes h r) as [h1 ls1] eqn:E1. injection E as <- <-.
    destruct (IH _ _ _ E1) as [F [V D]]. split; [exact F|]. split; simpl; [exact V|rewrite D; reflexivity].
Qed.

Lemma layout_edits_ok : forall e h h' pe, layout_edits h e = (h', pe) ->
  frame (length h) h h' /\ pedits_ok h' pe = true /\ deref h' pe = e.
Proof.
  intros e h h' pe E. unfold layout_edits in E. destruct (layout_nodes h (e_nodes e)) as [h1 ls] eqn:E1. injection E as <- <-.
  destruct (layout_nodes_ok _ _ _ _ E1) as [F [V D]]. split; [exact F|]. split; [exact V|].
  unfold deref. simpl. rewrite D. destruct e; reflexivity.
Qed.

Lemma layout_entries_ok : forall l h h' pl, layout_entries h l = (h', pl) ->
  frame (length h) h h' /\ index_ok h' (alist_get pl) /\ forall n, look h' (alist_get pl) n = alist_get l n.
Proof.
  induction l as [|[k [[f se] de]] r IH]; intros h h' pl E; simpl in E.
  - injection E as <- <-. split; [apply frame_refl|]. split; [intros n f se de P; discriminate|reflexivity].
  - destruct (layout_edits h se) as [h1 pse] eqn:E1. destruct (layout_edits h1 de) as [h2 pde] eqn:E2.
    destruct (layout_entries h2 r) as [h3 rest] eqn:E3. injection E as <- <-.
    destruct (layout_edits_ok _ _ _ _ E1) as [F1 [V1 D1]]. destruct (layout_edits_ok _ _ _ _ E2) as [F2 [V2 D2]].
    destruct (IH _ _ _ E3) as [F3 [OK3 L3]].
    assert (L12 : length h1 <= length h2) by apply F2. assert (L23 : length h2 <= length h3) by apply F3.
    assert (L01 : length h <= length h1) by apply F1.
    assert (F13 : frame (length h1) h1 h3).
    { apply (frame_trans _ h1 h2 h3); [exact F2|]. apply (frame_le (length h2)); [lia|exact F3]. }
    split.
    { apply (frame_trans _ h h1 h3); [exact F1|]. apply (frame_le (length h1)); [lia|exact F13]. }
    assert (Vse : pedits_ok h3 pse = true) by (apply (pedits_ok_mono h1 h3); [lia|exact V1]).
    assert (Vde : pedits_ok h3 pde = true) by (apply (pedits_ok_mono h2 h3); [lia|exact V2]).
    split.
    + intros n f' se' de' P. simpl in P. destruct (String.eqb n k).
      * injection P as <- <- <-. split; assumption.
      * apply (OK3 n f' se' de' P).
    + intro n. unfold look. simpl. destruct (String.eqb n k).
      * rewrite (deref_frame h1 h3 pse F13 V1), D1, (deref_frame h2 h3 pde F3 V2), D2. reflexivity.
      * apply L3.
Qed.

(* the index of a cache as a finite list: the names that resolve *)
Definition entry_of (cd : cdev) : fid * edits * edits :=
  (fid_of (cd_file cd), s_edits (lf_spec (cd_file cd)), d_edits (cd_dev cd)).
Fixpoint entries_of_list (conf : list string) (m : devmap) : list (string * (fid * edits * edits)) :=
  match m with
  | [] => []
  | (k, cd) :: r => if mem_s k conf then entries_of_list conf r else (k, entry_of cd) :: entries_of_list conf r
  end.
Definition entries_of (c : cache) := entries_of_list (c_conf c) (c_devs c).

Lemma entries_conf_none : forall conf m n, mem_s n conf = true -> alist_get (entries_of_list conf m) n = None.
Proof.
  intros conf m n M. induction m as [|[k cd] r IH]; [reflexivity|]. simpl. destruct (mem_s k conf) eqn:K; [exact IH|].
  simpl. destruct (String.eqb n k) eqn:E; [|exact IH]. apply String.eqb_eq in E. subst k. congruence.
Qed.
Lemma look_of_entries : forall c n, look_of c n = alist_get (entries_of c) n.
Proof.
  intros c n. unfold look_of, get_device, entries_of. destruct (mem_s n (c_conf c)) eqn:M.
  - rewrite entries_conf_none by exact M. reflexivity.
  - induction (c_devs c) as [|[k cd] r IH]; [reflexivity|]. simpl. destruct (String.eqb n k) eqn:E.
    + apply String.eqb_eq in E. subst k. rewrite M. simpl. rewrite String.eqb_refl. reflexivity.
    + destruct (mem_s k (c_conf c)); [exact IH|]. simpl. rewrite E. exact IH.
Qed.

Theorem every_cache_has_rep : forall c,
  let '(h, pl) := layout_entries [] (entries_of c) in Rep h (alist_get pl) c.
Proof.
  intro c. destruct (layout_entries [] (entries_of c)) as [h pl] eqn:E.
  destruct (layout_entries_ok _ _ _ _ E) as [_ [OK L]]. split; [exact OK|]. intro n. rewrite L. symmetry. apply look_of_entries.
Qed.

(* ---------------- the code as it was: fillMissingInfo on the cached cell ---------------- *)
Definition wit_fs : fsview :=
  [("/etc/cdi", DDir [("a.json", EFile (Some (mkSpec "0.5.0" "v.com/c" []
     [mkDevice "d1" [] (mkEdits [] [Some (mkDevnode "/dev/x" "/dev/host" "" 0 0 None "" None None)] [] [] None [])] empty_edits)))])].
Definition wit_oci : oci := mkOci [] 0 0 [] [] empty_hooks [] [] None "".
Definition wit_steps : list (hostfn * option oci * list string) :=
  [(host_of [("/dev/host", ("c", 1, 2)%Z)], Some wit_oci, ["v.com/c=d1"]);
   (host_of [("/dev/host", ("b", 7, 8)%Z)], Some wit_oci, ["v.com/c=d1"])].
Definition proj_res (r : list string * nat * option oci) :=
  (fst (fst r), snd (fst r), option_map (fun x => map (fun d => (od_type d, od_major d, od_minor d)) (o_devices x)) (snd r)).

(* with the in-place fill-in the second injection answers from the first one's host node, and the cached device node has
   changed; with the copy neither happens (same inputs) *)
Theorem inplace_fill_refuted :
  let c := refresh wit_fs in
  let '(h, pl) := layout_entries [] (entries_of c) in
  map proj_res (snd (run_h false h (alist_get pl) wit_steps)) <>
    map proj_res (map (fun st => inject (fst (fst st)) c (snd (fst st)) (snd st)) wit_steps) /\
  look (fst (run_h false h (alist_get pl) wit_steps)) (alist_get pl) "v.com/c=d1" <> look_of c "v.com/c=d1" /\
  map proj_res (snd (run_h true h (alist_get pl) wit_steps)) =
    map proj_res (map (fun st => inject (fst (fst st)) c (snd (fst st)) (snd st)) wit_steps) /\
  look (fst (run_h true h (alist_get pl) wit_steps)) (alist_get pl) "v.com/c=d1" = look_of c "v.com/c=d1".
Proof.
  vm_compute. repeat split; try discriminate.
Qed.

(* ---------------- the statements of C14 over the heap ---------------- *)
Theorem cache_is_not_written : forall c h pl steps, Rep h pl c ->
  snd (run_h true h pl steps) = map (fun st => inject (fst (fst st)) c (snd (fst st)) (snd st)) steps /\
  Rep (fst (run_h true h pl steps)) pl c /\
  (forall l, l < length h -> hread (fst (run_h true h pl steps)) l = hread h l).
Proof.
  intros c h pl steps R. destruct (run_h_copy steps h pl c R) as [A [B [_ F]]]. split; [exact A|]. split; [exact B|exact F].
Qed.
Theorem history_on_the_heap : forall fs h pl steps, unique_names (scan fs) -> Rep h pl (refresh fs) ->
  snd (run_h true h pl steps) =
  map (fun st => inject_spec (fst (fst st)) (loaded (scan fs)) (snd (fst st)) (snd st)) steps.
Proof.
  intros fs h pl steps U R. destruct (run_h_copy steps h pl (refresh fs) R) as [A _]. rewrite A.
  apply map_ext. intro st. apply inject_refines_spec_fs. exact U.
Qed.
