(* Paths.v — models of path/filepath on Unix (Clean, Join, Ext, Base, Dir) as used by the library,
   and of the Spec file name helpers of pkg/cdi/spec.go and the path computation of Cache.WriteSpec /
   Cache.RemoveSpec (cache.go). *)
From Coq Require Import String Ascii List Bool Arith.
From CDI Require Import Base.
Import ListNotations.
Open Scope string_scope.

(* component stack, most recent first *)
Definition clean_step (rooted : bool) (stack : list string) (c : string) : list string :=
  if String.eqb c "" || String.eqb c "." then stack
  else if String.eqb c ".." then
    match stack with
    | top :: rest => if String.eqb top ".." then c :: stack else rest
    | [] => if rooted then [] else [c]
    end
  else c :: stack.

Definition is_rooted (p : string) : bool :=
  match p with String c _ => Ascii.eqb c "/" | EmptyString => false end.

(* normal form: rooted flag and the components, first to last *)
Definition norm (p : string) : bool * list string :=
  (is_rooted p, rev (fold_left (clean_step (is_rooted p)) (split_all "/" p) [])).

Definition render (n : bool * list string) : string :=
  let '(rooted, comps) := n in
  if rooted then "/" ++ join_with "/" comps
  else match comps with [] => "." | _ => join_with "/" comps end.

(* filepath.Clean *)
Definition clean (p : string) : string := render (norm p).

(* filepath.Join(a, b) *)
Definition join2 (a b : string) : string :=
  if String.eqb a "" then (if String.eqb b "" then "" else clean b)
  else if String.eqb b "" then clean a else clean (a ++ "/" ++ b).

(* filepath.Ext: suffix starting at the last '.' of the last element *)
Fixpoint ext_aux (s : string) (acc : option string) : string :=
  match s with
  | EmptyString => match acc with Some e => e | None => "" end
  | String c r =>
      if Ascii.eqb c "/" then ext_aux r None
      else if Ascii.eqb c "." then ext_aux r (Some s)
      else ext_aux r acc
  end.
Definition ext (p : string) : string := ext_aux p None.

(* filepath.Base *)
Definition base (p : string) : string :=
  match p with
  | EmptyString => "."
  | _ => match rev (filter (fun c => negb (String.eqb c "")) (split_all "/" p)) with
         | c :: _ => c
         | [] => "/"
         end
  end.

(* filepath.Dir *)
Fixpoint drop_last_comp (l : list string) : list string :=
  match l with [] => [] | [_] => [] | x :: r => x :: drop_last_comp r end.
Definition dir (p : string) : string :=
  (* everything up to and including the last separator, then Clean *)
  match rev (split_all "/" p) with
  | [] | [_] => "."
  | _ :: _ => clean (join_with "/" (drop_last_comp (split_all "/" p)) ++ "/")
  end.

Definition is_spec_ext (e : string) : bool := String.eqb e ".json" || String.eqb e ".yaml".
Definition is_spec_name (name : string) : bool := is_spec_ext (ext name).

(* ---------------- pkg/cdi/spec.go:297-348 ---------------- *)
Definition generate_spec_name (vendor class : string) : string := vendor ++ "-" ++ class.
Definition generate_transient_spec_name (vendor class tid : string) : string :=
  generate_spec_name vendor class ++ "_" ++ replace_char "/" "_" tid.

(* ---------------- cache.go WriteSpec / RemoveSpec path computation ---------------- *)
Definition with_default_ext (p : string) : string := if is_spec_ext (ext p) then p else p ++ ".yaml".
(* WithSpecDirs cleans every directory; the highest priority directory is the last one *)
Definition highest_dir (dirs : list string) : option (string * nat) :=
  match rev dirs with d :: _ => Some (clean d, length dirs - 1) | [] => None end.
(* the path WriteSpec hands to newSpec (which cleans it and applies the default extension again) and
   RemoveSpec hands to os.Remove *)
Definition target_path (dirs : list string) (name : string) : option string :=
  match highest_dir dirs with
  | Some (d, _) => Some (with_default_ext (join2 d name))
  | None => None
  end.
Definition write_path (dirs : list string) (name : string) : option string :=
  match target_path dirs name with
  | Some p => Some (with_default_ext (clean p))
  | None => None
  end.
Definition remove_path (dirs : list string) (name : string) : option string := target_path dirs name.

(* a name that is one normal path component *)
Definition single_component (n : string) : bool :=
  negb (contains "/" n) && negb (String.eqb n "") && negb (String.eqb n ".") && negb (String.eqb n "..").
