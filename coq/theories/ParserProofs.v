(* ParserProofs.v — the model of pkg/parser equals the qualified-name grammar, never panics,
   honours the error contract and round-trips. *)
From Coq Require Import String Ascii List Bool Arith NArith Lia.
From CDI Require Import Base Parser.
Import ListNotations.
Open Scope string_scope.

Lemma substring_all n s : n = String.length s -> substring 0 n s = s.
Proof. intros ->. induction s; cbn; congruence. Qed.

Lemma shape_mid c m l :
  go_slice (String c (m ++ String l "")) 1 (String.length (String c (m ++ String l "")) - 1) = Ok m.
Proof.
  unfold go_slice. cbn [String.length]. rewrite length_app. cbn [String.length].
  replace (S (String.length m + 1) - 1) with (S (String.length m)) by lia.
  replace (Nat.leb 1 (S (String.length m))) with true by (symmetry; apply Nat.leb_le; lia).
  replace (Nat.leb (S (String.length m)) (S (String.length m + 1))) with true
    by (symmetry; apply Nat.leb_le; lia).
  cbn [andb]. f_equal. replace (S (String.length m) - 1) with (String.length m) by lia.
  cbn [substring]. apply substring_prefix.
Qed.

Lemma shape_last c m l : last_char (String c (m ++ String l "")) = Some l.
Proof.
  unfold last_char. cbn [String.length]. rewrite length_app. cbn [String.length].
  replace (S (String.length m + 1) - 1) with (S (String.length m)) by lia.
  cbn [get]. apply get_snoc.
Qed.

(* ---------------- validators = grammar, never panic ---------------- *)
Section Validator.
  Variables first mid last : ascii -> bool.
  Definition validate (name : string) : result unit :=
    match name with
    | EmptyString => Err
    | String c0 _ =>
        if negb (first c0) then Err
        else if Nat.eqb (String.length name) 1 then (if last c0 then Ok tt else Err)
        else bind (go_slice name 1 (String.length name - 1)) (fun m =>
          if negb (forallb_s mid m) then Err
          else match last_char name with
               | Some l => if last l then Ok tt else Err
               | None => Panic
               end)
    end.

  Lemma validate_iff s : validate s = Ok tt <-> Shape first mid last s.
  Proof.
    split.
    - destruct s as [|c r]; cbn [validate]; [discriminate|].
      destruct (first c) eqn:Hf; cbn [negb]; [|discriminate].
      destruct r as [|c' r'].
      + cbn. destruct (last c) eqn:Hl; [|discriminate]. intros _. constructor; auto.
      + destruct (snoc_decomp (String c' r')) as (m & l & E); [discriminate|]. rewrite E.
        replace (Nat.eqb (String.length (String c (m ++ String l ""))) 1) with false.
        2:{ symmetry. apply Nat.eqb_neq. cbn. rewrite length_app. cbn. lia. }
        rewrite shape_mid. cbn [bind]. rewrite shape_last.
        destruct (forallb_s mid m) eqn:Hm; cbn [negb]; [|discriminate].
        destruct (last l) eqn:Hl; [|discriminate]. intros _. constructor; auto.
    - intros [c Hf Hl | c m l Hf Hm Hl]; cbn [validate]; rewrite Hf; cbn [negb].
      + cbn. rewrite Hl. reflexivity.
      + replace (Nat.eqb (String.length (String c (m ++ String l ""))) 1) with false.
        2:{ symmetry. apply Nat.eqb_neq. cbn. rewrite length_app. cbn. lia. }
        rewrite shape_mid. cbn [bind]. rewrite shape_last, Hm, Hl. reflexivity.
  Qed.

  Lemma validate_total s : validate s <> Panic.
  Proof.
    destruct s as [|c r]; cbn [validate]; [discriminate|].
    destruct (first c); cbn [negb]; [|discriminate].
    destruct r as [|c' r'].
    - cbn. destruct (last c); discriminate.
    - destruct (snoc_decomp (String c' r')) as (m & l & E); [discriminate|]. rewrite E.
      replace (Nat.eqb (String.length (String c (m ++ String l ""))) 1) with false.
      2:{ symmetry. apply Nat.eqb_neq. cbn. rewrite length_app. cbn. lia. }
      rewrite shape_mid. cbn [bind]. rewrite shape_last.
      destruct (forallb_s mid m); cbn [negb]; [|discriminate]. destruct (last l); discriminate.
  Qed.

  Lemma validate_cases s : validate s = Ok tt \/ validate s = Err.
  Proof.
    pose proof (validate_total s). destruct (validate s) as [[]| |]; auto. congruence.
  Qed.

  (* the scan-based decision procedure decides the same grammar *)
  Lemma mid_last_cons c r : r <> "" -> mid_last mid last (String c r) = mid c && mid_last mid last r.
  Proof. destruct r; [congruence|reflexivity]. Qed.

  Lemma mid_last_snoc m l : mid_last mid last (m ++ String l "") = forallb_s mid m && last l.
  Proof.
    induction m as [|a m IH]; [reflexivity|].
    change (String a m ++ String l "") with (String a (m ++ String l "")).
    rewrite mid_last_cons by (destruct m; discriminate).
    rewrite IH. cbn [forallb_s]. rewrite andb_assoc. reflexivity.
  Qed.

  Lemma shape_b_iff s : shape_b first mid last s = true <-> Shape first mid last s.
  Proof.
    split.
    - destruct s as [|c r]; cbn [shape_b]; [discriminate|].
      destruct r as [|c' r'].
      + intro H. apply andb_true_iff in H as [H1 H2]. constructor; assumption.
      + destruct (snoc_decomp (String c' r')) as (m & l & E); [discriminate|]. rewrite E.
        rewrite <- E. change (first c && mid_last mid last (String c' r') = true -> Shape first mid last (String c (String c' r'))).
        rewrite E, mid_last_snoc. intro H. apply andb_true_iff in H as [H1 H2].
        apply andb_true_iff in H2 as [H2 H3]. constructor; assumption.
    - intros [c Hf Hl | c m l Hf Hm Hl]; cbn [shape_b].
      + rewrite Hf, Hl. reflexivity.
      + destruct (m ++ String l "") eqn:E; [destruct m; discriminate|]. rewrite <- E.
        rewrite mid_last_snoc, Hf, Hm, Hl. reflexivity.
  Qed.
End Validator.

Lemma letter_alnum c : is_letter c = true -> is_alnum c = true.
Proof. unfold is_alnum. intros ->. reflexivity. Qed.

Lemma validate_vc_eq s : validate_vc s = validate is_letter vc_mid is_alnum s.
Proof.
  destruct s as [|c r]; cbn [validate_vc validate]; [reflexivity|].
  destruct (is_letter c) eqn:Hf; cbn [negb]; [|reflexivity].
  destruct (Nat.eqb (String.length (String c r)) 1); [|reflexivity].
  rewrite (letter_alnum _ Hf). reflexivity.
Qed.

Lemma validate_dn_eq s : validate_dn s = validate is_alnum dn_mid is_alnum s.
Proof.
  destruct s as [|c r]; cbn [validate_dn validate]; [reflexivity|].
  destruct (is_alnum c) eqn:Hf; cbn [negb]; [|reflexivity].
  destruct (Nat.eqb (String.length (String c r)) 1); reflexivity.
Qed.

Theorem validate_vc_iff s : validate_vc s = Ok tt <-> VC s.
Proof. rewrite validate_vc_eq. apply validate_iff. Qed.
Theorem validate_vc_total s : validate_vc s <> Panic.
Proof. rewrite validate_vc_eq. apply validate_total. Qed.
Theorem validate_dn_iff s : validate_dn s = Ok tt <-> DN s.
Proof. rewrite validate_dn_eq. apply validate_iff. Qed.
Theorem validate_dn_total s : validate_dn s <> Panic.
Proof. rewrite validate_dn_eq. apply validate_total. Qed.
Theorem vc_b_iff s : vc_b s = true <-> VC s.
Proof. apply shape_b_iff. Qed.
Theorem dn_b_iff s : dn_b s = true <-> DN s.
Proof. apply shape_b_iff. Qed.

Lemma validate_vc_err_iff s : validate_vc s = Err <-> ~ VC s.
Proof.
  rewrite <- validate_vc_iff. pose proof (validate_vc_total s).
  destruct (validate_vc s) as [[]| |]; split; intro; try congruence; try tauto.
Qed.
Lemma validate_dn_err_iff s : validate_dn s = Err <-> ~ DN s.
Proof.
  rewrite <- validate_dn_iff. pose proof (validate_dn_total s).
  destruct (validate_dn s) as [[]| |]; split; intro; try congruence; try tauto.
Qed.

(* the pinned code is refuted by the shortest witness *)
Theorem validate_vc_pinned_refuted : exists s, VC s /\ validate_vc_pinned s = Panic.
Proof. exists "a". split; [apply vc_b_iff; reflexivity | vm_compute; reflexivity]. Qed.

(* ---------------- character facts, by case analysis on the 256 bytes ---------------- *)
Lemma shape_forall first mid last p s :
  Shape first mid last s ->
  (forall c, first c = true -> p c = true) ->
  (forall c, mid c = true -> p c = true) ->
  (forall c, last c = true -> p c = true) ->
  forallb_s p s = true.
Proof.
  intros [c Hf Hl | c m l Hf Hm Hl] H1 H2 H3; cbn.
  - rewrite (H1 _ Hf). reflexivity.
  - rewrite (H1 _ Hf), forallb_s_app. cbn. rewrite (H3 _ Hl). rewrite andb_true_r. cbn.
    clear - Hm H2. induction m as [|a m IH]; cbn in *; [reflexivity|].
    apply andb_true_iff in Hm as [Ha Hm]. rewrite (H2 _ Ha), (IH Hm). reflexivity.
Qed.

Lemma shape_nonempty first mid last s : Shape first mid last s -> s <> "".
Proof. intros [c ? ? | c m l ? ? ?]; discriminate. Qed.

Lemma letter_dn_mid c : is_letter c = true -> dn_mid c = true.
Proof. destruct c as [[] [] [] [] [] [] [] []]; vm_compute; congruence. Qed.
Lemma alnum_dn_mid c : is_alnum c = true -> dn_mid c = true.
Proof. destruct c as [[] [] [] [] [] [] [] []]; vm_compute; congruence. Qed.
Lemma vc_mid_dn_mid c : vc_mid c = true -> dn_mid c = true.
Proof. unfold dn_mid. intros ->. reflexivity. Qed.
Lemma dn_mid_not_eq : dn_mid "=" = false. Proof. reflexivity. Qed.
Lemma dn_mid_not_slash : dn_mid "/" = false. Proof. reflexivity. Qed.
Lemma dn_mid_not_comma : dn_mid "," = false. Proof. reflexivity. Qed.

Lemma VC_chars s : VC s -> forallb_s dn_mid s = true.
Proof.
  intro H. apply (shape_forall _ _ _ dn_mid _ H).
  - apply letter_dn_mid. - apply vc_mid_dn_mid. - apply alnum_dn_mid.
Qed.
Lemma DN_chars s : DN s -> forallb_s dn_mid s = true.
Proof.
  intro H. apply (shape_forall _ _ _ dn_mid _ H); auto using alnum_dn_mid.
Qed.

Lemma VC_first_not_slash s : VC s -> exists c r, s = String c r /\ Ascii.eqb c "/" = false.
Proof.
  intros [c Hf _ | c m l Hf _ _]; eexists _, _; split; try reflexivity;
    destruct c as [[] [] [] [] [] [] [] []]; vm_compute in Hf |- *; congruence.
Qed.

(* ---------------- parser = grammar ---------------- *)
Theorem parse_complete s v c n :
  QN s v c n -> parse_qualified_name s = (Ok (v, c, n), (v, c, n)).
Proof.
  intros (-> & Hv & Hc & Hn).
  pose proof (VC_chars _ Hv) as Cv. pose proof (VC_chars _ Hc) as Cc. pose proof (DN_chars _ Hn) as Cn.
  pose proof (shape_nonempty _ _ _ _ Hv) as Nv. pose proof (shape_nonempty _ _ _ _ Hc) as Nc.
  pose proof (shape_nonempty _ _ _ _ Hn) as Nn.
  unfold parse_qualified_name, parse_device, qualified_name.
  destruct (VC_first_not_slash _ Hv) as (c0 & r0 & Ev & Hs).
  assert (E1 : v ++ "/" ++ c ++ "=" ++ n = (v ++ String "/" c) ++ String "=" n).
  { symmetry. rewrite app_assoc_s. reflexivity. }
  rewrite E1.
  assert (Hd : exists r', (v ++ String "/" c) ++ String "=" n = String c0 r').
  { rewrite Ev. cbn. eexists; reflexivity. }
  destruct Hd as (r' & Hd). rewrite Hd, Hs, <- Hd.
  rewrite split_first_complete.
  2:{ rewrite contains_app. cbn. rewrite (forallb_not_contains _ _ _ Cv dn_mid_not_eq),
        (forallb_not_contains _ _ _ Cc dn_mid_not_eq). reflexivity. }
  rewrite (eqb_empty_false (v ++ String "/" c)) by (rewrite Ev; discriminate).
  rewrite (eqb_empty_false n Nn). cbn [orb].
  unfold parse_qualifier.
  rewrite split_first_complete by (apply (forallb_not_contains _ _ _ Cv dn_mid_not_slash)).
  rewrite (eqb_empty_false v Nv), (eqb_empty_false c Nc). cbn [orb].
  rewrite ?(eqb_empty_false v Nv), ?(eqb_empty_false c Nc), ?(eqb_empty_false n Nn).
  apply validate_vc_iff in Hv. apply validate_vc_iff in Hc. apply validate_dn_iff in Hn.
  rewrite Hv, Hc, Hn. reflexivity.
Qed.

Theorem parse_sound s v c n out :
  parse_qualified_name s = (Ok (v, c, n), out) -> QN s v c n /\ out = (v, c, n).
Proof.
  unfold parse_qualified_name, parse_device.
  destruct s as [|c0 r0]; [cbn; congruence|].
  destruct (Ascii.eqb c0 "/"); [cbn; congruence|].
  destruct (split_first "=" (String c0 r0)) as [[q n']|] eqn:Es; [|cbn; congruence].
  destruct (String.eqb q "" || String.eqb n' "") eqn:E1; [cbn; congruence|].
  unfold parse_qualifier.
  destruct (split_first "/" q) as [[v' c']|] eqn:Eq; [|cbn; congruence].
  destruct (String.eqb v' "" || String.eqb c' "") eqn:E2; [cbn; congruence|].
  apply orb_false_iff in E2 as [E2a E2b]. rewrite E2a, E2a, E2b.
  apply orb_false_iff in E1 as [_ E1b]. rewrite E1b.
  destruct (validate_vc v') as [[]| |] eqn:Hv; try congruence.
  destruct (validate_vc c') as [[]| |] eqn:Hc; try congruence.
  destruct (validate_dn n') as [[]| |] eqn:Hn; try congruence.
  intro H. inversion H; subst. split; [|reflexivity].
  apply split_first_spec in Es as [Es _]. apply split_first_spec in Eq as [Eq _].
  repeat split.
  - rewrite Es, Eq. unfold qualified_name. rewrite app_assoc_s. reflexivity.
  - apply validate_vc_iff; assumption.
  - apply validate_vc_iff; assumption.
  - apply validate_dn_iff; assumption.
Qed.

Theorem parse_total s : fst (parse_qualified_name s) <> Panic.
Proof.
  unfold parse_qualified_name.
  destruct (parse_device s) as [[v c] n].
  destruct (String.eqb v ""); [cbn; congruence|].
  destruct (String.eqb c ""); [cbn; congruence|].
  destruct (String.eqb n ""); [cbn; congruence|].
  pose proof (validate_vc_total v). pose proof (validate_vc_total c). pose proof (validate_dn_total n).
  destruct (validate_vc v); try (cbn; congruence).
  destruct (validate_vc c); try (cbn; congruence).
  destruct (validate_dn n); cbn; congruence.
Qed.

Theorem parse_err_contract s :
  fst (parse_qualified_name s) <> Ok (fst (fst (snd (parse_qualified_name s))),
                                      snd (fst (snd (parse_qualified_name s))),
                                      snd (snd (parse_qualified_name s))) ->
  snd (parse_qualified_name s) = ("", "", s).
Proof.
  unfold parse_qualified_name.
  destruct (parse_device s) as [[v c] n].
  destruct (String.eqb v ""); [reflexivity|].
  destruct (String.eqb c ""); [reflexivity|].
  destruct (String.eqb n ""); [reflexivity|].
  destruct (validate_vc v); try reflexivity.
  destruct (validate_vc c); try reflexivity.
  destruct (validate_dn n); try reflexivity. cbn. congruence.
Qed.

Theorem parse_ok_iff s v c n :
  fst (parse_qualified_name s) = Ok (v, c, n) <-> QN s v c n.
Proof.
  split.
  - destruct (parse_qualified_name s) as [r out] eqn:E. cbn. intros ->.
    apply parse_sound in E. tauto.
  - intro H. rewrite (parse_complete _ _ _ _ H). reflexivity.
Qed.

Theorem parse_err_iff s :
  fst (parse_qualified_name s) = Err <-> ~ exists v c n, QN s v c n.
Proof.
  split.
  - intros E (v & c & n & H). apply parse_ok_iff in H. congruence.
  - intro H. pose proof (parse_total s) as T.
    destruct (fst (parse_qualified_name s)) as [[[v c] n]| |] eqn:E; [|reflexivity|congruence].
    exfalso. apply H. exists v, c, n. apply parse_ok_iff. exact E.
Qed.

Theorem parse_err_outputs s :
  fst (parse_qualified_name s) = Err -> snd (parse_qualified_name s) = ("", "", s).
Proof.
  intro E. apply parse_err_contract. rewrite E. discriminate.
Qed.

Theorem parse_recompose s v c n :
  fst (parse_qualified_name s) = Ok (v, c, n) ->
  snd (parse_qualified_name s) = (v, c, n) /\ qualified_name v c n = s.
Proof.
  destruct (parse_qualified_name s) as [r out] eqn:E. cbn. intros ->.
  apply parse_sound in E as [(-> & _) ->]. auto.
Qed.

Theorem compose_parse v c n :
  VC v -> VC c -> DN n ->
  parse_qualified_name (qualified_name v c n) = (Ok (v, c, n), (v, c, n)).
Proof. intros. apply parse_complete. repeat split; assumption. Qed.

(* the decomposition of a qualified name is unique *)
Theorem QN_unique s v c n v' c' n' : QN s v c n -> QN s v' c' n' -> (v, c, n) = (v', c', n').
Proof.
  intros H1 H2. apply parse_complete in H1. apply parse_complete in H2. congruence.
Qed.

Theorem is_qualified_iff s :
  is_qualified_name s = Ok true <-> exists v c n, QN s v c n.
Proof.
  unfold is_qualified_name. split.
  - destruct (fst (parse_qualified_name s)) as [[[v c] n]| |] eqn:E; try discriminate.
    intros _. exists v, c, n. apply parse_ok_iff. exact E.
  - intros (v & c & n & H). apply parse_ok_iff in H. rewrite H. reflexivity.
Qed.

Theorem is_qualified_total s : is_qualified_name s <> Panic.
Proof.
  unfold is_qualified_name. pose proof (parse_total s).
  destruct (fst (parse_qualified_name s)); congruence.
Qed.

(* ---------------- the brute-force oracle decides the grammar ---------------- *)
Lemma splits_spec sep s a b : In (a, b) (splits sep s) <-> s = a ++ String sep b.
Proof.
  revert a b. induction s as [|c r IH]; intros a b; cbn [splits].
  - split; [intros []|]. destruct a; discriminate.
  - rewrite in_app_iff, in_map_iff. split.
    + intros [H | ((a' & b') & E & H)].
      * destruct (Ascii.eqb c sep) eqn:Ec; [|destruct H].
        destruct H as [H|[]]. inversion H; subst. apply Ascii.eqb_eq in Ec. subst. reflexivity.
      * cbn in E. inversion E; subst. apply IH in H. subst. reflexivity.
    + destruct a as [|a0 a']; cbn; intro E; inversion E; subst.
      * left. rewrite Ascii.eqb_refl. left. reflexivity.
      * right. exists (a', b). split; [reflexivity|]. apply IH. reflexivity.
Qed.

Theorem exists_qn_iff s : exists_qn s = true <-> exists v c n, QN s v c n.
Proof.
  unfold exists_qn. rewrite existsb_exists. split.
  - intros ((v & rest) & Hin & H). cbn [fst snd] in H.
    apply andb_true_iff in H as [Hv H]. apply existsb_exists in H as ((c & n) & Hin2 & H).
    cbn [fst snd] in H. apply andb_true_iff in H as [Hc Hn].
    apply splits_spec in Hin. apply splits_spec in Hin2. subst.
    exists v, c, n. repeat split; try (apply vc_b_iff; assumption); try (apply dn_b_iff; assumption).
  - intros (v & c & n & -> & Hv & Hc & Hn).
    exists (v, c ++ String "=" n). split; [apply splits_spec; reflexivity|].
    cbn [fst snd]. apply andb_true_iff. split; [apply vc_b_iff; assumption|].
    apply existsb_exists. exists (c, n). split; [apply splits_spec; reflexivity|].
    cbn [fst snd]. apply andb_true_iff. split; [apply vc_b_iff|apply dn_b_iff]; assumption.
Qed.

Corollary parse_agrees_with_oracle s :
  is_qualified_name s = Ok (exists_qn s).
Proof.
  destruct (exists_qn s) eqn:E.
  - apply is_qualified_iff, exists_qn_iff. exact E.
  - unfold is_qualified_name.
    assert (H : fst (parse_qualified_name s) = Err).
    { apply parse_err_iff. intro H. apply exists_qn_iff in H. congruence. }
    rewrite H. reflexivity.
Qed.

Example qn_nonvacuous : QN "vendor.com/gpu-0=dev:1" "vendor.com" "gpu-0" "dev:1".
Proof.
  repeat split.
  - apply validate_vc_iff. reflexivity.
  - apply validate_vc_iff. reflexivity.
  - apply validate_dn_iff. reflexivity.
Qed.
Example qn_single_letters : QN "a/b=c" "a" "b" "c".
Proof. repeat split; [apply validate_vc_iff| apply validate_vc_iff | apply validate_dn_iff]; reflexivity. Qed.
