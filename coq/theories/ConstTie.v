(* ConstTie.v — the validation constants REGENERATED from the source on every run (gen/ConstGen.v: hook stages, device
   node types, permission characters, the closID rule, the annotation size and name-length limits) equal the ones of the
   hand-written model and of the declarative specification WF.  A changed constant in the code changes ConstGen.v and
   breaks this file (and with it C05's property file); the harness then probes the new values (coq/gen/consts.json). *)
From Coq Require Import String Ascii List Bool Arith NArith.
From CDI Require Import Base SpecModel Annotations Validate.
From CDIGen Require Import ConstGen.
Import ListNotations.
Open Scope string_scope.

Definition model_perm_chars : list string :=
  filter (fun c => match c with String a EmptyString => perm_char a | _ => false end)
         (map (fun n => String (ascii_of_nat n) EmptyString) (seq 0 256)).
Definition model_closid_rejects (c : string) : bool := match validate_rdt (mkRdt c "" "" false false) with Err => true | _ => false end.

Theorem constants_tie :
  sort_strings ConstGen.hook_names = sort_strings Validate.hook_names /\
  sort_strings ConstGen.node_types = sort_strings Validate.node_types /\
  sort_strings ConstGen.perm_chars = sort_strings model_perm_chars /\
  ConstGen.annot_size_limit = Validate.annot_size_limit /\
  ConstGen.closid_max = 4096%N /\ sort_strings ConstGen.closid_forbidden = ["."; ".."] /\ ConstGen.closid_badchars = [47%N; 10%N] /\
  forallb model_closid_rejects (ConstGen.closid_forbidden ++ map (fun b => String (ascii_of_N b) EmptyString) ConstGen.closid_badchars) = true /\
  ConstGen.qname_max = 63 /\ ConstGen.dns_subdomain_max = 253 /\ ConstGen.dns_label_max = 63.
Proof. vm_compute. repeat split; reflexivity. Qed.

(* the limits the k8s name matcher of the model uses *)
Example limits_used_by_the_model :
  k8s_qualified_b (String.concat "" (repeat "a" ConstGen.qname_max)) = true /\
  k8s_qualified_b (String.concat "" (repeat "a" (S ConstGen.qname_max))) = false.
Proof. vm_compute. split; reflexivity. Qed.
