(* ConfigureExamples.v — concrete runs of the configure machine: the hypotheses of the C20 theorems are satisfiable and
   the interesting branches (nil watcher, closed watcher, default cache, probe reactions) are reachable. *)
From Coq Require Import String Ascii List Bool Arith.
From CDI Require Import Base Paths Configure ConfigureProofs ConfigureRes ConfigureSim ConfigureEquiv ConfigureView ConfigureAuto ConfigureObserve.
Import ListNotations.
Open Scope string_scope.

Definition ex_fs : fsys :=
  [("/a", [("x.json", Good ["v/c=d0"]); ("notes.txt", Bad)]); ("/b", [("bad.json", Bad)])].

(* create, go manual, change a file, go auto with other directories, reconfigure during a descriptor shortage, change a file *)
Definition ex_hist : list op :=
  [New [WithSpecDirs ["/a/"; "/b"; "/missing"]];
   Configure [WithAutoRefresh false];
   FsOp (WriteFile "/a" "y.json" (Good ["v/c=d1"]));
   Configure [WithAutoRefresh true; WithSpecDirs ["/a"]];
   SetFdShortage true;
   Configure [WithSpecDirs ["/b/."; "/a"]];
   SetFdShortage false;
   FsOp (WriteFile "/b" "z.yaml" (Good ["v/c=d2"]))].

Definition ex_w : world := run (world0 ["/etc/cdi"] ex_fs) ex_hist.

(* the watcher could not be created, auto-refresh is on, and the query sees the file written afterwards *)
Example ex_shortage :
  option_map watcher (cache ex_w) = Some None /\ option_map auto (cache ex_w) = Some true /\ fd_ok ex_w = true /\
  open ex_w = [] /\ gors ex_w = [] /\
  snd (step ex_w Query) = OAnswer ["v/c=d0@/a/x.json"; "v/c=d1@/a/y.json"; "v/c=d2@/b/z.yaml"] ["/b/bad.json"] ["/a"; "/b"].
Proof. vm_compute. repeat split; reflexivity. Qed.

Example ex_disciplined : disciplined true ex_hist = true /\ cache ex_w <> None.
Proof. vm_compute. split; [reflexivity|discriminate]. Qed.

Example ex_observe :
  observe ex_w = Some (["/b"; "/a"], true, ["/a"; "/b"], Some (["v/c=d0@/a/x.json"; "v/c=d1@/a/y.json"; "v/c=d2@/b/z.yaml"], ["/b/bad.json"])) /\
  applied false ex_hist = [WithSpecDirs ["/a/"; "/b"; "/missing"]; WithAutoRefresh false; WithAutoRefresh true; WithSpecDirs ["/a"]; WithSpecDirs ["/b/."; "/a"]].
Proof. vm_compute. split; reflexivity. Qed.

(* with descriptors available: one watcher, one goroutine, however often the cache is reconfigured; a later directory is
   picked up by the next query, a file dropped into a watched directory without any query or refresh *)
Definition ex_hist2 : list op :=
  [New [WithSpecDirs ["/a"; "/missing"]];
   Configure [WithSpecDirs ["/b"]]; Configure [WithAutoRefresh false]; Configure [WithAutoRefresh true];
   Configure [WithSpecDirs ["/a"; "/missing"]];
   FsOp (MkDir "/missing"); FsOp (WriteFile "/missing" "m.json" (Good ["v/c=m"]))].
Definition ex_w2 : world := run (world0 [] ex_fs) ex_hist2.

Example ex_one_watcher :
  open ex_w2 = [3] /\ gors ex_w2 = [3] /\ next ex_w2 = 4 /\
  option_map tracked (cache ex_w2) = Some [("/a", true); ("/missing", false)] /\
  option_map cached (cache ex_w2) = Some (["v/c=d0@/a/x.json"], []) /\
  snd (step ex_w2 Query) = OAnswer ["v/c=d0@/a/x.json"; "v/c=m@/missing/m.json"] [] [] /\
  option_map cached (cache (fst (step (fst (step ex_w2 Query)) (FsOp (WriteFile "/a" "p.json" (Good ["v/c=probe"])))))) =
    Some (["v/c=d0@/a/x.json"; "v/c=m@/missing/m.json"; "v/c=probe@/a/p.json"], []).
Proof. vm_compute. repeat split; reflexivity. Qed.

(* manual mode: nothing is held, a change is not seen until Refresh *)
Example ex_manual :
  let w := run (world0 [] ex_fs) [New [WithSpecDirs ["/a"]]; Configure [WithAutoRefresh false]; FsOp (RemoveFile "/a" "x.json")] in
  open w = [] /\ gors w = [] /\ option_map watcher (cache w) = Some (Some 0) /\
  snd (step w Query) = OAnswer ["v/c=d0@/a/x.json"] [] [] /\ snd (step (fst (step w Refresh)) Query) = OAnswer [] [] [].
Proof. vm_compute. repeat split; reflexivity. Qed.

(* the default cache: used first, configured later — and the other way round *)
Example ex_default :
  let w1 := run (world0 ["/a"] ex_fs) [DefaultGet; DefaultConfigure [WithSpecDirs ["/b"]]; DefaultGet] in
  let w2 := run (world0 ["/a"] ex_fs) [DefaultConfigure [WithSpecDirs ["/b"]]] in
  observe w1 = observe w2 /\ observe w1 = Some (["/b"], true, ["/b"], Some ([], ["/b/bad.json"])) /\
  observe (run (world0 ["/a"] ex_fs) [DefaultGet]) = Some (["/a"], true, ["/a"], Some (["v/c=d0@/a/x.json"], [])).
Proof. vm_compute. repeat split; reflexivity. Qed.

(* outside the shortage discipline the statement "observes like a new cache" is false of the faithful model: an event
   handled while no descriptor can be had rescans nothing, and neither a query nor Refresh() repairs an auto-refresh
   cache whose watcher is intact *)
Definition ex_loss_hist : list op :=
  [New [WithSpecDirs ["/a"]]; SetFdShortage true; FsOp (WriteFile "/a" "y.json" (Good ["v/c=d1"])); SetFdShortage false].

Lemma observe_equiv_new_refuted_without_discipline :
  exists defs fs0 ops,
    let w := run (world0 defs fs0) ops in
    fd_ok w = true /\ cache w <> None /\ disciplined true ops = false /\
    observe w <> observe (fresh w (applied false ops)).
Proof.
  exists [], ex_fs, ex_loss_hist. vm_compute. repeat split; try reflexivity; discriminate.
Qed.
