(* ApplySpec.v — the documented semantics of applying container edits, written declaratively
   (no generator state, no reference to the order of operations inside Apply): one boolean
   postcondition per edit kind, relating the initial OCI spec, the edits and the final OCI spec. *)
From Coq Require Import String Ascii List Bool Arith ZArith.
From CDI Require Import Base SpecModel Paths Oci Apply.
Import ListNotations.
Open Scope string_scope.

Fixpoint nodup_s (l : list string) : bool :=
  match l with [] => true | x :: r => negb (mem_s x r) && nodup_s r end.

(* keep, for every key, the last element having it; order = order of those last occurrences *)
Fixpoint dedup_last {A} (key : A -> string) (l : list A) : list A :=
  match l with
  | [] => []
  | x :: r => if mem_s (key x) (map key r) then dedup_last key r else x :: dedup_last key r
  end.
(* keep the first occurrence of every element *)
Fixpoint dedup_first_z (seen : list Z) (l : list Z) : list Z :=
  match l with
  | [] => []
  | x :: r => if existsb (Z.eqb x) seen then dedup_first_z seen r else x :: dedup_first_z (x :: seen) r
  end.

(* ---- environment ---- *)
Definition env_names (l : list string) : list string := map env_name l.
Fixpoint last_entry (k : string) (entries : list string) : option string :=
  match entries with
  | [] => None
  | e :: r => match last_entry k r with Some x => Some x | None => if String.eqb (env_name e) k then Some e else None end
  end.
(* every variable named by the edits has (exactly) the value of its last edit; all others keep theirs *)
Definition env_post (init entries final : list string) : bool :=
  let named := env_names entries in
  ls_eqb (filter (fun e => negb (mem_s (env_name e) named)) final)
         (filter (fun e => negb (mem_s (env_name e) named)) init) &&
  forallb (fun k => match last_entry k entries with
                    | Some v => ls_eqb (filter (fun e => String.eqb (env_name e) k) final) [v]
                    | None => false
                    end) named.
(* the class of inputs of known finding C03/env-existing-name *)
Definition env_known_class (init entries : list string) : bool :=
  existsb (fun e => mem_s (env_name e) (env_names entries)) init.

(* ---- device nodes ---- *)
(* what a node becomes, per SPEC.md: type/major/minor from the host node when unspecified, process uid/gid when its own are unset *)
Definition expected_dev (host : hostfn) (uid gid : Z) (d : devnode) : option ocidev :=
  let hp := if String.eqb (dn_hostpath d) "" then dn_path d else dn_hostpath d in
  let need_host := String.eqb (dn_type d) "" || (Z.eqb (dn_major d) 0 && negb (String.eqb (dn_type d) "p")) in
  let final :=
    if need_host then
      match host hp with
      | None => None
      | Some (t, ma, mi) =>
          if negb (String.eqb (dn_type d) "") && negb (String.eqb (dn_type d) t) then None
          else let ty := if String.eqb (dn_type d) "" then t else dn_type d in
               if Z.eqb (dn_major d) 0 && negb (String.eqb ty "p") then Some (ty, ma, mi) else Some (ty, dn_major d, dn_minor d)
      end
    else Some (dn_type d, dn_major d, dn_minor d) in
  match final with
  | None => None
  | Some (ty, ma, mi) =>
      Some (mkOciDev (dn_path d) ty ma mi (dn_filemode d)
              (match dn_uid d with Some u => Some u | None => if (0 <? uid)%Z then Some uid else None end)
              (match dn_gid d with Some g => Some g | None => if (0 <? gid)%Z then Some gid else None end))
  end.
Fixpoint all_some {A} (l : list (option A)) : option (list A) :=
  match l with
  | [] => Some []
  | Some x :: r => match all_some r with Some xs => Some (x :: xs) | None => None end
  | None :: _ => None
  end.
Definition devices_post (host : hostfn) (uid gid : Z) (init : list ocidev) (nodes : list devnode) (final : list ocidev) : bool :=
  match all_some (map (expected_dev host uid gid) nodes) with
  | None => true     (* an error path: not constrained by the postcondition *)
  | Some devs =>
      let paths := map od_path devs in
      list_eqb ocidev_eqb final
        (filter (fun x => negb (mem_s (od_path x) paths)) init ++ dedup_last od_path devs)
  end.
Definition cgroup_post (host : hostfn) (uid gid : Z) (init : list cgrule) (nodes : list devnode) (final : list cgrule) : bool :=
  match all_some (map (fun d => match expected_dev host uid gid d with Some x => Some (d, x) | None => None end) nodes) with
  | None => true
  | Some pairs =>
      list_eqb cgrule_eqb final
        (init ++ map (fun dx => mkCgRule true (od_type (snd dx)) (Some (od_major (snd dx))) (Some (od_minor (snd dx)))
                                         (if String.eqb (dn_perms (fst dx)) "" then "rwm" else dn_perms (fst dx)))
                     (filter (fun dx => String.eqb (od_type (snd dx)) "b" || String.eqb (od_type (snd dx)) "c") pairs))
  end.

(* ---- mounts ---- *)
Fixpoint sorted_by_depth (l : list ocimount) : bool :=
  match l with
  | [] => true
  | x :: r => forallb (fun y => Nat.leb (mount_depth x) (mount_depth y)) r && sorted_by_depth r
  end.
Definition depth_class (k : nat) (l : list ocimount) : list ocimount := filter (fun m => Nat.eqb (mount_depth m) k) l.
Definition mounts_post (init : list ocimount) (ms : list mount) (final : list ocimount) : bool :=
  match ms with
  | [] => list_eqb ocimount_eqb final init
  | _ =>
      let dests := map m_ctr ms in
      let base := (filter (fun x => negb (mem_s (om_dest x) dests)) init ++ dedup_last om_dest (map mount_to_oci ms))%list in
      sorted_by_depth final && Nat.eqb (length final) (length base) &&
      forallb (fun m => list_eqb ocimount_eqb (depth_class (mount_depth m) final) (depth_class (mount_depth m) base)) base
  end.

(* ---- hooks, gids, rdt ---- *)
Definition stage (n : string) (hs : list hook) : list ocihook :=
  map hook_to_oci (filter (fun h => String.eqb (h_name h) n) hs).
Definition hooks_post (init : ocihooks) (hs : list hook) (final : ocihooks) : bool :=
  ocihooks_eqb final
    (mkOciHooks (hk_prestart init ++ stage "prestart" hs) (hk_create_runtime init ++ stage "createRuntime" hs)
                (hk_create_container init ++ stage "createContainer" hs) (hk_start_container init ++ stage "startContainer" hs)
                (hk_poststart init ++ stage "poststart" hs) (hk_poststop init ++ stage "poststop" hs)).
Definition gids_post (init gids final : list Z) : bool :=
  list_eqb Z.eqb final (init ++ dedup_first_z (0%Z :: init) gids).
Definition rdt_post (init : option rdt) (r : option rdt) (final : option rdt) : bool :=
  option_eqb rdt_eqb final (match r with Some x => Some x | None => init end).

(* well-formed initial spec and valid (loaded) edits, as the property quantifies *)
Definition wf_initial (o : oci) : bool :=
  nodup_s (map od_path (o_devices o)) && nodup_s (map om_dest (o_mounts o)).
Definition known_hook_name (n : string) : bool :=
  mem_s n ["prestart"; "createRuntime"; "createContainer"; "startContainer"; "poststart"; "poststop"].
Definition valid_edits (e : edits) : bool :=
  forallb (fun x => match x with Some _ => true | None => false end) (e_nodes e) &&
  forallb (fun x => match x with Some _ => true | None => false end) (e_mounts e) &&
  forallb (fun x => match x with Some h => known_hook_name (h_name h) | None => false end) (e_hooks e).

(* the whole postcondition (the env part separately, because of the known finding) *)
Definition apply_post_but_env (host : hostfn) (e : edits) (o o' : oci) : bool :=
  devices_post host (o_uid o) (o_gid o) (o_devices o) (somes (e_nodes e)) (o_devices o') &&
  cgroup_post host (o_uid o) (o_gid o) (o_cgroup o) (somes (e_nodes e)) (o_cgroup o') &&
  mounts_post (o_mounts o) (somes (e_mounts e)) (o_mounts o') &&
  hooks_post (o_hooks o) (somes (e_hooks e)) (o_hooks o') &&
  gids_post (o_gids o) (e_gids e) (o_gids o') &&
  rdt_post (o_rdt o) (e_rdt e) (o_rdt o') &&
  Z.eqb (o_uid o') (o_uid o) && Z.eqb (o_gid o') (o_gid o) && String.eqb (o_rest o') (o_rest o).
