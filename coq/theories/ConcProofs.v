(* ConcProofs.v — the lock discipline checked by Conc.wl implies, for any number of threads running
   checker-approved paths in any interleaving: data-race freedom, atomicity of critical sections
   (snapshot consistency), absence of lock-induced deadlock. *)
From Coq Require Import List Bool Arith Lia String.
From CDI Require Import Conc.
Import ListNotations.

(* ---- list helpers ---- *)
Lemma memb_rem_same m l : memb m (rem m l) = false.
Proof.
  unfold memb, rem. induction l as [|k r IH]; cbn; [reflexivity|].
  destruct (Nat.eqb m k) eqn:E; cbn; [exact IH|]. rewrite E. exact IH.
Qed.

Lemma memb_rem_other m k l : Nat.eqb m k = false -> memb m (rem k l) = memb m l.
Proof.
  intro H. unfold memb, rem. induction l as [|x r IH]; cbn; [reflexivity|].
  destruct (Nat.eqb k x) eqn:E; cbn.
  - apply Nat.eqb_eq in E; subst. rewrite H. exact IH.
  - rewrite IH. reflexivity.
Qed.

Lemma above_lt m k l : above m l = true -> memb k l = true -> k < m.
Proof.
  unfold above, memb. induction l as [|x r IH]; cbn; [discriminate|].
  intros A M. apply andb_true_iff in A as [A1 A2]. apply orb_true_iff in M as [M|M].
  - apply Nat.eqb_eq in M; subst. apply Nat.ltb_lt. exact A1.
  - apply IH; assumption.
Qed.

Lemma nil_b_true {A} (l : list A) : nil_b l = true -> l = [].
Proof. destruct l; [reflexivity|discriminate]. Qed.

Lemma memb_cons k m l : memb k (m :: l) = Nat.eqb k m || memb k l.
Proof. reflexivity. Qed.

Section Proofs.
  Variable guard : var -> option mid.
  Variable nmut : nat.
  Notation wl := (wl guard nmut).
  Notation init_ok := (init_ok guard nmut).

  (* the invariant: what every thread holds according to the checker is what it holds in the state *)
  Definition thread_ok (s : state) (i : tid) : Prop :=
    exists hw hr, wl hw hr (thr s i) = true /\
                  (forall m, memb m hw = true <-> own s m = Some i) /\
                  (forall m, memb m hr = true <-> memb i (rdrs s m) = true).
  Definition Inv (s : state) : Prop :=
    (forall i, thread_ok s i) /\ (forall m i, own s m = Some i -> rdrs s m = []).

  Lemma inv_advance s i a r :
    Inv s -> thr s i = a :: r -> (forall hw hr, wl hw hr (a :: r) = true -> wl hw hr r = true) ->
    Inv {| own := own s; rdrs := rdrs s; thr := upd (thr s) i r |}.
  Proof.
    intros [T G] Ha Hw. split; [|exact G]. intro j. unfold thread_ok. cbn [own rdrs thr]. unfold upd.
    destruct (Nat.eqb j i) eqn:E.
    - apply Nat.eqb_eq in E; subst j. destruct (T i) as (hw & hr & W & O & R). exists hw, hr.
      rewrite Ha in W. split; [apply Hw; exact W | split; assumption].
    - exact (T j).
  Qed.

  Lemma step_inv s i a s' : Inv s -> step s i a s' -> Inv s'.
  Proof.
    intros I St. pose proof I as [T G]. destruct (T i) as (hi & ri & Wi & Oi & Ri).
    inversion St as [? ? m r Ht Ho Hr | ? ? m r Ht | ? ? m r Ht Ho | ? ? m r Ht | ? ? x r Ht | ? ? x r Ht | ? ? r Ht]; subst.
    - (* Lock *)
      rewrite Ht in Wi. cbn [Conc.wl] in Wi.
      apply andb_true_iff in Wi as [Wi W]. apply andb_true_iff in Wi as [Wi A2]. apply andb_true_iff in Wi as [L A1].
      split.
      + intro j. unfold thread_ok. cbn [own rdrs thr]. unfold upd. destruct (Nat.eqb j i) eqn:E.
        * apply Nat.eqb_eq in E; subst j. exists (m :: hi), ri. split; [exact W|]. split; [|exact Ri].
          intro k. rewrite memb_cons. destruct (Nat.eqb k m) eqn:K; cbn [orb].
          -- tauto.
          -- apply Oi.
        * destruct (T j) as (hj & rj & Wj & Oj & Rj). exists hj, rj. split; [exact Wj|]. split; [|exact Rj].
          intro k. destruct (Nat.eqb k m) eqn:K.
          -- apply Nat.eqb_eq in K; subst k. split.
             ++ intro Hm. apply Oj in Hm. congruence.
             ++ intro X. inversion X; subst. rewrite Nat.eqb_refl in E. discriminate.
          -- apply Oj.
      + intros k t. cbn [own rdrs]. unfold upd. destruct (Nat.eqb k m) eqn:K.
        * apply Nat.eqb_eq in K; subst k. intros _. exact Hr.
        * apply G.
    - (* Unlock *)
      rewrite Ht in Wi. cbn [Conc.wl] in Wi. apply andb_true_iff in Wi as [N W].
      assert (Om : own s m = Some i) by (apply Oi; exact N).
      split.
      + intro j. unfold thread_ok. cbn [own rdrs thr]. unfold upd. destruct (Nat.eqb j i) eqn:E.
        * apply Nat.eqb_eq in E; subst j. exists (rem m hi), ri. split; [exact W|]. split; [|exact Ri].
          intro k. destruct (Nat.eqb k m) eqn:K.
          -- apply Nat.eqb_eq in K; subst k. rewrite memb_rem_same. split; discriminate.
          -- rewrite memb_rem_other by exact K. apply Oi.
        * destruct (T j) as (hj & rj & Wj & Oj & Rj). exists hj, rj. split; [exact Wj|]. split; [|exact Rj].
          intro k. destruct (Nat.eqb k m) eqn:K.
          -- apply Nat.eqb_eq in K; subst k. split; [|discriminate].
             intro Hm. apply Oj in Hm. rewrite Om in Hm. inversion Hm; subst. rewrite Nat.eqb_refl in E. discriminate.
          -- apply Oj.
      + intros k t. cbn [own rdrs]. unfold upd. destruct (Nat.eqb k m) eqn:K; [discriminate | apply G].
    - (* RLock *)
      rewrite Ht in Wi. cbn [Conc.wl] in Wi.
      apply andb_true_iff in Wi as [Wi W]. apply andb_true_iff in Wi as [Wi A2]. apply andb_true_iff in Wi as [L A1].
      split.
      + intro j. unfold thread_ok. cbn [own rdrs thr]. unfold upd. destruct (Nat.eqb j i) eqn:E.
        * apply Nat.eqb_eq in E; subst j. exists hi, (m :: ri). split; [exact W|]. split; [exact Oi|].
          intro k. rewrite memb_cons. destruct (Nat.eqb k m) eqn:K; cbn [orb].
          -- rewrite memb_cons. rewrite Nat.eqb_refl. cbn [orb]. tauto.
          -- apply Ri.
        * destruct (T j) as (hj & rj & Wj & Oj & Rj). exists hj, rj. split; [exact Wj|]. split; [exact Oj|].
          intro k. destruct (Nat.eqb k m) eqn:K.
          -- apply Nat.eqb_eq in K; subst k. rewrite memb_cons. rewrite E. cbn [orb]. apply Rj.
          -- apply Rj.
      + intros k t. cbn [own rdrs]. unfold upd. destruct (Nat.eqb k m) eqn:K.
        * apply Nat.eqb_eq in K; subst k. intro X. congruence.
        * apply G.
    - (* RUnlock *)
      rewrite Ht in Wi. cbn [Conc.wl] in Wi. apply andb_true_iff in Wi as [N W].
      split.
      + intro j. unfold thread_ok. cbn [own rdrs thr]. unfold upd. destruct (Nat.eqb j i) eqn:E.
        * apply Nat.eqb_eq in E; subst j. exists hi, (rem m ri). split; [exact W|]. split; [exact Oi|].
          intro k. destruct (Nat.eqb k m) eqn:K.
          -- apply Nat.eqb_eq in K; subst k. rewrite !memb_rem_same. tauto.
          -- rewrite memb_rem_other by exact K. apply Ri.
        * destruct (T j) as (hj & rj & Wj & Oj & Rj). exists hj, rj. split; [exact Wj|]. split; [exact Oj|].
          intro k. destruct (Nat.eqb k m) eqn:K.
          -- apply Nat.eqb_eq in K; subst k. rewrite memb_rem_other by exact E. apply Rj.
          -- apply Rj.
      + intros k t. cbn [own rdrs]. unfold upd. destruct (Nat.eqb k m) eqn:K.
        * apply Nat.eqb_eq in K; subst k. intro X. rewrite (G _ _ X). reflexivity.
        * apply G.
    - apply (inv_advance s i (Rd x) r I Ht). intros hw hr H. cbn [Conc.wl] in H. apply andb_true_iff in H. tauto.
    - apply (inv_advance s i (Wr x) r I Ht). intros hw hr H. cbn [Conc.wl] in H. apply andb_true_iff in H. tauto.
    - apply (inv_advance s i Block r I Ht). intros hw hr H. cbn [Conc.wl] in H. apply andb_true_iff in H. tauto.
  Qed.

  Lemma init_inv s0 : init_ok s0 -> Inv s0.
  Proof.
    intros (O & R & W). split.
    - intro i. exists [], []. split; [apply W|]. split; intro m; cbn.
      + rewrite O. split; discriminate.
      + rewrite R. cbn. tauto.
    - intros m i _. apply R.
  Qed.

  Theorem reach_inv s0 s : init_ok s0 -> reach s0 s -> Inv s.
  Proof. intros I R. induction R; [apply init_inv; exact I | eapply step_inv; eauto]. Qed.

  Lemma run_reach s0 s tr s' : reach s0 s -> run s tr s' -> reach s0 s'.
  Proof. intros R Hr. induction Hr; [exact R|]. apply IHHr. eapply RS; eauto. Qed.

  (* what the head of a thread's code tells about what it holds *)
  Lemma head_write s i x r m : Inv s -> thr s i = Wr x :: r -> guard x = Some m -> own s m = Some i.
  Proof.
    intros [T _] Hi G. destruct (T i) as (hw & hr & W & O & _). rewrite Hi in W. cbn [Conc.wl] in W.
    rewrite G in W. apply andb_true_iff in W as [M _]. apply O. exact M.
  Qed.

  Lemma head_read s i x r m : Inv s -> thr s i = Rd x :: r -> guard x = Some m -> holds s i m.
  Proof.
    intros [T _] Hi G. destruct (T i) as (hw & hr & W & O & R). rewrite Hi in W. cbn [Conc.wl] in W.
    rewrite G in W. apply andb_true_iff in W as [M _]. apply orb_true_iff in M as [M|M].
    - left. apply O. exact M.
    - right. apply R. exact M.
  Qed.

  Lemma holds_excl s i j m : Inv s -> own s m = Some i -> holds s j m -> i = j.
  Proof.
    intros [_ G] Oi [Oj|Rj]; [congruence|]. rewrite (G _ _ Oi) in Rj. discriminate.
  Qed.

  (* ---- data-race freedom: two different threads are never both about to perform conflicting accesses ---- *)
  Theorem race_free s0 s i j a b ra rb x m :
    init_ok s0 -> reach s0 s -> guard x = Some m ->
    thr s i = a :: ra -> thr s j = b :: rb -> conflict a b x -> i = j.
  Proof.
    intros I R G Hi Hj C. pose proof (reach_inv _ _ I R) as V.
    destruct C as [[-> [-> | ->]] | [[-> | ->] ->]].
    - eapply holds_excl; [exact V | eapply head_write; eauto | eapply head_read; eauto].
    - pose proof (head_write _ _ _ _ _ V Hi G). pose proof (head_write _ _ _ _ _ V Hj G). congruence.
    - symmetry. eapply holds_excl; [exact V | eapply head_write; eauto | eapply head_read; eauto].
    - pose proof (head_write _ _ _ _ _ V Hi G). pose proof (head_write _ _ _ _ _ V Hj G). congruence.
  Qed.

  (* a thread about to write owns the mutex; one about to read holds it (exclusively or shared) *)
  Theorem write_owns s0 s i x r m :
    init_ok s0 -> reach s0 s -> guard x = Some m -> thr s i = Wr x :: r -> own s m = Some i.
  Proof. intros I R G Hi. eapply head_write; eauto using reach_inv. Qed.

  Theorem access_holds s0 s i a x r m :
    init_ok s0 -> reach s0 s -> guard x = Some m -> thr s i = a :: r -> accesses a x -> holds s i m.
  Proof.
    intros I R G Hi [-> | ->].
    - eapply head_read; eauto using reach_inv.
    - left. eapply head_write; eauto using reach_inv.
  Qed.

  (* releases are by holders: no "unlock of unlocked mutex" fatal error *)
  Theorem unlock_by_owner s0 s i m r :
    init_ok s0 -> reach s0 s -> thr s i = Unlock m :: r -> own s m = Some i.
  Proof.
    intros I R Hi. destruct (reach_inv _ _ I R) as [T _]. destruct (T i) as (hw & hr & W & O & _).
    rewrite Hi in W. cbn [Conc.wl] in W. apply andb_true_iff in W as [N _]. apply O. exact N.
  Qed.

  Theorem runlock_by_reader s0 s i m r :
    init_ok s0 -> reach s0 s -> thr s i = RUnlock m :: r -> memb i (rdrs s m) = true.
  Proof.
    intros I R Hi. destruct (reach_inv _ _ I R) as [T _]. destruct (T i) as (hw & hr & W & _ & Rr).
    rewrite Hi in W. cbn [Conc.wl] in W. apply andb_true_iff in W as [N _]. apply Rr. exact N.
  Qed.

  (* ---- critical sections are atomic ---- *)
  Lemma step_head s i a s' : step s i a s' -> exists r, thr s i = a :: r.
  Proof. intro St. inversion St; subst; eauto. Qed.

  (* while thread i holds m exclusively, no other thread accesses a variable guarded by m;
     while it holds m shared, no other thread writes one *)
  Theorem critical_sections_atomic s0 s i j a s' x m :
    init_ok s0 -> reach s0 s -> guard x = Some m -> step s j a s' ->
    (own s m = Some i -> accesses a x -> j = i) /\ (holds s i m -> a = Wr x -> j = i).
  Proof.
    intros I R G St. pose proof (reach_inv _ _ I R) as V. destruct (step_head _ _ _ _ St) as (r & Hj). split.
    - intros O A. symmetry. eapply holds_excl; [exact V | exact O |]. destruct A as [-> | ->].
      + eapply head_read; eauto.
      + left. eapply head_write; eauto.
    - intros H ->. eapply holds_excl; [exact V | eapply head_write; eauto | exact H].
  Qed.

  (* only the holder ends its own critical section *)
  Lemma holds_stable s i j a s' m :
    Inv s -> holds s i m -> step s j a s' -> (j = i /\ is_release m a = true) \/ holds s' i m.
  Proof.
    intros V H St. pose proof V as [T G].
    inversion St as [? ? k r Ht Ho Hr | ? ? k r Ht | ? ? k r Ht Ho | ? ? k r Ht | ? ? x r Ht | ? ? x r Ht | ? ? r Ht];
      subst; unfold holds in *; cbn [own rdrs]; unfold upd.
    - (* Lock k by j: k was free, so k <> m *)
      right. destruct (Nat.eqb m k) eqn:K; [|exact H].
      apply Nat.eqb_eq in K; subst k. destruct H as [H|H]; [congruence | rewrite Hr in H; discriminate].
    - (* Unlock k by j *)
      destruct (Nat.eqb m k) eqn:K; [|right; exact H].
      apply Nat.eqb_eq in K; subst k.
      destruct (T j) as (hw & hr & W & O & _). rewrite Ht in W. cbn [Conc.wl] in W. apply andb_true_iff in W as [N _].
      apply O in N. left. split; [|cbn; apply Nat.eqb_refl].
      eapply holds_excl; eauto.
    - (* RLock k by j *)
      right. destruct H as [H|H]; [left; exact H|]. right.
      destruct (Nat.eqb m k) eqn:K; [|exact H].
      apply Nat.eqb_eq in K; subst k. rewrite memb_cons. rewrite H. apply orb_true_r.
    - (* RUnlock k by j *)
      destruct H as [H|H]; [right; left; exact H|].
      destruct (Nat.eqb m k) eqn:K; [|right; right; exact H].
      apply Nat.eqb_eq in K; subst k. destruct (Nat.eqb i j) eqn:E.
      + apply Nat.eqb_eq in E; subst j. left. split; [reflexivity | cbn; apply Nat.eqb_refl].
      + right. right. rewrite memb_rem_other by exact E. exact H.
    - right; exact H.
    - right; exact H.
    - right; exact H.
  Qed.

  (* snapshot consistency: from a point where thread i holds m, and for as long as i does not release m,
     every write of a variable guarded by m is i's own; if i holds m exclusively the same is true of every
     access.  Hence all values of specs/devices/errors read inside one critical section are those left by
     one earlier critical section (or written by the reader itself). *)
  Theorem snapshot_consistency s0 s i m tr s' :
    init_ok s0 -> reach s0 s -> holds s i m -> run s tr s' ->
    (forall a, In (i, a) tr -> is_release m a = false) ->
    holds s' i m /\
    (forall j x, In (j, Wr x) tr -> guard x = Some m -> j = i) /\
    (own s m = Some i -> forall j a x, In (j, a) tr -> accesses a x -> guard x = Some m -> j = i).
  Proof.
    intros I R H Hr. revert R H. induction Hr as [s | s j a s1 tr s2 St Hr IH]; intros R H NR.
    - split; [exact H|]. split; [intros ? ? []|intros _ ? ? ? []].
    - assert (H1 : holds s1 i m).
      { destruct (holds_stable _ _ _ _ _ _ (reach_inv _ _ I R) H St) as [[-> Rel]|H1]; [|exact H1].
        rewrite (NR a) in Rel by (left; reflexivity). discriminate. }
      assert (R1 : reach s0 s1) by (eapply RS; eauto).
      destruct (IH R1 H1) as (Hend & Wr_ & Acc); [intros b Hb; apply NR; right; exact Hb|].
      split; [exact Hend|]. split.
      + intros k x [E|Hin] Gx.
        * inversion E; subst. destruct (critical_sections_atomic _ _ i _ _ _ _ _ I R Gx St) as [_ C]. apply C; [exact H|reflexivity].
        * eapply Wr_; eauto.
      + intros O k b x [E|Hin] A Gx.
        * inversion E; subst. destruct (critical_sections_atomic _ _ i _ _ _ _ _ I R Gx St) as [C _]. apply C; assumption.
        * assert (O1 : own s1 m = Some i).
          { destruct H1 as [O1|R1']; [exact O1|].
            (* i still holds m exclusively: a step of another thread cannot take it away, a step of i is not a release *)
            destruct (holds_stable _ _ _ _ _ _ (reach_inv _ _ I R) (or_introl O) St) as [[-> Rel]|[O1|R2]].
            - rewrite (NR a) in Rel by (left; reflexivity). discriminate.
            - exact O1.
            - exfalso. clear - St O R2 I R. pose proof (reach_inv _ _ I R) as [T G].
              inversion St; subst; cbn [own rdrs] in *; unfold upd in *.
              + rewrite (G _ _ O) in R2. discriminate.
              + rewrite (G _ _ O) in R2. discriminate.
              + destruct (Nat.eqb m m0) eqn:K.
                * apply Nat.eqb_eq in K; subst. congruence.
                * rewrite (G _ _ O) in R2. discriminate.
              + destruct (Nat.eqb m m0) eqn:K.
                * apply Nat.eqb_eq in K; subst. rewrite (G _ _ O) in R2. discriminate.
                * rewrite (G _ _ O) in R2. discriminate.
              + rewrite (G _ _ O) in R2. discriminate.
              + rewrite (G _ _ O) in R2. discriminate.
              + rewrite (G _ _ O) in R2. discriminate. }
          eapply Acc; eauto.
  Qed.

  (* ---- no deadlock through locks ---- *)
  Lemma holder_next s j m :
    Inv s -> holds s j m ->
    exists a r, thr s j = a :: r /\ a <> Block /\ forall m', acquires a m' -> m < m' /\ m' < nmut.
  Proof.
    intros [T _] H. destruct (T j) as (hw & hr & W & O & R).
    assert (M : memb m hw = true \/ memb m hr = true) by (destruct H as [H|H]; [left; apply O | right; apply R]; exact H).
    destruct (thr s j) as [|a r] eqn:Hj.
    - cbn [Conc.wl] in W. apply andb_true_iff in W as [N1 N2]. apply nil_b_true in N1. apply nil_b_true in N2. subst.
      destruct M as [M|M]; discriminate.
    - exists a, r. split; [reflexivity|]. split.
      + intros ->. cbn [Conc.wl] in W. apply andb_true_iff in W as [W _]. apply andb_true_iff in W as [N1 N2].
        apply nil_b_true in N1. apply nil_b_true in N2. subst. destruct M as [M|M]; discriminate.
      + assert (X : forall m', above m' hw = true -> above m' hr = true -> m < m').
        { intros m' A1 A2. destruct M as [M|M]; [exact (above_lt _ _ _ A1 M) | exact (above_lt _ _ _ A2 M)]. }
        intros m' [-> | ->]; cbn [Conc.wl] in W;
          apply andb_true_iff in W as [W _]; apply andb_true_iff in W as [W A2]; apply andb_true_iff in W as [L A1];
          (split; [apply X; assumption | apply Nat.ltb_lt; exact L]).
  Qed.

  Lemma head_acquire_bound s i a r m : Inv s -> thr s i = a :: r -> acquires a m -> m < nmut.
  Proof.
    intros [T _] Hi A. destruct (T i) as (hw & hr & W & _ & _). rewrite Hi in W.
    destruct A as [-> | ->]; cbn [Conc.wl] in W;
      apply andb_true_iff in W as [W _]; apply andb_true_iff in W as [W _]; apply andb_true_iff in W as [L _];
      apply Nat.ltb_lt; exact L.
  Qed.

  Lemma free_or_held s m : (own s m = None /\ rdrs s m = []) \/ exists j, holds s j m.
  Proof.
    destruct (own s m) as [j|] eqn:O.
    - right. exists j. left. exact O.
    - destruct (rdrs s m) as [|j l] eqn:R.
      + left. split; reflexivity.
      + right. exists j. right. rewrite R. rewrite memb_cons. rewrite Nat.eqb_refl. reflexivity.
  Qed.

  Lemma acquire_dec a : (exists m, acquires a m) \/ (forall m, ~ acquires a m).
  Proof.
    destruct a; try (right; intros k [X|X]; discriminate).
    - left. exists m. left. reflexivity.
    - left. exists m. right. reflexivity.
  Qed.

  Lemma enabled_nonacquire s a : a <> Block -> (forall m, ~ acquires a m) -> enabled s a.
  Proof.
    intros NB NA. destruct a; cbn; try exact I.
    - exfalso. apply (NA m). left. reflexivity.
    - exfalso. apply (NA m). right. reflexivity.
    - exfalso. apply NB. reflexivity.
  Qed.

  Lemma progress_chain s : Inv s ->
    forall n i a r m, thr s i = a :: r -> acquires a m -> nmut - m <= n ->
    exists k a' r', thr s k = a' :: r' /\ enabled s a'.
  Proof.
    intro V. induction n as [|n IH]; intros i a r m Hi A B.
    - pose proof (head_acquire_bound _ _ _ _ _ V Hi A). lia.
    - destruct (free_or_held s m) as [[O R]|[j H]].
      + exists i, a, r. split; [exact Hi|]. destruct A as [-> | ->]; cbn; split; assumption.
      + destruct (holder_next _ _ _ V H) as (b & rb & Hj & NB & Acq).
        destruct (acquire_dec b) as [[m' A']|NA].
        * destruct (Acq _ A') as [L1 L2]. apply (IH j b rb m' Hj A'). lia.
        * exists j, b, rb. split; [exact Hj|]. apply enabled_nonacquire; assumption.
  Qed.

  Lemma enabled_step s k a r : thr s k = a :: r -> enabled s a -> exists s', step s k a s'.
  Proof.
    intros Hk E. destruct a; cbn in E.
    - destruct E as [O R]. eexists. eapply SLock; eauto.
    - eexists. eapply SUnlock; eauto.
    - destruct E as [O R]. eexists. eapply SRLock; eauto.
    - eexists. eapply SRUnlock; eauto.
    - eexists. eapply SRd; eauto.
    - eexists. eapply SWr; eauto.
    - destruct E.
  Qed.

  (* If some thread has work left that is not a wait for an external event, then some thread can take a
     step that is not such a wait — and it can do so under any scheduler and under the RWMutex writer
     preference, because an enabled acquisition means the mutex is completely free.  In particular a thread
     waiting for a mutex is never stuck for ever behind threads that wait for each other or for an event. *)
  Theorem single_lock_no_deadlock s0 s i a r :
    init_ok s0 -> reach s0 s -> thr s i = a :: r -> a <> Block ->
    exists k a' r' s', thr s k = a' :: r' /\ enabled s a' /\ step s k a' s'.
  Proof.
    intros I R Hi NB. pose proof (reach_inv _ _ I R) as V.
    assert (X : exists k a' r', thr s k = a' :: r' /\ enabled s a').
    { destruct (acquire_dec a) as [[m A]|NA].
      - eapply (progress_chain s V (nmut - m)); eauto.
      - exists i, a, r. split; [exact Hi|]. apply enabled_nonacquire; assumption. }
    destruct X as (k & a' & r' & Hk & E). destruct (enabled_step _ _ _ _ Hk E) as (s' & St).
    exists k, a', r', s'. auto.
  Qed.

  (* nobody waits with a mutex held: a thread at a blocking operation holds nothing *)
  Theorem block_holds_nothing s0 s i r m :
    init_ok s0 -> reach s0 s -> thr s i = Block :: r -> ~ holds s i m.
  Proof.
    intros I R Hi H. destruct (holder_next _ _ _ (reach_inv _ _ I R) H) as (a & r' & Hj & NB & _).
    rewrite Hi in Hj. inversion Hj; subst. apply NB. reflexivity.
  Qed.

  (* ---- soundness of the executable check for programs made of paths ---- *)
  Lemma wl_app hw hr p q : wl hw hr p = true -> wl [] [] q = true -> wl hw hr (p ++ q) = true.
  Proof.
    revert hw hr. induction p as [|a p IH]; intros hw hr Hp Hq.
    - cbn [Conc.wl] in Hp. apply andb_true_iff in Hp as [N1 N2]. apply nil_b_true in N1. apply nil_b_true in N2. subst. exact Hq.
    - destruct a; cbn [Conc.wl app] in *;
        repeat match goal with H : _ && _ = true |- _ => apply andb_true_iff in H; destruct H end;
        repeat (apply andb_true_iff; split); auto.
  Qed.

  Lemma wl_concat (l : list (list act)) : Forall (fun p => wl [] [] p = true) l -> wl [] [] (List.concat l) = true.
  Proof.
    induction 1 as [|p l Hp _ IH]; [reflexivity|]. cbn [List.concat]. apply wl_app; assumption.
  Qed.

  Theorem check_paths_sound ps : check_paths guard nmut ps = true -> forall n p, In (n, p) ps -> well_locked guard nmut p.
  Proof.
    unfold check_paths. intros C n p Hin. rewrite forallb_forall in C. apply (C (n, p) Hin).
  Qed.

  Theorem program_init_ok ps s0 :
    check_paths guard nmut ps = true -> program (map snd ps) s0 -> init_ok s0.
  Proof.
    intros C (O & R & P). split; [exact O|]. split; [exact R|]. intro i.
    destruct (P i) as (l & F & ->). apply wl_concat. rewrite Forall_forall in *. intros p Hp.
    specialize (F p Hp). apply in_map_iff in F as ([n p'] & E & Hin). cbn in E; subst p'.
    eapply check_paths_sound; eauto.
  Qed.

  (* leaving accesses out of an approved path keeps it approved *)
  Lemma wl_subpath p q : subpath p q -> forall hw hr, wl hw hr q = true -> wl hw hr p = true.
  Proof.
    induction 1 as [|a p q S IH|x p q S IH|x p q S IH]; intros hw hr H.
    - exact H.
    - destruct a; cbn [Conc.wl] in *;
        repeat match goal with H : _ && _ = true |- _ => apply andb_true_iff in H; destruct H end;
        repeat (apply andb_true_iff; split); auto.
    - cbn [Conc.wl] in H. apply andb_true_iff in H as [_ H]. apply IH. exact H.
    - cbn [Conc.wl] in H. apply andb_true_iff in H as [_ H]. apply IH. exact H.
  Qed.

  Theorem program_sub_init_ok ps s0 :
    check_paths guard nmut ps = true -> program_sub (map snd ps) s0 -> init_ok s0.
  Proof.
    intros C (O & R & P). split; [exact O|]. split; [exact R|]. intro i.
    destruct (P i) as (l & F & ->). apply wl_concat. rewrite Forall_forall in *. intros p Hp.
    destruct (F p Hp) as (q & Hq & S). apply (wl_subpath _ _ S).
    apply in_map_iff in Hq as ([n q'] & E & Hin). cbn in E; subst q'.
    eapply check_paths_sound; eauto.
  Qed.
End Proofs.

(* ---- the snapshot discipline of a single path ---- *)
Lemma drop_until_decomp f p : exists pre, p = pre ++ drop_until f p /\ forallb (fun a => negb (f a)) pre = true.
Proof.
  induction p as [|a r IH]; [exists []; split; reflexivity|]. cbn [drop_until]. destruct (f a) eqn:E.
  - exists []. split; reflexivity.
  - destruct IH as (pre & Hp & Hf). exists (a :: pre). split; [cbn; rewrite <- Hp; reflexivity|]. cbn. rewrite E. exact Hf.
Qed.

Lemma forallb_rev {A} (f : A -> bool) l : forallb f (rev l) = forallb f l.
Proof.
  induction l as [|a r IH]; [reflexivity|]. cbn. rewrite forallb_app. cbn. rewrite IH. rewrite andb_true_r. apply andb_comm.
Qed.

(* every action satisfying f lies in span f p; what comes before and after contains none *)
Theorem span_decomp f p :
  exists pre post, p = pre ++ span f p ++ post /\
                   forallb (fun a => negb (f a)) pre = true /\ forallb (fun a => negb (f a)) post = true.
Proof.
  destruct (drop_until_decomp f p) as (pre & Hp & Hpre).
  destruct (drop_until_decomp f (rev (drop_until f p))) as (q & Hq & Hqf).
  exists pre, (rev q). split; [|split; [exact Hpre | rewrite forallb_rev; exact Hqf]].
  unfold span. rewrite Hp at 1. f_equal.
  rewrite <- rev_app_distr. rewrite <- Hq. rewrite rev_involutive. reflexivity.
Qed.

(* an operation path accepted by one_section: all its reads of the snapshot variables lie in a stretch of the
   path during which it never releases m (and, by wl, it holds m at the first of them) *)
Theorem one_section_sound m G p :
  one_section m G p = true ->
  exists pre mid post, p = pre ++ mid ++ post /\
    (forall x, In x G -> ~ In (Rd x) pre /\ ~ In (Rd x) post) /\
    (forall a, In a mid -> is_release m a = false).
Proof.
  intro H. destruct (span_decomp (reads_of G) p) as (pre & post & E & Hpre & Hpost).
  exists pre, (span (reads_of G) p), post. split; [exact E|]. split.
  - intros x Hx.
    assert (Mx : memb x G = true).
    { unfold memb. apply existsb_exists. exists x. split; [exact Hx | apply Nat.eqb_refl]. }
    rewrite forallb_forall in Hpre, Hpost. split; intro Hin.
    + specialize (Hpre _ Hin). cbn in Hpre. rewrite Mx in Hpre. discriminate.
    + specialize (Hpost _ Hin). cbn in Hpost. rewrite Mx in Hpost. discriminate.
  - intros a Hin. unfold one_section in H. rewrite forallb_forall in H. specialize (H a Hin).
    apply negb_true_iff in H. exact H.
Qed.

(* declarative reading of swaps_together: a complete critical section of m that writes one slot writes all *)
Lemma covers_app S W x : covers S W = true -> covers S (x :: W) = true.
Proof.
  unfold covers. rewrite !forallb_forall. intros H y Hy. specialize (H y Hy). rewrite memb_cons. rewrite H. apply orb_true_r.
Qed.

Lemma swaps_section m S : forall sec W rest,
  (forall a, In a sec -> a <> Lock m /\ a <> Unlock m) ->
  swaps_together m S W (sec ++ Unlock m :: rest) = true ->
  (forall y, In y S -> memb y W = true \/ In (Wr y) sec) \/
  (nil_b W = true /\ forall x, In x S -> ~ In (Wr x) sec).
Proof.
  induction sec as [|a sec IH]; intros W rest NL H.
  - cbn [app swaps_together] in H. rewrite Nat.eqb_refl in H. apply andb_true_iff in H as [H _].
    apply orb_true_iff in H as [H|H].
    + right. split; [exact H|]. intros x _ [].
    + left. intros y Hy. left. unfold covers in H. rewrite forallb_forall in H. apply H. exact Hy.
  - assert (NL' : forall b, In b sec -> b <> Lock m /\ b <> Unlock m) by (intros b Hb; apply NL; right; exact Hb).
    assert (Keep : forall W', swaps_together m S W' (sec ++ Unlock m :: rest) = true ->
                   (forall y, In y S -> memb y W' = true -> memb y W = true \/ a = Wr y) ->
                   (nil_b W' = true -> nil_b W = true /\ forall x, In x S -> a <> Wr x) ->
                   (forall y, In y S -> memb y W = true \/ In (Wr y) (a :: sec)) \/
                   (nil_b W = true /\ forall x, In x S -> ~ In (Wr x) (a :: sec))).
    { intros W' H' Hmem Hnil. destruct (IH W' rest NL' H') as [All|[N None]].
      - left. intros y Hy. destruct (All y Hy) as [M|Hin].
        + destruct (Hmem y Hy M) as [M'|E]; [left; exact M' | right; left; exact E].
        + right. right. exact Hin.
      - right. destruct (Hnil N) as [NW Na]. split; [exact NW|]. intros x Hx [E|Hin].
        + apply (Na x Hx). exact E.
        + apply (None x Hx). exact Hin. }
    destruct (NL a (or_introl eq_refl)) as [NLk NUn].
    destruct a as [k|k|k|k|x|x|]; cbn [app swaps_together] in H.
    + destruct (Nat.eqb k m) eqn:K; [apply Nat.eqb_eq in K; subst; exfalso; apply NLk; reflexivity|].
      apply (Keep W H); [intros y _ M; left; exact M | intro N; split; [exact N | intros ? _; discriminate]].
    + destruct (Nat.eqb k m) eqn:K; [apply Nat.eqb_eq in K; subst; exfalso; apply NUn; reflexivity|].
      apply (Keep W H); [intros y _ M; left; exact M | intro N; split; [exact N | intros ? _; discriminate]].
    + apply (Keep W H); [intros y _ M; left; exact M | intro N; split; [exact N | intros ? _; discriminate]].
    + apply (Keep W H); [intros y _ M; left; exact M | intro N; split; [exact N | intros ? _; discriminate]].
    + destruct (memb x S) eqn:Mx.
      * apply andb_true_iff in H as [_ H].
        apply (Keep W H); [intros y _ M; left; exact M | intro N; split; [exact N | intros ? _; discriminate]].
      * apply (Keep W H); [intros y _ M; left; exact M | intro N; split; [exact N | intros ? _; discriminate]].
    + destruct (memb x S) eqn:Mx.
      * apply (Keep (x :: W) H).
        -- intros y _ M. rewrite memb_cons in M. apply orb_true_iff in M as [M|M].
           ++ apply Nat.eqb_eq in M; subst. right. reflexivity.
           ++ left. exact M.
        -- cbn. discriminate.
      * apply (Keep W H); [intros y _ M; left; exact M|].
        intro N. split; [exact N|]. intros y Hy E. inversion E; subst.
        assert (memb y S = true) by (unfold memb; apply existsb_exists; exists y; split; [exact Hy | apply Nat.eqb_refl]).
        congruence.
    + apply (Keep W H); [intros y _ M; left; exact M | intro N; split; [exact N | intros ? _; discriminate]].
Qed.

Lemma swaps_skip m S : forall pre W rest, swaps_together m S W (pre ++ Lock m :: rest) = true -> swaps_together m S [] rest = true.
Proof.
  induction pre as [|a pre IH]; intros W rest H.
  - cbn [app swaps_together] in H. rewrite Nat.eqb_refl in H. exact H.
  - destruct a as [k|k|k|k|x|x|]; cbn [app swaps_together] in H.
    + destruct (Nat.eqb k m); eapply IH; exact H.
    + destruct (Nat.eqb k m); [apply andb_true_iff in H as [_ H]|]; eapply IH; exact H.
    + eapply IH; exact H.
    + eapply IH; exact H.
    + destruct (memb x S); [apply andb_true_iff in H as [_ H]|]; eapply IH; exact H.
    + destruct (memb x S); eapply IH; exact H.
    + eapply IH; exact H.
Qed.

Theorem swaps_together_sound m S p pre sec post :
  swaps_together m S [] p = true ->
  p = pre ++ Lock m :: sec ++ Unlock m :: post ->
  (forall a, In a sec -> a <> Lock m /\ a <> Unlock m) ->
  forall x, In x S -> In (Wr x) sec -> forall y, In y S -> In (Wr y) sec.
Proof.
  intros H -> NL x Hx Hw y Hy. apply swaps_skip in H.
  destruct (swaps_section m S sec [] post NL H) as [All|[_ None]].
  - destruct (All y Hy) as [M|Hin]; [discriminate | exact Hin].
  - exfalso. apply (None x Hx). exact Hw.
Qed.
