(* Judge11.v — evaluation of harness cases for C11 (auto-refresh convergence).
   Three kinds of cases:
   - CEvents: one file-system operation performed on a directory watched by a bare fsnotify.Watcher: the observed
     events, success and resulting directory content against the rule table [op_effect] of Watch.v;
   - CFilter: one decision of the event filter of watch.watch() as logged by the verifEvent hook against
     [filter_accepts];
   - CHist: a history of operations and queries run against a real auto-refresh cache at some pacing: the answers
     of a cache freshly built afterwards against the machine's final answer (correspondence), and the answers the
     auto-refreshed cache converged to against the fresh cache's (the property). *)
From Coq Require Import String Ascii List Bool Arith.
From CDI Require Import Base Paths Watch.
Import ListNotations.
Open Scope string_scope.

Definition content_eqb (a b : content) : bool :=
  match a, b with
  | CEmpty, CEmpty | CBad, CBad => true
  | CSpec k1 d1 t1, CSpec k2 d2 t2 => String.eqb k1 k2 && list_eqb String.eqb d1 d2 && String.eqb t1 t2
  | _, _ => false
  end.
Definition entry_eqb : fname * content -> fname * content -> bool := pair_eqb String.eqb content_eqb.
Definition ss_eqb : string * string -> string * string -> bool := pair_eqb String.eqb String.eqb.

Definition subset {A} (eqb : A -> A -> bool) (l1 l2 : list A) : bool := forallb (fun x => existsb (eqb x) l2) l1.
Definition same_set {A} (eqb : A -> A -> bool) (l1 l2 : list A) : bool := subset eqb l1 l2 && subset eqb l2 l1.

(* observed events: set of ops and the name relative to the watched directory ("" = the directory itself) *)
Definition obs_event := (list eop * string)%type.
Definition oev_eqb (a b : obs_event) : bool := list_eqb eop_eqb (fst a) (fst b) && String.eqb (snd a) (snd b).

(* Chmod-only events are not part of the rule table (the code's mask drops them); the kernel merges identical
   adjacent events only when the first is still unread, so adjacent duplicates are collapsed *)
Definition not_chmod (e : obs_event) : bool := negb (list_eqb eop_eqb (fst e) [Chmod]).
Fixpoint collapse (l : list obs_event) : list obs_event :=
  match l with
  | a :: (b :: _) as r => if oev_eqb a b then collapse r else a :: collapse r
  | _ => l
  end.
Definition norm_obs (l : list obs_event) : list obs_event := collapse (filter not_chmod l).

Definition model_event (e : event) : obs_event :=
  match e with Ev o _ n => ([o], n) | EvSelf _ => ([Remove], "") end.

Definition the_dir : dname := "D".

Inductive case11 :=
| CEvents (pre : dirc) (o : fsop) (ok : bool) (post : option dirc) (obs : list obs_event)
| CFilter (ops : list eop) (path : string) (accepted : bool)
| CHist (dirs : list dname) (init : list (dname * dirc)) (hist : list (label * bool))
        (fresh_dev : list (string * string)) (fresh_err : list string)
        (converged : bool) (conv_dev : list (string * string)) (conv_err : list string).

Fixpoint last_opt {A} (l : list A) : option A :=
  match l with [] => None | [x] => Some x | _ :: r => last_opt r end.

Definition is_rmall (o : fsop) : bool := match o with ORmAll _ => true | _ => false end.

Definition dir_same (a b : option dirc) : bool :=
  match a, b with
  | None, None => true
  | Some x, Some y => same_set entry_eqb x y
  | _, _ => false
  end.

(* the history run on the machine: every operation's success is compared on the way *)
Definition run_checked (dirs : list dname) (s : state) (hist : list (label * bool)) : state * bool :=
  fold_left (fun acc lb =>
               let s := fst acc in
               let okm := match fst lb with LOp o => is_some (op_effect (fs s) o) | _ => true end in
               (step fixed_variant dirs s (fst lb), snd acc && Bool.eqb okm (snd lb)))
            hist (s, true).

Definition final_answer (dirs : list dname) (s : state) : list (string * string) * list string :=
  let s' := drain fixed_variant dirs (length (kq s) + length (cq s)) s in
  answer dirs (query fixed_variant dirs s').

Definition corr11 (c : case11) : bool :=
  match c with
  | CEvents pre o ok post obs =>
      let f := mkfs [(the_dir, pre)] in
      let m := map model_event (events_of f o) in
      let ob := norm_obs obs in
      Bool.eqb (is_some (op_effect f o)) ok &&
      match op_effect f o with
      | Some (nd, _) => dir_same nd post
      | None => dir_same (Some pre) post
      end &&
      (* rm -rf reports the entries in directory order, then the directory itself *)
      (if is_rmall o
       then Nat.eqb (length m) (length ob) && same_set oev_eqb m ob && option_eqb oev_eqb (last_opt m) (last_opt ob)
       else list_eqb oev_eqb m ob)
  | CFilter ops path accepted => Bool.eqb (filter_accepts fixed_variant ops path) accepted
  | CHist dirs ini hist fdev ferr _ _ _ =>
      let r := run_checked dirs (init dirs (mkfs ini)) hist in
      let a := final_answer dirs (fst r) in
      snd r && same_set ss_eqb (fst a) fdev && same_set String.eqb (snd a) ferr
  end.

(* the property's side, on observed values only *)
Definition is_one_of (l : list eop) (o : eop) : bool := existsb (eop_eqb o) l.
(* an event that can signal a change of what a scan sees has to be let through *)
Definition must_accept (ops : list eop) (path : string) : bool :=
  existsb (is_one_of [Remove; Rename]) ops || (existsb (is_one_of [Create; Write]) ops && is_spec_name path).

Definition oracle11 (c : case11) : bool :=
  match c with
  | CEvents pre o ok post obs =>
      (* whenever the operation changed what a scan of the directory sees, at least one of the observed events
         is one the watcher must act on *)
      let before := view_l pre in
      let after := match post with Some l => view_l l | None => [] end in
      if same_set entry_eqb before after && Bool.eqb (is_some post) true then true
      else existsb (fun e => must_accept (fst e) (the_dir ++ "/" ++ snd e)) obs
  | CFilter ops path accepted => implb (must_accept ops path) accepted
  | CHist _ _ _ fdev ferr converged cdev cerr =>
      converged && same_set ss_eqb cdev fdev && same_set String.eqb cerr ferr
  end.

Definition judge11 (cases : list case11) : list nat * list nat :=
  (bad_indices corr11 0 cases, bad_indices oracle11 0 cases).
