(* JsonStringProofs.v — C09: the JSON side of the text layer is faithful at the level of one string.
   json_string_layer: a valid UTF-8 string outside the two known-finding classes, written by encoding/json and scanned by the
   yaml.v2-derived reader as a double-quoted flow scalar, comes back byte for byte.  The two classes are refuted by witnesses. *)
From Coq Require Import String Ascii List Bool NArith ZArith Lia.
From CDI Require Import Base JsonString.
Import ListNotations.
Open Scope string_scope.
Open Scope N_scope.

Ltac Zify.zify_post_hook ::= Z.to_euclidean_division_equations.

(* ---- bytes and numbers ---- *)
Lemma b_ch n : n < 256 -> b (ch n) = n.
Proof. intro H. unfold b, ch. apply N_ascii_embedding. exact H. Qed.
Lemma ch_b c : ch (b c) = c.
Proof. unfold b, ch. apply ascii_N_embedding. Qed.
Lemma b_lt c : b c < 256.
Proof. unfold b. apply N_ascii_bounded. Qed.

Ltac bool_cases :=
  repeat match goal with
         | |- context [N.ltb ?x ?y] => destruct (N.ltb_spec x y)
         | |- context [N.leb ?x ?y] => destruct (N.leb_spec x y)
         | |- context [N.eqb ?x ?y] => destruct (N.eqb_spec x y)
         | H : context [N.ltb ?x ?y] |- _ => destruct (N.ltb_spec x y)
         | H : context [N.leb ?x ?y] |- _ => destruct (N.leb_spec x y)
         | H : context [N.eqb ?x ?y] |- _ => destruct (N.eqb_spec x y)
         end.

Lemma scalar_spec v : scalar v = true <-> (v < 55296 \/ 57343 < v) /\ v <= 1114111.
Proof. unfold scalar. bool_cases; cbn; split; intros; try discriminate; try lia; auto. Qed.

(* ---- one decoding step inverts the encoder, in both directions ---- *)
Opaque N.div N.modulo N.mul N.add N.sub.

Lemma utf8_next_enc v t : scalar v = true -> utf8_next (utf8_enc v ++ t) = Some (v, utf8_enc v, t).
Proof.
  intro Hs. apply scalar_spec in Hs. unfold utf8_enc.
  destruct (N.leb_spec v 127).
  { cbn [append utf8_next]. rewrite b_ch by lia. destruct (N.ltb_spec v 128); [reflexivity | lia]. }
  destruct (N.leb_spec v 2047).
  { cbn [append utf8_next]. unfold cont. rewrite !b_ch by lia.
    destruct (N.ltb_spec (192 + v / 64) 128); [lia|]. destruct (N.ltb_spec (192 + v / 64) 192); [lia|].
    destruct (N.ltb_spec (192 + v / 64) 224); [|lia].
    replace ((192 + v / 64 - 192) * 64 + (128 + v mod 64 - 128)) with v by lia.
    destruct (N.leb_spec 128 (128 + v mod 64)); [|lia]. destruct (N.leb_spec (128 + v mod 64) 191); [|lia].
    destruct (N.leb_spec 128 v); [|lia]. reflexivity. }
  destruct (N.leb_spec v 65535).
  { cbn [append utf8_next]. unfold cont. rewrite !b_ch by lia.
    destruct (N.ltb_spec (224 + v / 4096) 128); [lia|]. destruct (N.ltb_spec (224 + v / 4096) 192); [lia|].
    destruct (N.ltb_spec (224 + v / 4096) 224); [lia|]. destruct (N.ltb_spec (224 + v / 4096) 240); [|lia].
    replace ((224 + v / 4096 - 224) * 4096 + (128 + (v / 64) mod 64 - 128) * 64 + (128 + v mod 64 - 128)) with v by lia.
    destruct (N.leb_spec 128 (128 + (v / 64) mod 64)); [|lia]. destruct (N.leb_spec (128 + (v / 64) mod 64) 191); [|lia].
    destruct (N.leb_spec 128 (128 + v mod 64)); [|lia]. destruct (N.leb_spec (128 + v mod 64) 191); [|lia].
    destruct (N.leb_spec 2048 v); [|lia].
    replace (scalar v) with true by (symmetry; apply scalar_spec; lia). reflexivity. }
  cbn [append utf8_next]. unfold cont. rewrite !b_ch by lia.
  destruct (N.ltb_spec (240 + v / 262144) 128); [lia|]. destruct (N.ltb_spec (240 + v / 262144) 192); [lia|].
  destruct (N.ltb_spec (240 + v / 262144) 224); [lia|]. destruct (N.ltb_spec (240 + v / 262144) 240); [lia|].
  destruct (N.ltb_spec (240 + v / 262144) 248); [|lia].
  replace ((240 + v / 262144 - 240) * 262144 + (128 + (v / 4096) mod 64 - 128) * 4096 + (128 + (v / 64) mod 64 - 128) * 64 + (128 + v mod 64 - 128)) with v by lia.
  destruct (N.leb_spec 128 (128 + (v / 4096) mod 64)); [|lia]. destruct (N.leb_spec (128 + (v / 4096) mod 64) 191); [|lia].
  destruct (N.leb_spec 128 (128 + (v / 64) mod 64)); [|lia]. destruct (N.leb_spec (128 + (v / 64) mod 64) 191); [|lia].
  destruct (N.leb_spec 128 (128 + v mod 64)); [|lia]. destruct (N.leb_spec (128 + v mod 64) 191); [|lia].
  destruct (N.leb_spec 65536 v); [|lia].
  replace (scalar v) with true by (symmetry; apply scalar_spec; lia). reflexivity.
Qed.

Lemma cont_spec c : cont c = true <-> 128 <= b c <= 191.
Proof. unfold cont. bool_cases; cbn; split; intros; try discriminate; try lia; auto. Qed.

Lemma enc_bytes1 c : b c <= 127 -> utf8_enc (b c) = String c "".
Proof. intro H. unfold utf8_enc. destruct (N.leb_spec (b c) 127); [|lia]. now rewrite ch_b. Qed.
Lemma enc_bytes2 c1 c2 v : v = (b c1 - 192) * 64 + (b c2 - 128) -> 192 <= b c1 < 224 -> 128 <= b c2 <= 191 -> 128 <= v ->
  utf8_enc v = String c1 (String c2 "").
Proof.
  intros Hv H1 H2 H3. unfold utf8_enc. destruct (N.leb_spec v 127); [lia|]. destruct (N.leb_spec v 2047); [|lia].
  replace (192 + v / 64) with (b c1) by lia. replace (128 + v mod 64) with (b c2) by lia. now rewrite !ch_b.
Qed.
Lemma enc_bytes3 c1 c2 c3 v : v = (b c1 - 224) * 4096 + (b c2 - 128) * 64 + (b c3 - 128) -> 224 <= b c1 < 240 ->
  128 <= b c2 <= 191 -> 128 <= b c3 <= 191 -> 2048 <= v -> utf8_enc v = String c1 (String c2 (String c3 "")).
Proof.
  intros Hv H1 H2 H3 H4. unfold utf8_enc. destruct (N.leb_spec v 127); [lia|]. destruct (N.leb_spec v 2047); [lia|].
  destruct (N.leb_spec v 65535); [|lia].
  replace (224 + v / 4096) with (b c1) by lia. replace (128 + (v / 64) mod 64) with (b c2) by lia.
  replace (128 + v mod 64) with (b c3) by lia. now rewrite !ch_b.
Qed.
Lemma enc_bytes4 c1 c2 c3 c4 v : v = (b c1 - 240) * 262144 + (b c2 - 128) * 4096 + (b c3 - 128) * 64 + (b c4 - 128) ->
  240 <= b c1 < 248 -> 128 <= b c2 <= 191 -> 128 <= b c3 <= 191 -> 128 <= b c4 <= 191 -> 65536 <= v ->
  utf8_enc v = String c1 (String c2 (String c3 (String c4 ""))).
Proof.
  intros Hv H1 H2 H3 H4 H5. unfold utf8_enc. destruct (N.leb_spec v 127); [lia|]. destruct (N.leb_spec v 2047); [lia|].
  destruct (N.leb_spec v 65535); [lia|].
  replace (240 + v / 262144) with (b c1) by lia. replace (128 + (v / 4096) mod 64) with (b c2) by lia.
  replace (128 + (v / 64) mod 64) with (b c3) by lia. replace (128 + v mod 64) with (b c4) by lia. now rewrite !ch_b.
Qed.

Lemma utf8_next_spec s v raw rest : utf8_next s = Some (v, raw, rest) ->
  s = raw ++ rest /\ raw = utf8_enc v /\ scalar v = true /\ (String.length rest < String.length s)%nat.
Proof.
  unfold utf8_next. destruct s as [|c1 r1]; [discriminate|]. pose proof (b_lt c1) as B1.
  destruct (N.ltb_spec (b c1) 128).
  { intro E; injection E as <- <- <-. repeat split; cbn [append String.length]; auto.
    - symmetry. apply enc_bytes1. lia.
    - apply scalar_spec. lia. }
  destruct (N.ltb_spec (b c1) 192); [discriminate|].
  destruct (N.ltb_spec (b c1) 224).
  { destruct r1 as [|c2 r2]; [discriminate|].
    destruct (cont c2) eqn:C2; [|discriminate]. apply cont_spec in C2.
    destruct (N.leb_spec 128 ((b c1 - 192) * 64 + (b c2 - 128))); [|discriminate]. cbn [andb].
    intro E; injection E as <- <- <-. repeat split; cbn [append String.length]; auto.
    - symmetry. eapply enc_bytes2; eauto; lia.
    - apply scalar_spec. lia. }
  destruct (N.ltb_spec (b c1) 240).
  { destruct r1 as [|c2 [|c3 r3]]; try discriminate.
    destruct (cont c2) eqn:C2; [|discriminate]. apply cont_spec in C2.
    destruct (cont c3) eqn:C3; [|discriminate]. apply cont_spec in C3.
    destruct (N.leb_spec 2048 ((b c1 - 224) * 4096 + (b c2 - 128) * 64 + (b c3 - 128))); [|discriminate]. cbn [andb].
    destruct (scalar _) eqn:S; [|discriminate].
    intro E; injection E as <- <- <-. repeat split; cbn [append String.length]; auto.
    symmetry. eapply enc_bytes3; eauto; lia. }
  destruct (N.ltb_spec (b c1) 248); [|discriminate].
  destruct r1 as [|c2 [|c3 [|c4 r4]]]; try discriminate.
  destruct (cont c2) eqn:C2; [|discriminate]. apply cont_spec in C2.
  destruct (cont c3) eqn:C3; [|discriminate]. apply cont_spec in C3.
  destruct (cont c4) eqn:C4; [|discriminate]. apply cont_spec in C4.
  destruct (N.leb_spec 65536 ((b c1 - 240) * 262144 + (b c2 - 128) * 4096 + (b c3 - 128) * 64 + (b c4 - 128))); [|discriminate]. cbn [andb].
  destruct (scalar _) eqn:S; [|discriminate].
  intro E; injection E as <- <- <-. repeat split; cbn [append String.length]; auto.
  symmetry. eapply enc_bytes4; eauto; lia.
Qed.

(* ---- the walk over a string ---- *)
Lemma go_runes_fuel_any n : forall m s, (String.length s <= n)%nat -> (String.length s <= m)%nat ->
  go_runes_fuel n s = go_runes_fuel m s.
Proof.
  induction n as [|n IH]; intros m s Hn Hm.
  - destruct s; [|cbn in Hn; lia]. destruct m; reflexivity.
  - destruct m as [|m]. { destruct s; [reflexivity | cbn in Hm; lia]. }
    destruct s as [|c r]; [reflexivity|]. cbn [go_runes_fuel].
    destruct (utf8_next (String c r)) as [[[v raw] rest]|] eqn:E.
    + apply utf8_next_spec in E. destruct E as (_ & _ & _ & L). f_equal. cbn [String.length] in *. apply IH; lia.
    + f_equal. cbn [String.length] in *. apply IH; lia.
Qed.
Lemma go_runes_fuel_enough n s : (String.length s <= n)%nat -> go_runes_fuel n s = go_runes s.
Proof. intro H. unfold go_runes. apply go_runes_fuel_any; auto. Qed.

Definition rune_of (v : N) : chunk := Rune v (utf8_enc v).
Definition scalars (l : list N) : Prop := Forall (fun v => scalar v = true) l.

Lemma go_runes_enc v t : scalar v = true -> go_runes (utf8_enc v ++ t) = rune_of v :: go_runes t.
Proof.
  intro Hs. pose proof (utf8_next_enc v t Hs) as H.
  destruct (utf8_enc v ++ t) as [|c r] eqn:E; [discriminate|].
  unfold go_runes at 1. cbn [String.length go_runes_fuel]. rewrite H. unfold rune_of. f_equal.
  apply go_runes_fuel_enough. apply utf8_next_spec in H. destruct H as (_ & _ & _ & L). cbn [String.length] in L. lia.
Qed.

Lemma utf8_encs_app l1 l2 : utf8_encs (l1 ++ l2)%list = utf8_encs l1 ++ utf8_encs l2.
Proof. induction l1 as [|v l1 IH]; cbn [utf8_encs List.app]; [reflexivity|]. now rewrite IH, app_assoc_s. Qed.

Lemma go_runes_encs cps t : scalars cps -> go_runes (utf8_encs cps ++ t) = (map rune_of cps ++ go_runes t)%list.
Proof.
  induction 1 as [|v cps Hv _ IH]; [reflexivity|].
  cbn [utf8_encs map List.app]. rewrite app_assoc_s, go_runes_enc by exact Hv. now rewrite IH.
Qed.

(* a valid string is the encoding of its code points *)
Lemma valid_decompose_fuel n : forall s, (String.length s <= n)%nat -> forallb is_rune (go_runes_fuel n s) = true ->
  exists cps, scalars cps /\ s = utf8_encs cps.
Proof.
  induction n as [|n IH]; intros s Hn Hv.
  - destruct s; [|cbn in Hn; lia]. exists []. split; [constructor | reflexivity].
  - destruct s as [|c r]. { exists []. split; [constructor | reflexivity]. }
    cbn [go_runes_fuel] in Hv. destruct (utf8_next (String c r)) as [[[v raw] rest]|] eqn:E.
    + apply utf8_next_spec in E. destruct E as (Es & Er & Sv & L). cbn [forallb is_rune andb] in Hv.
      destruct (IH rest) as (cps & Hc & Hr); [cbn [String.length] in *; lia | exact Hv |].
      exists (v :: cps). split; [constructor; assumption|]. cbn [utf8_encs]. now rewrite Es, Er, Hr.
    + cbn [forallb is_rune andb] in Hv. discriminate.
Qed.
Lemma valid_decompose s : valid_utf8 s = true -> exists cps, scalars cps /\ s = utf8_encs cps.
Proof. unfold valid_utf8, go_runes. apply valid_decompose_fuel. lia. Qed.


(* ---- encoding/json on code points ---- *)
(* the characters written for one rune *)
Definition esc_cps (v : N) : list N :=
  if v <? 128 then
    if v =? 34 then [92; 34] else if v =? 92 then [92; 92]
    else if v =? 8 then [92; 98] else if v =? 12 then [92; 102] else if v =? 10 then [92; 110]
    else if v =? 13 then [92; 114] else if v =? 9 then [92; 116]
    else if (v <? 32) || (v =? 60) || (v =? 62) || (v =? 38) then [92; 117; 48; 48; b (hexd (v / 16)); b (hexd (v mod 16))]
    else [v]
  else if (v =? 8232) || (v =? 8233) then [92; 117; 50; 48; 50; b (hexd (v mod 16))]
  else [v].

Lemma forall_below (P : N -> bool) (n : nat) :
  forallb P (map N.of_nat (seq 0 n)) = true -> forall v, v < N.of_nat n -> P v = true.
Proof.
  rewrite forallb_forall. intros H v Hv. apply H. apply in_map_iff. exists (N.to_nat v). split.
  - apply N2Nat.id.
  - apply in_seq. lia.
Qed.

(* what is needed of the 128 ASCII characters, checked by evaluation *)
Definition ascii_ok (v : N) : bool :=
  String.eqb (esc_rune v (utf8_enc v)) (utf8_encs (esc_cps v)) &&
  ((v =? 127) || forallb (fun x => scalar x && yaml_printable x) (esc_cps v)) &&
  match hexs 0 [48; 48; b (hexd (v / 16)); b (hexd (v mod 16))] with Some x => x =? v | None => false end.
Lemma ascii_ok_all v : v < 128 -> ascii_ok v = true.
Proof. apply (forall_below ascii_ok 128). vm_compute. reflexivity. Qed.

Lemma esc_rune_cps v : esc_rune v (utf8_enc v) = utf8_encs (esc_cps v).
Proof.
  destruct (N.ltb_spec v 128) as [L|L].
  - pose proof (ascii_ok_all v L) as H. unfold ascii_ok in H. apply andb_prop in H. destruct H as [H _].
    apply andb_prop in H. destruct H as [H _]. now apply String.eqb_eq in H.
  - unfold esc_rune, esc_cps. destruct (N.ltb_spec v 128); [lia|].
    destruct (N.eqb_spec v 8232) as [->|]; [reflexivity|]. destruct (N.eqb_spec v 8233) as [->|]; [reflexivity|].
    cbn [orb utf8_encs]. now rewrite app_nil_r_s.
Qed.

Lemma go_runes_encs_all cps : scalars cps -> go_runes (utf8_encs cps) = map rune_of cps.
Proof.
  intro H. rewrite <- (app_nil_r_s (utf8_encs cps)), go_runes_encs by exact H.
  change (go_runes "") with (@nil chunk). now rewrite app_nil_r.
Qed.

Lemma json_escape_encs cps : scalars cps -> json_escape (utf8_encs cps) = utf8_encs (flat_map esc_cps cps).
Proof.
  intro H. unfold json_escape. rewrite go_runes_encs_all by exact H. clear H.
  induction cps as [|v cps IH]; [reflexivity|].
  cbn [map concat_s flat_map esc_chunk rune_of]. now rewrite utf8_encs_app, IH, esc_rune_cps.
Qed.

(* ---- the reader accepts a string of allowed characters and hands the scanner its code points ---- *)
Definition printables (l : list N) : Prop := Forall (fun v => yaml_printable v = true) l.
Lemma reader_encs L : scalars L -> printables L -> yaml_reader (utf8_encs L) = Some L.
Proof.
  intros Hs Hp. unfold yaml_reader. rewrite go_runes_encs_all by exact Hs. clear Hs.
  induction Hp as [|v L Hv _ IH]; [reflexivity|].
  cbn [map reader_chunks rune_of]. now rewrite Hv, IH.
Qed.

(* ---- the known-finding classes, per code point ---- *)
Definition is_c1 (v : N) : bool :=
  (v =? 127) || ((128 <=? v) && (v <=? 159) && negb (v =? 133)) || (v =? 65534) || (v =? 65535).

Lemma yaml_printable_iff v : yaml_printable v = true <->
  v = 9 \/ v = 10 \/ v = 13 \/ 32 <= v <= 126 \/ v = 133 \/ 160 <= v <= 55295 \/ 57344 <= v <= 65533 \/ 65536 <= v <= 1114111.
Proof. unfold yaml_printable. rewrite !orb_true_iff, !andb_true_iff, !N.eqb_eq, !N.leb_le. tauto. Qed.
Lemma is_c1_false v : is_c1 v = false <-> v <> 127 /\ (v < 128 \/ 159 < v \/ v = 133) /\ v <> 65534 /\ v <> 65535.
Proof.
  unfold is_c1. rewrite !orb_false_iff, !andb_false_iff, negb_false_iff, !N.eqb_neq, !N.leb_gt, N.eqb_eq. lia.
Qed.

Lemma esc_cps_allowed v : scalar v = true -> is_c1 v = false -> scalars (esc_cps v) /\ printables (esc_cps v).
Proof.
  intros Hs Hc. apply is_c1_false in Hc. destruct (N.ltb_spec v 128) as [L|L].
  - pose proof (ascii_ok_all v L) as H. unfold ascii_ok in H. apply andb_prop in H. destruct H as [H _].
    apply andb_prop in H. destruct H as [_ H].
    destruct (N.eqb_spec v 127); [lia|]. cbn [orb] in H. rewrite forallb_forall in H.
    split; apply Forall_forall; intros x Hx; apply H in Hx; apply andb_prop in Hx; tauto.
  - apply scalar_spec in Hs. unfold esc_cps. destruct (N.ltb_spec v 128); [lia|].
    destruct (N.eqb_spec v 8232) as [->|]. { split; apply Forall_forall; intros x Hx; cbn in Hx; intuition (subst; vm_compute; reflexivity). }
    destruct (N.eqb_spec v 8233) as [->|]. { split; apply Forall_forall; intros x Hx; cbn in Hx; intuition (subst; vm_compute; reflexivity). }
    cbn [orb]. split; (constructor; [|constructor]).
    + apply scalar_spec. lia.
    + apply yaml_printable_iff. lia.
Qed.

(* ---- the byte-level class predicates of Judge09, read per code point ---- *)
Lemma has_c1_head c1 r : has_c1 (String c1 r) = false ->
  b c1 <> 127 /\
  (forall c2 r2, r = String c2 r2 -> ~ (b c1 = 194 /\ 128 <= b c2 <= 159 /\ b c2 <> 133)) /\
  (forall c2 c3 r3, r = String c2 (String c3 r3) -> ~ (b c1 = 239 /\ b c2 = 191 /\ (b c3 = 190 \/ b c3 = 191))) /\
  has_c1 r = false.
Proof.
  cbn [has_c1]. rewrite !orb_false_iff. intros [[H1 H2] H3]. rewrite N.eqb_neq in H1. repeat split; auto.
  - intros c2 r2 ->. rewrite orb_false_iff in H2. destruct H2 as [H2 _].
    rewrite !andb_false_iff, negb_false_iff, N.eqb_neq, !N.leb_gt, N.eqb_eq in H2. lia.
  - intros c2 c3 r3 ->. rewrite orb_false_iff in H2. destruct H2 as [_ H2].
    rewrite !andb_false_iff, orb_false_iff, !N.eqb_neq in H2. lia.
Qed.
Lemma has_nel_head c1 r : has_nel (String c1 r) = false ->
  (forall c2 r2, r = String c2 r2 -> ~ (b c1 = 194 /\ b c2 = 133)) /\ has_nel r = false.
Proof.
  cbn [has_nel]. rewrite orb_false_iff. intros [H1 H2]. split; auto.
  intros c2 r2 ->. rewrite andb_false_iff, !N.eqb_neq in H1. lia.
Qed.

Lemma has_c1_enc v t : scalar v = true -> has_c1 (utf8_enc v ++ t) = false -> is_c1 v = false /\ has_c1 t = false.
Proof.
  intros Hs. apply scalar_spec in Hs. rewrite is_c1_false. unfold utf8_enc.
  destruct (N.leb_spec v 127).
  { cbn [append]. intro X. apply has_c1_head in X. destruct X as (H1 & _ & _ & H4). rewrite b_ch in H1 by lia. split; [lia | exact H4]. }
  destruct (N.leb_spec v 2047).
  { cbn [append]. intro X. apply has_c1_head in X. destruct X as (_ & H2 & _ & H4).
    specialize (H2 _ _ eq_refl). rewrite !b_ch in H2 by lia.
    apply has_c1_head in H4. destruct H4 as (_ & _ & _ & H4). split; [lia | exact H4]. }
  destruct (N.leb_spec v 65535).
  { cbn [append]. intro X. apply has_c1_head in X. destruct X as (_ & _ & H3 & H4).
    specialize (H3 _ _ _ eq_refl). rewrite !b_ch in H3 by lia.
    apply has_c1_head in H4. destruct H4 as (_ & _ & _ & H4). apply has_c1_head in H4. destruct H4 as (_ & _ & _ & H4).
    split; [lia | exact H4]. }
  cbn [append]. intro X. apply has_c1_head in X. destruct X as (_ & _ & _ & H4).
  apply has_c1_head in H4. destruct H4 as (_ & _ & _ & H4). apply has_c1_head in H4. destruct H4 as (_ & _ & _ & H4).
  apply has_c1_head in H4. destruct H4 as (_ & _ & _ & H4). split; [lia | exact H4].
Qed.
Lemma has_nel_enc v t : scalar v = true -> has_nel (utf8_enc v ++ t) = false -> v <> 133 /\ has_nel t = false.
Proof.
  intros Hs. apply scalar_spec in Hs. unfold utf8_enc.
  destruct (N.leb_spec v 127).
  { cbn [append]. intro X. apply has_nel_head in X. destruct X as (_ & H4). split; [lia | exact H4]. }
  destruct (N.leb_spec v 2047).
  { cbn [append]. intro X. apply has_nel_head in X. destruct X as (H2 & H4).
    specialize (H2 _ _ eq_refl). rewrite !b_ch in H2 by lia.
    apply has_nel_head in H4. destruct H4 as (_ & H4). split; [lia | exact H4]. }
  destruct (N.leb_spec v 65535).
  { cbn [append]. intro X. apply has_nel_head in X. destruct X as (_ & H4).
    apply has_nel_head in H4. destruct H4 as (_ & H4). apply has_nel_head in H4. destruct H4 as (_ & H4).
    split; [lia | exact H4]. }
  cbn [append]. intro X. apply has_nel_head in X. destruct X as (_ & H4).
  apply has_nel_head in H4. destruct H4 as (_ & H4). apply has_nel_head in H4. destruct H4 as (_ & H4).
  apply has_nel_head in H4. destruct H4 as (_ & H4). split; [lia | exact H4].
Qed.

(* a code point the theorem speaks of: a Unicode scalar value outside both classes *)
Definition good (v : N) : Prop := scalar v = true /\ is_c1 v = false /\ v <> 133.
Lemma good_encs cps : scalars cps -> has_c1 (utf8_encs cps) = false -> has_nel (utf8_encs cps) = false -> Forall good cps.
Proof.
  induction 1 as [|v cps Hv _ IH]; intros H1 H2; [constructor|]. cbn [utf8_encs] in H1, H2.
  apply has_c1_enc in H1; [|exact Hv]. apply has_nel_enc in H2; [|exact Hv].
  constructor; [unfold good; tauto | apply IH; tauto].
Qed.

(* ---- the scanner, one step at a time ---- *)
Lemma scan_blank st r : scan st (32 :: r) = scan (add_blank st 32) r.
Proof. reflexivity. Qed.

Lemma is_break_false c : is_break c = false -> c <> 13 /\ c <> 10 /\ c <> 133 /\ c <> 8232 /\ c <> 8233.
Proof. unfold is_break. rewrite !orb_false_iff, !N.eqb_neq. tauto. Qed.
Lemma is_blank_false c : is_blank c = false <-> c <> 32 /\ c <> 9.
Proof. unfold is_blank. rewrite !orb_false_iff, !N.eqb_neq. tauto. Qed.

Ltac neq_false := repeat match goal with H : ?x <> ?y |- context [N.eqb ?x ?y] => rewrite (proj2 (N.eqb_neq x y) H) end.

(* an ordinary character is copied *)
Lemma scan_nonblank st c r : col0_of st = false -> is_blank c = false -> is_break c = false -> c <> 0 -> c <> 34 -> c <> 92 ->
  scan st (c :: r) = prepend (flush st) (prepend (utf8_enc c) (scan NB r)).
Proof.
  intros Hc Hb Hk H0 H34 H92. apply is_break_false in Hk. destruct Hk as (K1 & K2 & K3 & K4 & K5).
  cbn [scan]. rewrite Hb, Hc. neq_false. reflexivity.
Qed.

(* a one-character escape *)
Lemma scan_esc_simple st e x r : col0_of st = false -> is_break e = false -> esc_simple e = Some x ->
  scan st (92 :: e :: r) = prepend (flush st) (prepend x (scan NB r)).
Proof.
  intros Hc Hk He. cbn [scan]. change (is_blank 92) with false. rewrite Hc, Hk, He. reflexivity.
Qed.

(* a four-digit escape code *)
Lemma scan_esc_u_gen st r1 : col0_of st = false ->
  scan st (92 :: 117 :: r1) =
  prepend (flush st) (match r1 with h1 :: h2 :: h3 :: h4 :: r2 => emit_code [h1; h2; h3; h4] (scan NB r2) | _ => None end).
Proof.
  intros Hc. cbn [scan]. change (is_blank 92) with false. rewrite Hc.
  change (is_break 117) with false. change (esc_simple 117) with (@None string). reflexivity.
Qed.
Lemma scan_esc_u st h1 h2 h3 h4 v r : col0_of st = false -> hexs 0 [h1; h2; h3; h4] = Some v -> scalar v = true ->
  scan st (92 :: 117 :: h1 :: h2 :: h3 :: h4 :: r) = prepend (flush st) (prepend (utf8_enc v) (scan NB r)).
Proof. intros Hc Hh Hs. rewrite scan_esc_u_gen by exact Hc. unfold emit_code. now rewrite Hh, Hs. Qed.

Lemma ascii_hex v : v < 128 -> hexs 0 [48; 48; b (hexd (v / 16)); b (hexd (v mod 16))] = Some v.
Proof.
  intro L. pose proof (ascii_ok_all v L) as H. unfold ascii_ok in H. apply andb_prop in H. destruct H as [_ H].
  destruct (hexs 0 _) as [x|]; [|discriminate]. apply N.eqb_eq in H. now subst.
Qed.

(* what encoding/json wrote for one code point outside the two classes reads back as that code point *)
Lemma scan_step v st r : good v -> v <> 32 -> col0_of st = false ->
  scan st (esc_cps v ++ r)%list = prepend (flush st) (prepend (utf8_enc v) (scan NB r)).
Proof.
  intros (Hs & Hc1 & Hnel) H32 Hc. apply is_c1_false in Hc1. unfold esc_cps.
  destruct (N.ltb_spec v 128) as [L|L].
  - destruct (N.eqb_spec v 34) as [->|N34]. { apply (scan_esc_simple st 34 (utf8_enc 34) r Hc); reflexivity. }
    destruct (N.eqb_spec v 92) as [->|N92]. { apply (scan_esc_simple st 92 (utf8_enc 92) r Hc); reflexivity. }
    destruct (N.eqb_spec v 8) as [->|N8]. { apply (scan_esc_simple st 98 (utf8_enc 8) r Hc); reflexivity. }
    destruct (N.eqb_spec v 12) as [->|N12]. { apply (scan_esc_simple st 102 (utf8_enc 12) r Hc); reflexivity. }
    destruct (N.eqb_spec v 10) as [->|N10]. { apply (scan_esc_simple st 110 (utf8_enc 10) r Hc); reflexivity. }
    destruct (N.eqb_spec v 13) as [->|N13]. { apply (scan_esc_simple st 114 (utf8_enc 13) r Hc); reflexivity. }
    destruct (N.eqb_spec v 9) as [->|N9]. { apply (scan_esc_simple st 116 (utf8_enc 9) r Hc); reflexivity. }
    destruct ((v <? 32) || (v =? 60) || (v =? 62) || (v =? 38)) eqn:E.
    + cbn [List.app]. apply scan_esc_u; [exact Hc | apply ascii_hex; exact L | exact Hs].
    + rewrite !orb_false_iff, N.ltb_ge, !N.eqb_neq in E. cbn [List.app]. apply scan_nonblank; auto.
      * apply is_blank_false. lia.
      * unfold is_break. rewrite !orb_false_iff, !N.eqb_neq. lia.
      * lia.
  - destruct (N.eqb_spec v 8232) as [->|N1].
    { cbn [orb List.app]. apply scan_esc_u; [exact Hc | vm_compute; reflexivity | reflexivity]. }
    destruct (N.eqb_spec v 8233) as [->|N2].
    { cbn [orb List.app]. apply scan_esc_u; [exact Hc | vm_compute; reflexivity | reflexivity]. }
    cbn [orb List.app]. apply scan_nonblank; auto; try lia.
    + apply is_blank_false. lia.
    + unfold is_break. rewrite !orb_false_iff, !N.eqb_neq. lia.
Qed.

(* ---- the whole string ---- *)
(* the states the scanner can be in between the characters of such a string: no line break has been seen *)
Definition plain (st : sstate) : Prop := match st with NB => True | BL c l _ _ _ => c = false /\ l = false end.
Lemma plain_col0 st : plain st -> col0_of st = false.
Proof. destruct st; cbn; tauto. Qed.
Lemma plain_blank st : plain st -> plain (add_blank st 32) /\ flush (add_blank st 32) = flush st ++ utf8_enc 32.
Proof. destruct st as [|c l ws lb tb]; cbn [plain]; [split; [split|]; reflexivity|]. intros [-> ->]. split; [split|]; reflexivity. Qed.

Lemma scan_good cps : Forall good cps -> forall st, plain st ->
  scan st (flat_map esc_cps cps) = Some (flush st ++ utf8_encs cps).
Proof.
  induction 1 as [|v cps Hv _ IH]; intros st Hp.
  - cbn [flat_map scan utf8_encs]. now rewrite app_nil_r_s.
  - cbn [flat_map utf8_encs]. destruct (N.eqb_spec v 32) as [->|N32].
    + change (esc_cps 32) with [32]. cbn [List.app]. rewrite scan_blank.
      destruct (plain_blank st Hp) as [Hp' Hf]. rewrite IH by exact Hp'. now rewrite Hf, app_assoc_s.
    + rewrite scan_step by (auto using plain_col0). rewrite (IH NB I). cbn [flush prepend option_map append]. reflexivity.
Qed.

Lemma flat_allowed cps : Forall good cps -> scalars (flat_map esc_cps cps) /\ printables (flat_map esc_cps cps).
Proof.
  induction 1 as [|v cps (Hs & Hc & _) _ IH]; [split; constructor|].
  cbn [flat_map]. destruct (esc_cps_allowed v Hs Hc) as [A1 A2]. destruct IH as [B1 B2].
  split; apply Forall_app; split; assumption.
Qed.

Theorem json_string_layer s : valid_utf8 s = true -> has_c1 s = false -> has_nel s = false ->
  yaml_dq_scan (json_escape s) = Some s.
Proof.
  intros Hv H1 H2. destruct (valid_decompose s Hv) as (cps & Hs & ->).
  pose proof (good_encs cps Hs H1 H2) as G. destruct (flat_allowed cps G) as [A1 A2].
  unfold yaml_dq_scan. rewrite json_escape_encs by exact Hs. rewrite reader_encs by assumption.
  now rewrite (scan_good cps G NB I).
Qed.

(* ---- the two classes are genuine: witnesses ---- *)
(* U+007F (written raw by encoding/json), U+0080, U+FFFE: the reader rejects the document *)
Theorem json_string_layer_c1_refuted :
  exists s, valid_utf8 s = true /\ has_c1 s = true /\ has_nel s = false /\ yaml_dq_scan (json_escape s) = None.
Proof. exists (String (ch 127) ""). vm_compute. repeat split; reflexivity. Qed.
Lemma c1_witnesses :
  forallb (fun s => valid_utf8 s && has_c1 s && negb (has_nel s) && match yaml_dq_scan (json_escape s) with None => true | Some _ => false end)
    [String (ch 127) ""; "a" ++ utf8_enc 128 ++ "b"; utf8_enc 159; utf8_enc 65534; "x " ++ utf8_enc 65535] = true.
Proof. vm_compute. reflexivity. Qed.
(* U+0085: read as a line break and folded to a space *)
Theorem json_string_layer_nel_refuted :
  exists s s', valid_utf8 s = true /\ has_c1 s = false /\ has_nel s = true /\ yaml_dq_scan (json_escape s) = Some s' /\ s' <> s.
Proof.
  exists ("a" ++ utf8_enc 133 ++ "b"), "a b". vm_compute. repeat split; try reflexivity. discriminate.
Qed.

(* ---- the first class is exactly the set of unreadable strings: EVERY valid string in it makes the document unreadable ---- *)
Lemma has_c1_skip c t : b c <> 127 -> b c <> 194 -> b c <> 239 -> has_c1 (String c t) = has_c1 t.
Proof.
  intros H1 H2 H3. cbn [has_c1]. neq_false. destruct t as [|d [|e r]]; reflexivity.
Qed.
Lemma has_c1_skip2 c d t : b c <> 127 -> b c <> 239 -> ~ (b c = 194 /\ 128 <= b d <= 159 /\ b d <> 133) ->
  has_c1 (String c (String d t)) = has_c1 (String d t).
Proof.
  intros H1 H3 H2. cbn [has_c1]. neq_false.
  assert ((b c =? 194) && (128 <=? b d) && (b d <=? 159) && negb (b d =? 133) = false) as ->.
  { rewrite !andb_false_iff, negb_false_iff, N.eqb_neq, !N.leb_gt, N.eqb_eq. lia. }
  destruct t as [|e r]; reflexivity.
Qed.
Lemma has_c1_skip3 c d e t : b c <> 127 -> b c <> 194 -> ~ (b c = 239 /\ b d = 191 /\ (b e = 190 \/ b e = 191)) ->
  has_c1 (String c (String d (String e t))) = has_c1 (String d (String e t)).
Proof.
  intros H1 H2 H3. cbn [has_c1]. neq_false.
  assert ((b c =? 239) && (b d =? 191) && ((b e =? 190) || (b e =? 191)) = false) as ->.
  { rewrite !andb_false_iff, orb_false_iff, !N.eqb_neq. lia. }
  reflexivity.
Qed.

Lemma has_c1_enc_clean v t : scalar v = true -> is_c1 v = false -> has_c1 t = false -> has_c1 (utf8_enc v ++ t) = false.
Proof.
  intros Hs Hc Ht. apply scalar_spec in Hs. apply is_c1_false in Hc. unfold utf8_enc.
  destruct (N.leb_spec v 127).
  { cbn [append]. rewrite has_c1_skip; rewrite ?b_ch by lia; try lia. exact Ht. }
  destruct (N.leb_spec v 2047).
  { cbn [append]. rewrite has_c1_skip2; rewrite ?b_ch by lia; try lia.
    rewrite has_c1_skip; rewrite ?b_ch by lia; try lia. exact Ht. }
  destruct (N.leb_spec v 65535).
  { cbn [append]. rewrite has_c1_skip3; rewrite ?b_ch by lia; try lia.
    rewrite has_c1_skip; rewrite ?b_ch by lia; try lia. rewrite has_c1_skip; rewrite ?b_ch by lia; try lia. exact Ht. }
  cbn [append]. rewrite has_c1_skip; rewrite ?b_ch by lia; try lia. rewrite has_c1_skip; rewrite ?b_ch by lia; try lia.
  rewrite has_c1_skip; rewrite ?b_ch by lia; try lia. rewrite has_c1_skip; rewrite ?b_ch by lia; try lia. exact Ht.
Qed.

Lemma has_c1_encs_exists cps : scalars cps -> has_c1 (utf8_encs cps) = true -> Exists (fun v => is_c1 v = true) cps.
Proof.
  induction 1 as [|v cps Hv _ IH]; cbn [utf8_encs]; [discriminate|]. intro H.
  destruct (is_c1 v) eqn:Ec; [left; exact Ec|]. right. apply IH.
  destruct (has_c1 (utf8_encs cps)) eqn:Et; [reflexivity|].
  rewrite (has_c1_enc_clean v _ Hv Ec Et) in H. discriminate.
Qed.

Lemma is_c1_true v : is_c1 v = true -> esc_cps v = [v] /\ yaml_printable v = false.
Proof.
  intro H. assert (v = 127 \/ (128 <= v <= 159 /\ v <> 133) \/ v = 65534 \/ v = 65535) as D.
  { unfold is_c1 in H. rewrite !orb_true_iff, !andb_true_iff, negb_true_iff, !N.eqb_eq, !N.leb_le, N.eqb_neq in H. tauto. }
  split.
  - destruct D as [->|[D|[->| ->]]]; try reflexivity.
    unfold esc_cps. destruct (N.ltb_spec v 128); [lia|].
    destruct (N.eqb_spec v 8232); [lia|]. destruct (N.eqb_spec v 8233); [lia|]. reflexivity.
  - destruct (yaml_printable v) eqn:E; [|reflexivity]. apply yaml_printable_iff in E. lia.
Qed.

Lemma reader_chunks_none L : Exists (fun v => yaml_printable v = false) L -> reader_chunks (map rune_of L) = None.
Proof.
  induction 1 as [v L Hv | v L _ IH]; cbn [map reader_chunks rune_of].
  - now rewrite Hv.
  - rewrite IH. destruct (yaml_printable v); reflexivity.
Qed.

Theorem json_string_layer_c1_unreadable s : valid_utf8 s = true -> has_c1 s = true -> yaml_dq_scan (json_escape s) = None.
Proof.
  intros Hv H1. destruct (valid_decompose s Hv) as (cps & Hs & ->).
  pose proof (has_c1_encs_exists cps Hs H1) as E.
  unfold yaml_dq_scan, yaml_reader. rewrite json_escape_encs by exact Hs.
  assert (scalars (flat_map esc_cps cps) /\ Exists (fun v => yaml_printable v = false) (flat_map esc_cps cps)) as [A1 A2].
  { clear H1 Hv. induction Hs as [|v cps Hsv Hs IH]; [inversion E|]. cbn [flat_map].
    destruct (is_c1 v) eqn:Ec.
    - destruct (is_c1_true v Ec) as [-> Hp]. cbn [List.app]. split.
      + constructor; [exact Hsv|]. clear E IH.
        induction Hs as [|w cps Hw Hs IH]; [constructor|]. cbn [flat_map]. apply Forall_app. split; [|exact IH].
        destruct (is_c1 w) eqn:Ew.
        * destruct (is_c1_true w Ew) as [-> _]. constructor; [exact Hw | constructor].
        * apply (esc_cps_allowed w Hw Ew).
      + left. exact Hp.
    - inversion E as [? ? E1 | ? ? E1]; subst; [congruence|]. destruct (IH E1) as [B1 B2]. split.
      + apply Forall_app. split; [apply (esc_cps_allowed v Hsv Ec) | exact B1].
      + apply Exists_app. right. exact B2. }
  rewrite go_runes_encs_all by exact A1. now rewrite reader_chunks_none.
Qed.
