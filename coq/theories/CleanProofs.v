(* CleanProofs.v — filepath.Clean (Paths.clean) is idempotent: Clean's output is in normal form, for every path. *)
From Coq Require Import String Ascii List Bool Arith Lia.
From CDI Require Import Base Paths.
Import ListNotations.
Open Scope string_scope.

Definition dots (c : string) : Prop := c = "..".
Definition normal_comp (c : string) : Prop := c <> "" /\ c <> "." /\ c <> ".." /\ contains "/" c = false.
(* a stack (most recent first): normal components on top of a bottom block of ".." (empty when rooted) *)
Definition stack_ok (rooted : bool) (st : list string) : Prop :=
  exists nrm ds, st = (nrm ++ ds)%list /\ Forall normal_comp nrm /\ Forall dots ds /\ (rooted = true -> ds = []).

Lemma split_all_no_sep sep s : Forall (fun c => contains sep c = false) (split_all sep s).
Proof.
  induction s as [|c r IH]; cbn [split_all]; [repeat constructor|].
  destruct (Ascii.eqb c sep) eqn:E; [constructor; [reflexivity|exact IH]|].
  destruct (split_all sep r) as [|x xs]; [repeat constructor; cbn; rewrite E; reflexivity|].
  inversion IH as [|? ? Hx Hxs]; subst. constructor; [cbn; rewrite E; exact Hx|exact Hxs].
Qed.

Lemma clean_step_ok rooted st c : contains "/" c = false -> stack_ok rooted st -> stack_ok rooted (clean_step rooted st c).
Proof.
  intros Hc (nrm & ds & -> & Hn & Hd & Hr). unfold clean_step.
  destruct (String.eqb c "" || String.eqb c ".") eqn:E1; [exists nrm, ds; auto|].
  apply orb_false_iff in E1 as [E1 E2]. apply String.eqb_neq in E1, E2.
  destruct (String.eqb c "..") eqn:E3.
  - apply String.eqb_eq in E3. subst c.
    destruct nrm as [|t nrm'].
    + cbn [app]. destruct ds as [|t ds'].
      * destruct rooted; [exists [], []; repeat split; auto|].
        exists [], [".."]. repeat split; auto; [constructor; [reflexivity|constructor]|discriminate].
      * inversion Hd as [|? ? Ht Hds]; subst. unfold dots in Ht. subst t. cbn.
        exists [], (".." :: ".." :: ds'). repeat split; auto.
        -- constructor; [reflexivity|exact Hd].
        -- intro R. specialize (Hr R). discriminate.
    + cbn [app]. inversion Hn as [|? ? Ht Hn']; subst. destruct Ht as (_ & _ & Ht & _).
      replace (String.eqb t "..") with false by (symmetry; apply String.eqb_neq; exact Ht).
      exists nrm', ds. auto.
  - apply String.eqb_neq in E3. exists (c :: nrm), ds. repeat split; auto.
    constructor; [repeat split; auto|exact Hn].
Qed.

Lemma fold_clean_ok rooted l : forall st,
  Forall (fun c => contains "/" c = false) l -> stack_ok rooted st -> stack_ok rooted (fold_left (clean_step rooted) l st).
Proof.
  induction l as [|c r IH]; intros st Hl Hs; cbn [fold_left]; [exact Hs|].
  inversion Hl; subst. apply IH; [assumption|apply clean_step_ok; assumption].
Qed.

(* the components of a normal form, first to last: leading ".." (none when rooted), then normal components *)
Definition comps_ok (rooted : bool) (comps : list string) : Prop :=
  exists ds nrm, comps = (ds ++ nrm)%list /\ Forall dots ds /\ Forall normal_comp nrm /\ (rooted = true -> ds = []).

Lemma norm_ok p : comps_ok (is_rooted p) (snd (norm p)).
Proof.
  unfold norm. cbn [snd].
  destruct (fold_clean_ok (is_rooted p) (split_all "/" p) [] (split_all_no_sep _ _)) as (nrm & ds & E & Hn & Hd & Hr).
  { exists [], []. repeat split; auto. }
  rewrite E, rev_app_distr. exists (rev ds), (rev nrm). repeat split.
  - apply Forall_rev. exact Hd.
  - apply Forall_rev. exact Hn.
  - intro R. rewrite (Hr R). reflexivity.
Qed.

(* pushing the components of a normal form onto an empty stack rebuilds it *)
Lemma fold_dots rooted ds : Forall dots ds -> rooted = false -> forall st, Forall dots st ->
  fold_left (clean_step rooted) ds st = (rev ds ++ st)%list.
Proof.
  intros Hd -> . induction Hd as [|c r Hc Hr IH]; intros st Hst; cbn [fold_left rev app]; [reflexivity|].
  unfold dots in Hc. subst c. rewrite IH.
  - unfold clean_step. cbn. destruct st as [|t st']; [rewrite <- app_assoc; reflexivity|].
    inversion Hst as [|? ? Ht _]; subst. unfold dots in Ht. subst t. cbn. rewrite <- app_assoc. reflexivity.
  - unfold clean_step. cbn. destruct st as [|t st']; [repeat constructor|].
    inversion Hst as [|? ? Ht Hst']; subst. unfold dots in Ht. subst t. cbn. constructor; [reflexivity|exact Hst].
Qed.
Lemma fold_normal rooted nrm : Forall normal_comp nrm -> forall st,
  fold_left (clean_step rooted) nrm st = (rev nrm ++ st)%list.
Proof.
  induction 1 as [|c r (H1 & H2 & H3 & _) Hr IH]; intro st; cbn [fold_left rev app]; [reflexivity|].
  rewrite IH. unfold clean_step.
  replace (String.eqb c "") with false by (symmetry; apply String.eqb_neq; exact H1).
  replace (String.eqb c ".") with false by (symmetry; apply String.eqb_neq; exact H2).
  replace (String.eqb c "..") with false by (symmetry; apply String.eqb_neq; exact H3).
  cbn [orb]. rewrite <- app_assoc. reflexivity.
Qed.

Lemma comps_no_slash rooted comps : comps_ok rooted comps -> Forall (fun c => contains "/" c = false) comps.
Proof.
  intros (ds & nrm & -> & Hd & Hn & _). apply Forall_app. split.
  - eapply Forall_impl; [|exact Hd]. intros c Hc. unfold dots in Hc. subst c. reflexivity.
  - eapply Forall_impl; [|exact Hn]. intros c (_ & _ & _ & H). exact H.
Qed.

Lemma fold_comps rooted comps : comps_ok rooted comps -> fold_left (clean_step rooted) comps [] = rev comps.
Proof.
  intros (ds & nrm & -> & Hd & Hn & Hr). rewrite fold_left_app, rev_app_distr.
  destruct rooted.
  - rewrite (Hr eq_refl). cbn [fold_left rev app]. rewrite app_nil_r. rewrite fold_normal by exact Hn. apply app_nil_r.
  - rewrite (fold_dots false ds Hd eq_refl [] (Forall_nil _)), app_nil_r. rewrite fold_normal by exact Hn. reflexivity.
Qed.

Lemma first_comp_not_slash rooted comps c r : comps_ok rooted comps -> comps = c :: r ->
  exists x s, c = String x s /\ Ascii.eqb x "/" = false.
Proof.
  intros (ds & nrm & E & Hd & Hn & _) Ec. rewrite Ec in E.
  assert (Hc : c <> "" /\ contains "/" c = false).
  { destruct ds as [|d ds'].
    - cbn [app] in E. subst nrm. inversion Hn as [|? ? (H1 & _ & _ & H4) _]; subst. auto.
    - cbn [app] in E. injection E as -> _. inversion Hd as [|? ? Hdd _]; subst. unfold dots in Hdd. subst d. split; [discriminate|reflexivity]. }
  destruct Hc as [H1 H2]. destruct c as [|x s]; [congruence|]. exists x, s. split; [reflexivity|].
  cbn in H2. apply orb_false_iff in H2 as [H2 _]. rewrite Ascii.eqb_sym. exact H2.
Qed.

Lemma join_cons_first c r : exists s, join_with "/" (c :: r) = c ++ s.
Proof. destruct r as [|d r']; [exists ""; cbn; rewrite app_nil_r_s; reflexivity|exists ("/" ++ join_with "/" (d :: r')); reflexivity]. Qed.

(* Clean's output is a fixed point of norm *)
Theorem norm_render rooted comps : comps_ok rooted comps -> norm (render (rooted, comps)) = (rooted, comps).
Proof.
  intro H. pose proof (comps_no_slash _ _ H) as Hs. unfold render.
  destruct rooted.
  - unfold norm. change (is_rooted ("/" ++ join_with "/" comps)) with true. f_equal.
    change ("/" ++ join_with "/" comps) with (String "/" (join_with "/" comps)).
    cbn [split_all]. rewrite Ascii.eqb_refl. cbn [fold_left]. change (clean_step true [] "") with (@nil string).
    destruct comps as [|c r].
    + reflexivity.
    + rewrite split_join by (try discriminate; exact Hs). rewrite (fold_comps true _ H). apply rev_involutive.
  - destruct comps as [|c r].
    + reflexivity.
    + destruct (first_comp_not_slash _ _ c r H eq_refl) as (x & s & Ec & Ex).
      unfold norm.
      assert (R : is_rooted (join_with "/" (c :: r)) = false).
      { destruct (join_cons_first c r) as [t Et]. rewrite Et, Ec. cbn. exact Ex. }
      rewrite R. f_equal. rewrite split_join by (try discriminate; exact Hs).
      rewrite (fold_comps false _ H). apply rev_involutive.
Qed.

Theorem clean_idempotent p : clean (clean p) = clean p.
Proof.
  unfold clean. pose proof (norm_ok p) as H. destruct (norm p) as [rooted comps] eqn:E.
  assert (Er : rooted = is_rooted p) by (unfold norm in E; injection E as <- _; reflexivity).
  cbn [snd] in H. rewrite <- Er in H. rewrite (norm_render _ _ H). reflexivity.
Qed.

(* ---------- appending the default extension to a cleaned path keeps it clean ---------- *)
Lemma join_snoc l c e : join_with "/" (l ++ [c]) ++ e = join_with "/" (l ++ [c ++ e]).
Proof.
  induction l as [|x r IH]; cbn [app join_with]; [reflexivity|].
  destruct r as [|y r'].
  - cbn [app join_with]. rewrite !app_assoc_s. reflexivity.
  - cbn [app] in *. change (join_with "/" (x :: y :: (r' ++ [c]))) with (x ++ "/" ++ join_with "/" (y :: r' ++ [c])).
    change (join_with "/" (x :: y :: (r' ++ [c ++ e]))) with (x ++ "/" ++ join_with "/" (y :: r' ++ [c ++ e])).
    rewrite !app_assoc_s. rewrite IH. reflexivity.
Qed.

Lemma contains_app_false x a b : contains x a = false -> contains x b = false -> contains x (a ++ b) = false.
Proof. intros Ha Hb. rewrite contains_app, Ha, Hb. reflexivity. Qed.

Lemma yaml_normal c : contains "/" c = false -> normal_comp (c ++ ".yaml").
Proof.
  intro H. assert (L : 5 <= String.length (c ++ ".yaml")) by (rewrite length_app; cbn; lia).
  repeat split.
  - intro E. rewrite E in L. cbn in L. lia.
  - intro E. rewrite E in L. cbn in L. lia.
  - intro E. rewrite E in L. cbn in L. lia.
  - apply contains_app_false; [exact H|reflexivity].
Qed.

Lemma snoc_cases {A} (l : list A) : l = [] \/ exists l' x, l = (l' ++ [x])%list.
Proof. destruct l as [|y r] using rev_ind; [left; reflexivity|right; exists r, y; reflexivity]. Qed.

Lemma Forall_snoc_inv {A} (P : A -> Prop) l x : Forall P (l ++ [x]) -> Forall P l /\ P x.
Proof. intro H. apply Forall_app in H as [H1 H2]. inversion H2; subst. auto. Qed.

Lemma comps_ok_single rooted c : normal_comp c -> comps_ok rooted [c].
Proof.
  intro H. exists [], [c]. split; [reflexivity|]. split; [constructor|]. split; [constructor; [exact H|constructor]|].
  intros _. reflexivity.
Qed.

Lemma render_yaml rooted comps : comps_ok rooted comps ->
  exists comps', comps_ok rooted comps' /\ render (rooted, comps) ++ ".yaml" = render (rooted, comps').
Proof.
  intros (ds & nrm & E & Hd & Hn & Hr).
  destruct (snoc_cases comps) as [->|(l & c & Ec)].
  - (* no components *)
    destruct rooted.
    + exists [".yaml"]. split; [apply comps_ok_single; apply (yaml_normal ""); reflexivity|reflexivity].
    + exists ["..yaml"]. split; [apply comps_ok_single; apply (yaml_normal "."); reflexivity|reflexivity].
  - subst comps.
    assert (Hc : contains "/" c = false).
    { assert (X : Forall (fun c => contains "/" c = false) (l ++ [c])) by (apply (comps_no_slash rooted); exists ds, nrm; auto).
      apply Forall_snoc_inv in X as [_ X]. exact X. }
    set (cy := c ++ ".yaml").
    assert (Hcy : normal_comp cy) by (apply yaml_normal; exact Hc).
    exists (l ++ [cy])%list. split.
    + (* still a normal form *)
      destruct (snoc_cases nrm) as [->|(n' & y & ->)].
      * rewrite app_nil_r in Ec. subst ds. apply Forall_snoc_inv in Hd as [Hd' _].
        exists l, [cy]. split; [reflexivity|]. split; [exact Hd'|]. split; [constructor; [exact Hcy|constructor]|].
        intro R. specialize (Hr R). destruct l; discriminate.
      * rewrite app_assoc in Ec. apply app_inj_tail in Ec as [El Ey]. subst l y.
        apply Forall_snoc_inv in Hn as [Hn' _].
        exists ds, (n' ++ [cy])%list. split; [rewrite app_assoc; reflexivity|]. split; [exact Hd|]. split; [|exact Hr].
        apply Forall_app. split; [exact Hn'|constructor; [exact Hcy|constructor]].
    + rewrite Ec. unfold render, cy. destruct rooted.
      * rewrite app_assoc_s, join_snoc. reflexivity.
      * destruct l as [|x l']; cbn [app]; [reflexivity|].
        pose proof (join_snoc (x :: l') c ".yaml") as J. cbn [app] in J.
        exact J.
Qed.

Theorem clean_yaml p : clean (clean p ++ ".yaml") = clean p ++ ".yaml".
Proof.
  unfold clean at 2 3. pose proof (norm_ok p) as H. destruct (norm p) as [rooted comps] eqn:E.
  assert (Er : rooted = is_rooted p) by (unfold norm in E; injection E as <- _; reflexivity).
  cbn [snd] in H. rewrite <- Er in H. destruct (render_yaml _ _ H) as (comps' & H' & ->).
  unfold clean. rewrite (norm_render _ _ H'). reflexivity.
Qed.

(* ---------- C16: the path the writer uses is the path the remover uses ---------- *)
Lemma ext_yaml_suffix p : contains "/" ".yaml" = false -> is_spec_ext (ext (p ++ ".yaml")) = true.
Proof.
  intros _. unfold ext.
  assert (G : forall s acc, ext_aux (s ++ ".yaml") acc = ".yaml").
  { induction s as [|c r IH]; intro acc; [reflexivity|].
    cbn [append ext_aux]. destruct (Ascii.eqb c "/"); [apply IH|]. destruct (Ascii.eqb c "."); apply IH. }
  rewrite G. reflexivity.
Qed.

Theorem with_default_ext_clean_fix x :
  with_default_ext (clean (with_default_ext (clean x))) = with_default_ext (clean x).
Proof.
  unfold with_default_ext at 2 3. destruct (is_spec_ext (ext (clean x))) eqn:E.
  - rewrite clean_idempotent. unfold with_default_ext. rewrite E. reflexivity.
  - rewrite clean_yaml. unfold with_default_ext. rewrite ext_yaml_suffix by reflexivity. reflexivity.
Qed.

Lemma clean_nonempty p : clean p <> "".
Proof.
  unfold clean. pose proof (norm_ok p) as H. destruct (norm p) as [rooted comps] eqn:E.
  assert (Er : rooted = is_rooted p) by (unfold norm in E; injection E as <- _; reflexivity).
  cbn [snd] in H. rewrite <- Er in H. unfold render. destruct rooted; [discriminate|].
  destruct comps as [|c r]; [discriminate|].
  destruct (first_comp_not_slash _ _ c r H eq_refl) as (x & s & Ec & _).
  destruct (join_cons_first c r) as [t Et]. rewrite Et, Ec. discriminate.
Qed.

Lemma join2_is_clean d name : d <> "" -> exists x, join2 d name = clean x.
Proof.
  intro Hd. unfold join2. replace (String.eqb d "") with false by (symmetry; apply String.eqb_neq; exact Hd).
  destruct (String.eqb name ""); eexists; reflexivity.
Qed.

(* WriteSpec's final path (newSpec cleans the path and applies the default extension once more) is exactly the path
   RemoveSpec removes: write and remove are symmetric for EVERY directory list and EVERY name *)
Theorem write_path_eq_remove_path dirs n : write_path dirs n = remove_path dirs n.
Proof.
  unfold write_path, remove_path, target_path, highest_dir.
  destruct (rev dirs) as [|d r]; [reflexivity|].
  destruct (join2_is_clean (clean d) n (clean_nonempty d)) as [x ->].
  rewrite with_default_ext_clean_fix. reflexivity.
Qed.
