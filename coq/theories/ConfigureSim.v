(* ConfigureSim.v — a reconfigured cache and a newly created one are indistinguishable (C20: configure_equiv_new). *)
From Coq Require Import String Ascii List Bool Arith Lia.
From CDI Require Import Base Paths Configure ConfigureProofs ConfigureRes.
Import ListNotations.
Open Scope string_scope.

(* what two cache objects must share to answer alike from now on; watcher identities, and in manual mode the
   leftover tracked map and watcher pointer, are not observable *)
Definition csim (c1 c2 : cstate) : Prop :=
  dirs c1 = dirs c2 /\ auto c1 = auto c2 /\ cached c1 = cached c2 /\ direrrs c1 = direrrs c2 /\
  (auto c1 = true -> tracked c1 = tracked c2 /\ (watcher c1 = None <-> watcher c2 = None)).

Definition wsim (w1 w2 : world) : Prop :=
  defdirs w1 = defdirs w2 /\ fs w1 = fs w2 /\ fd_ok w1 = fd_ok w2 /\ Inv w1 /\ Inv w2 /\
  match cache w1, cache w2 with
  | None, None => True
  | Some c1, Some c2 => csim c1 c2
  | _, _ => False
  end.

Definition has_watcher (c : cstate) : bool := match watcher c with Some _ => true | None => false end.

Lemma mem_n_single x : mem_n x [x] = true.
Proof. unfold mem_n. cbn. rewrite Nat.eqb_refl. reflexivity. Qed.

Lemma res_ok_open w c : res_ok w c -> auto c = true -> watcher_open w c = has_watcher c.
Proof.
  unfold res_ok, watcher_open, has_watcher. destruct (watcher c); [|reflexivity].
  intros H A. rewrite A in H. destruct H as [-> _]. apply mem_n_single.
Qed.

Lemma res_ok_live w c : res_ok w c -> live w c = auto c && has_watcher c.
Proof.
  unfold res_ok, live, has_watcher. destruct (watcher c); [|rewrite andb_false_r; reflexivity].
  destruct (auto c); intros [-> ->]; [rewrite !mem_n_single|]; reflexivity.
Qed.

Lemma csim_has c1 c2 : csim c1 c2 -> auto c1 = true -> has_watcher c1 = has_watcher c2.
Proof.
  intros (_ & _ & _ & _ & H) A. destruct (H A) as (_ & [I1 I2]). unfold has_watcher.
  destruct (watcher c1), (watcher c2); auto; [specialize (I2 eq_refl)|specialize (I1 eq_refl)]; discriminate.
Qed.

Lemma update_csim fs_ o c1 c2 rm :
  csim c1 c2 -> auto c1 = true ->
  csim (fst (update fs_ o c1 rm)) (fst (update fs_ o c2 rm)) /\ snd (update fs_ o c1 rm) = snd (update fs_ o c2 rm).
Proof.
  intros S A. pose proof (csim_has _ _ S A) as HW. destruct S as (D & AU & CA & DE & T). destruct (T A) as (TR & _).
  unfold has_watcher in HW.
  destruct (watcher c1) as [x1|] eqn:W1, (watcher c2) as [x2|] eqn:W2; try discriminate.
  - rewrite (update_some _ _ _ _ _ W1), (update_some _ _ _ _ _ W2). cbn [fst snd]. rewrite TR, DE. split; [|reflexivity].
    unfold csim. cfields. repeat split; auto; discriminate.
  - rewrite (update_none _ _ _ _ W1), (update_none _ _ _ _ W2). cbn [fst snd]. split; [|reflexivity].
    unfold csim. repeat split; auto; rewrite ?W1, ?W2; auto.
Qed.

Lemma refresh_csim w1 w2 c1 c2 :
  fs w1 = fs w2 -> fd_ok w1 = fd_ok w2 -> csim c1 c2 -> csim (refresh w1 c1) (refresh w2 c2).
Proof.
  intros F K (D & AU & CA & DE & T). unfold csim, refresh, scan. cfields. rewrite F, K, D. repeat split; auto; apply T; auto.
Qed.

Lemma rir_csim w1 w2 c1 c2 force :
  fs w1 = fs w2 -> fd_ok w1 = fd_ok w2 -> res_ok w1 c1 -> res_ok w2 c2 -> csim c1 c2 ->
  csim (refresh_if_required w1 c1 force) (refresh_if_required w2 c2 force).
Proof.
  intros F K R1 R2 S. unfold refresh_if_required. destruct force; [apply refresh_csim; auto|].
  pose proof S as (_ & AU & _). rewrite <- AU. destruct (auto c1) eqn:A; [|exact S].
  rewrite (res_ok_open _ _ R1 A), (res_ok_open _ _ R2 (eq_sym AU)), <- (csim_has _ _ S A), <- F.
  destruct (update_csim (fs w1) (has_watcher c1) c1 c2 [] S A) as (S' & E).
  destruct (update (fs w1) (has_watcher c1) c1 []) as [c1' u1], (update (fs w1) (has_watcher c1) c2 []) as [c2' u2].
  cbn [fst snd] in *. subst u2. destruct u1; [apply refresh_csim; auto|exact S'].
Qed.

Lemma configure_wsim w1 w2 c1 c2 os1 os2 :
  defdirs w1 = defdirs w2 -> fs w1 = fs w2 -> fd_ok w1 = fd_ok w2 ->
  res_pre w1 (watcher c1) -> res_pre w2 (watcher c2) ->
  fold_left apply_cfg os1 (dirs c1, auto c1) = fold_left apply_cfg os2 (dirs c2, auto c2) ->
  wsim (configure w1 c1 os1) (configure w2 c2 os2).
Proof.
  intros D F K P1 P2 E.
  destruct (configure_spec w1 c1 os1 P1) as (D1 & F1 & K1 & c1' & C1 & Di1 & A1 & Ca1 & R1).
  destruct (configure_spec w2 c2 os2 P2) as (D2 & F2 & K2 & c2' & C2 & Di2 & A2 & Ca2 & R2).
  unfold wsim. rewrite D1, D2, F1, F2, K1, K2, C1, C2.
  refine (conj D (conj F (conj K (conj (configure_inv _ _ _ P1) (conj (configure_inv _ _ _ P2) _))))).
  rewrite E, <- F, <- K in *. unfold csim. rewrite Di1, Di2, A1, A2, Ca1, Ca2.
  destruct (snd (fold_left apply_cfg os2 (dirs c2, auto c2))).
  - destruct (fd_ok w1).
    + destruct R1 as (W1 & _ & _ & T1 & E1), R2 as (W2 & _ & _ & T2 & E2). rewrite W1, W2, T1, T2, E1, E2.
      repeat split; auto; discriminate.
    + destruct R1 as (W1 & _ & _ & T1 & E1), R2 as (W2 & _ & _ & T2 & E2). rewrite W1, W2, T1, T2, E1, E2.
      repeat split; auto.
  - destruct R1 as (_ & _ & E1), R2 as (_ & _ & E2). rewrite E1, E2. repeat split; auto; discriminate.
Qed.

Lemma wsim_refl w : Inv w -> wsim w w.
Proof.
  intros I. unfold wsim. repeat split; auto. destruct (cache w); auto. unfold csim. repeat split; auto.
Qed.

Lemma step_wsim w1 w2 o :
  wsim w1 w2 -> wsim (fst (step w1 o)) (fst (step w2 o)) /\ snd (step w1 o) = snd (step w2 o).
Proof.
  intros (D & F & K & I1 & I2 & C).
  assert (FR : forall c1 c2 (w1' w2' : world),
             defdirs w1' = defdirs w2' -> fs w1' = fs w2' -> fd_ok w1' = fd_ok w2' -> Inv w1' -> Inv w2' ->
             cache w1' = Some c1 -> cache w2' = Some c2 -> csim c1 c2 -> wsim w1' w2').
  { intros c1 c2 w1' w2' HD HF HK HI1 HI2 HC1 HC2 HS. unfold wsim. rewrite HC1, HC2. auto 10. }
  pose proof (step_inv w1 o I1) as SI1. pose proof (step_inv w2 o I2) as SI2.
  destruct o; cbn [step fst snd] in *.
  - (* New *)
    split; [|reflexivity]. destruct (cache w1) as [c1|] eqn:C1, (cache w2) as [c2|] eqn:C2; try contradiction.
    + unfold wsim. rewrite C1, C2. auto 10.
    + apply configure_wsim; auto using inv_blank. unfold blank. cfields. rewrite D. reflexivity.
  - (* Configure *)
    split; [|reflexivity]. destruct (cache w1) as [c1|] eqn:C1, (cache w2) as [c2|] eqn:C2; try contradiction.
    + destruct os.
      * unfold wsim. rewrite C1, C2. auto 10.
      * destruct C as (Di & Au & _). apply configure_wsim; eauto using inv_some. rewrite Di, Au. reflexivity.
    + unfold wsim. rewrite C1, C2. auto 10.
  - (* SetFdShortage *)
    split; [|reflexivity]. unfold wsim. cfields. repeat split; auto.
  - (* FsOp *)
    split; [|reflexivity]. rewrite <- F in *.
    destruct (cache w1) as [c1|] eqn:C1, (cache w2) as [c2|] eqn:C2; try contradiction.
    + destruct (fires (fs w1) f) as [[d self]|].
      * unfold Inv in I1, I2. rewrite C1 in I1. rewrite C2 in I2.
        rewrite (res_ok_live _ _ I1) in SI1 |- *. rewrite (res_ok_live _ _ I2) in SI2 |- *.
        pose proof C as (_ & Au & _ & _ & T). rewrite <- Au in SI2 |- *.
        destruct (auto c1) eqn:A.
        -- rewrite <- (csim_has _ _ C A) in SI2 |- *. destruct (T eq_refl) as (TR & _).
           unfold is_tracked in SI1, SI2 |- *. rewrite <- TR in SI2 |- *.
           destruct (true && has_watcher c1 && match lookup d (tracked c1) with Some b => b | None => false end) eqn:L.
           ++ eapply FR; try reflexivity; auto.
              unfold deliver. cfields.
              set (w1' := mkW (defdirs w1) (fs_apply (fs w1) f) (fd_ok w1) (next w1) (open w1) (gors w1) (Some c1)).
              set (w2' := mkW (defdirs w2) (fs_apply (fs w1) f) (fd_ok w2) (next w2) (open w2) (gors w2) (Some c2)).
              assert (O1 : watcher_open w1' c1 = has_watcher c1) by (apply res_ok_open; auto).
              assert (O2 : watcher_open w2' c2 = has_watcher c1).
              { rewrite (csim_has _ _ C A). apply res_ok_open; auto. }
              rewrite O1, O2. apply refresh_csim; auto.
              apply update_csim; auto.
           ++ eapply FR; try reflexivity; auto.
        -- cbn [andb] in *. eapply FR; try reflexivity; auto.
      * eapply FR; try reflexivity; auto.
    + unfold wsim. cfields. auto 10.
  - (* Query *)
    destruct (cache w1) as [c1|] eqn:C1, (cache w2) as [c2|] eqn:C2; try contradiction.
    + cbn [fst snd] in *. unfold Inv in I1, I2. rewrite C1 in I1. rewrite C2 in I2.
      pose proof (rir_csim w1 w2 c1 c2 false F K I1 I2 C) as S.
      split.
      * eapply FR; try reflexivity; auto.
      * unfold answer_of. destruct S as (_ & _ & -> & -> & _). reflexivity.
    + cbn [fst snd]. split; [|reflexivity]. unfold wsim. rewrite C1, C2. auto 10.
  - (* Refresh *)
    split; [|reflexivity]. destruct (cache w1) as [c1|] eqn:C1, (cache w2) as [c2|] eqn:C2; try contradiction.
    + unfold Inv in I1, I2. rewrite C1 in I1. rewrite C2 in I2.
      pose proof C as (_ & Au & _). rewrite <- Au in SI2 |- *.
      eapply FR; try reflexivity; auto. apply rir_csim; auto.
    + unfold wsim. rewrite C1, C2. auto 10.
  - (* DefaultConfigure *)
    split; [|reflexivity]. destruct (cache w1) as [c1|] eqn:C1, (cache w2) as [c2|] eqn:C2; try contradiction.
    + destruct os.
      * unfold wsim. rewrite C1, C2. auto 10.
      * destruct C as (Di & Au & _). apply configure_wsim; eauto using inv_some. rewrite Di, Au. reflexivity.
    + apply configure_wsim; auto using inv_blank. unfold blank. cfields. rewrite D. reflexivity.
  - (* DefaultGet *)
    split; [|reflexivity]. destruct (cache w1) as [c1|] eqn:C1, (cache w2) as [c2|] eqn:C2; try contradiction.
    + unfold wsim. rewrite C1, C2. auto 10.
    + apply configure_wsim; auto using inv_blank. unfold blank. cfields. rewrite D. reflexivity.
Qed.

Lemma run_wsim ops : forall w1 w2, wsim w1 w2 -> run_outs w1 ops = run_outs w2 ops /\ wsim (run w1 ops) (run w2 ops).
Proof.
  induction ops as [|o r IH]; intros w1 w2 S; [cbn; auto|].
  destruct (step_wsim w1 w2 o S) as (S' & E). cbn [run_outs run fold_left]. rewrite E.
  destruct (IH _ _ S') as (E' & S''). unfold run in S''. rewrite E'. auto.
Qed.
