(* Judge10.v — evaluation of harness cases for C10 (atomic publication of Spec files).
   corr10: the model (writer_ops, step, crash_prefix, is_spec_name) predicts what was observed;
   oracle10: the property itself, evaluated on what was OBSERVED (system-call sequence, directory, scanner). *)
From Coq Require Import String Ascii List Bool Arith NArith.
From CDI Require Import Base Paths AtomicWrite.
Import ListNotations.
Open Scope string_scope.

(* one write attempt by a child process, as seen from outside *)
Record wobs := mkWobs {
  c_target : name;                       (* the file name the Spec is to appear under *)
  c_new    : bytes;                      (* the complete new content (what an undisturbed WriteSpec of the same Spec produces) *)
  c_dir0   : bool;                       (* the directory existed before *)
  c_l0     : list (name * bytes);        (* regular files of the directory before ... *)
  c_l1     : list (name * bytes);        (* ... and after the attempt *)
  c_s0     : list (name * string);       (* scanSpecDirs before: visited name, hash of the loaded Spec or ERR *)
  c_s1     : list (name * string);       (* ... and after *)
  c_hnew   : string;                     (* hash of the Spec being written *)
  c_ret    : nat                         (* 0 WriteSpec returned nil, 1 an error, 77 the process died at the hook *)
}.

(* a failure arranged by the fixture: the rename is refused (a directory at the target; a sticky directory in which the
   target belongs to somebody else) or no file can be created in the directory (no write permission on it) *)
Inductive inject := InjNone | InjRename | InjCreate.

Inductive case10 :=
| CTrace (w : wobs) (rnd : string) (limit : option N) (inj : inject) (ops : list op)   (* under strace; injected: RLIMIT_FSIZE, rename / create failure *)
| CCrash (w : wobs) (rnd : string) (inj : inject) (hook : nat)                         (* VERIF_CRASH_AT = verifPoint number hook (5: none) *)
| CLimit (w : wobs) (rnd : string) (limit : option N) (inj : inject)                   (* RLIMIT_FSIZE, no strace *)
| CConc (target : name) (allowedB allowedS seenB seenS : list string) (seenScan : list (name * string))
        (finalSpec : list name) (noWriteErr : bool)                                    (* concurrent readers *)
| CName (n : string) (visited : bool).                                                 (* scanner filter *)

(* ---- equality of operations ---- *)
Definition op_eqb (a b : op) : bool :=
  match a, b with
  | MkdirAll, MkdirAll => true
  | OpenW f n c e t, OpenW f' n' c' e' t' => Nat.eqb f f' && String.eqb n n' && Bool.eqb c c' && Bool.eqb e e' && Bool.eqb t t'
  | WriteChunk f b, WriteChunk f' b' => Nat.eqb f f' && String.eqb b b'
  | Close f, Close f' => Nat.eqb f f'
  | Rename s d r, Rename s' d' r' => String.eqb s s' && String.eqb d d' && Bool.eqb r r'
  | Unlink n, Unlink n' => String.eqb n n'
  | Fail c, Fail c' => String.eqb c c'
  | Other c, Other c' => String.eqb c c'
  | _, _ => false
  end.

(* failed system calls have no effect; which calls fail, and whether a doomed call is attempted at all, is not
   compared (os.Rename, e.g., does not even try when the destination is a directory) *)
Definition effectful (ops : list op) : list op :=
  filter (fun o => match o with Fail _ => false | _ => true end) ops.

Definition chunk_sizes (ops : list op) : list nat :=
  flat_map (fun o => match o with WriteChunk _ b => [String.length b] | _ => [] end) ops.

Definition fault_of (new : bytes) (limit : option N) (inj : inject) : fault :=
  match inj with
  | InjCreate => CreateFails          (* nothing is ever written *)
  | _ =>
      let late := match inj with InjRename => RenameFails | _ => NoFault end in
      match limit with
      | Some l => if (l <? N.of_nat (String.length new))%N then WriteFails (N.to_nat l) else late
      | None => late
      end
  end.

(* is verifPoint number hook reached at all under fault f (the child dies there), or does WriteSpec return first *)
Definition hook_reached (f : fault) (hook : nat) : bool :=
  match f with
  | MkdirFails => false
  | CreateFails => Nat.eqb hook 0
  | WriteFails _ => Nat.leb hook 2
  | _ => Nat.leb hook 4
  end.

Definition params (w : wobs) (rnd : string) (chunks : list nat) (f : fault) : wparams :=
  mkw (c_target w) (c_new w) rnd 0 chunks f.

Definition st0_of (w : wobs) : fs := fs_of (c_dir0 w) (c_l0 w).

Definition entries_eqb := list_eqb (pair_eqb String.eqb String.eqb).
Definition ls_eqb := list_eqb String.eqb.

(* the scanner visits exactly the files with a Spec file name *)
Definition scan_matches (l : list (name * bytes)) (s : list (name * string)) : bool :=
  ls_eqb (sort_strings (map fst s)) (sort_strings (filter is_spec_name (map fst l))).

Definition ret_of (f : fault) : nat := match f with NoFault => 0 | _ => 1 end.

Definition corr10 (c : case10) : bool :=
  match c with
  | CTrace w rnd limit inj ops =>
      let f := fault_of (c_new w) limit inj in
      let p := params w rnd (chunk_sizes ops) f in
      list_eqb op_eqb (effectful ops) (effectful (writer_ops p)) &&
      entries_eqb (listing (run ops (st0_of w))) (sort_entries (c_l1 w)) &&
      Nat.eqb (c_ret w) (ret_of f) &&
      scan_matches (c_l0 w) (c_s0 w) && scan_matches (c_l1 w) (c_s1 w)
  | CCrash w rnd inj hook =>
      let f := fault_of (c_new w) None inj in
      let p := params w rnd [] f in
      entries_eqb (listing (run (firstn (crash_prefix p hook) (writer_ops p)) (st0_of w))) (sort_entries (c_l1 w)) &&
      Nat.eqb (c_ret w) (if hook_reached f hook then 77 else ret_of f) &&
      scan_matches (c_l0 w) (c_s0 w) && scan_matches (c_l1 w) (c_s1 w)
  | CLimit w rnd limit inj =>
      let f := fault_of (c_new w) limit inj in
      let p := params w rnd [] f in
      entries_eqb (listing (run (writer_ops p) (st0_of w))) (sort_entries (c_l1 w)) &&
      Nat.eqb (c_ret w) (ret_of f) &&
      scan_matches (c_l0 w) (c_s0 w) && scan_matches (c_l1 w) (c_s1 w)
  | CConc _ _ _ _ _ _ _ noWriteErr => noWriteErr
  | CName n visited => Bool.eqb visited (is_spec_name n)
  end.

(* ---- the property on the observed directory and on what the library's scanner loads from it ---- *)
Definition obs_ok (w : wobs) : bool :=
  (* under every Spec file name: what was there before, or - the target only - the complete new content *)
  forallb (fun n => negb (is_spec_name n) ||
                    ob_eqb (lookup n (c_l1 w)) (lookup n (c_l0 w)) ||
                    (String.eqb n (c_target w) && ob_eqb (lookup n (c_l1 w)) (Some (c_new w))))
          (map fst (c_l1 w) ++ map fst (c_l0 w))%list &&
  (* whatever the scanner visits or loads was visited / loaded like that before, or is the new Spec under the target *)
  forallb (fun e => ob_eqb (Some (snd e)) (lookup (fst e) (c_s0 w)) ||
                    (String.eqb (fst e) (c_target w) && String.eqb (snd e) (c_hnew w)))
          (c_s1 w) &&
  (* nothing that was loadable got lost *)
  forallb (fun e => match lookup (fst e) (c_s1 w) with Some _ => true | None => false end) (c_s0 w).

(* the property on every prefix of the OBSERVED operation sequence (every crash point of what the code does now) *)
Definition ops_ok (w : wobs) (ops : list op) : bool :=
  let sts := trace (st0_of w) ops in
  forallb (atomic_ok_b (st0_of w) (c_target w) (c_new w)) sts && immut_ok_b sts.

Definition oracle10 (c : case10) : bool :=
  match c with
  | CTrace w _ _ _ ops => ops_ok w ops && obs_ok w
  | CCrash w _ _ _ => obs_ok w
  | CLimit w _ _ _ => obs_ok w
  | CConc target allowedB allowedS seenB seenS seenScan finalSpec _ =>
      forallb (fun h => mem_s h allowedB) seenB &&
      forallb (fun h => mem_s h allowedS) seenS &&
      forallb (fun e => String.eqb (fst e) target && mem_s (snd e) allowedS) seenScan &&
      forallb (fun n => String.eqb n target) finalSpec
  | CName n visited => if has_suffix ".tmp" n then negb visited else true
  end.

Definition judge10 (cases : list case10) : list nat * list nat :=
  (bad_indices corr10 0 cases, bad_indices oracle10 0 cases).
