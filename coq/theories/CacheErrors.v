(* CacheErrors.v — the error report after a refresh contains exactly the failing files and the loaded files that are in a
   same-priority conflict (C13 errors_exact), for every scanned-file list in ascending priority order with unique device
   names per file. *)
From Coq Require Import String Ascii List Bool Arith ZArith Lia.
From CDI Require Import Base SpecModel Parser Paths Oci Apply Cache CacheProofs SortProofs.
Import ListNotations.
Open Scope string_scope.

(* what one device of f contributes to the error list, given the holder of its name before f was scanned *)
Definition dev_errs (f : lfile) (holder : option cdev) : list string :=
  match holder with
  | Some old => if Nat.ltb (lf_prio (cd_file old)) (lf_prio f) then []
                else if Nat.eqb (lf_prio f) (lf_prio (cd_file old)) then [lf_path f; lf_path (cd_file old)] else []
  | None => []
  end.

Lemma add_dev_errs f st d :
  r_errs (add_dev f st d) = (r_errs st ++ dev_errs f (fst (proj (qname f d) st)))%list.
Proof.
  unfold add_dev, dev_errs, proj. cbn [fst].
  destruct (dlookup (qname f d) (r_devs st)) as [old|]; [|cbn [r_errs]; rewrite app_nil_r; reflexivity].
  destruct (Nat.ltb (lf_prio (cd_file old)) (lf_prio f)); [cbn [r_errs]; rewrite app_nil_r; reflexivity|].
  destruct (Nat.eqb (lf_prio f) (lf_prio (cd_file old))); cbn [r_errs]; [reflexivity|rewrite app_nil_r; reflexivity].
Qed.

Lemma flat_map_ext_in' {A B} (f g : A -> list B) l : (forall x, In x l -> f x = g x) -> flat_map f l = flat_map g l.
Proof.
  induction l as [|x r IH]; intro H; cbn [flat_map]; [reflexivity|].
  rewrite (H x) by (left; reflexivity). rewrite IH; [reflexivity|]. intros y Hy. apply H. right. exact Hy.
Qed.

Lemma fold_add_dev_errs f l : forall st, NoDup (map (qname f) l) ->
  r_errs (fold_left (add_dev f) l st) =
  (r_errs st ++ flat_map (fun d => dev_errs f (fst (proj (qname f d) st))) l)%list.
Proof.
  induction l as [|d r IH]; intros st ND; cbn [fold_left flat_map]; [rewrite app_nil_r; reflexivity|].
  cbn [map] in ND. inversion ND as [|x y Hnotin ND']; subst.
  rewrite IH by exact ND'. rewrite add_dev_errs, <- app_assoc. f_equal. f_equal.
  apply flat_map_ext_in'. intros d' Hd'.
  rewrite add_dev_other; [reflexivity|].
  apply String.eqb_neq. intro E. apply Hnotin. rewrite <- E. apply in_map. exact Hd'.
Qed.

(* the holder of n after scanning the files of pre *)
Definition holder (n : string) (pre : list lfile) : option cdev :=
  match hd_error (at_top n pre) with Some f => mk_cdev f n | None => None end.

Definition file_errs (pre : list lfile) (f : lfile) : list string :=
  flat_map (fun d => dev_errs f (holder (qname f d) pre)) (s_devices (lf_spec f)).

(* the error list in closed form: per scanned entry, given the loaded files before it *)
Fixpoint errs_from (pre : list lfile) (files : list scanned) : list string :=
  match files with
  | [] => []
  | SError p :: r => p :: errs_from pre r
  | SLoaded f :: r => (file_errs pre f ++ errs_from (pre ++ [f]) r)%list
  end.

Lemma proj_after n (pre : list scanned) :
  sorted (loaded pre) -> unique_names pre ->
  fst (proj n (fold_left add_scanned pre (mkR [] [] [] []))) = holder n (loaded pre).
Proof.
  intros S U. rewrite (scan_proj n pre _ U).
  change (proj n (mkR [] [] [] [])) with (@None cdev, false).
  destruct (machine_inv n (loaded pre) S) as [I1 _]. exact I1.
Qed.

Lemma sorted_prefix a b : sorted (a ++ b) -> sorted a.
Proof. intros H pre f post E. apply (H pre f (post ++ b)%list). rewrite E, <- app_assoc. reflexivity. Qed.
Lemma unique_prefix a b : unique_names (a ++ b) -> unique_names a /\ unique_names b.
Proof. unfold unique_names. intro H. apply Forall_app in H. exact H. Qed.

Lemma errs_closed_form (pre rest : list scanned) :
  sorted (loaded (pre ++ rest)) -> unique_names (pre ++ rest) ->
  r_errs (fold_left add_scanned rest (fold_left add_scanned pre (mkR [] [] [] []))) =
  (r_errs (fold_left add_scanned pre (mkR [] [] [] [])) ++ errs_from (loaded pre) rest)%list.
Proof.
  revert pre. induction rest as [|x r IH]; intros pre S U; cbn [fold_left errs_from]; [rewrite app_nil_r; reflexivity|].
  assert (E : (pre ++ x :: r = (pre ++ [x]) ++ r)%list) by (rewrite <- app_assoc; reflexivity).
  rewrite E in S, U.
  specialize (IH (pre ++ [x])%list S U). rewrite fold_left_app in IH. cbn [fold_left] in IH. rewrite IH.
  set (st := fold_left add_scanned pre (mkR [] [] [] [])).
  destruct x as [f|p]; cbn [add_scanned].
  - rewrite loaded_app. cbn [loaded]. rewrite app_assoc. f_equal.
    rewrite fold_add_dev_errs.
    + cbn [r_errs]. f_equal. unfold file_errs. apply flat_map_ext. intro d.
      change (proj (qname f d) (mkR (add_spec (vendor_of f) f (r_specs st)) (r_devs st) (r_conf st) (r_errs st)))
        with (proj (qname f d) st).
      unfold st. rewrite proj_after; [reflexivity| |].
      * rewrite loaded_app in S. apply sorted_prefix in S. rewrite loaded_app in S. apply sorted_prefix in S. exact S.
      * apply unique_prefix in U as [U _]. apply unique_prefix in U as [U _]. exact U.
    + apply unique_prefix in U as [U _]. apply unique_prefix in U as [_ U]. inversion U; assumption.
  - cbn [r_errs]. rewrite loaded_app. cbn [loaded]. rewrite app_nil_r, <- app_assoc. reflexivity.
Qed.

Theorem errs_are files : sorted (loaded files) -> unique_names files ->
  c_errs (refresh_files files) = errs_from [] files.
Proof.
  intros S U. unfold refresh_files, refresh_st. cbn [c_errs].
  pose proof (errs_closed_form [] files S U) as H. cbn [fold_left app loaded r_errs] in H. exact H.
Qed.

(* ---------- declarative side ---------- *)
(* f (at its position: fl = a ++ f :: b) is in conflict: another loaded file of the same priority defines one of its devices *)
Definition in_conflict (a : list lfile) (f : lfile) (b : list lfile) : Prop :=
  exists d g, In d (s_devices (lf_spec f)) /\ In g (a ++ b) /\ lf_prio g = lf_prio f /\ defines (qname f d) g = true.

Lemma conflicting_aux_iff p bef after :
  In p (conflicting_aux bef after) <->
  exists a f b, after = (a ++ f :: b)%list /\ lf_path f = p /\ in_conflict (bef ++ a) f b.
Proof.
  revert bef. induction after as [|f r IH]; intro bef; cbn [conflicting_aux].
  - split; [intros []|]. intros (a & f & b & E & _). destruct a; discriminate.
  - set (test := existsb _ _).
    assert (T : test = true <-> in_conflict bef f r).
    { unfold test, in_conflict. rewrite existsb_exists. split.
      - intros [d [Hd H]]. apply existsb_exists in H as [g [Hg H]]. apply andb_true_iff in H as [H1 H2].
        apply Nat.eqb_eq in H1. exists d, g. auto.
      - intros (d & g & Hd & Hg & H1 & H2). exists d. split; [exact Hd|]. apply existsb_exists. exists g. split; [exact Hg|].
        rewrite H2, andb_true_r. apply Nat.eqb_eq. exact H1. }
    assert (R : In p (conflicting_aux (bef ++ [f]) r) <->
                exists a f0 b, r = (a ++ f0 :: b)%list /\ lf_path f0 = p /\ in_conflict (bef ++ f :: a) f0 b).
    { rewrite IH. split; intros (a & f0 & b & E & P & C); exists a, f0, b; (split; [exact E|split; [exact P|]]);
        [rewrite <- app_assoc in C; exact C|rewrite <- app_assoc; exact C]. }
    split.
    + intro H. assert (H' : (test = true /\ lf_path f = p) \/ In p (conflicting_aux (bef ++ [f]) r)).
      { destruct test; [destruct H as [H|H]; [left; auto|right; exact H]|right; exact H]. }
      destruct H' as [[Ht Hp]|H'].
      * exists [], f, r. split; [reflexivity|]. split; [exact Hp|]. rewrite app_nil_r. apply T. exact Ht.
      * apply R in H' as (a & f0 & b & E & P & C). exists (f :: a), f0, b. split; [rewrite E; reflexivity|]. split; [exact P|exact C].
    + intros (a & f0 & b & E & P & C). destruct a as [|x a'].
      * cbn [app] in E. injection E as -> ->. rewrite app_nil_r in C. apply T in C. rewrite C. left. exact P.
      * cbn [app] in E. injection E as -> E'.
        assert (X : In p (conflicting_aux (bef ++ [x]) r)) by (apply R; exists a', f0, b; auto).
        destruct test; [right; exact X|exact X].
Qed.

Lemma conflicting_iff p fl :
  In p (conflicting fl) <-> exists a f b, fl = (a ++ f :: b)%list /\ lf_path f = p /\ in_conflict a f b.
Proof. unfold conflicting. rewrite conflicting_aux_iff. cbn [app]. tauto. Qed.

(* ---------- facts about holders ---------- *)
Lemma holder_some n pre cd : holder n pre = Some cd ->
  In (cd_file cd) pre /\ defines n (cd_file cd) = true /\ lf_prio (cd_file cd) = top (defs n pre).
Proof.
  unfold holder. destruct (at_top n pre) as [|g r] eqn:A; cbn [hd_error]; [discriminate|].
  intro H. destruct (at_top_in n pre g) as [G Gin]; [rewrite A; left; reflexivity|].
  unfold defs in Gin. apply filter_In in Gin as [Gin Gdef].
  destruct (defines_mk _ _ Gdef) as [cg [Hcg Hfile]]. rewrite Hcg in H. injection H as <-. rewrite Hfile. auto.
Qed.

Lemma holder_exists n pre g : In g pre -> defines n g = true -> exists cd, holder n pre = Some cd.
Proof.
  intros Hin Hdef. unfold holder.
  destruct (at_top n pre) as [|h r] eqn:A.
  - apply at_top_nil in A. assert (X : In g (defs n pre)) by (apply filter_In; auto). rewrite A in X. destruct X.
  - cbn [hd_error]. destruct (at_top_in n pre h) as [_ Hin']; [rewrite A; left; reflexivity|].
    apply filter_In in Hin' as [_ Hd]. destruct (defines_mk _ _ Hd) as [cd [Hcd _]]. exists cd. exact Hcd.
Qed.

(* if no file of a defines n at the priority of f, the holder after a ++ f :: b1 (all of priority <= prio f, f defining n) is f *)
Lemma hd_filter_app {A} (q : A -> bool) a x b : (forall y, In y a -> q y = false) -> q x = true ->
  hd_error (filter q (a ++ x :: b)) = Some x.
Proof.
  intros Ha Hx. induction a as [|y r IH]; cbn [app filter].
  - rewrite Hx. reflexivity.
  - rewrite (Ha y) by (left; reflexivity). apply IH. intros z Hz. apply Ha. right. exact Hz.
Qed.

Lemma filter_filter_l {A} (p q : A -> bool) l : filter p (filter q l) = filter (fun x => q x && p x) l.
Proof.
  induction l as [|y r IH]; cbn [filter]; [reflexivity|].
  destruct (q y); cbn [filter andb]; [destruct (p y); rewrite IH; reflexivity|exact IH].
Qed.

Lemma holder_is_f n a f b1 :
  defines n f = true ->
  Forall (fun g => lf_prio g <= lf_prio f) (a ++ f :: b1) ->
  (forall g, In g a -> defines n g = true -> lf_prio g <> lf_prio f) ->
  exists cd, holder n (a ++ f :: b1) = Some cd /\ cd_file cd = f.
Proof.
  intros Hdef Hle Hno. unfold holder.
  assert (Top : top (defs n (a ++ f :: b1)) = lf_prio f).
  { apply Nat.le_antisymm.
    - apply top_bound. apply Forall_filter. exact Hle.
    - apply top_ge. apply filter_In. split; [apply in_or_app; right; left; reflexivity|exact Hdef]. }
  unfold at_top. rewrite Top. unfold defs. rewrite filter_filter_l.
  rewrite hd_filter_app.
  - destruct (defines_mk _ _ Hdef) as [cd [Hcd Hf]]. exists cd. auto.
  - intros g Hg. destruct (defines n g) eqn:Dg; [|reflexivity]. cbn [andb].
    apply Nat.eqb_neq. apply Hno; assumption.
  - rewrite Hdef, Nat.eqb_refl. reflexivity.
Qed.

(* ---------- the closed form lists exactly the failing and the conflicting files ---------- *)
Lemma dev_errs_in p f h : In p (dev_errs f h) ->
  exists old, h = Some old /\ lf_prio (cd_file old) >= lf_prio f /\ (lf_prio (cd_file old) <= lf_prio f -> lf_prio (cd_file old) = lf_prio f) /\
              (p = lf_path f \/ p = lf_path (cd_file old)) /\ Nat.eqb (lf_prio f) (lf_prio (cd_file old)) = true.
Proof.
  unfold dev_errs. destruct h as [old|]; [|intros []].
  destruct (Nat.ltb (lf_prio (cd_file old)) (lf_prio f)) eqn:L; [intros []|]. apply Nat.ltb_ge in L.
  destruct (Nat.eqb (lf_prio f) (lf_prio (cd_file old))) eqn:E; [|intros []]. apply Nat.eqb_eq in E.
  intros [<-|[<-|[]]]; exists old; (split; [reflexivity|]); repeat split; auto; try lia; apply Nat.eqb_eq; exact E.
Qed.

Lemma sorted_cons_mid a f b : sorted (a ++ f :: b) -> Forall (fun g => lf_prio g <= lf_prio f) a.
Proof. intro S. apply (S a f b). reflexivity. Qed.

Lemma in_split_dec {A} (x : A) l : In x l -> exists a b, l = (a ++ x :: b)%list.
Proof. apply in_split. Qed.

Lemma errs_from_sound p files : forall pre,
  sorted (pre ++ loaded files) ->
  In p (errs_from pre files) ->
  In p (failed files) \/
  exists a f b, (pre ++ loaded files = a ++ f :: b)%list /\ lf_path f = p /\ in_conflict a f b.
Proof.
  induction files as [|x r IH]; intros pre S H; cbn [errs_from] in H; [destruct H|].
  destruct x as [f|q]; cbn [failed loaded].
  - apply in_app_or in H as [H|H].
    + (* an error contributed while scanning f *)
      right. unfold file_errs in H. apply in_flat_map in H as [d [Hd H]].
      apply dev_errs_in in H as (old & Hh & _ & _ & Hp & Eq). apply Nat.eqb_eq in Eq.
      apply holder_some in Hh as (Hin & Hdef & _).
      destruct Hp as [Hp|Hp].
      * (* the file f itself: the holder is another file before it *)
        exists pre, f, (loaded r). split; [reflexivity|]. split; [auto|].
        exists d, (cd_file old). split; [exact Hd|]. split; [apply in_or_app; left; exact Hin|]. split; [auto|exact Hdef].
      * (* the holder: f comes after it and defines the same name at the same priority *)
        destruct (in_split _ _ Hin) as (a & b & E).
        exists a, (cd_file old), (b ++ f :: loaded r)%list. split; [rewrite E, <- app_assoc; reflexivity|]. split; [auto|].
        unfold defines in Hdef. destruct (def_in (cd_file old) (qname f d) (s_devices (lf_spec (cd_file old)))) as [d0|] eqn:D0; [|discriminate].
        assert (Hd0 : In d0 (s_devices (lf_spec (cd_file old))) /\ qname (cd_file old) d0 = qname f d).
        { clear - D0. induction (s_devices (lf_spec (cd_file old))) as [|y l IHl]; cbn [def_in] in D0; [discriminate|].
          destruct (String.eqb (qname f d) (qname (cd_file old) y)) eqn:E.
          - injection D0 as <-. apply String.eqb_eq in E. split; [left; reflexivity|auto].
          - destruct (IHl D0) as [I1 I2]. split; [right; exact I1|exact I2]. }
        destruct Hd0 as [Hd0 Hq]. exists d0, f. split; [exact Hd0|].
        split; [apply in_or_app; right; apply in_or_app; right; left; reflexivity|]. split; [auto|].
        rewrite Hq. unfold defines.
        assert (X : def_in f (qname f d) (s_devices (lf_spec f)) <> None).
        { intro N. apply def_in_none in N. assert (Y : existsb (fun d1 => String.eqb (qname f d) (qname f d1)) (s_devices (lf_spec f)) = true)
            by (apply existsb_exists; exists d; split; [exact Hd|apply String.eqb_refl]). congruence. }
        destruct (def_in f (qname f d) (s_devices (lf_spec f))); [reflexivity|congruence].
    + specialize (IH (pre ++ [f])%list). rewrite <- app_assoc in IH. cbn [app] in IH.
      destruct (IH S H) as [I|I]; [left; exact I|right; exact I].
  - destruct H as [<-|H]; [left; left; reflexivity|].
    destruct (IH pre S H) as [I|I]; [left; right; exact I|right; exact I].
Qed.

Lemma errs_from_failed p files : forall pre, In p (failed files) -> In p (errs_from pre files).
Proof.
  induction files as [|x r IH]; intros pre H; cbn [failed] in H; [destruct H|].
  destruct x as [f|q]; cbn [errs_from].
  - apply in_or_app. right. apply IH. exact H.
  - destruct H as [<-|H]; [left; reflexivity|right; apply IH; exact H].
Qed.

(* scanning f with a same-priority definer among the files before it records f *)
Lemma file_errs_self pre f d g :
  Forall (fun h => lf_prio h <= lf_prio f) pre ->
  In d (s_devices (lf_spec f)) -> In g pre -> lf_prio g = lf_prio f -> defines (qname f d) g = true ->
  In (lf_path f) (file_errs pre f).
Proof.
  intros Hle Hd Hg Hp Hdef. unfold file_errs. apply in_flat_map. exists d. split; [exact Hd|].
  destruct (holder_exists _ _ _ Hg Hdef) as [cd Hcd]. rewrite Hcd.
  destruct (holder_some _ _ _ Hcd) as (Hin & _ & Htop).
  assert (T : top (defs (qname f d) pre) = lf_prio f).
  { apply Nat.le_antisymm; [apply top_bound; apply Forall_filter; exact Hle|].
    rewrite <- Hp. apply top_ge. apply filter_In. auto. }
  unfold dev_errs. rewrite Htop, T, Nat.ltb_irrefl, Nat.eqb_refl. left. reflexivity.
Qed.

Lemma errs_from_in_later p pre f r : In p (file_errs pre f) -> In p (errs_from pre (SLoaded f :: r)).
Proof. intro H. cbn [errs_from]. apply in_or_app. left. exact H. Qed.

Lemma errs_from_skip p files : forall pre a,
  In p (errs_from (pre ++ loaded a) files) -> In p (errs_from pre (a ++ files)).
Proof.
  intros pre a. revert pre. induction a as [|x a' IH]; intros pre H; cbn [app loaded] in *.
  - rewrite app_nil_r in H. exact H.
  - destruct x as [f|q]; cbn [errs_from loaded] in *.
    + apply in_or_app. right. apply IH. rewrite <- app_assoc. exact H.
    + right. apply IH. exact H.
Qed.

(* a scanned list whose loaded files are l1 ++ f :: l2 splits accordingly *)
Lemma loaded_split files : forall l1 f l2, loaded files = (l1 ++ f :: l2)%list ->
  exists s1 s2, files = (s1 ++ SLoaded f :: s2)%list /\ loaded s1 = l1 /\ loaded s2 = l2.
Proof.
  induction files as [|x r IH]; intros l1 f l2 E; cbn [loaded] in E; [destruct l1; discriminate|].
  destruct x as [g|q].
  - destruct l1 as [|y l1']; cbn [app] in E; injection E as -> E'.
    + exists [], r. auto.
    + destruct (IH _ _ _ E') as (s1 & s2 & -> & <- & <-). exists (SLoaded y :: s1), s2. auto.
  - destruct (IH _ _ _ E) as (s1 & s2 & -> & <- & <-). exists (SError q :: s1), s2. auto.
Qed.

Lemma errs_from_complete p files :
  sorted (loaded files) ->
  (exists a f b, loaded files = (a ++ f :: b)%list /\ lf_path f = p /\ in_conflict a f b) ->
  In p (errs_from [] files).
Proof.
  intros S (a & f & b & E & P & (d & g & Hd & Hg & Hp & Hdef)).
  destruct (loaded_split _ _ _ _ E) as (s1 & s2 & -> & L1 & L2).
  assert (Hle : Forall (fun h => lf_prio h <= lf_prio f) a) by (rewrite E in S; apply (sorted_cons_mid _ _ _ S)).
  (* does a file before f define the name at f's priority? *)
  destruct (existsb (fun h => Nat.eqb (lf_prio h) (lf_prio f) && defines (qname f d) h) a) eqn:X.
  - apply existsb_exists in X as (h & Hh & Hc). apply andb_true_iff in Hc as [Hc1 Hc2]. apply Nat.eqb_eq in Hc1.
    apply (errs_from_skip p _ [] s1). cbn [app]. rewrite L1. apply errs_from_in_later. rewrite <- P.
    apply (file_errs_self a f d h); assumption.
  - (* no: then g comes after f, and when g is scanned the holder of the name is f *)
    assert (Hno : forall h, In h a -> defines (qname f d) h = true -> lf_prio h <> lf_prio f).
    { intros h Hh Hdh Hph. assert (Y : existsb (fun h => Nat.eqb (lf_prio h) (lf_prio f) && defines (qname f d) h) a = true).
      { apply existsb_exists. exists h. split; [exact Hh|]. rewrite Hdh, andb_true_r. apply Nat.eqb_eq. exact Hph. } congruence. }
    apply in_app_or in Hg as [Hg|Hg]; [exfalso; apply (Hno g Hg Hdef Hp)|].
    destruct (in_split _ _ Hg) as (b1 & b2 & Eb).
    rewrite <- L2 in Eb. destruct (loaded_split _ _ _ _ Eb) as (t1 & t2 & -> & M1 & M2).
    (* files = s1 ++ f :: t1 ++ g :: t2 *)
    assert (Efiles : (s1 ++ SLoaded f :: t1 ++ SLoaded g :: t2 = (s1 ++ SLoaded f :: t1) ++ SLoaded g :: t2)%list)
      by (rewrite <- app_assoc; reflexivity).
    rewrite Efiles. apply (errs_from_skip p _ [] (s1 ++ SLoaded f :: t1)). cbn [app].
    rewrite loaded_app. cbn [loaded]. rewrite L1, M1. apply errs_from_in_later.
    (* scanning g: the holder of qname f d is f, at g's priority *)
    unfold file_errs.
    assert (Dg : exists dg, In dg (s_devices (lf_spec g)) /\ qname g dg = qname f d).
    { unfold defines in Hdef. destruct (def_in g (qname f d) (s_devices (lf_spec g))) as [d0|] eqn:D0; [|discriminate].
      exists d0. clear - D0. induction (s_devices (lf_spec g)) as [|y l IHl]; cbn [def_in] in D0; [discriminate|].
      destruct (String.eqb (qname f d) (qname g y)) eqn:E0.
      - injection D0 as <-. apply String.eqb_eq in E0. split; [left; reflexivity|auto].
      - destruct (IHl D0) as [I1 I2]. split; [right; exact I1|exact I2]. }
    destruct Dg as (dg & Hdg & Hq). apply in_flat_map. exists dg. split; [exact Hdg|]. rewrite Hq.
    assert (Sg : Forall (fun h => lf_prio h <= lf_prio g) (a ++ f :: b1)).
    { rewrite Efiles in S. rewrite loaded_app in S. cbn [loaded] in S. apply sorted_cons_mid in S.
      rewrite loaded_app in S. cbn [loaded] in S. rewrite L1, M1 in S. exact S. }
    assert (Fdef : defines (qname f d) f = true).
    { unfold defines. assert (X2 : def_in f (qname f d) (s_devices (lf_spec f)) <> None).
      { intro N. apply def_in_none in N. assert (Y : existsb (fun d1 => String.eqb (qname f d) (qname f d1)) (s_devices (lf_spec f)) = true)
          by (apply existsb_exists; exists d; split; [exact Hd|apply String.eqb_refl]). congruence. }
      destruct (def_in f (qname f d) (s_devices (lf_spec f))); [reflexivity|congruence]. }
    assert (Sf : Forall (fun h => lf_prio h <= lf_prio f) (a ++ f :: b1)).
    { eapply Forall_impl; [|exact Sg]. cbn beta. intros h Hh. lia. }
    destruct (holder_is_f (qname f d) a f b1 Fdef Sf Hno) as (cd & Hcd & Hfile).
    rewrite Hcd. unfold dev_errs. rewrite Hfile, Hp, Nat.ltb_irrefl, Nat.eqb_refl, <- P. right. left. reflexivity.
Qed.

(* C13 errors_exact *)
Theorem errors_exact files p :
  sorted (loaded files) -> unique_names files ->
  (In p (error_keys (refresh_files files)) <-> In p (expected_error_keys files)).
Proof.
  intros S U. unfold error_keys, expected_error_keys.
  rewrite !In_sort_strings, !In_dedup_s, (errs_are files S U), in_app_iff, conflicting_iff.
  split.
  - intro H. apply (errs_from_sound p files []) in H; [|exact S]. cbn [app] in H. exact H.
  - intros [H|H]; [apply errs_from_failed; exact H|apply errs_from_complete; assumption].
Qed.

Theorem errors_exact_fs fs p :
  unique_names (scan fs) -> (In p (error_keys (refresh fs)) <-> In p (expected_error_keys (scan fs))).
Proof. intro U. apply errors_exact; [apply scan_sorted|exact U]. Qed.

(* as lists: the sorted, duplicate-free key set of GetErrors() IS the canonical listing of failing + conflicting files *)
Theorem errors_eq files :
  sorted (loaded files) -> unique_names files -> error_keys (refresh_files files) = expected_error_keys files.
Proof.
  intros S U. unfold error_keys, expected_error_keys. apply canonical_listing. intro p.
  pose proof (errors_exact files p S U) as H. unfold error_keys, expected_error_keys in H.
  rewrite !In_sort_strings, !In_dedup_s in H. exact H.
Qed.
