(* CliProofs.v — the renderings of Cli.v lose nothing and show nothing else: every listing parses back to exactly
   the library's answer it was rendered from (through the byte level: lines joined with newlines and split again),
   and the exit statuses say what the property says they say.  The lemmas are deliberately thin: C19 is mostly a
   differential property (built binaries against the library on the same directories). *)
From Coq Require Import String Ascii List Bool Arith NArith ZArith Lia DecimalString DecimalN.
From CDI Require Import Base Parser ParserProofs Cli.
Import ListNotations.
Open Scope string_scope.

(* ------------------------------------------------------------------ strings *)
Lemma has_prefix_app p r : has_prefix p (p ++ r) = true.
Proof. induction p as [|c p IH]; cbn [append has_prefix]; [destruct r; reflexivity|]. rewrite Ascii.eqb_refl. exact IH. Qed.

Lemma drop_s_app p r : drop_s (String.length p) (p ++ r) = r.
Proof. induction p as [|c p IH]; cbn [append String.length drop_s]; [destruct r; reflexivity|exact IH]. Qed.

Lemma strip_prefix_app p r : strip_prefix p (p ++ r) = Some r.
Proof. unfold strip_prefix. rewrite has_prefix_app, drop_s_app. reflexivity. Qed.

Lemma eqb_length a b : String.eqb a b = true -> String.length a = String.length b.
Proof. intro H. apply String.eqb_eq in H. congruence. Qed.

Lemma strip_suffix_app suf a : strip_suffix suf (a ++ suf) = Some a.
Proof.
  induction a as [|c a IH].
  - cbn [append]. destruct suf; cbn [strip_suffix]; rewrite String.eqb_refl; reflexivity.
  - cbn [append strip_suffix]. destruct (String.eqb (String c (a ++ suf)) suf) eqn:E.
    + apply eqb_length in E. cbn [String.length] in E. rewrite length_app in E. lia.
    + rewrite IH. reflexivity.
Qed.

Lemma strip_all_indent p ls : strip_all p (indent_lines p ls) = Some ls.
Proof.
  induction ls as [|l r IH]; [reflexivity|]. cbn [indent_lines map strip_all].
  rewrite strip_prefix_app. unfold indent_lines in IH. rewrite IH. reflexivity.
Qed.

Lemma no_nl_app a b : no_nl (a ++ b) = no_nl a && no_nl b.
Proof. unfold no_nl. rewrite contains_app, negb_orb. reflexivity. Qed.

Lemma no_nl_contains s : no_nl s = true -> contains nl s = false.
Proof. unfold no_nl. destruct (contains nl s); [discriminate|reflexivity]. Qed.

(* ------------------------------------------------------------------ lines <-> bytes *)
Lemma split_unlines ls :
  Forall (fun l => no_nl l = true) ls -> split_all nl (unlines ls) = (ls ++ [""])%list.
Proof.
  induction 1 as [|l r Hl _ IH]; [reflexivity|].
  cbn [unlines fold_right]. fold (unlines r).
  rewrite split_all_app by (apply no_nl_contains; exact Hl). rewrite IH. reflexivity.
Qed.

Theorem lines_of_unlines ls :
  Forall (fun l => no_nl l = true) ls -> lines_of (unlines ls) = ls.
Proof.
  intro H. unfold lines_of. rewrite (split_unlines ls H). rewrite rev_app_distr. cbn [rev app].
  apply rev_involutive.
Qed.

(* ------------------------------------------------------------------ %d *)
Lemma string_of_uint_digits d : forallb_s is_digit (NilEmpty.string_of_uint d) = true.
Proof. induction d; cbn [NilEmpty.string_of_uint forallb_s]; try rewrite IHd; reflexivity. Qed.

Lemma dec_digits n : forallb_s is_digit (dec n) = true.
Proof. apply string_of_uint_digits. Qed.

Lemma dec_no c n : is_digit c = false -> contains c (dec n) = false.
Proof. intro H. exact (forallb_not_contains is_digit c (dec n) (dec_digits n) H). Qed.

Lemma no_nl_dec n : no_nl (dec n) = true.
Proof. unfold no_nl. rewrite dec_no; reflexivity. Qed.

Lemma undec_dec n : undec (dec n) = Some n.
Proof.
  unfold undec, dec. rewrite NilEmpty.usu. rewrite DecimalN.Unsigned.of_to. rewrite String.eqb_refl. reflexivity.
Qed.

(* ------------------------------------------------------------------ numbered lines *)
Lemma parse_numbered_map {A} (P : A -> Prop) (f : N -> string -> option A) (g : N * A -> string) :
  (forall i x, P x -> f i (g (i, x)) = Some x) ->
  forall l i, Forall P l -> parse_numbered f i (map g (numbered i l)) = Some l.
Proof.
  intros Hfg l. induction l as [|x r IH]; intros i H; [reflexivity|].
  inversion H as [|? ? Hx Hr]; subst. cbn [numbered map parse_numbered].
  rewrite (Hfg i x Hx), (IH (N.succ i) Hr). reflexivity.
Qed.

Lemma header_then_hdr {A} e h (p : list string -> option (list A)) r : header_then e h p (h :: r) = p r.
Proof. unfold header_then. rewrite String.eqb_refl. reflexivity. Qed.

Lemma header_then_empty {A} e h (p : list string -> option (list A)) :
  String.eqb e h = false -> header_then e h p [e] = Some [].
Proof. intro H. unfold header_then. rewrite H, String.eqb_refl. reflexivity. Qed.

(* ------------------------------------------------------------------ devices *)
Lemma parse_dev_line_ok i x : parse_dev_line i (dev_line (i, x)) = Some x.
Proof.
  unfold parse_dev_line, dev_line. cbn [fst snd].
  replace ("  " ++ dec i ++ ". " ++ x) with (("  " ++ dec i ++ ". ") ++ x) by (rewrite !app_assoc_s; reflexivity).
  apply strip_prefix_app.
Qed.

Theorem parse_render_devices names : parse_devices (render_devices_l names) = Some names.
Proof.
  unfold parse_devices, render_devices_l. destruct names as [|x r].
  - apply header_then_empty. reflexivity.
  - rewrite header_then_hdr.
    apply (parse_numbered_map (fun _ => True)); [intros; apply parse_dev_line_ok|].
    apply Forall_forall. trivial.
Qed.

(* ------------------------------------------------------------------ vendors *)
Definition vendor_ok (s : string) : Prop :=
  no_nl s = true /\ contains dqc s = false /\ contains "," s = false /\ s <> "".

Lemma parse_vendor_line_ok i vend n :
  contains dqc vend = false -> parse_vendor_line i (vendor_line (i, (vend, n))) = Some (vend, n).
Proof.
  intro H. unfold parse_vendor_line, vendor_line. cbn [fst snd].
  replace ("  " ++ dec i ++ ". " ++ dq ++ vend ++ dq ++ " (" ++ dec n ++ " CDI Spec Files)")
    with (("  " ++ dec i ++ ". " ++ dq) ++ (vend ++ String dqc (" (" ++ (dec n ++ " CDI Spec Files)"))))
    by (rewrite !app_assoc_s; reflexivity).
  rewrite strip_prefix_app. rewrite (split_first_complete dqc vend _ H).
  rewrite strip_prefix_app. rewrite strip_suffix_app. rewrite undec_dec. reflexivity.
Qed.

Theorem parse_render_vendors l :
  Forall (fun x => contains dqc (fst x) = false) l -> parse_vendors (render_vendors_l l) = Some l.
Proof.
  intro H. unfold parse_vendors, render_vendors_l. destruct l as [|x r].
  - apply header_then_empty. reflexivity.
  - rewrite header_then_hdr.
    apply (parse_numbered_map (fun x => contains dqc (fst x) = false)); [|exact H].
    intros i [vend n] Hx. apply parse_vendor_line_ok. exact Hx.
Qed.

(* ------------------------------------------------------------------ classes *)
Lemma strip_all_space r : strip_all " " (map (append " ") r) = Some r.
Proof. exact (strip_all_indent " " r). Qed.

Lemma split_join_comma l :
  l <> [] -> Forall (fun s => contains "," s = false) l ->
  split_all "," (join_with ", " l) = match l with x :: r => x :: map (append " ") r | [] => [] end.
Proof.
  induction l as [|x r IH]; [congruence|]. intros _ H. inversion H as [|? ? Hx Hr]; subst.
  destruct r as [|y r'].
  - cbn [join_with map]. apply split_all_nosep. exact Hx.
  - change (join_with ", " (x :: y :: r')) with (x ++ String "," (String " " (join_with ", " (y :: r')))).
    rewrite split_all_app by exact Hx. f_equal.
    cbn [split_all]. change (Ascii.eqb " " ",") with false. cbv iota.
    rewrite IH by (try discriminate; exact Hr). reflexivity.
Qed.

Lemma join_nonempty l : l <> [] -> Forall (fun s => s <> "") l -> String.eqb (join_with ", " l) "" = false.
Proof.
  destruct l as [|x r]; [congruence|]. intros _ H. inversion H as [|? ? Hx _]; subst.
  destruct x as [|c x']; [congruence|]. destruct r; reflexivity.
Qed.

Lemma unjoin_join l :
  Forall (fun s => contains "," s = false /\ s <> "") l -> unjoin (join_with ", " l) = Some l.
Proof.
  intro H. unfold unjoin. destruct l as [|x r]; [reflexivity|].
  rewrite join_nonempty; [|discriminate|eapply Forall_impl; [|exact H]; cbn; tauto].
  rewrite split_join_comma; [|discriminate|eapply Forall_impl; [|exact H]; cbn; tauto].
  rewrite strip_all_space. reflexivity.
Qed.

Definition class_ok (s : string) : Prop := no_nl s = true /\ contains " " s = false.

Lemma parse_class_line_ok i cls vs :
  contains " " cls = false -> Forall (fun s => contains "," s = false /\ s <> "") vs ->
  parse_class_line i (class_line (i, (cls, vs))) = Some (cls, vs).
Proof.
  intros Hc Hv. unfold parse_class_line, class_line. cbn [fst snd].
  set (n := N.of_nat (length vs)). set (J := join_with ", " vs).
  replace ("  " ++ dec i ++ ". " ++ cls ++ " (" ++ dec n ++ " vendors: " ++ J ++ ")")
    with (("  " ++ dec i ++ ". ") ++ (cls ++ String " " ("(" ++ (dec n ++ String " " ("vendors: " ++ (J ++ ")"))))))
    by (rewrite !app_assoc_s; reflexivity).
  rewrite strip_prefix_app. rewrite (split_first_complete " " cls _ Hc).
  rewrite strip_prefix_app. rewrite (split_first_complete " " (dec n) _ (dec_no " " n eq_refl)).
  rewrite undec_dec. rewrite strip_prefix_app. rewrite strip_suffix_app.
  unfold J. rewrite (unjoin_join vs Hv). unfold n. rewrite N.eqb_refl. reflexivity.
Qed.

Definition class_entry_ok (x : string * list string) : Prop :=
  contains " " (fst x) = false /\ Forall (fun s => contains "," s = false /\ s <> "") (snd x).

Theorem parse_render_classes l :
  Forall class_entry_ok l -> parse_classes (render_classes_l l) = Some l.
Proof.
  intro H. unfold parse_classes, render_classes_l. destruct l as [|x r].
  - apply header_then_empty. reflexivity.
  - rewrite header_then_hdr.
    apply (parse_numbered_map class_entry_ok); [|exact H].
    intros i [cls vs] [Hc Hv]. apply parse_class_line_ok; assumption.
Qed.

(* ------------------------------------------------------------------ specs *)
Lemma strip_spec_line p : strip_prefix "  Spec File " (spec_line p) = Some p.
Proof. unfold spec_line. apply strip_prefix_app. Qed.

Lemma vendor_header_not_spec vend : strip_prefix "  Spec File " (vendor_header vend) = None.
Proof. reflexivity. Qed.

Lemma parse_vendor_header_ok vend : parse_vendor_header (vendor_header vend) = Some vend.
Proof.
  unfold parse_vendor_header, vendor_header. rewrite strip_prefix_app. apply strip_suffix_app.
Qed.

Lemma parse_sgroups_paths paths rest pend gs :
  parse_sgroups rest = Some (pend, gs) ->
  parse_sgroups (map spec_line paths ++ rest)%list = Some ((paths ++ pend)%list, gs).
Proof.
  intro H. induction paths as [|p r IH]; [exact H|].
  cbn [map app parse_sgroups]. rewrite IH. rewrite strip_spec_line. reflexivity.
Qed.

Lemma parse_sgroups_groups gs :
  parse_sgroups (flat_map render_sgroup gs) = Some ([], gs).
Proof.
  induction gs as [|[vend paths] r IH]; [reflexivity|].
  cbn [flat_map]. unfold render_sgroup at 1. cbn [fst snd app parse_sgroups].
  rewrite (parse_sgroups_paths paths _ [] r IH).
  rewrite vendor_header_not_spec, parse_vendor_header_ok. rewrite app_nil_r. reflexivity.
Qed.

Theorem parse_render_specs gs : parse_specs (render_specs_l gs) = Some gs.
Proof.
  unfold parse_specs, render_specs_l. destruct gs as [|g r].
  - apply header_then_empty. reflexivity.
  - rewrite header_then_hdr. unfold parse_sgroups_top. rewrite parse_sgroups_groups. reflexivity.
Qed.

(* ------------------------------------------------------------------ dirs *)
Lemma parse_dir_line_ok i d : parse_dir_line i (dir_line (i, d)) = Some d.
Proof.
  unfold parse_dir_line, dir_line. cbn [fst snd]. rewrite strip_prefix_app. apply strip_suffix_app.
Qed.

Theorem parse_render_dirs dirs : parse_dirs (render_dirs_l dirs) = Some dirs.
Proof.
  unfold parse_dirs, render_dirs_l. rewrite String.eqb_refl.
  apply (parse_numbered_map (fun _ => True)); [intros; apply parse_dir_line_ok|].
  apply Forall_forall. trivial.
Qed.

(* ------------------------------------------------------------------ errors *)
(* continuation lines of a multi-line message: not indented by two spaces, not a group header *)
Definition cont_ok (l : string) : Prop := has_prefix "  " l = false /\ parse_eheader l = None.
Definition emsg_ok (m : emsg) : Prop := Forall cont_ok (snd m).

Lemma parse_eheader_ok p : parse_eheader ("Spec file " ++ p ++ ":") = Some p.
Proof. unfold parse_eheader. rewrite strip_prefix_app. apply strip_suffix_app. Qed.

Lemma parse_eheader_indented t : parse_eheader ("  " ++ t) = None.
Proof. reflexivity. Qed.

Lemma parse_egroups_conts cs rest k stray gs :
  Forall cont_ok cs -> parse_egroups rest = Some (k, stray, gs) ->
  exists stray', parse_egroups (cs ++ rest)%list = Some (k, stray', gs).
Proof.
  intros H Hr. induction H as [|c r [Hc1 Hc2] _ IH]; [exists stray; exact Hr|].
  destruct IH as [s' IH]. cbn [app parse_egroups]. rewrite IH, Hc2, Hc1. eexists; reflexivity.
Qed.

Lemma parse_egroups_msgs ms rest k stray gs :
  Forall emsg_ok ms -> parse_egroups rest = Some (k, stray, gs) ->
  exists stray', parse_egroups (flat_map render_emsg ms ++ rest)%list = Some ((N.of_nat (length ms) + k)%N, stray', gs).
Proof.
  intros H. revert k stray. induction H as [|m r Hm _ IH]; intros k stray Hr.
  - exists stray. cbn [flat_map app length]. exact Hr.
  - destruct (IH k stray Hr) as [s1 E1]. cbn [flat_map]. unfold render_emsg at 1.
    rewrite <- app_assoc. cbn [app].
    destruct (parse_egroups_conts (snd m) _ _ _ _ Hm E1) as [s2 E2].
    cbn [parse_egroups]. rewrite E2. rewrite parse_eheader_indented. rewrite has_prefix_app.
    exists false. f_equal. f_equal. f_equal. cbn [length]. lia.
Qed.

Lemma parse_egroups_groups (gs : list (string * list emsg)) :
  Forall (fun g => Forall emsg_ok (snd g)) gs ->
  parse_egroups (flat_map render_egroup gs) = Some (0%N, false, egroups_count gs).
Proof.
  induction 1 as [|[p ms] r Hg _ IH]; [reflexivity|].
  cbn [flat_map]. unfold render_egroup at 1. cbn [fst snd app].
  destruct (parse_egroups_msgs ms _ _ _ _ Hg IH) as [s E].
  cbn [parse_egroups]. rewrite E. rewrite parse_eheader_ok. cbn [egroups_count map fst snd length].
  rewrite N.add_0_r. reflexivity.
Qed.

Theorem parse_render_errors (gs : list (string * list emsg)) :
  Forall (fun g => Forall emsg_ok (snd g)) gs ->
  parse_errors (render_errors_m gs) = Some (egroups_count gs).
Proof.
  intro H. unfold parse_errors, render_errors_m. rewrite String.eqb_refl.
  rewrite (parse_egroups_groups gs H). reflexivity.
Qed.

(* ------------------------------------------------------------------ no rendered line contains a newline *)
Definition nonl (s : string) : Prop := no_nl s = true.

Lemma nonl_app a b : nonl a -> nonl b -> nonl (a ++ b).
Proof. unfold nonl. intros Ha Hb. rewrite no_nl_app, Ha, Hb. reflexivity. Qed.

Lemma nonl_dec n : nonl (dec n).
Proof. exact (no_nl_dec n). Qed.

Ltac nonl_tac :=
  repeat (first [ apply nonl_dec | assumption | apply nonl_app | reflexivity ]).

Lemma nonl_dev_line i x : nonl x -> nonl (dev_line (i, x)).
Proof. intro H. unfold dev_line; cbn [fst snd]. nonl_tac. Qed.

Lemma nonl_vendor_line i vend n : nonl vend -> nonl (vendor_line (i, (vend, n))).
Proof. intro H. unfold vendor_line; cbn [fst snd]. nonl_tac. Qed.

Lemma nonl_join vs : Forall nonl vs -> nonl (join_with ", " vs).
Proof.
  induction 1 as [|x r Hx Hr IH]; [reflexivity|]. destruct r as [|y r']; [exact Hx|].
  change (join_with ", " (x :: y :: r')) with (x ++ ", " ++ join_with ", " (y :: r')). nonl_tac.
Qed.

Lemma nonl_class_line i cls vs : nonl cls -> Forall nonl vs -> nonl (class_line (i, (cls, vs))).
Proof. intros H Hv. pose proof (nonl_join vs Hv). unfold class_line; cbn [fst snd]. nonl_tac. Qed.

Lemma nonl_spec_line p : nonl p -> nonl (spec_line p).
Proof. intro H. unfold spec_line. nonl_tac. Qed.

Lemma nonl_vendor_header vend : nonl vend -> nonl (vendor_header vend).
Proof. intro H. unfold vendor_header. nonl_tac. Qed.

Lemma nonl_dir_line i d : nonl d -> nonl (dir_line (i, d)).
Proof. intro H. unfold dir_line; cbn [fst snd]. nonl_tac. Qed.

Lemma Forall_numbered_map {A} (P : A -> Prop) (g : N * A -> string) :
  (forall i x, P x -> nonl (g (i, x))) ->
  forall l i, Forall P l -> Forall nonl (map g (numbered i l)).
Proof.
  intros Hg l. induction l as [|x r IH]; intros i H; [constructor|].
  inversion H; subst. cbn [numbered map]. constructor; [apply Hg; assumption|apply IH; assumption].
Qed.

Lemma nonl_render_devices names : Forall nonl names -> Forall nonl (render_devices_l names).
Proof.
  intro H. unfold render_devices_l. destruct names; [repeat constructor|].
  constructor; [reflexivity|]. apply (Forall_numbered_map nonl); [intros; apply nonl_dev_line; assumption|exact H].
Qed.

Lemma nonl_render_vendors l : Forall (fun x => nonl (fst x)) l -> Forall nonl (render_vendors_l l).
Proof.
  intro H. unfold render_vendors_l. destruct l; [repeat constructor|].
  constructor; [reflexivity|].
  apply (Forall_numbered_map (fun x => nonl (fst x))); [|exact H].
  intros i [vend n] Hx. apply nonl_vendor_line. exact Hx.
Qed.

Lemma nonl_render_classes l :
  Forall (fun x => nonl (fst x) /\ Forall nonl (snd x)) l -> Forall nonl (render_classes_l l).
Proof.
  intro H. unfold render_classes_l. destruct l; [repeat constructor|].
  constructor; [reflexivity|].
  apply (Forall_numbered_map (fun x => nonl (fst x) /\ Forall nonl (snd x))); [|exact H].
  intros i [cls vs] [Hc Hv]. apply nonl_class_line; assumption.
Qed.

Lemma nonl_render_specs gs :
  Forall (fun g => nonl (fst g) /\ Forall nonl (snd g)) gs -> Forall nonl (render_specs_l gs).
Proof.
  intro H. unfold render_specs_l. destruct gs as [|g0 r0]; [repeat constructor|].
  constructor; [reflexivity|]. induction H as [|[vend paths] r [Hv Hp] _ IH]; [constructor|].
  cbn [flat_map]. apply Forall_app. split; [|exact IH].
  unfold render_sgroup; cbn [fst snd]. constructor; [apply nonl_vendor_header; exact Hv|].
  apply Forall_map. eapply Forall_impl; [|exact Hp]. intros p Hpp. apply nonl_spec_line. exact Hpp.
Qed.

Lemma nonl_render_dirs dirs : Forall nonl dirs -> Forall nonl (render_dirs_l dirs).
Proof.
  intro H. unfold render_dirs_l. constructor; [reflexivity|].
  apply (Forall_numbered_map nonl); [intros; apply nonl_dir_line; assumption|exact H].
Qed.

Definition emsg_nonl (m : emsg) : Prop := nonl (fst m) /\ Forall nonl (snd m).

Lemma nonl_render_errors (gs : list (string * list emsg)) :
  Forall (fun g => nonl (fst g) /\ Forall emsg_nonl (snd g)) gs -> Forall nonl (render_errors_m gs).
Proof.
  intro H. unfold render_errors_m. constructor; [reflexivity|].
  induction H as [|[p ms] r [Hp Hm] _ IH]; [constructor|].
  cbn [flat_map]. apply Forall_app. split; [|exact IH].
  cbn [fst snd] in Hp, Hm. unfold render_egroup; cbn [fst snd]. constructor; [nonl_tac|].
  clear IH. induction Hm as [|m r' [Hf Hc] _ IH']; [constructor|].
  cbn [flat_map]. apply Forall_app. split; [|exact IH'].
  unfold render_emsg. constructor; [nonl_tac|exact Hc].
Qed.

(* ------------------------------------------------------------------ membership helpers *)
Lemma in_insert_sorted x y l : In x (insert_sorted y l) -> x = y \/ In x l.
Proof.
  induction l as [|z r IH]; cbn [insert_sorted]; [intros [->|[]]; auto|].
  destruct (str_ltb z y); cbn [In]; intros [H|H]; auto. destruct (IH H); auto.
Qed.

Lemma in_sort_strings x l : In x (sort_strings l) -> In x l.
Proof.
  induction l as [|y r IH]; [intros []|]. unfold sort_strings. cbn [fold_right]. intro H.
  apply in_insert_sorted in H as [->|H]; [left; reflexivity|right; apply IH; exact H].
Qed.

Lemma in_class_vendors v cls x : In x (class_vendors v cls) -> In x (v_vendors v).
Proof.
  unfold class_vendors. intro H. apply in_sort_strings in H. apply in_flat_map in H as (vend & Hv & Hx).
  apply in_map_iff in Hx as (_ & <- & _). exact Hv.
Qed.

Lemma in_specs_of l vend sf : In sf (specs_of l vend) -> exists g, In g l /\ In sf (snd g).
Proof.
  induction l as [|[v0 s0] r IH]; [intros []|]. cbn [specs_of]. destruct (String.eqb v0 vend).
  - intro H. exists (v0, s0). split; [left; reflexivity|exact H].
  - intro H. destruct (IH H) as (g & Hg & Hs). exists g. split; [right; exact Hg|exact Hs].
Qed.

(* ------------------------------------------------------------------ the view-level statement *)
Definition view_ok (v : lib_view) : Prop :=
  Forall (fun d => nonl (d_name d)) (v_devices v) /\
  Forall vendor_ok (v_vendors v) /\
  Forall class_ok (v_classes v) /\
  Forall (fun g => Forall (fun sf => nonl (sf_path sf)) (snd g)) (v_specs v) /\
  Forall (fun e => nonl (fst e)) (v_errors v) /\
  Forall nonl (v_dirs v).

(* message texts of an error listing that can be told apart from its frame *)
Definition msgs_ok (gs : list (string * list emsg)) : Prop :=
  Forall (fun g => Forall (fun m => emsg_ok m /\ emsg_nonl m) (snd g)) gs.

Definition via_bytes (ls : list string) : list string := lines_of (unlines ls).

Theorem lists_devices v : view_ok v -> parse_devices (via_bytes (render_devices v)) = Some (list_devices v).
Proof.
  intros (Hd & _). unfold via_bytes, render_devices. rewrite lines_of_unlines; [apply parse_render_devices|].
  apply nonl_render_devices. unfold list_devices. apply Forall_map. exact Hd.
Qed.

Theorem lists_vendors v : view_ok v -> parse_vendors (via_bytes (render_vendors v)) = Some (list_vendors v).
Proof.
  intros (_ & Hv & _). unfold via_bytes, render_vendors. rewrite lines_of_unlines.
  - apply parse_render_vendors. unfold list_vendors. apply Forall_map. eapply Forall_impl; [|exact Hv].
    intros a (_ & H & _). exact H.
  - apply nonl_render_vendors. unfold list_vendors. apply Forall_map. eapply Forall_impl; [|exact Hv].
    intros a (H & _). exact H.
Qed.

Theorem lists_classes v : view_ok v -> parse_classes (via_bytes (render_classes v)) = Some (list_classes v).
Proof.
  intros (_ & Hv & Hc & _). unfold via_bytes, render_classes.
  assert (Hin : forall cls x, In x (class_vendors v cls) -> vendor_ok x).
  { intros cls x Hx. apply in_class_vendors in Hx. rewrite Forall_forall in Hv. apply Hv. exact Hx. }
  rewrite lines_of_unlines.
  - apply parse_render_classes. unfold list_classes. apply Forall_map. eapply Forall_impl; [|exact Hc].
    intros cls (_ & Hs). split; [exact Hs|]. cbn [snd]. apply Forall_forall. intros x Hx.
    destruct (Hin cls x Hx) as (_ & _ & H1 & H2). split; assumption.
  - apply nonl_render_classes. unfold list_classes. apply Forall_map. eapply Forall_impl; [|exact Hc].
    intros cls (Hn & _). split; [exact Hn|]. cbn [snd]. apply Forall_forall. intros x Hx.
    destruct (Hin cls x Hx) as (H & _). exact H.
Qed.

Theorem lists_specs v : view_ok v -> parse_specs (via_bytes (render_specs v)) = Some (list_specs v).
Proof.
  intros (_ & Hv & _ & Hs & _). unfold via_bytes, render_specs. rewrite lines_of_unlines; [apply parse_render_specs|].
  apply nonl_render_specs. unfold list_specs. apply Forall_map. eapply Forall_impl; [|exact Hv].
  intros vend (Hn & _). split; [exact Hn|]. cbn [snd]. apply Forall_map. apply Forall_forall. intros sf Hsf.
  apply in_specs_of in Hsf as (g & Hg & Hin). rewrite Forall_forall in Hs. specialize (Hs g Hg).
  rewrite Forall_forall in Hs. apply Hs. exact Hin.
Qed.

Theorem lists_dirs v : view_ok v -> parse_dirs (via_bytes (render_dirs v)) = Some (list_dirs v).
Proof.
  intros (_ & _ & _ & _ & _ & Hd). unfold via_bytes, render_dirs. rewrite lines_of_unlines; [apply parse_render_dirs|].
  apply nonl_render_dirs. exact Hd.
Qed.

Theorem lists_errors v gs :
  view_ok v -> egroups_count gs = v_errors v -> msgs_ok gs ->
  parse_errors (via_bytes (render_errors v gs)) = Some (list_errors v).
Proof.
  intros (_ & _ & _ & _ & He & _) Hc Hm. unfold via_bytes, render_errors, list_errors. rewrite <- Hc.
  rewrite lines_of_unlines.
  - apply parse_render_errors. eapply Forall_impl; [|exact Hm]. intros g Hg.
    eapply Forall_impl; [|exact Hg]. intros m [H _]. exact H.
  - apply nonl_render_errors. rewrite <- Hc in He. unfold egroups_count in He. rewrite Forall_map in He.
    clear Hc. induction Hm as [|g r Hg _ IH]; [constructor|]. inversion He; subst.
    constructor; [|apply IH; assumption]. split; [assumption|].
    eapply Forall_impl; [|exact Hg]. intros m [_ H]. exact H.
Qed.

Theorem cli_lists_exactly v :
  view_ok v ->
  parse_devices (via_bytes (render_devices v)) = Some (list_devices v) /\
  parse_vendors (via_bytes (render_vendors v)) = Some (list_vendors v) /\
  parse_classes (via_bytes (render_classes v)) = Some (list_classes v) /\
  parse_specs (via_bytes (render_specs v)) = Some (list_specs v) /\
  parse_dirs (via_bytes (render_dirs v)) = Some (list_dirs v) /\
  (forall gs, egroups_count gs = v_errors v -> msgs_ok gs ->
              parse_errors (via_bytes (render_errors v gs)) = Some (list_errors v)).
Proof.
  intro H. repeat split; [apply lists_devices|apply lists_vendors|apply lists_classes|apply lists_specs|apply lists_dirs|];
    try exact H. intros gs Hc Hm. apply lists_errors; assumption.
Qed.

(* what the commands run by the harness print is what the theorem is about: `specs` without a vendor list prints
   [render_specs], whichever way the source treats a vendor list *)
Theorem render_specs_args_nil v : render_specs_args [] v = render_specs v.
Proof.
  unfold render_specs_args, render_specs, render_specs_l, specs_selected, list_specs.
  destruct CDIGen.CliGen.specs_ignores_vendor_args; destruct (v_vendors v); reflexivity.
Qed.

Theorem render_sub_plain v :
  render_sub SDevices v = render_devices v /\ render_sub SVendors v = render_vendors v /\
  render_sub SClasses v = render_classes v /\ render_sub (SSpecs []) v = render_specs v /\
  render_sub SDirs v = render_dirs v.
Proof. repeat split. apply render_specs_args_nil. Qed.

(* the hypothesis is necessary: a name with a newline breaks the listing *)
Theorem cli_lists_newline_refuted :
  exists names, parse_devices (via_bytes (render_devices_l names)) <> Some names.
Proof. exists [String nl "x"]. vm_compute. discriminate. Qed.

(* ------------------------------------------------------------------ valid names satisfy the hypotheses *)
Lemma chars_no x s : forallb_s dn_mid s = true -> dn_mid x = false -> contains x s = false.
Proof. intros H Hx. exact (forallb_not_contains dn_mid x s H Hx). Qed.

Lemma chars_nonl s : forallb_s dn_mid s = true -> nonl s.
Proof. intro H. unfold nonl, no_nl. rewrite (chars_no nl s H); reflexivity. Qed.

Theorem VC_vendor_ok s : VC s -> vendor_ok s.
Proof.
  intro H. pose proof (VC_chars s H) as Hc. repeat split.
  - apply chars_nonl. exact Hc.
  - apply chars_no; [exact Hc|reflexivity].
  - apply chars_no; [exact Hc|reflexivity].
  - exact (shape_nonempty _ _ _ s H).
Qed.

Theorem VC_class_ok s : VC s -> class_ok s.
Proof.
  intro H. pose proof (VC_chars s H) as Hc. split; [apply chars_nonl; exact Hc|apply chars_no; [exact Hc|reflexivity]].
Qed.

Theorem QN_nonl s v c n : QN s v c n -> nonl s.
Proof.
  intros (-> & Hv & Hc & Hn). unfold qualified_name.
  pose proof (chars_nonl v (VC_chars v Hv)). pose proof (chars_nonl c (VC_chars c Hc)).
  pose proof (chars_nonl n (DN_chars n Hn)). nonl_tac.
Qed.

(* a view whose vendors and classes are valid names, whose devices are valid qualified names and whose paths
   and directories have no newline satisfies the hypothesis of [cli_lists_exactly] *)
Theorem valid_view_ok v :
  Forall (fun d => exists ve c n, QN (d_name d) ve c n) (v_devices v) ->
  Forall VC (v_vendors v) -> Forall VC (v_classes v) ->
  Forall (fun g => Forall (fun sf => nonl (sf_path sf)) (snd g)) (v_specs v) ->
  Forall (fun e => nonl (fst e)) (v_errors v) -> Forall nonl (v_dirs v) ->
  view_ok v.
Proof.
  intros Hd Hv Hc Hs He Hdi. repeat split; try assumption.
  - eapply Forall_impl; [|exact Hd]. intros d (ve & c & n & H). exact (QN_nonl _ _ _ _ H).
  - eapply Forall_impl; [|exact Hv]. exact VC_vendor_ok.
  - eapply Forall_impl; [|exact Hc]. exact VC_class_ok.
Qed.

(* ------------------------------------------------------------------ exit statuses *)
Lemma has_errors_iff v : has_errors v = true <-> v_errors v <> [].
Proof. unfold has_errors. destruct (v_errors v); split; intro H; congruence. Qed.

Theorem cli_exit_iff_errors s v : exit_code true s v <> 0%Z <-> v_errors v <> [].
Proof.
  rewrite <- has_errors_iff. unfold exit_code. destruct (has_errors v); split; intro H; congruence.
Qed.

(* the validate sub-command keeps that contract also without --spec-dirs *)
Theorem cli_validate_sub_exit given v : exit_code given SValidate v <> 0%Z <-> v_errors v <> [].
Proof.
  rewrite <- has_errors_iff. unfold exit_code. destruct (has_errors v), given; split; intro H; congruence.
Qed.

(* the error listing replaces the sub-command's output exactly when the exit status is non-zero *)
Theorem cli_shows_errors_iff_exit given s v : shows_errors given s v = true <-> exit_code given s v <> 0%Z.
Proof.
  unfold shows_errors, exit_code. destruct (has_errors v), given, s; cbn; split; intro H; congruence.
Qed.

Theorem validate_exit_iff docs :
  validate_exit docs <> 0%Z <-> exists d, In d docs /\ snd d = false.
Proof.
  unfold validate_exit. destruct (forallb snd docs) eqn:E.
  - split; [congruence|]. intros (d & Hd & Hf). rewrite forallb_forall in E. rewrite (E d Hd) in Hf. discriminate.
  - split; [intros _|discriminate].
    induction docs as [|d r IH]; [discriminate|]. cbn [forallb] in E. apply andb_false_iff in E as [E|E].
    + exists d. split; [left; reflexivity|exact E].
    + destruct (IH E) as (d' & Hd & Hf). exists d'. split; [right; exact Hd|exact Hf].
Qed.

(* cmd/validate names on stdout exactly the documents that validate, and a schema that cannot be loaded fails *)
Theorem validate_reports_valid banner docs :
  filter_map parse_valid_line (tl (validate_stdout banner docs)) = map fst (filter snd docs).
Proof.
  unfold validate_stdout. cbn [tl]. induction (filter snd docs) as [|d r IH]; [reflexivity|].
  cbn [map filter_map]. unfold parse_valid_line at 1. rewrite strip_suffix_app. rewrite IH. reflexivity.
Qed.

Theorem validate_load_failure banner docs : snd (run_validate false banner docs) <> 0%Z.
Proof. discriminate. Qed.

(* ------------------------------------------------------------------ cdi inject: which devices are injected *)
Lemma in_dedup x l : In x (dedup_s l) <-> In x l.
Proof.
  induction l as [|y r IH]; [tauto|]. cbn [dedup_s]. destruct (mem_s y r) eqn:E.
  - rewrite IH. split; [auto with datatypes|]. intros [<-|H]; [|exact H].
    unfold mem_s in E. apply existsb_exists in E as (z & Hz & Ez). apply String.eqb_eq in Ez. subst. exact Hz.
  - cbn [In]. rewrite IH. tauto.
Qed.

Lemma in_insert_sorted_iff x y l : In x (insert_sorted y l) <-> x = y \/ In x l.
Proof.
  split; [apply in_insert_sorted|]. induction l as [|z r IH]; cbn [insert_sorted].
  - intros [->|[]]. left. reflexivity.
  - destruct (str_ltb z y); cbn [In]; intros [->|[->|H]]; auto.
Qed.

Lemma in_sort_iff x l : In x (sort_strings l) <-> In x l.
Proof.
  induction l as [|y r IH]; [tauto|]. unfold sort_strings. cbn [fold_right]. fold (sort_strings r).
  rewrite in_insert_sorted_iff, IH. cbn [In]. split; intros [H|H]; auto.
Qed.

Definition any_yes (ms : list mres) : bool := existsb (fun m => match m with MYes => true | _ => false end) ms.

Lemma row_scan_some ms b : row_scan ms = Some b -> b = any_yes ms.
Proof.
  unfold any_yes. revert b. induction ms as [|m r IH]; cbn [row_scan existsb]; intros b H; [congruence|].
  destruct m; [|exact (IH b H)|discriminate].
  destruct (row_scan r); [|discriminate]. inversion H. reflexivity.
Qed.

Lemma in_select rows sel x :
  select_devices rows = Some sel ->
  (In x sel <-> exists ms, In (x, ms) rows /\ any_yes ms = true).
Proof.
  revert sel. induction rows as [|[d ms] r IH]; cbn [select_devices]; intros sel H.
  - inversion H. split; [intros []|intros (ms & [] & _)].
  - destruct (row_scan ms) as [b|] eqn:Eb; [|discriminate].
    destruct (select_devices r) as [t|] eqn:Et; [|discriminate]. inversion H; subst; clear H.
    apply row_scan_some in Eb. specialize (IH t eq_refl). split.
    + intro Hin. destruct (any_yes ms) eqn:Ey; subst b.
      * destruct Hin as [<-|Hin]; [exists ms; split; [left; reflexivity|exact Ey]|].
        apply IH in Hin as (ms' & Hm & He). exists ms'. split; [right; exact Hm|exact He].
      * apply IH in Hin as (ms' & Hm & He). exists ms'. split; [right; exact Hm|exact He].
    + intros (ms' & [Heq|Hm] & He).
      * inversion Heq; subst. rewrite He. left. reflexivity.
      * assert (In x t) by (apply IH; exists ms'; split; assumption). subst b. destruct (any_yes ms); [right|]; assumption.
Qed.

(* without a malformed pattern, cdi inject hands the library exactly the listed devices matched by some pattern *)
Theorem inject_selection_mem rows sel x :
  inject_selection rows = Some sel ->
  (In x sel <-> exists ms, In (x, ms) rows /\ any_yes ms = true).
Proof.
  unfold inject_selection. destruct (select_devices rows) as [l|] eqn:E; [|discriminate].
  cbn [option_map]. intro H. inversion H; subst. rewrite in_sort_iff, in_dedup. exact (in_select rows l x E).
Qed.

Lemma dedup_nodup l : NoDup (dedup_s l).
Proof.
  induction l as [|y r IH]; [constructor|]. cbn [dedup_s]. destruct (mem_s y r) eqn:E; [exact IH|].
  constructor; [|exact IH]. rewrite in_dedup. intro Hin. unfold mem_s in E.
  assert (existsb (String.eqb y) r = true) by (apply existsb_exists; exists y; split; [exact Hin|apply String.eqb_refl]).
  congruence.
Qed.

Lemma insert_nodup y l : NoDup l -> ~ In y l -> NoDup (insert_sorted y l).
Proof.
  induction l as [|z r IH]; cbn [insert_sorted]; intros Hn Hy; [constructor; [intros []|constructor]|].
  destruct (str_ltb z y).
  - inversion Hn; subst. constructor.
    + rewrite in_insert_sorted_iff. intros [->|H]; [apply Hy; left; reflexivity|contradiction].
    + apply IH; [assumption|]. intro H. apply Hy. right. exact H.
  - constructor; assumption.
Qed.

Lemma sort_nodup l : NoDup l -> NoDup (sort_strings l).
Proof.
  induction 1 as [|y r Hy Hn IH]; [constructor|]. unfold sort_strings. cbn [fold_right]. fold (sort_strings r).
  apply insert_nodup; [exact IH|]. rewrite in_sort_iff. exact Hy.
Qed.

(* ... each of them once *)
Theorem inject_selection_nodup rows sel : inject_selection rows = Some sel -> NoDup sel.
Proof.
  unfold inject_selection. destruct (select_devices rows) as [l|]; [|discriminate].
  cbn [option_map]. intro H. inversion H; subst. apply sort_nodup, dedup_nodup.
Qed.
