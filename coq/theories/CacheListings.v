(* CacheListings.v — the listings of the cache are EQUAL (as lists: sorted, duplicate-free) to the canonical listings
   derived from the loaded files. *)
From Coq Require Import String Ascii List Bool Arith Lia.
From CDI Require Import Base SpecModel Parser Paths Oci Apply Cache CacheProofs SortProofs.
Import ListNotations.
Open Scope string_scope.

Lemma def_in_name f n l d : def_in f n l = Some d -> In d l /\ qname f d = n.
Proof.
  induction l as [|y r IH]; cbn [def_in]; [discriminate|].
  destruct (String.eqb n (qname f y)) eqn:E.
  - intro H. injection H as <-. apply String.eqb_eq in E. split; [left; reflexivity|auto].
  - intro H. destruct (IH H) as [I1 I2]. split; [right; exact I1|exact I2].
Qed.

Lemma resolve_in_all_names fl n : resolve_spec fl n <> None -> In n (all_names fl).
Proof.
  unfold resolve_spec. destruct (at_top n fl) as [|f [|g r]] eqn:A; try (intro H; exfalso; apply H; reflexivity).
  destruct (def_in f n (s_devices (lf_spec f))) as [d|] eqn:D; [|intro H; exfalso; apply H; reflexivity].
  intros _. destruct (def_in_name _ _ _ _ D) as [Hd Hn].
  destruct (at_top_in n fl f) as [_ Hin]; [rewrite A; left; reflexivity|].
  unfold defs in Hin. apply filter_In in Hin as [Hin _].
  unfold all_names. apply in_flat_map. exists f. split; [exact Hin|]. rewrite <- Hn. apply in_map. exact Hd.
Qed.

Theorem list_devices_eq files :
  sorted (loaded files) -> unique_names files ->
  list_devices (refresh_files files) = resolvable (loaded files).
Proof.
  intros S U. unfold list_devices, resolvable. apply canonical_listing. intro n.
  rewrite !filter_In.
  assert (G : get_device (refresh_files files) n = resolve_spec (loaded files) n) by (apply refresh_resolves; assumption).
  unfold get_device in G. split.
  - intros [Hin Hc]. apply negb_true_iff in Hc. rewrite Hc in G.
    assert (R : resolve_spec (loaded files) n <> None).
    { rewrite <- G. apply dlookup_In. exact Hin. }
    split; [apply resolve_in_all_names; exact R|]. destruct (resolve_spec (loaded files) n); [reflexivity|congruence].
  - intros [_ Hr]. destruct (resolve_spec (loaded files) n) as [cd|] eqn:R; [|discriminate].
    destruct (mem_s n (c_conf (refresh_files files))) eqn:M; [discriminate|].
    split; [|reflexivity]. apply dlookup_In. rewrite G. discriminate.
Qed.

Theorem list_vendors_eq files :
  list_vendors (refresh_files files) = sort_strings (dedup_s (map vendor_of (loaded files))).
Proof.
  unfold list_vendors. apply canonical_listing. intro v.
  unfold refresh_files, refresh_st. cbn [c_specs].
  rewrite (proj1 (specs_members files (mkR [] [] [] []))). cbn [r_specs map In]. tauto.
Qed.

Theorem list_classes_eq files :
  list_classes (refresh_files files) = sort_strings (dedup_s (map class_of (loaded files))).
Proof.
  unfold list_classes. apply canonical_listing. intro k. rewrite !in_map_iff.
  unfold refresh_files, refresh_st. cbn [c_specs].
  split; intros [f [E H]]; exists f; (split; [exact E|]).
  - apply (proj2 (specs_members files (mkR [] [] [] []))) in H. cbn [r_specs flat_map In] in H. tauto.
  - apply (proj2 (specs_members files (mkR [] [] [] []))). right. exact H.
Qed.

