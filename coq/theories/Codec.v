(* Codec.v — C09, structure layer: the encoder of Doc.v (encoding/json + omitempty on the CDI structs, the same member
   names and omission rules the YAML writer uses, see tags_agree) followed by the strict decoder of Decode.v. *)
From Coq Require Import String Ascii List Bool Arith ZArith.
From CDI Require Import Base SpecModel Doc Decode.
Import ListNotations.
Open Scope string_scope.

(* every integer lies in the range of its Go type: what any Spec value held in Go memory satisfies *)
Definition opt_in (lo hi : Z) (o : option Z) : bool := match o with Some z => in_range lo hi z | None => true end.
Definition devnode_ranges (d : devnode) : bool :=
  in_range int64_lo int64_hi (dn_major d) && in_range int64_lo int64_hi (dn_minor d) &&
  opt_in 0 uint32_hi (dn_filemode d) && opt_in 0 uint32_hi (dn_uid d) && opt_in 0 uint32_hi (dn_gid d).
Definition hook_ranges (h : hook) : bool := opt_in int64_lo int64_hi (h_timeout h).
Definition optb {A} (p : A -> bool) (o : option A) : bool := match o with Some a => p a | None => true end.
Definition edits_ranges (e : edits) : bool :=
  forallb (optb devnode_ranges) (e_nodes e) && forallb (optb hook_ranges) (e_hooks e) &&
  forallb (in_range 0 uint32_hi) (e_gids e).
Definition device_ranges (d : device) : bool := edits_ranges (d_edits d).
Definition spec_ranges (s : spec) : bool := forallb device_ranges (s_devices s) && edits_ranges (s_edits s).

(* optional members *)
Definition opt (k : string) (m : option doc) : option (string * doc) := option_map (fun v => (k, v)) m.
Definition dflt (m : option doc) : doc := match m with Some v => v | None => DNull end.
