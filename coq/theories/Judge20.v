(* Judge20.v — evaluation of harness cases for C20 (reconfiguring a cache equals creating a new one, bounded resources).
   A case is one history run in a fresh child process: operations of Configure.v interleaved with observation points.
   corr20: the configure machine run on the same operations predicts every observation (directories, tracked set, watcher
   present, answers, number of open watchers / goroutines).  oracle20: the property on the observed values — equal to a fresh
   cache created with all options given so far, resources within one watcher's worth whatever the history length, none in
   manual mode, a cache configured during a descriptor shortage answers from the current contents. *)
From Coq Require Import String Ascii List Bool Arith ZArith.
From CDI Require Import Base Paths Configure.
Import ListNotations.
Open Scope string_scope.

Record obs20 := mkObs {
  o_dirs : list string;                  (* GetSpecDirectories *)
  o_devs : list string;                  (* ListDevices (sorted) after settling *)
  o_errs : list string;                  (* keys of GetErrors that are not directory errors (sorted) *)
  o_direrrs : list string;               (* keys of GetSpecDirErrors (sorted) *)
  o_tracked : list (string * bool);      (* VerifTracked (sorted by key) *)
  o_has : bool;                          (* VerifTracked: watcher pointer non-nil *)
  o_ino : nat;                           (* inotify instances among /proc/self/fd *)
  o_watches : nat;                       (* inotify watches in /proc/self/fdinfo *)
  o_fd : Z;                              (* descriptors above the process baseline *)
  o_gor : Z;                             (* goroutines above the process baseline *)
  o_stale : bool;                        (* a watcher goroutine saw an event for a probe file dropped into a former directory *)
  f_dirs : list string;                  (* the same four answers from a fresh cache created with all options given so far *)
  f_devs : list string;
  f_errs : list string;
  f_direrrs : list string
}.

Inductive step20 := SOp (o : op) | SObs (ob : obs20).

Record case20 := mkCase20 {
  c_defs : list string;                  (* cdi.DefaultSpecDirs in the child *)
  c_fs : fsys;                           (* directory contents when the child starts *)
  c_unit_fd : Z;                         (* descriptors / goroutines one auto-refresh cache costs in this process (calibrated) *)
  c_unit_gor : Z;
  c_steps : list step20
}.

Definition ls_eqb := list_eqb String.eqb.
Definition tr_eqb := list_eqb (pair_eqb String.eqb Bool.eqb).
Fixpoint insert_kv (x : string * bool) (l : list (string * bool)) : list (string * bool) :=
  match l with
  | [] => [x]
  | y :: r => if str_ltb (fst y) (fst x) then y :: insert_kv x r else x :: l
  end.
Definition sort_kv (l : list (string * bool)) : list (string * bool) := fold_right insert_kv [] l.

(* ---------- correspondence ---------- *)
Definition corr_obs (unit_fd unit_gor : Z) (w : world) (ob : obs20) : world * bool :=
  let '(w', o) := step w Query in
  match cache w', o with
  | Some c, OAnswer devs errs derrs =>
      (w',
       ls_eqb (o_dirs ob) (dirs c) && ls_eqb (o_devs ob) devs && ls_eqb (o_errs ob) errs && ls_eqb (o_direrrs ob) derrs &&
       (if auto c
        then tr_eqb (o_tracked ob) (sort_kv (tracked c)) &&
             Bool.eqb (o_has ob) (match watcher c with Some _ => true | None => false end)
        else true) &&
       Nat.eqb (o_ino ob) (length (open w')) &&
       Nat.eqb (o_watches ob) (if live w' c then length (watched_dirs c) else 0) &&
       Z.eqb (o_fd ob) (unit_fd * Z.of_nat (length (open w'))) &&
       Z.eqb (o_gor ob) (unit_gor * Z.of_nat (length (gors w'))) &&
       negb (o_stale ob))
  | _, _ => (w', false)
  end.

Fixpoint corr_steps (unit_fd unit_gor : Z) (w : world) (l : list step20) : bool :=
  match l with
  | [] => true
  | SOp o :: r => corr_steps unit_fd unit_gor (fst (step w o)) r
  | SObs ob :: r => let '(w', ok) := corr_obs unit_fd unit_gor w ob in ok && corr_steps unit_fd unit_gor w' r
  end.

Definition corr20 (c : case20) : bool :=
  corr_steps (c_unit_fd c) (c_unit_gor c) (world0 (c_defs c) (c_fs c)) (c_steps c).

(* ---------- the property on the observed values ---------- *)
(* declarative bookkeeping over the operations only: the options given so far, whether a cache exists, whether descriptors
   are short now, whether they were short when the cache was last (re)configured, and the fresh cache's answer at the last
   observation that directly followed a (re)configuration or Refresh (what a manual-mode cache must keep answering) *)
Record ostate := mkO {
  os_opts : list copt;
  os_created : bool;
  os_short : bool;
  os_cfg_short : bool;
  os_sync : option answer;              (* None: unknown (the last scan happened during a shortage) *)
  os_just : option bool                 (* the previous step was a (re)configuration or Refresh; Some true: run during a shortage *)
}.

Definition track_op (s : ostate) (o : op) : ostate :=
  match o with
  | New os => if os_created s then s else mkO (os_opts s ++ os)%list true (os_short s) (os_short s) None (Some (os_short s))
  | DefaultConfigure os =>
      if os_created s
      then match os with [] => s | _ => mkO (os_opts s ++ os)%list true (os_short s) (os_short s) None (Some (os_short s)) end
      else mkO (os_opts s ++ os)%list true (os_short s) (os_short s) None (Some (os_short s))
  | DefaultGet => if os_created s then s else mkO (os_opts s) true (os_short s) (os_short s) None (Some (os_short s))
  | Configure os =>
      if os_created s
      then match os with [] => s | _ => mkO (os_opts s ++ os)%list true (os_short s) (os_short s) None (Some (os_short s)) end
      else s
  | Refresh => mkO (os_opts s) (os_created s) (os_short s) (os_cfg_short s) None (Some (os_short s))
  | SetFdShortage b => mkO (os_opts s) (os_created s) b (os_cfg_short s) (os_sync s) (os_just s)
  | FsOp _ | Query => mkO (os_opts s) (os_created s) (os_short s) (os_cfg_short s) (os_sync s) None
  end.

Definition oracle_obs (defs : list string) (unit_fd unit_gor : Z) (s : ostate) (ob : obs20) : ostate * bool :=
  let cfg := cfg_of defs (os_opts s) in
  let is_auto := snd cfg in
  (* a scan that happened during the shortage tells nothing; the harness never scans then, except inside Configure *)
  let sync := match os_just s with
              | Some true => None
              | Some false => Some (f_devs ob, f_errs ob)
              | None => os_sync s
              end in
  let s' := mkO (os_opts s) (os_created s) (os_short s) (os_cfg_short s) sync None in
  (s',
   os_created s &&
   (* same directories as a fresh cache, which are the cleaned last WithSpecDirs (or the defaults) *)
   ls_eqb (o_dirs ob) (f_dirs ob) && ls_eqb (o_dirs ob) (fst cfg) &&
   (* same devices and per-file errors *)
   (if is_auto
    then ls_eqb (o_devs ob) (f_devs ob) && ls_eqb (o_errs ob) (f_errs ob)          (* follows the directories by itself, also when set up in a shortage *)
    else match sync with
         | Some a => ls_eqb (o_devs ob) (fst a) && ls_eqb (o_errs ob) (snd a)      (* as of the last (re)configuration / Refresh *)
         | None => true
         end) &&
   (* same directory errors unless the watcher could not be created *)
   (if is_auto && os_cfg_short s then true else ls_eqb (o_direrrs ob) (f_direrrs ob)) &&
   (* resources: at most one watcher's worth, nothing in manual mode, no reaction in former directories *)
   Nat.leb (o_ino ob) (if is_auto then 1 else 0) &&
   Nat.leb (o_watches ob) (if is_auto then length (norm_set (o_dirs ob)) else 0) &&
   Z.leb (o_fd ob) (if is_auto then unit_fd else 0) &&
   Z.leb (o_gor ob) (if is_auto then unit_gor else 0) &&
   negb (o_stale ob)).

Fixpoint oracle_steps (defs : list string) (unit_fd unit_gor : Z) (s : ostate) (l : list step20) : bool :=
  match l with
  | [] => true
  | SOp o :: r => oracle_steps defs unit_fd unit_gor (track_op s o) r
  | SObs ob :: r => let '(s', ok) := oracle_obs defs unit_fd unit_gor s ob in ok && oracle_steps defs unit_fd unit_gor s' r
  end.

Definition oracle20 (c : case20) : bool :=
  oracle_steps (c_defs c) (c_unit_fd c) (c_unit_gor c) (mkO [] false false false None None) (c_steps c).

Definition judge20 (cases : list case20) : list nat * list nat :=
  (bad_indices corr20 0 cases, bad_indices oracle20 0 cases).
