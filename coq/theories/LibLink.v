(* LibLink.v — ties C18 to C05: a Spec that the library's validation accepts (WF, equivalently validate_spec s = Ok tt)
   satisfies the two consequences of library validity that the schema theorems assume (lib_ok, lib_annots_ok). *)
From Coq Require Import String Ascii List Bool Arith NArith ZArith Lia.
From CDI Require Import Base Parser Annotations SpecModel Doc Decode Version Validate ValidateProofs Schema SchemaInst SchemaInstProofs.
From CDIGen Require Import SchemaGen.
Import ListNotations.
Open Scope string_scope.

(* the two transcriptions of strings.ToLower (Schema.go_lower, Validate.go_lower) are the same function *)
Lemma byte_is_196 a : byte_is 196 a = true -> a = "196"%char.
Proof. destruct a as [[] [] [] [] [] [] [] []]; vm_compute; intro H; try discriminate; reflexivity. Qed.
Lemma byte_is_176 a : byte_is 176 a = true -> a = "176"%char.
Proof. destruct a as [[] [] [] [] [] [] [] []]; vm_compute; intro H; try discriminate; reflexivity. Qed.
Lemma byte_is_226 a : byte_is 226 a = true -> a = "226"%char.
Proof. destruct a as [[] [] [] [] [] [] [] []]; vm_compute; intro H; try discriminate; reflexivity. Qed.
Lemma byte_is_132 a : byte_is 132 a = true -> a = "132"%char.
Proof. destruct a as [[] [] [] [] [] [] [] []]; vm_compute; intro H; try discriminate; reflexivity. Qed.
Lemma byte_is_170 a : byte_is 170 a = true -> a = "170"%char.
Proof. destruct a as [[] [] [] [] [] [] [] []]; vm_compute; intro H; try discriminate; reflexivity. Qed.

(* one unfolding step of Schema.go_lower in the shape of Validate.go_lower *)
Lemma schema_go_lower_step a r :
  Schema.go_lower (String a r) =
  match r with
  | String b r2 =>
      if byte_is 196 a && byte_is 176 b then String "i" (Schema.go_lower r2)
      else match r2 with
           | String c r3 => if byte_is 226 a && byte_is 132 b && byte_is 170 c then String "k" (Schema.go_lower r3)
                            else String (to_lower_c a) (Schema.go_lower r)
           | EmptyString => String (to_lower_c a) (Schema.go_lower r)
           end
  | EmptyString => String (to_lower_c a) EmptyString
  end.
Proof.
  destruct r as [|b r2].
  - destruct a as [[] [] [] [] [] [] [] []]; reflexivity.
  - destruct (byte_is 196 a) eqn:A1.
    + apply byte_is_196 in A1. subst a. destruct (byte_is 176 b) eqn:B1.
      * apply byte_is_176 in B1. subst b. reflexivity.
      * cbn [andb]. destruct r2 as [|c r3];
          destruct b as [[] [] [] [] [] [] [] []]; try discriminate B1; reflexivity.
    + cbn [andb]. destruct (byte_is 226 a) eqn:A2.
      * apply byte_is_226 in A2. subst a. destruct r2 as [|c r3].
        -- destruct b as [[] [] [] [] [] [] [] []]; reflexivity.
        -- destruct (byte_is 132 b) eqn:B2.
           ++ apply byte_is_132 in B2. subst b. destruct (byte_is 170 c) eqn:C2.
              ** apply byte_is_170 in C2. subst c. reflexivity.
              ** cbn [andb]. destruct c as [[] [] [] [] [] [] [] []]; try discriminate C2; reflexivity.
           ++ cbn [andb]. destruct b as [[] [] [] [] [] [] [] []]; try discriminate B2; reflexivity.
      * cbn [andb]. destruct r2 as [|c r3];
          destruct a as [[] [] [] [] [] [] [] []]; try discriminate A1; try discriminate A2; reflexivity.
Qed.

Lemma go_lower_same : forall n s, String.length s <= n -> Schema.go_lower s = Validate.go_lower s.
Proof.
  induction n as [|n IH]; intros s L.
  - destruct s; [reflexivity|cbn in L; lia].
  - destruct s as [|a r]; [reflexivity|]. rewrite schema_go_lower_step.
    cbn [Validate.go_lower]. cbn [String.length] in L.
    destruct r as [|b r2]; [reflexivity|]. cbn [String.length] in L.
    destruct (byte_is 196 a && byte_is 176 b); [rewrite IH by lia; reflexivity|].
    destruct r2 as [|c r3].
    + rewrite IH by (cbn [String.length]; lia). reflexivity.
    + cbn [String.length] in L. destruct (byte_is 226 a && byte_is 132 b && byte_is 170 c).
      * rewrite IH by lia. reflexivity.
      * rewrite IH by (cbn [String.length]; lia). reflexivity.
Qed.
Lemma go_lower_eq s : Schema.go_lower s = Validate.go_lower s.
Proof. apply (go_lower_same (String.length s)). lia. Qed.

Lemma str_size_len s : str_size s = Z.of_N (len_N s).
Proof.
  unfold len_N. induction s as [|c r IH]; [reflexivity|]. cbn [str_size String.length]. rewrite IH. lia.
Qed.
Lemma annot_size_enc a : annot_size (enc_annots a) = Z.of_N (annots_size a).
Proof.
  unfold enc_annots. induction a as [|[k v] r IH]; [reflexivity|].
  cbn [map fold_right annot_size annots_size fst snd]. fold (annot_size (map (fun kv : string * string => (fst kv, DStr (snd kv))) r)).
  fold (annots_size r). rewrite IH, !str_size_len. lia.
Qed.

Lemma annot_ok_ann_ok a : AnnotOK a -> ann_ok (enc_annots a) = true.
Proof.
  intros [K S]. unfold ann_ok. rewrite annot_size_enc.
  assert (S' : (Z.of_N (annots_size a) <=? annotation_size_limit)%Z = true).
  { apply Z.leb_le. unfold annotation_size_limit. lia. }
  rewrite S', andb_true_r. apply andb_true_iff. split.
  - unfold enc_annots. rewrite forallb_forall. intros kv H. apply in_map_iff in H as [[k v] [<- _]]. reflexivity.
  - unfold enc_annots. rewrite forallb_forall. intros kv H. apply in_map_iff in H as [[k v] [<- Hin]]. cbn [fst].
    rewrite go_lower_eq. apply k8s_qualified_iff. exact (K k v Hin).
Qed.

Lemma all_present_some {A} (P : A -> Prop) l : AllPresent P l -> forallb SchemaInst.is_some l = true.
Proof.
  intro H. apply forallb_forall. intros x Hx. destruct (H x Hx) as [a [-> _]]. reflexivity.
Qed.
Lemma edits_ok_no_null e : EditsOK e -> edits_no_null e = true.
Proof.
  intros [_ N H M _]. unfold edits_no_null.
  rewrite (all_present_some _ _ N), (all_present_some _ _ H), (all_present_some _ _ M). reflexivity.
Qed.

(* C18 <- C05 *)
Theorem wf_lib_ok s : WF s -> lib_ok s /\ lib_annots_ok s.
Proof.
  intros [_ _ A E D _ DS]. split.
  - unfold lib_ok, lib_ok_b. destruct (s_devices s) as [|d r] eqn:Ed; [congruence|]. rewrite <- Ed in *. cbn [andb].
    unfold all_edits. rewrite forallb_app. cbn [forallb]. rewrite (edits_ok_no_null _ E), andb_true_r.
    rewrite forallb_forall. intros e He. apply in_map_iff in He as [d0 [<- Hd0]].
    apply edits_ok_no_null. exact (dev_edits _ (proj1 (Forall_forall _ _) DS d0 Hd0)).
  - unfold lib_annots_ok, lib_annots_ok_b. rewrite (annot_ok_ann_ok _ A). cbn [andb].
    rewrite forallb_forall. intros d Hd. apply annot_ok_ann_ok. exact (dev_annot _ (proj1 (Forall_forall _ _) DS d Hd)).
Qed.

(* the property at full strength: every Spec value the library's own validation accepts (hook timeouts within the
   proviso, integers within their Go types) passes the builtin schema regenerated from schema.json / defs.json *)
Theorem library_valid_passes_schema s :
  validate_spec s = Ok tt -> in_go_ranges s -> timeouts_ok s -> validate builtin (doc_of_spec s) = true.
Proof.
  intros V R T. apply validate_iff_WF in V. destruct (wf_lib_ok s V) as [L _].
  apply lib_valid_passes_schema; assumption.
Qed.
