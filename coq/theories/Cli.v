(* Cli.v — model of what the cdi command (cmd/cdi/cmd/*.go) and cmd/validate print and return, as functions of
   what the LIBRARY answers for the directories on the command line, plus parsers for the same text formats.

   The library's answers enter as an abstract view [lib_view] (what ListVendors, ListClasses, GetVendorSpecs,
   ListDevices + GetDevice, GetSpecDirectories and GetErrors return).  The text of marshalled objects (JSON / YAML
   bodies in verbose mode, the injected OCI Spec) is produced by encoding/json and yaml.v3 and is NOT modelled:
   bodies are lists of lines given from outside; only their framing (headers, indentation, marker lines, order)
   is modelled.  Error message texts are not modelled either: an error listing is modelled up to the text that
   follows the two-space indentation of each message (continuation lines of multi-line messages are arbitrary
   lines that are neither indented by two spaces nor a "Spec file ...:" header).

   Mirrors (after fix 38edc74): root.go initSpecDirs (with --spec-dirs every sub-command prints the cache errors
   and exits 1 when the cache has errors, BEFORE the sub-command runs), cdi-api.go cdiListVendors, cdiListClasses,
   cdiListDevices/cdiPrintDevice, cdiListSpecs/cdiPrintSpec, cdiShowSpecDirs, cdiInjectDevices, cdiResolveDevices,
   cdiPrintCacheErrors, validate.go, format.go (indent / marshalObject framing, chooseFormat), cmd/validate/validate.go.
   Two facts are taken from the source by the translator tools/gen_cli.py (CDIGen.CliGen): which cache `resolve`
   consults and whether `specs` honours its vendor arguments. *)
From Coq Require Import String Ascii List Bool Arith NArith ZArith DecimalString.
From CDI Require Import Base.
From CDIGen Require Import CliGen.
Import ListNotations.
Open Scope string_scope.

(* ------------------------------------------------------------------ text *)
Definition nl : ascii := ascii_of_N 10.
Definition dqc : ascii := ascii_of_N 34.
Definition dq : string := String dqc "".

(* stdout as bytes: every line is terminated by a newline *)
Definition unlines (ls : list string) : string :=
  fold_right (fun l acc => l ++ String nl acc) "" ls.
(* the lines of an output: split at newlines; the empty fragment after a final newline is not a line *)
Definition lines_of (s : string) : list string :=
  let parts := split_all nl s in
  match rev parts with
  | EmptyString :: r => rev r
  | _ => parts
  end.

Definition no_nl (s : string) : bool := negb (contains nl s).

(* %d *)
Definition dec (n : N) : string := NilEmpty.string_of_uint (N.to_uint n).
(* strict inverse: only the canonical rendering is accepted *)
Definition undec (s : string) : option N :=
  match NilEmpty.uint_of_string s with
  | Some d => let n := N.of_uint d in if String.eqb (dec n) s then Some n else None
  | None => None
  end.

Definition strip_prefix (p s : string) : option string :=
  if has_prefix p s then Some (drop_s (String.length p) s) else None.

(* s = a ++ suf  ==>  Some a *)
Fixpoint strip_suffix (suf s : string) : option string :=
  if String.eqb s suf then Some ""
  else match s with
       | EmptyString => None
       | String c r => option_map (String c) (strip_suffix suf r)
       end.

Fixpoint strip_all (p : string) (ls : list string) : option (list string) :=
  match ls with
  | [] => Some []
  | l :: r => match strip_prefix p l, strip_all p r with
              | Some a, Some t => Some (a :: t)
              | _, _ => None
              end
  end.

Definition indent_lines (p : string) (ls : list string) : list string := map (append p) ls.

Fixpoint numbered {A} (i : N) (l : list A) : list (N * A) :=
  match l with [] => [] | x :: r => (i, x) :: numbered (N.succ i) r end.

Fixpoint parse_numbered {A} (f : N -> string -> option A) (i : N) (ls : list string) : option (list A) :=
  match ls with
  | [] => Some []
  | l :: r => match f i l, parse_numbered f (N.succ i) r with
              | Some a, Some t => Some (a :: t)
              | _, _ => None
              end
  end.

(* Go's %q on a string without quote, backslash, control or non-ASCII bytes (valid vendor names are such) *)
Definition quote (s : string) : string := dq ++ s ++ dq.

(* strings.Join(l, ", ") and its inverse on comma-free non-empty items *)
Definition unjoin (joined : string) : option (list string) :=
  if String.eqb joined "" then Some []
  else match split_all "," joined with
       | [] => None
       | x :: r => option_map (cons x) (strip_all " " r)
       end.

(* ------------------------------------------------------------------ the library's answers *)
Record specfile := mkSpecfile {
  sf_path : string;      (* Spec.GetPath *)
  sf_class : string;     (* Spec.GetClass *)
  sf_prio : N            (* Spec.GetPriority *)
}.

Record devinfo := mkDevinfo {
  d_name : string;       (* qualified name: ListDevices entry = GetDevice(name).GetQualifiedName() *)
  d_path : string;       (* GetDevice(name).GetSpec().GetPath() *)
  d_prio : N;            (* GetDevice(name).GetSpec().GetPriority() *)
  d_global : bool        (* the Spec-level edits have env, device nodes, hooks or mounts *)
}.

Record lib_view := mkView {
  v_dirs : list string;                         (* GetSpecDirectories *)
  v_vendors : list string;                      (* ListVendors (sorted) *)
  v_classes : list string;                      (* ListClasses (sorted) *)
  v_specs : list (string * list specfile);      (* GetVendorSpecs per vendor of ListVendors, in the returned order *)
  v_devices : list devinfo;                     (* per name of ListDevices (sorted) *)
  v_errors : list (string * N)                  (* GetErrors: path -> number of errors, sorted by path (key set = files in error) *)
}.

Fixpoint specs_of (l : list (string * list specfile)) (vendor : string) : list specfile :=
  match l with
  | [] => []
  | (v, s) :: r => if String.eqb v vendor then s else specs_of r vendor
  end.

(* ---- what each listing shows, as data ---- *)
Definition list_devices (v : lib_view) : list string := map d_name (v_devices v).
Definition list_vendors (v : lib_view) : list (string * N) :=
  map (fun vend => (vend, N.of_nat (length (specs_of (v_specs v) vend)))) (v_vendors v).
(* cdiListClasses: per class one vendor entry PER SPEC of that class (a vendor with two Spec files of a class is
   shown, and counted, twice), sorted *)
Definition class_vendors (v : lib_view) (cls : string) : list string :=
  sort_strings (flat_map (fun vend => map (fun _ => vend)
                                          (filter (fun sf => String.eqb (sf_class sf) cls) (specs_of (v_specs v) vend)))
                         (v_vendors v)).
Definition list_classes (v : lib_view) : list (string * list string) :=
  map (fun cls => (cls, class_vendors v cls)) (v_classes v).
Definition list_specs (v : lib_view) : list (string * list string) :=
  map (fun vend => (vend, map sf_path (specs_of (v_specs v) vend))) (v_vendors v).
Definition list_errors (v : lib_view) : list (string * N) := v_errors v.
Definition list_dirs (v : lib_view) : list string := v_dirs v.

(* ------------------------------------------------------------------ renderers (lines) *)
Definition dev_line (ix : N * string) : string := "  " ++ dec (fst ix) ++ ". " ++ snd ix.
Definition render_devices_l (names : list string) : list string :=
  match names with
  | [] => ["No CDI devices found."]
  | _ => "CDI devices found:" :: map dev_line (numbered 0 names)
  end.
Definition render_devices (v : lib_view) : list string := render_devices_l (list_devices v).

Definition vendor_line (ix : N * (string * N)) : string :=
  "  " ++ dec (fst ix) ++ ". " ++ dq ++ fst (snd ix) ++ dq ++ " (" ++ dec (snd (snd ix)) ++ " CDI Spec Files)".
Definition render_vendors_l (l : list (string * N)) : list string :=
  match l with
  | [] => ["No CDI vendors found."]
  | _ => "CDI vendors found:" :: map vendor_line (numbered 0 l)
  end.
Definition render_vendors (v : lib_view) : list string := render_vendors_l (list_vendors v).

Definition class_line (ix : N * (string * list string)) : string :=
  "  " ++ dec (fst ix) ++ ". " ++ fst (snd ix) ++ " (" ++ dec (N.of_nat (length (snd (snd ix)))) ++ " vendors: " ++
  join_with ", " (snd (snd ix)) ++ ")".
Definition render_classes_l (l : list (string * list string)) : list string :=
  match l with
  | [] => ["No CDI device classes found."]
  | _ => "CDI device classes found:" :: map class_line (numbered 0 l)
  end.
Definition render_classes (v : lib_view) : list string := render_classes_l (list_classes v).

(* specs: groups (vendor, Spec files (path, body lines)); body = [] unless verbose *)
Definition sblock := (string * list string)%type.
Definition spec_line (p : string) : string := "  Spec File " ++ p.
Definition vendor_header (vend : string) : string := "Vendor " ++ vend ++ ":".
Definition render_sblock (b : sblock) : list string := spec_line (fst b) :: indent_lines "    " (snd b).
Definition render_sgroup_v (g : string * list sblock) : list string :=
  vendor_header (fst g) :: flat_map render_sblock (snd g).
Definition render_specs_v (gs : list (string * list sblock)) : list string :=
  "CDI Specs found:" :: flat_map render_sgroup_v gs.
(* non-verbose *)
Definition render_sgroup (g : string * list string) : list string :=
  vendor_header (fst g) :: map spec_line (snd g).
Definition render_specs_l (gs : list (string * list string)) : list string :=
  match gs with
  | [] => ["No CDI Specs found."]
  | _ => "CDI Specs found:" :: flat_map render_sgroup gs
  end.
Definition render_specs (v : lib_view) : list string := render_specs_l (list_specs v).

(* devices -v *)
Record dblock := mkDblock {
  b_name : string; b_path : string; b_body : list string; b_edits : option (list string)
}.
Definition marker : string := "     global Spec containerEdits:".      (* indent(4) ++ " global Spec containerEdits:" *)
Definition render_dblock (b : dblock) : list string :=
  (("  " ++ b_name b ++ " (" ++ b_path b ++ ")") :: indent_lines "    " (b_body b)) ++
  match b_edits b with
  | None => []
  | Some e => marker :: indent_lines "      " e
  end.
Definition render_devices_v (bs : list dblock) : list string :=
  match bs with
  | [] => ["No CDI devices found."]
  | _ => "CDI devices found:" :: flat_map render_dblock bs
  end.

Definition dir_line (ix : N * string) : string := "  " ++ snd ix ++ " (priority " ++ dec (fst ix) ++ ")".
Definition render_dirs_l (dirs : list string) : list string :=
  "CDI Spec directories in use:" :: map dir_line (numbered 0 dirs).
Definition render_dirs (v : lib_view) : list string := render_dirs_l (list_dirs v).

(* error listing (cdiPrintCacheErrors / the validate sub-command).  A message is the text after the two-space
   indentation of its first line (index, colon, first line of the error text) and its continuation lines. *)
Definition emsg := (string * list string)%type.
Definition render_emsg (m : emsg) : list string := ("  " ++ fst m) :: snd m.
Definition render_egroup (g : string * list emsg) : list string :=
  ("Spec file " ++ fst g ++ ":") :: flat_map render_emsg (snd g).
Definition errors_header : string := "CDI cache has errors:".
Definition render_errors_m (gs : list (string * list emsg)) : list string :=
  errors_header :: flat_map render_egroup gs.
Definition egroups_count (gs : list (string * list emsg)) : list (string * N) :=
  map (fun g => (fst g, N.of_nat (length (snd g)))) gs.
(* the listing for a view, given the message texts: any [gs] with [egroups_count gs = v_errors v] *)
Definition render_errors (v : lib_view) (gs : list (string * list emsg)) : list string := render_errors_m gs.

Definition render_validate_ok : list string := ["No CDI cache errors."].

(* cdi inject *)
Definition render_inject (body : list string) : list string :=
  "Updated OCI Spec:" :: indent_lines "  " body.
(* cdi resolve: no header *)
Definition render_resolve (body : list string) : list string := indent_lines "  " body.
Definition render_unresolved (devs : list string) : list string :=
  "Unresolved CDI devices:" :: map dev_line (numbered 0 devs).

(* ------------------------------------------------------------------ parsers *)
Definition header_then {A} (empty_msg header : string) (p : list string -> option (list A)) (ls : list string)
  : option (list A) :=
  match ls with
  | [] => None
  | h :: r => if String.eqb h header then p r
              else if String.eqb h empty_msg then match r with [] => Some [] | _ => None end
              else None
  end.

Definition parse_dev_line (i : N) (l : string) : option string := strip_prefix ("  " ++ dec i ++ ". ") l.
Definition parse_devices : list string -> option (list string) :=
  header_then "No CDI devices found." "CDI devices found:" (parse_numbered parse_dev_line 0).

Definition parse_vendor_line (i : N) (l : string) : option (string * N) :=
  match strip_prefix ("  " ++ dec i ++ ". " ++ dq) l with
  | None => None
  | Some r =>
      match split_first dqc r with
      | None => None
      | Some (vend, r2) =>
          match strip_prefix " (" r2 with
          | None => None
          | Some r3 =>
              match strip_suffix " CDI Spec Files)" r3 with
              | None => None
              | Some ds => match undec ds with Some n => Some (vend, n) | None => None end
              end
          end
      end
  end.
Definition parse_vendors : list string -> option (list (string * N)) :=
  header_then "No CDI vendors found." "CDI vendors found:" (parse_numbered parse_vendor_line 0).

Definition parse_class_line (i : N) (l : string) : option (string * list string) :=
  match strip_prefix ("  " ++ dec i ++ ". ") l with
  | None => None
  | Some r =>
      match split_first " " r with
      | None => None
      | Some (cls, r2) =>
          match strip_prefix "(" r2 with
          | None => None
          | Some r3 =>
              match split_first " " r3 with
              | None => None
              | Some (ds, r4) =>
                  match undec ds, strip_prefix "vendors: " r4 with
                  | Some n, Some r5 =>
                      match strip_suffix ")" r5 with
                      | Some joined =>
                          match unjoin joined with
                          | Some vs => if N.eqb n (N.of_nat (length vs)) then Some (cls, vs) else None
                          | None => None
                          end
                      | None => None
                      end
                  | _, _ => None
                  end
              end
          end
      end
  end.
Definition parse_classes : list string -> option (list (string * list string)) :=
  header_then "No CDI device classes found." "CDI device classes found:" (parse_numbered parse_class_line 0).

Definition parse_vendor_header (l : string) : option string :=
  match strip_prefix "Vendor " l with
  | Some r => strip_suffix ":" r
  | None => None
  end.

(* specs, non-verbose: right to left; state = (pending Spec file paths, groups) *)
Fixpoint parse_sgroups (ls : list string) : option (list string * list (string * list string)) :=
  match ls with
  | [] => Some ([], [])
  | l :: r =>
      match parse_sgroups r with
      | None => None
      | Some (pend, gs) =>
          match strip_prefix "  Spec File " l with
          | Some p => Some (p :: pend, gs)
          | None => match parse_vendor_header l with
                    | Some vend => Some ([], (vend, pend) :: gs)
                    | None => None
                    end
          end
      end
  end.
Definition parse_sgroups_top (ls : list string) : option (list (string * list string)) :=
  match parse_sgroups ls with
  | Some ([], gs) => Some gs
  | _ => None
  end.
Definition parse_specs : list string -> option (list (string * list string)) :=
  header_then "No CDI Specs found." "CDI Specs found:" parse_sgroups_top.

(* specs -v: right to left; state = (pending body lines, pending Spec blocks, groups) *)
Fixpoint parse_sgroups_v (ls : list string) : option (list string * list sblock * list (string * list sblock)) :=
  match ls with
  | [] => Some ([], [], [])
  | l :: r =>
      match parse_sgroups_v r with
      | None => None
      | Some (pend, blocks, gs) =>
          if has_prefix "    " l then Some (l :: pend, blocks, gs)
          else match strip_prefix "  Spec File " l with
               | Some p =>
                   match strip_all "    " pend with
                   | Some body => Some ([], (p, body) :: blocks, gs)
                   | None => None
                   end
               | None =>
                   match parse_vendor_header l, pend with
                   | Some vend, [] => Some ([], [], (vend, blocks) :: gs)
                   | _, _ => None
                   end
               end
      end
  end.
Definition parse_specs_v (ls : list string) : option (list (string * list sblock)) :=
  match ls with
  | h :: r =>
      if String.eqb h "CDI Specs found:" then
        match parse_sgroups_v r with
        | Some ([], [], gs) => Some gs
        | _ => None
        end
      else if String.eqb h "No CDI Specs found." then match r with [] => Some [] | _ => None end
      else None
  | [] => None
  end.

(* devices -v: right to left; state = (pending lines, pending Spec-level edits, blocks) *)
Definition parse_dheader (l : string) : option (string * string) :=
  match strip_prefix "  " l with
  | None => None
  | Some r =>
      match split_first " " r with
      | None => None
      | Some (name, r2) =>
          match strip_prefix "(" r2 with
          | None => None
          | Some r3 => match strip_suffix ")" r3 with Some p => Some (name, p) | None => None end
          end
      end
  end.
Fixpoint parse_dblocks (ls : list string) : option (list string * option (list string) * list dblock) :=
  match ls with
  | [] => Some ([], None, [])
  | l :: r =>
      match parse_dblocks r with
      | None => None
      | Some (pend, ed, bs) =>
          if String.eqb l marker then
            match ed, strip_all "      " pend with
            | None, Some e => Some ([], Some e, bs)
            | _, _ => None
            end
          else if has_prefix "    " l then Some (l :: pend, ed, bs)
          else match parse_dheader l, strip_all "    " pend with
               | Some (name, p), Some body => Some ([], None, mkDblock name p body ed :: bs)
               | _, _ => None
               end
      end
  end.
Definition parse_dblocks_top (ls : list string) : option (list dblock) :=
  match parse_dblocks ls with
  | Some ([], None, bs) => Some bs
  | _ => None
  end.
Definition parse_devices_v : list string -> option (list dblock) :=
  header_then "No CDI devices found." "CDI devices found:" parse_dblocks_top.

Definition parse_dir_line (i : N) (l : string) : option string :=
  match strip_prefix "  " l with
  | Some r => strip_suffix (" (priority " ++ dec i ++ ")") r
  | None => None
  end.
Definition parse_dirs (ls : list string) : option (list string) :=
  match ls with
  | h :: r => if String.eqb h "CDI Spec directories in use:" then parse_numbered parse_dir_line 0 r else None
  | [] => None
  end.

(* error listing: right to left; state = (messages seen since the last header, stray line seen, groups).
   A line "Spec file P:" closes a group; a line indented by two spaces starts a message; any other line
   continues a multi-line message. *)
Definition parse_eheader (l : string) : option string :=
  match strip_prefix "Spec file " l with
  | Some r => strip_suffix ":" r
  | None => None
  end.
Fixpoint parse_egroups (ls : list string) : option (N * bool * list (string * N)) :=
  match ls with
  | [] => Some (0%N, false, [])
  | l :: r =>
      match parse_egroups r with
      | None => None
      | Some (k, stray, gs) =>
          match parse_eheader l with
          | Some p => Some (0%N, false, (p, k) :: gs)
          | None => if has_prefix "  " l then Some (N.succ k, false, gs) else Some (k, true, gs)
          end
      end
  end.
Definition parse_errors (ls : list string) : option (list (string * N)) :=
  match ls with
  | h :: r =>
      if String.eqb h errors_header then
        match parse_egroups r with
        | Some (0%N, false, gs) => Some gs
        | _ => None
        end
      else None
  | [] => None
  end.

Definition parse_inject (ls : list string) : option (list string) :=
  match ls with
  | h :: r => if String.eqb h "Updated OCI Spec:" then strip_all "  " r else None
  | [] => None
  end.
Definition parse_resolve (ls : list string) : option (list string) := strip_all "  " ls.

(* ------------------------------------------------------------------ the command as a whole *)
Inductive sub :=
| SDevices | SVendors | SClasses | SDirs | SValidate
| SSpecs (args : list string)                                  (* specs [vendor-list] *)
| SDevicesV (bs : list dblock)                                 (* devices -v: bodies as printed *)
| SSpecsV (args : list string) (gs : list (string * list sblock)).   (* specs -v: bodies as printed *)

(* cdiListSpecs: "No CDI Specs found." only when no vendor is selected at all; the groups printed are those of
   every vendor of the cache, or (repaired code: `for _, vendor := range vendors`) one group per vendor argument,
   in argument order, with GetVendorSpecs(vendor) (nothing for an unknown vendor) *)
Definition specs_selected (args : list string) (v : lib_view) : list (string * list string) :=
  if specs_ignores_vendor_args then list_specs v
  else match args with
       | [] => list_specs v
       | _ => map (fun a => (a, map sf_path (specs_of (v_specs v) a))) args
       end.
Definition render_specs_args (args : list string) (v : lib_view) : list string :=
  match args, v_vendors v with
  | [], [] => ["No CDI Specs found."]
  | _, _ => "CDI Specs found:" :: flat_map render_sgroup (specs_selected args v)
  end.

(* what the sub-command itself prints (no cache errors, or no --spec-dirs) *)
Definition render_sub (s : sub) (v : lib_view) : list string :=
  match s with
  | SDevices => render_devices v
  | SVendors => render_vendors v
  | SClasses => render_classes v
  | SSpecs args => render_specs_args args v
  | SDirs => render_dirs v
  | SValidate => render_validate_ok
  | SDevicesV bs => render_devices_v bs
  | SSpecsV args gs => match args, v_vendors v with
                       | [], [] => ["No CDI Specs found."]
                       | _, _ => render_specs_v gs
                       end
  end.

Definition has_errors (v : lib_view) : bool := match v_errors v with [] => false | _ => true end.

(* exit status.  [given] = --spec-dirs present: root.go initSpecDirs exits 1 on cache errors before any
   sub-command; without --spec-dirs only the validate sub-command looks at the errors. *)
Definition exit_code (given : bool) (s : sub) (v : lib_view) : Z :=
  if has_errors v then
    if given then 1%Z else match s with SValidate => 1%Z | _ => 0%Z end
  else 0%Z.
(* does the run print the error listing instead of the sub-command's own output *)
Definition shows_errors (given : bool) (s : sub) (v : lib_view) : bool :=
  has_errors v && (given || match s with SValidate => true | _ => false end).

(* the frames that devices -v / specs -v must show for the library's answers *)
Fixpoint forall2b {A B} (f : A -> B -> bool) (l1 : list A) (l2 : list B) : bool :=
  match l1, l2 with
  | [], [] => true
  | x :: r1, y :: r2 => f x y && forall2b f r1 r2
  | _, _ => false
  end.
Definition dframe_ok (v : lib_view) (bs : list dblock) : bool :=
  forall2b (fun (d : devinfo) (b : dblock) =>
              String.eqb (d_name d) (b_name b) && String.eqb (d_path d) (b_path b) &&
              Bool.eqb (d_global d) (match b_edits b with Some _ => true | None => false end))
           (v_devices v) bs.
Definition sframe_of (gs : list (string * list sblock)) : list (string * list string) :=
  map (fun g => (fst g, map fst (snd g))) gs.

(* ------------------------------------------------------------------ cdi inject: device selection *)
Inductive mres := MYes | MNo | MBad.   (* filepath.Match(pattern, device): true / false / ErrBadPattern *)

(* rows: per device of ListDevices (in order), the result per pattern (in order).  The first bad pattern met
   in that double loop aborts; otherwise the matched devices, each once, sorted. *)
Fixpoint row_scan (l : list mres) : option bool :=   (* None = bad pattern; Some matched *)
  match l with
  | [] => Some false
  | MBad :: _ => None
  | MYes :: r => match row_scan r with None => None | Some _ => Some true end
  | MNo :: r => row_scan r
  end.
Fixpoint select_devices (rows : list (string * list mres)) : option (list string) :=
  match rows with
  | [] => Some []
  | (d, ms) :: r =>
      match row_scan ms with
      | None => None
      | Some m => match select_devices r with
                  | None => None
                  | Some t => Some (if m then d :: t else t)
                  end
      end
  end.
Definition inject_selection (rows : list (string * list mres)) : option (list string) :=
  option_map (fun l => sort_strings (dedup_s l)) (select_devices rows).

(* outcome of cdi inject: Some lines = stdout is exactly these lines; None = one message line (text not modelled) *)
Definition run_inject (v : lib_view) (rows : list (string * list mres)) (lib_ok : bool) (body : list string)
  : option (list string) * Z :=
  match inject_selection rows with
  | None => (None, 1%Z)
  | Some _ => if lib_ok then (Some (render_inject body), 0%Z) else (None, 1%Z)
  end.

(* outcome of cdi resolve for one OCI Spec file, given the answer (unresolved devices, success, body) of the
   cache it consults: stdout prefix lines, whether exactly one further message line follows, exit status *)
Definition run_resolve (unres : list string) (lib_ok : bool) (body : list string) : list string * bool * Z :=
  match unres with
  | _ :: _ => (render_unresolved unres, true, 1%Z)
  | [] => if lib_ok then (render_resolve body, false, 0%Z) else ([], true, 1%Z)
  end.

(* ------------------------------------------------------------------ cmd/validate *)
(* docs: (name as printed, schema validation succeeded) in command-line order *)
Definition validate_banner (schema_arg : string) : string :=
  if String.eqb schema_arg "" then "Validating against builtin JSON schema..."
  else "Validating against JSON schema " ++ schema_arg ++ "...".
Definition validate_stdout (banner : string) (docs : list (string * bool)) : list string :=
  banner :: map (fun d => fst d ++ ": document is valid.") (filter snd docs).
Definition validate_failed (docs : list (string * bool)) : list string :=
  map fst (filter (fun d => negb (snd d)) docs).
Definition validate_exit (docs : list (string * bool)) : Z :=
  if forallb snd docs then 0%Z else 1%Z.
Definition run_validate (load_ok : bool) (banner : string) (docs : list (string * bool)) : list string * Z :=
  if load_ok then (validate_stdout banner docs, validate_exit docs) else ([], 1%Z).

Definition parse_valid_line (l : string) : option string := strip_suffix ": document is valid." l.
Definition parse_failed_line (l : string) : option string := strip_suffix ": validation failed:" l.
Fixpoint filter_map {A B} (f : A -> option B) (l : list A) : list B :=
  match l with
  | [] => []
  | x :: r => match f x with Some b => b :: filter_map f r | None => filter_map f r end
  end.

(* cdi resolve with several OCI Spec files (cdiResolveDevices): the files are resolved one after the other, each like a single
   one; the first failure ends the run.  singles: stdout and exit status of the run on each file alone. *)
Fixpoint resolve_many (singles : list (string * Z)) : string * Z :=
  match singles with
  | [] => ("", 0%Z)
  | (out, code) :: r =>
      if Z.eqb code 0 then let '(o, c) := resolve_many r in (out ++ o, c) else (out, code)
  end.

(* ------------------------------------------------------------------ cdi monitor *)
(* monitor.go / cdiPrintCache: at every refresh (the first one a second after the start) the aspects named on the command line
   are listed one after the other, non-verbose (no -v), with the functions of the listing sub-commands; no argument means all *)
Definition monitor_aspect (a : string) : option (list sub) :=
  if String.eqb a "vendors" || String.eqb a "vendor" then Some [SVendors]
  else if String.eqb a "classes" || String.eqb a "class" then Some [SClasses]
  else if String.eqb a "specs" || String.eqb a "spec" then Some [SSpecs []]
  else if String.eqb a "devices" || String.eqb a "device" then Some [SDevices]
  else if String.eqb a "all" then Some [SVendors; SClasses; SSpecs []; SDevices]
  else None.
Definition monitor_args (args : list string) : list string := match args with [] => ["all"] | _ => args end.
Definition render_monitor (args : list string) (v : lib_view) : list string :=
  flat_map (fun a => match monitor_aspect a with
                     | Some subs => flat_map (fun s => render_sub s v) subs
                     | None => ["Unrecognized CDI aspect/object " ++ quote a ++ "... ignoring it"]
                     end) (monitor_args args).
