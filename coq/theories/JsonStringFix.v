(* JsonStringFix.v — the library's own writer of .json Spec files at the level of one string: encoding/json followed by
   escapeUnreadable (pkg/cdi/spec.go), which replaces the characters encoding/json writes raw but the reader of Spec files refuses
   (DEL, the C1 controls, U+FFFE, U+FFFF) or folds (U+0085) by their \uXXXX escapes.  With it the string layer holds for EVERY
   valid UTF-8 string (repaired defect D20, formerly known findings C09/json-c1-controls and C09/json-nel). *)
From Coq Require Import String Ascii List Bool NArith ZArith Lia.
From CDI Require Import Base JsonString JsonStringProofs.
Import ListNotations.
Open Scope string_scope.
Open Scope N_scope.

(* r >= 0x7f && r <= 0x9f || r == 0xfffe || r == 0xffff *)
Definition needs_esc (v : N) : bool := ((127 <=? v) && (v <=? 159)) || (v =? 65534) || (v =? 65535).
(* fmt.Sprintf("\\u%04x", r) for r < 0x10000 *)
Definition hex4 (v : N) : list N :=
  [b (hexd (v / 4096)); b (hexd ((v / 256) mod 16)); b (hexd ((v / 16) mod 16)); b (hexd (v mod 16))].
Definition fix_chunk (k : chunk) : string :=
  match k with
  | Rune v raw => if needs_esc v then utf8_encs (92 :: 117 :: hex4 v) else raw
  | Bad c => String c ""                 (* utf8.RuneError of size 1: the byte is copied *)
  end.
Definition escape_unreadable (t : string) : string := concat_s (map fix_chunk (go_runes t)).
(* what Spec.write puts into a .json file for a string *)
Definition spec_json_escape (s : string) : string := escape_unreadable (json_escape s).

(* ---------------- on code points ---------------- *)
Definition fix_cps (v : N) : list N := if needs_esc v then 92 :: 117 :: hex4 v else [v].

Lemma needs_esc_spec v : needs_esc v = true <-> 127 <= v <= 159 \/ v = 65534 \/ v = 65535.
Proof. unfold needs_esc. rewrite !orb_true_iff, andb_true_iff, !N.leb_le, !N.eqb_eq. tauto. Qed.
Lemma needs_esc_c1 v : needs_esc v = is_c1 v || (v =? 133).
Proof.
  unfold needs_esc, is_c1. destruct (N.eqb_spec v 133) as [->|N]; [reflexivity|].
  destruct (N.eqb_spec v 127) as [->|N1]; [reflexivity|]. cbn [negb orb]. rewrite !orb_false_r, andb_true_r.
  destruct (N.leb_spec 127 v), (N.leb_spec 128 v); try lia; reflexivity.
Qed.

(* the finitely many code points that are escaped: their four hex digits read back as the code point, are printable ASCII *)
Definition escaped : list N := map N.of_nat (seq 127 33) ++ [65534; 65535].
Definition escaped_ok (v : N) : bool :=
  needs_esc v && scalar v &&
  match hexs 0 (hex4 v) with Some x => x =? v | None => false end &&
  forallb (fun x => scalar x && yaml_printable x && negb (needs_esc x)) (92 :: 117 :: hex4 v).
Lemma escaped_all : forallb escaped_ok escaped = true.
Proof. vm_compute. reflexivity. Qed.
Lemma needs_esc_in v : needs_esc v = true -> In v escaped.
Proof.
  intro H. apply needs_esc_spec in H. unfold escaped. apply in_or_app. destruct H as [H|[->| ->]].
  - left. apply in_map_iff. exists (N.to_nat v). split; [apply N2Nat.id|]. apply in_seq. lia.
  - right. left. reflexivity.
  - right. right. left. reflexivity.
Qed.
Lemma escaped_facts v : needs_esc v = true ->
  scalar v = true /\ hexs 0 (hex4 v) = Some v /\
  Forall (fun x => scalar x = true /\ yaml_printable x = true /\ needs_esc x = false) (92 :: 117 :: hex4 v).
Proof.
  intro H. pose proof escaped_all as A. rewrite forallb_forall in A. specialize (A v (needs_esc_in v H)).
  unfold escaped_ok in A. apply andb_prop in A as [A F]. apply andb_prop in A as [A X]. apply andb_prop in A as [_ S].
  split; [exact S|]. split.
  - destruct (hexs 0 (hex4 v)) as [x|]; [|discriminate]. apply N.eqb_eq in X. now subst.
  - apply Forall_forall. intros x Hx. rewrite forallb_forall in F. specialize (F x Hx).
    apply andb_prop in F as [F N]. apply andb_prop in F as [F1 F2]. apply negb_true_iff in N. tauto.
Qed.

Lemma fix_chunk_rune v : fix_chunk (rune_of v) = utf8_encs (fix_cps v).
Proof.
  unfold fix_chunk, rune_of, fix_cps. destruct (needs_esc v); [reflexivity|]. cbn [utf8_encs]. now rewrite app_nil_r_s.
Qed.
Lemma escape_unreadable_encs L : scalars L -> escape_unreadable (utf8_encs L) = utf8_encs (flat_map fix_cps L).
Proof.
  intro H. unfold escape_unreadable. rewrite go_runes_encs_all by exact H. clear H.
  induction L as [|v L IH]; [reflexivity|]. cbn [map concat_s flat_map]. now rewrite utf8_encs_app, IH, fix_chunk_rune.
Qed.

(* what is written for one code point of the string *)
Definition wcps (v : N) : list N := flat_map fix_cps (esc_cps v).

Lemma esc_cps_bad v : scalar v = true -> needs_esc v = true -> esc_cps v = [v].
Proof.
  intros _ H. apply needs_esc_spec in H. unfold esc_cps. destruct (N.ltb_spec v 128) as [L|L].
  - assert (v = 127) by lia. subst v. reflexivity.
  - destruct (N.eqb_spec v 8232); [lia|]. destruct (N.eqb_spec v 8233); [lia|]. reflexivity.
Qed.
Lemma wcps_bad v : scalar v = true -> needs_esc v = true -> wcps v = 92 :: 117 :: hex4 v.
Proof.
  intros S H. unfold wcps. rewrite (esc_cps_bad v S H). cbn [flat_map]. unfold fix_cps. rewrite H. apply app_nil_r.
Qed.
Lemma flat_fix_id l : Forall (fun x => needs_esc x = false) l -> flat_map fix_cps l = l.
Proof. induction 1 as [|x l Hx _ IH]; [reflexivity|]. cbn [flat_map]. unfold fix_cps at 1. rewrite Hx. cbn [List.app]. now rewrite IH. Qed.
Lemma printable_no_esc x : yaml_printable x = true -> x <> 133 -> needs_esc x = false.
Proof.
  intros P N. apply yaml_printable_iff in P. destruct (needs_esc x) eqn:E; [|reflexivity]. apply needs_esc_spec in E. lia.
Qed.
Lemma esc_cps_no_nel_ascii v : v < 128 -> existsb (N.eqb 133) (esc_cps v) = false.
Proof.
  intro L. apply negb_true_iff. apply (forall_below (fun v => negb (existsb (N.eqb 133) (esc_cps v))) 128); [vm_compute; reflexivity|exact L].
Qed.
Lemma esc_cps_no_nel v : v <> 133 -> ~ In 133 (esc_cps v).
Proof.
  intros N I. destruct (N.ltb_spec v 128) as [L|L].
  - pose proof (esc_cps_no_nel_ascii v L) as E. assert (T : existsb (N.eqb 133) (esc_cps v) = true); [|congruence].
    apply existsb_exists. exists 133. split; [exact I|reflexivity].
  - unfold esc_cps in I. destruct (N.ltb_spec v 128); [lia|].
    destruct (N.eqb_spec v 8232) as [->|]; [vm_compute in I; intuition discriminate|].
    destruct (N.eqb_spec v 8233) as [->|]; [vm_compute in I; intuition discriminate|].
    cbn [orb In] in I. destruct I as [I|[]]. congruence.
Qed.
Lemma wcps_good v : good v -> wcps v = esc_cps v.
Proof.
  intros (S & C & N). unfold wcps. apply flat_fix_id. destruct (esc_cps_allowed v S C) as [_ P].
  apply Forall_forall. intros x Hx. apply printable_no_esc.
  - unfold printables in P. rewrite Forall_forall in P. apply P. exact Hx.
  - intro E. subst x. exact (esc_cps_no_nel v N Hx).
Qed.
Lemma good_or_bad v : scalar v = true -> good v \/ needs_esc v = true.
Proof.
  intro S. rewrite needs_esc_c1. destruct (is_c1 v) eqn:C; [right; reflexivity|]. destruct (N.eqb_spec v 133); [right; reflexivity|].
  left. unfold good. tauto.
Qed.

(* one code point: whatever it is, what was written reads back as that code point *)
Lemma scan_wstep v st r : scalar v = true -> v <> 32 -> col0_of st = false ->
  scan st (wcps v ++ r)%list = prepend (flush st) (prepend (utf8_enc v) (scan NB r)).
Proof.
  intros S N32 Hc. destruct (good_or_bad v S) as [G|B].
  - rewrite (wcps_good v G). apply scan_step; assumption.
  - rewrite (wcps_bad v S B). destruct (escaped_facts v B) as (_ & Hh & _). unfold hex4 in *. cbn [List.app].
    apply scan_esc_u; assumption.
Qed.
Lemma wcps_allowed v : scalar v = true -> scalars (wcps v) /\ printables (wcps v).
Proof.
  intro S. destruct (good_or_bad v S) as [G|B].
  - rewrite (wcps_good v G). destruct G as (S' & C & _). apply esc_cps_allowed; assumption.
  - rewrite (wcps_bad v S B). destruct (escaped_facts v B) as (_ & _ & F). split; apply Forall_forall; intros x Hx;
      rewrite Forall_forall in F; destruct (F x Hx) as (A1 & A2 & _); assumption.
Qed.
Lemma esc_cps_scalars v : scalar v = true -> scalars (esc_cps v).
Proof.
  intro S. destruct (good_or_bad v S) as [(S' & C & _)|B].
  - apply esc_cps_allowed; assumption.
  - rewrite (esc_cps_bad v S B). constructor; [exact S|constructor].
Qed.

Lemma scan_all cps : scalars cps -> forall st, plain st ->
  scan st (flat_map wcps cps) = Some (flush st ++ utf8_encs cps).
Proof.
  induction 1 as [|v cps Hv _ IH]; intros st Hp.
  - cbn [flat_map scan utf8_encs]. now rewrite app_nil_r_s.
  - cbn [flat_map utf8_encs]. destruct (N.eqb_spec v 32) as [->|N32].
    + change (wcps 32) with [32]. cbn [List.app]. rewrite scan_blank.
      destruct (plain_blank st Hp) as [Hp' Hf]. rewrite IH by exact Hp'. now rewrite Hf, app_assoc_s.
    + rewrite scan_wstep by (auto using plain_col0). rewrite (IH NB I). cbn [flush prepend option_map append]. reflexivity.
Qed.

Lemma flat_wcps cps : flat_map fix_cps (flat_map esc_cps cps) = flat_map wcps cps.
Proof. induction cps as [|v cps IH]; [reflexivity|]. cbn [flat_map]. rewrite flat_map_app, IH. reflexivity. Qed.

(* EVERY valid UTF-8 string written into a .json Spec file by the library reads back as itself *)
Theorem spec_json_string_layer s : valid_utf8 s = true -> yaml_dq_scan (spec_json_escape s) = Some s.
Proof.
  intros Hv. destruct (valid_decompose s Hv) as (cps & Hs & ->).
  unfold spec_json_escape. rewrite json_escape_encs by exact Hs.
  assert (SJ : scalars (flat_map esc_cps cps)).
  { clear Hv. induction Hs as [|v cps S _ IH]; [constructor|]. cbn [flat_map]. apply Forall_app. split; [apply esc_cps_scalars; exact S|exact IH]. }
  rewrite escape_unreadable_encs by exact SJ. rewrite flat_wcps.
  assert (A : scalars (flat_map wcps cps) /\ printables (flat_map wcps cps)).
  { clear Hv SJ. induction Hs as [|v cps S _ IH]; [split; constructor|]. cbn [flat_map]. destruct (wcps_allowed v S) as [A1 A2]. destruct IH as [B1 B2].
    split; apply Forall_app; split; assumption. }
  destruct A as [A1 A2]. unfold yaml_dq_scan. rewrite reader_encs by assumption.
  now rewrite (scan_all cps Hs NB I).
Qed.

(* for strings outside the two former classes the repair changes nothing in the file *)
Theorem spec_json_escape_same s : valid_utf8 s = true -> has_c1 s = false -> has_nel s = false -> spec_json_escape s = json_escape s.
Proof.
  intros Hv H1 H2. destruct (valid_decompose s Hv) as (cps & Hs & ->). pose proof (good_encs cps Hs H1 H2) as G.
  unfold spec_json_escape. rewrite json_escape_encs by exact Hs.
  assert (SJ : scalars (flat_map esc_cps cps)).
  { clear - Hs. induction Hs as [|v cps S _ IH]; [constructor|]. cbn [flat_map]. apply Forall_app. split; [apply esc_cps_scalars; exact S|exact IH]. }
  rewrite escape_unreadable_encs by exact SJ. rewrite flat_wcps. f_equal.
  clear - G. induction G as [|v cps Gv _ IH]; [reflexivity|]. cbn [flat_map]. now rewrite (wcps_good v Gv), IH.
Qed.
