(* AliasTie.v — the pointer-level model (Heap.v) instantiated with the two shapes of the source that tools/gen_alias.py re-reads
   on every run (coq/gen/AliasGen.v): which cell fillMissingInfo is called on, and where InjectDevices accumulates the edits. *)
From Coq Require Import String Ascii List Bool Arith ZArith.
From CDI Require Import Base SpecModel Parser Paths Oci Apply Cache Heap HeapProofs.
From CDIGen Require Import AliasGen.
Import ListNotations.

(* the code of the current tree *)
Definition run_code := run_h fill_on_copy.

Lemma source_shape : fill_on_copy = true /\ inject_acc_fresh = true.
Proof. split; reflexivity. Qed.

Theorem code_cache_is_not_written : forall c h pl steps, Rep h pl c ->
  snd (run_code h pl steps) = map (fun st => inject (fst (fst st)) c (snd (fst st)) (snd st)) steps /\
  Rep (fst (run_code h pl steps)) pl c /\
  (forall l, l < length h -> hread (fst (run_code h pl steps)) l = hread h l).
Proof. unfold run_code. rewrite (proj1 source_shape). exact cache_is_not_written. Qed.
