(* NoPanic.v — C08 on the modelled part: injection of any request into any well-formed OCI spec from a cache of loaded
   (hence valid) Specs never dereferences a nil entry. *)
From Coq Require Import String Ascii List Bool Arith ZArith Lia.
From CDI Require Import Base SpecModel Parser Paths Oci Apply ApplySpec ApplyProofs Cache CacheProofs InjectSpec InjectProofs.
Import ListNotations.
Open Scope string_scope.

Lemma valid_edits_append a b : valid_edits (append_edits a b) = valid_edits a && valid_edits b.
Proof.
  unfold valid_edits, append_edits. cbn [e_nodes e_mounts e_hooks]. rewrite !forallb_app.
  destruct (forallb _ (e_nodes a)), (forallb _ (e_nodes b)), (forallb _ (e_mounts a)), (forallb _ (e_mounts b)),
    (forallb _ (e_hooks a)), (forallb _ (e_hooks b)); reflexivity.
Qed.
Lemma valid_edits_fold l : forall acc, valid_edits acc = true -> Forall (fun e => valid_edits e = true) l ->
  valid_edits (fold_left append_edits l acc) = true.
Proof.
  induction l as [|e r IH]; intros acc Ha Hl; cbn [fold_left]; [exact Ha|].
  inversion Hl; subst. apply IH; [rewrite valid_edits_append, Ha; assumption|assumption].
Qed.

Lemma def_in_In f n l d : def_in f n l = Some d -> In d l.
Proof.
  induction l as [|y r IH]; cbn [def_in]; [discriminate|].
  destruct (String.eqb n (qname f y)); [intro H; injection H as <-; left; reflexivity|intro H; right; apply IH; exact H].
Qed.
Lemma resolve_spec_in fl n cd : resolve_spec fl n = Some cd ->
  In (cd_file cd) fl /\ In (cd_dev cd) (s_devices (lf_spec (cd_file cd))).
Proof.
  unfold resolve_spec. destruct (at_top n fl) as [|f [|g r]] eqn:A; try discriminate.
  destruct (def_in f n (s_devices (lf_spec f))) as [d|] eqn:D; [|discriminate].
  intro H. injection H as <-. cbn [cd_file cd_dev]. split; [|apply (def_in_In _ _ _ _ D)].
  destruct (at_top_in n fl f) as [_ Hin]; [rewrite A; left; reflexivity|].
  unfold defs in Hin. apply filter_In in Hin as [Hin _]. exact Hin.
Qed.

(* every edit list of every loaded file is valid: what validation guarantees for a loadable Spec *)
Definition loaded_valid (fl : list lfile) : Prop :=
  forall f, In f fl -> valid_edits (s_edits (lf_spec f)) = true /\
                       forall d, In d (s_devices (lf_spec f)) -> valid_edits (d_edits d) = true.

Theorem combined_valid fl names : loaded_valid fl -> valid_edits (combined fl names) = true.
Proof.
  intro V. unfold combined. apply valid_edits_fold; [reflexivity|].
  apply Forall_forall. intros e He. apply contributions_provenance in He as (n & cd & _ & R & [-> | ->]);
    apply resolve_spec_in in R as [Hf Hd]; destruct (V _ Hf) as [V1 V2]; [exact V1|apply V2; exact Hd].
Qed.

Theorem inject_no_panic host fl o names :
  loaded_valid fl -> wf_initial o = true -> snd (fst (inject_spec host fl (Some o) names)) <> 2.
Proof.
  intros V W. unfold inject_spec. destruct (filter (unresolvable fl) names); [|cbn; discriminate].
  pose proof (apply_meets_spec host (combined fl names) o W (combined_valid fl names V)) as [H _].
  destruct (apply host (combined fl names) o) as [o' code]. cbn [fst snd] in *. exact H.
Qed.
