(* Heap.v — InjectDevices / Apply at the level of pointers (pkg/cdi/cache.go InjectDevices, container-edits.go Append / Apply,
   container-edits_unix.go fillMissingInfo).  The device nodes of a cached Spec are heap cells; the edit lists of the cache, and
   the per-call list InjectDevices builds with Append, hold POINTERS to them (specs-go/config.go: DeviceNodes []*DeviceNode).
   fillMissingInfo writes through its receiver.  This file models exactly that: where the writes go.  Everything that is not a
   device node is immutable on these paths and stays a value.  No proofs here (HeapProofs.v). *)
From Coq Require Import String Ascii List Bool Arith ZArith.
From CDI Require Import Base SpecModel Parser Paths Oci Apply Cache.
Import ListNotations.
Open Scope string_scope.

Definition loc := nat.
Definition heap := list devnode.
Definition hread (h : heap) (l : loc) : option devnode := nth_error h l.
Fixpoint hwrite (h : heap) (l : loc) (d : devnode) : heap :=
  match h, l with
  | [], _ => []
  | _ :: r, 0 => d :: r
  | x :: r, S l' => x :: hwrite r l' d
  end.
(* a new cell: Go's `node := *d` (a copy of the struct in a fresh variable whose address is then taken) *)
Definition halloc (h : heap) (d : devnode) : heap * loc := ((h ++ [d])%list, length h).

(* ContainerEdits as the code holds them: device nodes by pointer (None: a nil entry) *)
Record pedits := mkPedits {
  pe_env : list string; pe_nodes : list (option loc); pe_hooks : list (option hook);
  pe_mounts : list (option mount); pe_rdt : option rdt; pe_gids : list Z }.
Definition empty_pedits : pedits := mkPedits [] [] [] [] None [].
(* Append copies the pointers *)
Definition append_pedits (a b : pedits) : pedits :=
  mkPedits (pe_env a ++ pe_env b) (pe_nodes a ++ pe_nodes b) (pe_hooks a ++ pe_hooks b) (pe_mounts a ++ pe_mounts b)
           (match pe_rdt b with Some r => Some r | None => pe_rdt a end) (pe_gids a ++ pe_gids b).

(* what the pointers point to *)
Definition deref_node (h : heap) (ol : option loc) : option devnode :=
  match ol with None => None | Some l => hread h l end.
Definition deref (h : heap) (e : pedits) : edits :=
  mkEdits (pe_env e) (map (deref_node h) (pe_nodes e)) (pe_hooks e) (pe_mounts e) (pe_rdt e) (pe_gids e).
Definition ptr_ok (h : heap) (ol : option loc) : bool := match ol with None => true | Some l => Nat.ltb l (length h) end.
Definition pedits_ok (h : heap) (e : pedits) : bool := forallb (ptr_ok h) (pe_nodes e).

(* ---------------- fillMissingInfo, writing through its receiver ---------------- *)
Definition with_hostpath (d : devnode) (hp : string) : devnode :=
  mkDevnode (dn_path d) hp (dn_type d) (dn_major d) (dn_minor d) (dn_filemode d) (dn_perms d) (dn_uid d) (dn_gid d).
(* statement by statement: d.HostPath is assigned before anything can fail; type, major and minor after the lstat *)
Definition fill_cell (host : hostfn) (h : heap) (l : loc) : heap * nat :=
  match hread h l with
  | None => (h, 2)
  | Some d =>
      let hp := if String.eqb (dn_hostpath d) "" then dn_path d else dn_hostpath d in
      let h1 := hwrite h l (with_hostpath d hp) in
      if negb (String.eqb (dn_type d) "") && (negb (Z.eqb (dn_major d) 0) || String.eqb (dn_type d) "p") then (h1, 0)
      else match host hp with
           | None => (h1, 1)
           | Some (t, ma, mi) =>
               if negb (String.eqb (dn_type d) "") && negb (String.eqb (dn_type d) t) then (h1, 1)
               else
                 let ty := if String.eqb (dn_type d) "" then t else dn_type d in
                 let '(ma', mi') := if Z.eqb (dn_major d) 0 && negb (String.eqb ty "p") then (ma, mi) else (dn_major d, dn_minor d) in
                 (hwrite h1 l (mkDevnode (dn_path d) hp ty ma' mi' (dn_filemode d) (dn_perms d) (dn_uid d) (dn_gid d)), 0)
           end
  end.

(* the part of Apply's device-node loop after fillMissingInfo: d is the entry of the edit list (its Permissions are read),
   dn the filled-in node *)
Definition node_into_oci (o : oci) (d dn : devnode) : oci :=
  let dev0 := devnode_to_oci dn in
  let uid := match od_uid dev0 with None => if (0 <? o_uid o)%Z then Some (o_uid o) else None | u => u end in
  let gid := match od_gid dev0 with None => if (0 <? o_gid o)%Z then Some (o_gid o) else None | g => g end in
  let dev := mkOciDev (od_path dev0) (od_type dev0) (od_major dev0) (od_minor dev0) (od_filemode dev0) uid gid in
  let devs := add_device dev (remove_first (fun x => String.eqb (od_path x) (od_path dev)) (o_devices o)) in
  let o1 := set_devices o devs in
  if String.eqb (od_type dev) "b" || String.eqb (od_type dev) "c" then
    let access := if String.eqb (dn_perms d) "" then "rwm" else dn_perms d in
    set_cgroup o1 (o_cgroup o1 ++ [mkCgRule true (od_type dev) (Some (od_major dev)) (Some (od_minor dev)) access])%list
  else o1.

(* one iteration of the loop.  copy = true: the code as it is (`node := *d; dn := DeviceNode{&node}`): the receiver of
   fillMissingInfo is a fresh cell.  copy = false: the code as it was (`dn := DeviceNode{d}`): the receiver is the cell the edit
   list points to, i.e. the cached one. *)
Definition apply_node_h (copy : bool) (host : hostfn) (h : heap) (o : oci) (l : loc) : heap * result oci :=
  match hread h l with
  | None => (h, Panic)
  | Some d =>
      let '(h1, l') := if copy then halloc h d else (h, l) in
      let '(h2, code) := fill_cell host h1 l' in
      match code with
      | 0 => match hread h2 l' with Some dn => (h2, Ok (node_into_oci o d dn)) | None => (h2, Panic) end
      | 1 => (h2, Err)
      | _ => (h2, Panic)
      end
  end.
Fixpoint apply_nodes_h (copy : bool) (host : hostfn) (h : heap) (o : oci) (ls : list (option loc)) : heap * (oci * nat) :=
  match ls with
  | [] => (h, (o, 0))
  | None :: _ => (h, (o, 2))
  | Some l :: r => match apply_node_h copy host h o l with
                   | (h', Ok o') => apply_nodes_h copy host h' o' r
                   | (h', Err) => (h', (o, 1))
                   | (h', Panic) => (h', (o, 2))
                   end
  end.

(* Apply after the device-node loop (the same text as in Apply.apply; see HeapProofs.apply_split) *)
Definition apply_rest (e : edits) (o2 : oci) : oci * nat :=
  let '(o3, c3) := match e_mounts e with
                   | [] => (o2, 0)
                   | ms => let '(l, c) := apply_mounts (o_mounts o2) ms in
                           if Nat.eqb c 0 then (set_mounts o2 (sort_mounts l), 0) else (set_mounts o2 l, c)
                   end in
  if negb (Nat.eqb c3 0) then (o3, c3) else
  let '(hs, c4) := apply_hooks (o_hooks o3) (e_hooks e) in
  let o4 := set_hooks o3 hs in
  if negb (Nat.eqb c4 0) then (o4, c4) else
  let o5 := match e_rdt e with Some r => set_rdt o4 (Some r) | None => o4 end in
  (set_gids o5 (fold_left add_gid (e_gids e) (o_gids o5)), 0).

Definition apply_h (copy : bool) (host : hostfn) (h : heap) (e : pedits) (o : oci) : heap * (oci * nat) :=
  let o1 := match pe_env e with [] => o | env => set_env o (add_multiple_env (o_env o) env) end in
  let '(h2, (o2, c2)) := apply_nodes_h copy host h o1 (pe_nodes e) in
  if negb (Nat.eqb c2 0) then (h2, (o2, c2)) else (h2, apply_rest (deref h e) o2).

(* ---------------- InjectDevices over the index of the cache ---------------- *)
(* the identity of a cached Spec (map key *Spec in the code): priority and path *)
Definition fid := (nat * string)%type.
Definition fid_eqb (a b : fid) : bool := Nat.eqb (fst a) (fst b) && String.eqb (snd a) (snd b).
Definition fid_of (f : lfile) : fid := (lf_prio f, lf_path f).
(* c.devices at pointer level: a name resolves to its Spec (identity, Spec-level edits) and the device's edits *)
Definition pindex := string -> option (fid * pedits * pedits).

Definition inj_step_h (pl : pindex) (st : list string * list fid * pedits) (n : string) : list string * list fid * pedits :=
  let '(unres, seen, acc) := st in
  match pl n with
  | None => ((unres ++ [n])%list, seen, acc)
  | Some (f, se, de) =>
      let '(seen', acc') := if existsb (fid_eqb f) seen then (seen, acc) else (f :: seen, append_pedits acc se) in
      (unres, seen', append_pedits acc' de)
  end.
Definition inj_walk_h (pl : pindex) (names : list string) := fold_left (inj_step_h pl) names ([], [], empty_pedits).

Definition inject_h (copy : bool) (host : hostfn) (h : heap) (pl : pindex) (o : option oci) (names : list string)
  : heap * (list string * nat * option oci) :=
  match o with
  | None => (h, (names, 1, None))
  | Some o0 =>
      let '(unres, _, acc) := inj_walk_h pl names in
      match unres with
      | _ :: _ => (h, (unres, 1, Some o0))
      | [] => let '(h', (o', code)) := apply_h copy host h acc o0 in (h', ([], code, Some o'))
      end
  end.

(* ---------------- the cache the query API shows, read through the pointers ---------------- *)
Definition look (h : heap) (pl : pindex) (n : string) : option (fid * edits * edits) :=
  match pl n with None => None | Some (f, se, de) => Some (f, deref h se, deref h de) end.
Definition look_of (c : cache) (n : string) : option (fid * edits * edits) :=
  match get_device c n with
  | None => None
  | Some cd => Some (fid_of (cd_file cd), s_edits (lf_spec (cd_file cd)), d_edits (cd_dev cd))
  end.
(* every pointer of the index points into the heap *)
Definition index_ok (h : heap) (pl : pindex) : Prop :=
  forall n f se de, pl n = Some (f, se, de) -> pedits_ok h se = true /\ pedits_ok h de = true.
(* the pointer-level cache (h, pl) represents the cache c of Cache.v *)
Definition Rep (h : heap) (pl : pindex) (c : cache) : Prop :=
  index_ok h pl /\ forall n, look h pl n = look_of c n.

(* a history of injections, the heap threaded through *)
Fixpoint run_h (copy : bool) (h : heap) (pl : pindex) (steps : list (hostfn * option oci * list string))
  : heap * list (list string * nat * option oci) :=
  match steps with
  | [] => (h, [])
  | (host, o, names) :: r =>
      let '(h1, res) := inject_h copy host h pl o names in
      let '(h2, rs) := run_h copy h1 pl r in (h2, res :: rs)
  end.

(* ---------------- a layout: every device node of an index of the cache in a cell of its own ---------------- *)
(* used for the examples and the refutation witness: the entries of a finite index are laid out one after the other *)
Fixpoint layout_nodes (h : heap) (l : list (option devnode)) : heap * list (option loc) :=
  match l with
  | [] => (h, [])
  | None :: r => let '(h', ls) := layout_nodes h r in (h', None :: ls)
  | Some d :: r => let '(h1, p) := halloc h d in let '(h', ls) := layout_nodes h1 r in (h', Some p :: ls)
  end.
Definition layout_edits (h : heap) (e : edits) : heap * pedits :=
  let '(h', ls) := layout_nodes h (e_nodes e) in
  (h', mkPedits (e_env e) ls (e_hooks e) (e_mounts e) (e_rdt e) (e_gids e)).
Fixpoint layout_entries (h : heap) (l : list (string * (fid * edits * edits))) : heap * list (string * (fid * pedits * pedits)) :=
  match l with
  | [] => (h, [])
  | (n, (f, se, de)) :: r =>
      let '(h1, pse) := layout_edits h se in
      let '(h2, pde) := layout_edits h1 de in
      let '(h3, rest) := layout_entries h2 r in
      (h3, (n, (f, pse, pde)) :: rest)
  end.
Fixpoint alist_get {A} (l : list (string * A)) (n : string) : option A :=
  match l with [] => None | (k, v) :: r => if String.eqb n k then Some v else alist_get r n end.
