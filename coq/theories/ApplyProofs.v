(* ApplyProofs.v — the model of ContainerEdits.Apply (Apply.v) meets the declarative postconditions of
   ApplySpec.v: for every host oracle, every well-formed initial OCI spec and every valid edit list. *)
From Coq Require Import String Ascii List Bool Arith ZArith Lia.
From CDI Require Import Base SpecModel Paths Oci Apply ApplySpec.
Import ListNotations.
Open Scope string_scope.

(* ------------------------------------------------------------------------------------------ *)
(* boolean equalities are reflexive *)
Lemma list_eqb_refl {A} (eqb : A -> A -> bool) : (forall x, eqb x x = true) -> forall l, list_eqb eqb l l = true.
Proof. intros H l. induction l as [|x r IH]; cbn; [reflexivity|]. rewrite H, IH. reflexivity. Qed.
Lemma option_eqb_refl {A} (eqb : A -> A -> bool) : (forall x, eqb x x = true) -> forall o, option_eqb eqb o o = true.
Proof. intros H [x|]; cbn; [apply H|reflexivity]. Qed.
Lemma ls_eqb_refl l : ls_eqb l l = true.
Proof. apply list_eqb_refl. apply String.eqb_refl. Qed.
Lemma Z_opt_eqb_refl o : Z_opt_eqb o o = true.
Proof. apply option_eqb_refl. apply Z.eqb_refl. Qed.
Lemma ocidev_eqb_refl x : ocidev_eqb x x = true.
Proof. unfold ocidev_eqb. rewrite !String.eqb_refl, !Z.eqb_refl, !Z_opt_eqb_refl. reflexivity. Qed.
Lemma cgrule_eqb_refl x : cgrule_eqb x x = true.
Proof. unfold cgrule_eqb. rewrite !String.eqb_refl, !Z_opt_eqb_refl, Bool.eqb_reflx. reflexivity. Qed.
Lemma ocimount_eqb_refl x : ocimount_eqb x x = true.
Proof. unfold ocimount_eqb. rewrite !String.eqb_refl, ls_eqb_refl. reflexivity. Qed.
Lemma ocihook_eqb_refl x : ocihook_eqb x x = true.
Proof. unfold ocihook_eqb. rewrite !String.eqb_refl, !ls_eqb_refl, Z_opt_eqb_refl. reflexivity. Qed.
Lemma ocihooks_eqb_refl x : ocihooks_eqb x x = true.
Proof. unfold ocihooks_eqb. rewrite !(list_eqb_refl _ ocihook_eqb_refl). reflexivity. Qed.
Lemma rdt_eqb_refl x : rdt_eqb x x = true.
Proof. unfold rdt_eqb. rewrite !String.eqb_refl, !Bool.eqb_reflx. reflexivity. Qed.

(* ------------------------------------------------------------------------------------------ *)
(* replace-by-key: remove the first element with the key, append the new one.  On lists with unique keys a
   sequence of such steps keeps the untouched elements in place and appends, for every key, its last element. *)
Section Keyed.
  Context {A : Type} (key : A -> string).
  Definition kstep (l : list A) (x : A) : list A :=
    (remove_first (fun y => String.eqb (key y) (key x)) l ++ [x])%list.

  Lemma remove_first_nodup k l :
    nodup_s (map key l) = true ->
    remove_first (fun y => String.eqb (key y) k) l = filter (fun y => negb (String.eqb (key y) k)) l.
  Proof.
    induction l as [|y r IH]; cbn [map nodup_s remove_first filter]; [reflexivity|].
    intro H. apply andb_true_iff in H as [Hy Hr].
    destruct (String.eqb (key y) k) eqn:E; cbn [negb].
    - apply String.eqb_eq in E. subst k.
      symmetry. clear IH Hr. induction r as [|z r' IH']; cbn [filter]; [reflexivity|].
      cbn [map mem_s existsb] in Hy. unfold mem_s in *. cbn [map existsb] in Hy.
      apply negb_true_iff in Hy. apply orb_false_iff in Hy as [Hz Hr'].
      rewrite String.eqb_sym, Hz. cbn [negb]. f_equal. apply IH'. apply negb_true_iff. exact Hr'.
    - f_equal. apply IH. exact Hr.
  Qed.

  Lemma mem_map_filter k (p : A -> bool) l : mem_s k (map key (filter p l)) = true -> mem_s k (map key l) = true.
  Proof.
    unfold mem_s. induction l as [|y r IH]; cbn [filter map existsb]; [auto|].
    destruct (p y); cbn [map existsb]; intro H.
    - apply orb_true_iff in H as [H|H]; [rewrite H; reflexivity|rewrite IH by exact H; apply orb_true_r].
    - rewrite IH by exact H. apply orb_true_r.
  Qed.

  Lemma nodup_filter (p : A -> bool) l : nodup_s (map key l) = true -> nodup_s (map key (filter p l)) = true.
  Proof.
    induction l as [|y r IH]; cbn [filter map nodup_s]; [auto|].
    intro H. apply andb_true_iff in H as [Hy Hr]. destruct (p y); cbn [map nodup_s]; [|apply IH; exact Hr].
    rewrite IH by exact Hr. rewrite andb_true_r. apply negb_true_iff. apply negb_true_iff in Hy.
    destruct (mem_s (key y) (map key (filter p r))) eqn:E; [|reflexivity].
    apply mem_map_filter in E. congruence.
  Qed.

  Lemma mem_s_app k l1 l2 : mem_s k (l1 ++ l2)%list = mem_s k l1 || mem_s k l2.
  Proof. unfold mem_s. apply existsb_app. Qed.

  Lemma nodup_s_snoc l x : nodup_s (l ++ [x])%list = nodup_s l && negb (mem_s x l).
  Proof.
    induction l as [|y r IH]; cbn [app nodup_s mem_s existsb]; [reflexivity|].
    rewrite IH. unfold mem_s. rewrite existsb_app. cbn [existsb]. rewrite orb_false_r.
    rewrite (String.eqb_sym x y).
    destruct (existsb (String.eqb y) r), (String.eqb y x), (nodup_s r), (existsb (String.eqb x) r); reflexivity.
  Qed.

  Lemma mem_filter_neg k l : mem_s k (map key (filter (fun y => negb (String.eqb (key y) k)) l)) = false.
  Proof.
    unfold mem_s. induction l as [|y r IH]; cbn [filter map existsb]; [reflexivity|].
    destruct (String.eqb (key y) k) eqn:E; cbn [negb map existsb]; [exact IH|].
    rewrite String.eqb_sym, E, IH. reflexivity.
  Qed.

  Lemma kstep_nodup l x : nodup_s (map key l) = true -> nodup_s (map key (kstep l x)) = true.
  Proof.
    intro H. unfold kstep. rewrite remove_first_nodup by exact H.
    rewrite map_app. cbn [map]. rewrite nodup_s_snoc, nodup_filter by exact H.
    rewrite mem_filter_neg. reflexivity.
  Qed.

  Lemma filter_filter (p q : A -> bool) l : filter p (filter q l) = filter (fun x => q x && p x) l.
  Proof.
    induction l as [|y r IH]; cbn [filter]; [reflexivity|].
    destruct (q y); cbn [filter andb]; [destruct (p y); rewrite IH; reflexivity|exact IH].
  Qed.

  Lemma ksteps l xs :
    nodup_s (map key l) = true ->
    fold_left kstep xs l =
    (filter (fun y => negb (mem_s (key y) (map key xs))) l ++ dedup_last key xs)%list.
  Proof.
    revert l. induction xs as [|x r IH]; intros l H; cbn [fold_left map dedup_last].
    - cbn [mem_s existsb negb]. rewrite app_nil_r. symmetry. clear H. induction l as [|y l' IHl]; cbn [filter]; [reflexivity|]. f_equal. exact IHl.
    - rewrite IH by (apply kstep_nodup; exact H).
      unfold kstep. rewrite remove_first_nodup by exact H.
      rewrite filter_app, filter_filter. cbn [filter].
      rewrite <- app_assoc. f_equal.
      + apply filter_ext. intro y. unfold mem_s. cbn [existsb].
        rewrite negb_orb. reflexivity.
      + destruct (mem_s (key x) (map key r)); reflexivity.
  Qed.
End Keyed.

(* ------------------------------------------------------------------------------------------ *)
(* device nodes *)
Lemma add_device_fresh dev l :
  mem_s (od_path dev) (map od_path l) = false -> add_device dev l = (l ++ [dev])%list.
Proof.
  unfold mem_s. induction l as [|y r IH]; cbn [add_device map existsb app]; [reflexivity|].
  intro H. apply orb_false_iff in H as [Hy Hr]. rewrite String.eqb_sym, Hy. f_equal. apply IH. exact Hr.
Qed.

Definition devstep (l : list ocidev) (dev : ocidev) : list ocidev :=
  add_device dev (remove_first (fun x => String.eqb (od_path x) (od_path dev)) l).

Lemma devstep_kstep l dev : nodup_s (map od_path l) = true -> devstep l dev = kstep od_path l dev.
Proof.
  intro H. unfold devstep, kstep. apply add_device_fresh.
  rewrite (remove_first_nodup od_path) by exact H. apply mem_filter_neg.
Qed.

Lemma devsteps l devs : nodup_s (map od_path l) = true ->
  fold_left devstep devs l =
  (filter (fun y => negb (mem_s (od_path y) (map od_path devs))) l ++ dedup_last od_path devs)%list.
Proof.
  intro H. rewrite <- (ksteps od_path) by exact H.
  revert l H. induction devs as [|d r IH]; intros l H; cbn [fold_left]; [reflexivity|].
  rewrite devstep_kstep by exact H. apply IH. apply kstep_nodup. exact H.
Qed.

(* the node the code adds is the node the specification expects *)
Definition filled_dev (host : hostfn) (uid gid : Z) (d : devnode) : result ocidev :=
  match fill_missing host d with
  | Ok dn =>
      let dev0 := devnode_to_oci dn in
      Ok (mkOciDev (od_path dev0) (od_type dev0) (od_major dev0) (od_minor dev0) (od_filemode dev0)
            (match od_uid dev0 with None => if (0 <? uid)%Z then Some uid else None | u => u end)
            (match od_gid dev0 with None => if (0 <? gid)%Z then Some gid else None | g => g end))
  | Err => Err | Panic => Panic
  end.

Lemma filled_dev_expected host uid gid d :
  filled_dev host uid gid d = match expected_dev host uid gid d with Some x => Ok x | None => Err end.
Proof.
  unfold filled_dev, fill_missing, expected_dev.
  destruct (String.eqb (dn_type d) "") eqn:Et; cbn [negb andb orb].
  - destruct (host _) as [[[t ma] mi]|]; [|reflexivity].
    destruct (Z.eqb (dn_major d) 0 && negb (String.eqb t "p")); cbn; destruct (dn_uid d), (dn_gid d); reflexivity.
  - destruct (Z.eqb (dn_major d) 0) eqn:Em; cbn [negb andb orb].
    + destruct (String.eqb (dn_type d) "p") eqn:Ep; cbn [negb].
      * cbn. destruct (dn_uid d), (dn_gid d); reflexivity.
      * destruct (host _) as [[[t ma] mi]|]; [|reflexivity].
        destruct (String.eqb (dn_type d) t); cbn [negb]; [|reflexivity].
        cbn. destruct (dn_uid d), (dn_gid d); reflexivity.
    + cbn. destruct (dn_uid d), (dn_gid d); reflexivity.
Qed.

Definition rule_of (d : devnode) (x : ocidev) : cgrule :=
  mkCgRule true (od_type x) (Some (od_major x)) (Some (od_minor x)) (if String.eqb (dn_perms d) "" then "rwm" else dn_perms d).
Definition is_bc (x : ocidev) : bool := String.eqb (od_type x) "b" || String.eqb (od_type x) "c".

Lemma apply_node_spec host o d :
  apply_node host o d =
  match filled_dev host (o_uid o) (o_gid o) d with
  | Ok dev => let o1 := set_devices o (devstep (o_devices o) dev) in
              Ok (if is_bc dev then set_cgroup o1 (o_cgroup o ++ [rule_of d dev])%list else o1)
  | Err => Err | Panic => Panic
  end.
Proof.
  unfold apply_node, filled_dev. destruct (fill_missing host d) as [dn| |]; [|reflexivity|reflexivity].
  cbn zeta. unfold is_bc, devstep, rule_of. cbn [od_type od_path od_major od_minor].
  destruct (String.eqb (od_type (devnode_to_oci dn)) "b" || String.eqb (od_type (devnode_to_oci dn)) "c"); reflexivity.
Qed.

(* the pairs (node, expected device) of a node list, when every node can be completed *)
Fixpoint expect_all (host : hostfn) (uid gid : Z) (ds : list devnode) : option (list (devnode * ocidev)) :=
  match ds with
  | [] => Some []
  | d :: r => match expected_dev host uid gid d, expect_all host uid gid r with
              | Some x, Some xs => Some ((d, x) :: xs)
              | _, _ => None
              end
  end.

Lemma expect_all_devs host uid gid ds :
  all_some (map (expected_dev host uid gid) ds) = option_map (map snd) (expect_all host uid gid ds).
Proof.
  induction ds as [|d r IH]; cbn [map all_some expect_all option_map]; [reflexivity|].
  rewrite IH. destruct (expected_dev host uid gid d); [|reflexivity].
  destruct (expect_all host uid gid r); reflexivity.
Qed.
Lemma expect_all_pairs host uid gid ds :
  all_some (map (fun d => match expected_dev host uid gid d with Some x => Some (d, x) | None => None end) ds) =
  expect_all host uid gid ds.
Proof.
  induction ds as [|d r IH]; cbn [map all_some expect_all]; [reflexivity|].
  rewrite IH. destruct (expected_dev host uid gid d); [|reflexivity].
  destruct (expect_all host uid gid r); reflexivity.
Qed.

Definition rules_of (pairs : list (devnode * ocidev)) : list cgrule :=
  map (fun dx => rule_of (fst dx) (snd dx)) (filter (fun dx => is_bc (snd dx)) pairs).

Lemma apply_nodes_spec host ds : forall o,
  apply_nodes host o (map Some ds) =
  match expect_all host (o_uid o) (o_gid o) ds with
  | Some pairs =>
      (mkOci (o_env o) (o_uid o) (o_gid o) (o_gids o) (o_mounts o) (o_hooks o)
             (fold_left devstep (map snd pairs) (o_devices o)) (o_cgroup o ++ rules_of pairs)%list (o_rdt o) (o_rest o), 0)
  | None => (fst (apply_nodes host o (map Some ds)), 1)
  end.
Proof.
  induction ds as [|d r IH]; intro o; cbn [map apply_nodes expect_all].
  - unfold rules_of. cbn. rewrite app_nil_r. destruct o; reflexivity.
  - rewrite apply_node_spec, filled_dev_expected.
    destruct (expected_dev host (o_uid o) (o_gid o) d) as [dev|] eqn:Ed; [|reflexivity].
    cbn beta iota zeta. rewrite IH.
    assert (U : forall o2, o_uid o2 = o_uid o -> o_gid o2 = o_gid o ->
                expect_all host (o_uid o2) (o_gid o2) r = expect_all host (o_uid o) (o_gid o) r) by (intros o2 -> ->; reflexivity).
    destruct (is_bc dev) eqn:Eb.
    + rewrite U by reflexivity. destruct (expect_all host (o_uid o) (o_gid o) r) as [pairs|]; [|reflexivity].
      cbn [map snd fold_left set_cgroup set_devices o_env o_uid o_gid o_gids o_mounts o_hooks o_devices o_cgroup o_rdt o_rest].
      unfold rules_of. cbn [filter snd fst map]. rewrite Eb. cbn [map fst snd]. rewrite <- app_assoc. reflexivity.
    + rewrite U by reflexivity. destruct (expect_all host (o_uid o) (o_gid o) r) as [pairs|]; [|reflexivity].
      cbn [map snd fold_left set_cgroup set_devices o_env o_uid o_gid o_gids o_mounts o_hooks o_devices o_cgroup o_rdt o_rest].
      unfold rules_of. cbn [filter snd fst map]. rewrite Eb. reflexivity.
Qed.

(* ------------------------------------------------------------------------------------------ *)
(* mounts: replace by destination, then the stable sort by depth *)
Lemma apply_mounts_spec ms : forall l,
  apply_mounts l (map Some ms) = (fold_left (kstep om_dest) (map mount_to_oci ms) l, 0).
Proof.
  induction ms as [|m r IH]; intro l; cbn [map apply_mounts fold_left]; [reflexivity|].
  rewrite IH. reflexivity.
Qed.

Inductive srt : list ocimount -> Prop :=
| srt_nil : srt []
| srt_cons x l : Forall (fun y => mount_depth x <= mount_depth y) l -> srt l -> srt (x :: l).

Lemma insert_forall (P : ocimount -> Prop) x l : P x -> Forall P l -> Forall P (insert_mount x l).
Proof.
  intros Hx H. induction H as [|y r Hy Hr IH]; cbn [insert_mount].
  - constructor; [exact Hx|constructor].
  - destruct (Nat.ltb (mount_depth x) (mount_depth y)).
    + constructor; [exact Hx|]. constructor; [exact Hy|exact Hr].
    + constructor; [exact Hy|exact IH].
Qed.
Lemma insert_srt x l : srt l -> srt (insert_mount x l).
Proof.
  induction 1 as [|y r Hy Hr IH]; cbn [insert_mount].
  - constructor; constructor.
  - destruct (Nat.ltb (mount_depth x) (mount_depth y)) eqn:E.
    + apply Nat.ltb_lt in E. constructor; [|constructor; assumption].
      constructor; [lia|]. eapply Forall_impl; [|exact Hy]. cbn beta. intros; lia.
    + apply Nat.ltb_ge in E. constructor; [|exact IH]. apply insert_forall; [exact E|exact Hy].
Qed.
Lemma insert_class k x l : srt l ->
  depth_class k (insert_mount x l) = if Nat.eqb (mount_depth x) k then (depth_class k l ++ [x])%list else depth_class k l.
Proof.
  unfold depth_class. induction 1 as [|y r Hy Hr IH]; cbn [insert_mount filter].
  - destruct (Nat.eqb (mount_depth x) k); reflexivity.
  - destruct (Nat.ltb (mount_depth x) (mount_depth y)) eqn:E; cbn [filter].
    + apply Nat.ltb_lt in E. destruct (Nat.eqb (mount_depth x) k) eqn:Ex; [|reflexivity].
      apply Nat.eqb_eq in Ex.
      replace (Nat.eqb (mount_depth y) k) with false by (symmetry; apply Nat.eqb_neq; lia).
      replace (filter (fun z => Nat.eqb (mount_depth z) k) r) with (@nil ocimount); [reflexivity|].
      symmetry. clear - Hy E Ex. induction Hy as [|z r' Hz _ IH']; cbn [filter]; [reflexivity|].
      replace (Nat.eqb (mount_depth z) k) with false by (symmetry; apply Nat.eqb_neq; lia). exact IH'.
    + rewrite IH. destruct (Nat.eqb (mount_depth y) k), (Nat.eqb (mount_depth x) k); reflexivity.
Qed.
Lemma insert_length x l : length (insert_mount x l) = S (length l).
Proof.
  induction l as [|y a IHa]; cbn [insert_mount length]; [reflexivity|].
  destruct (Nat.ltb (mount_depth x) (mount_depth y)); cbn [length]; [reflexivity|]. rewrite IHa. reflexivity.
Qed.
Lemma sort_gen l : forall acc, srt acc ->
  srt (fold_left (fun a x => insert_mount x a) l acc) /\
  (forall k, depth_class k (fold_left (fun a x => insert_mount x a) l acc) = (depth_class k acc ++ depth_class k l)%list) /\
  length (fold_left (fun a x => insert_mount x a) l acc) = length acc + length l.
Proof.
  induction l as [|x r IH]; intros acc S; cbn [fold_left].
  - split; [exact S|]. split; [|cbn; lia]. intro k. unfold depth_class at 3. cbn. rewrite app_nil_r. reflexivity.
  - destruct (IH (insert_mount x acc) (insert_srt x acc S)) as [S' [C L]]. split; [exact S'|]. split.
    + intro k. rewrite C, insert_class by exact S. unfold depth_class. cbn [filter].
      destruct (Nat.eqb (mount_depth x) k); [rewrite <- app_assoc; reflexivity|reflexivity].
    + rewrite L, insert_length. cbn [length]. lia.
Qed.
Lemma srt_sorted_by_depth l : srt l -> sorted_by_depth l = true.
Proof.
  induction 1 as [|x r Hx Hr IH]; cbn [sorted_by_depth]; [reflexivity|].
  rewrite IH, andb_true_r. apply forallb_forall. intros y Hy. apply Nat.leb_le.
  exact (proj1 (Forall_forall _ _) Hx y Hy).
Qed.
Lemma sorted_by_depth_srt l : sorted_by_depth l = true -> srt l.
Proof.
  induction l as [|x r IH]; cbn [sorted_by_depth]; intro H; [constructor|].
  apply andb_true_iff in H as [H1 H2]. constructor; [|apply IH; exact H2].
  apply Forall_forall. intros y Hy. apply Nat.leb_le. exact (proj1 (forallb_forall _ _) H1 y Hy).
Qed.

Theorem sort_mounts_sorted l : sorted_by_depth (sort_mounts l) = true.
Proof. apply srt_sorted_by_depth. apply (sort_gen l [] srt_nil). Qed.
Theorem sort_mounts_stable l k : depth_class k (sort_mounts l) = depth_class k l.
Proof. destruct (sort_gen l [] srt_nil) as [_ [C _]]. unfold sort_mounts. rewrite C. reflexivity. Qed.
Theorem sort_mounts_length l : length (sort_mounts l) = length l.
Proof. destruct (sort_gen l [] srt_nil) as [_ [_ L]]. unfold sort_mounts. rewrite L. reflexivity. Qed.

(* sortedness + per-depth subsequences determine the list: whatever algorithm a stable sort uses, its result is this one *)
Theorem stable_sort_unique l1 l2 :
  srt l1 -> srt l2 -> (forall k, depth_class k l1 = depth_class k l2) -> l1 = l2.
Proof.
  intros S1. revert l2. induction S1 as [|x r Hx Sr IH]; intros l2 S2 C.
  - destruct l2 as [|y r2]; [reflexivity|]. specialize (C (mount_depth y)). unfold depth_class in C. cbn in C.
    rewrite Nat.eqb_refl in C. discriminate.
  - destruct S2 as [|y r2 Hy Sr2].
    + specialize (C (mount_depth x)). unfold depth_class in C. cbn in C. rewrite Nat.eqb_refl in C. discriminate.
    + assert (Kxy : mount_depth x = mount_depth y).
      { assert (L1 : mount_depth x <= mount_depth y).
        { pose proof (C (mount_depth y)) as Cy. unfold depth_class in Cy. cbn [filter] in Cy. rewrite Nat.eqb_refl in Cy.
          destruct (Nat.eqb (mount_depth x) (mount_depth y)) eqn:E; [apply Nat.eqb_eq in E; lia|].
          assert (H : In y (filter (fun z => Nat.eqb (mount_depth z) (mount_depth y)) r)) by (rewrite Cy; left; reflexivity).
          apply filter_In in H as [Hin _]. exact (proj1 (Forall_forall _ _) Hx y Hin). }
        assert (L2 : mount_depth y <= mount_depth x).
        { pose proof (C (mount_depth x)) as Cx. unfold depth_class in Cx. cbn [filter] in Cx. rewrite Nat.eqb_refl in Cx.
          destruct (Nat.eqb (mount_depth y) (mount_depth x)) eqn:E; [apply Nat.eqb_eq in E; lia|].
          assert (H : In x (filter (fun z => Nat.eqb (mount_depth z) (mount_depth x)) r2)) by (rewrite <- Cx; left; reflexivity).
          apply filter_In in H as [Hin _]. exact (proj1 (Forall_forall _ _) Hy x Hin). }
        lia. }
      pose proof (C (mount_depth x)) as Cx. unfold depth_class in Cx. cbn [filter] in Cx.
      rewrite Nat.eqb_refl in Cx. rewrite <- Kxy, Nat.eqb_refl in Cx. inversion Cx; subst y.
      f_equal. apply IH; [exact Sr2|]. intro k. specialize (C k). unfold depth_class in *. cbn [filter] in C.
      destruct (Nat.eqb (mount_depth x) k); [inversion C; reflexivity|exact C].
Qed.

(* ------------------------------------------------------------------------------------------ *)
(* hooks *)
Definition hooks_app (a b : ocihooks) : ocihooks :=
  mkOciHooks (hk_prestart a ++ hk_prestart b) (hk_create_runtime a ++ hk_create_runtime b)
             (hk_create_container a ++ hk_create_container b) (hk_start_container a ++ hk_start_container b)
             (hk_poststart a ++ hk_poststart b) (hk_poststop a ++ hk_poststop b).
Definition staged (hs : list hook) : ocihooks :=
  mkOciHooks (stage "prestart" hs) (stage "createRuntime" hs) (stage "createContainer" hs) (stage "startContainer" hs)
             (stage "poststart" hs) (stage "poststop" hs).

Lemma known_hook_cases n : known_hook_name n = true ->
  n = "prestart" \/ n = "createRuntime" \/ n = "createContainer" \/ n = "startContainer" \/ n = "poststart" \/ n = "poststop".
Proof.
  unfold known_hook_name, mem_s. cbn [existsb]. intro H.
  repeat (apply orb_true_iff in H as [H|H]; [apply String.eqb_eq in H; tauto|]). discriminate.
Qed.

Lemma add_hook_known hs h : known_hook_name (h_name h) = true ->
  add_hook hs h = Ok (hooks_app hs (staged [h])).
Proof.
  intro K. apply known_hook_cases in K. unfold add_hook, hooks_app, staged, stage. cbn [filter map].
  destruct K as [K|[K|[K|[K|[K|K]]]]]; rewrite K; cbn; rewrite ?app_nil_r; reflexivity.
Qed.

Lemma hooks_app_assoc a b c : hooks_app (hooks_app a b) c = hooks_app a (hooks_app b c).
Proof. unfold hooks_app. cbn. rewrite <- !app_assoc. reflexivity. Qed.
Lemma staged_cons h hs : staged (h :: hs) = hooks_app (staged [h]) (staged hs).
Proof.
  unfold staged, hooks_app, stage. cbn [filter]. cbn [hk_prestart hk_create_runtime hk_create_container hk_start_container hk_poststart hk_poststop].
  destruct (String.eqb (h_name h) "prestart"), (String.eqb (h_name h) "createRuntime"), (String.eqb (h_name h) "createContainer"),
    (String.eqb (h_name h) "startContainer"), (String.eqb (h_name h) "poststart"), (String.eqb (h_name h) "poststop"); reflexivity.
Qed.
Lemma hooks_app_nil a : hooks_app a (staged []) = a.
Proof. unfold hooks_app, staged, stage. cbn. rewrite !app_nil_r. destruct a; reflexivity. Qed.

Lemma apply_hooks_spec hs : forall init,
  forallb (fun h => known_hook_name (h_name h)) hs = true ->
  apply_hooks init (map Some hs) = (hooks_app init (staged hs), 0).
Proof.
  induction hs as [|h r IH]; intros init K; cbn [map apply_hooks].
  - rewrite hooks_app_nil. reflexivity.
  - cbn [forallb] in K. apply andb_true_iff in K as [K1 K2].
    rewrite add_hook_known by exact K1. rewrite IH by exact K2.
    rewrite hooks_app_assoc, <- staged_cons. reflexivity.
Qed.

(* ------------------------------------------------------------------------------------------ *)
(* additional gids *)
Lemma dedup_first_z_ext l : forall s1 s2, (forall g, existsb (Z.eqb g) s1 = existsb (Z.eqb g) s2) ->
  dedup_first_z s1 l = dedup_first_z s2 l.
Proof.
  induction l as [|x r IH]; intros s1 s2 H; cbn [dedup_first_z]; [reflexivity|].
  rewrite (H x). destruct (existsb (Z.eqb x) s2); [apply IH; exact H|].
  f_equal. apply IH. intro g. cbn [existsb]. rewrite H. reflexivity.
Qed.
Lemma gids_spec gids : forall init,
  fold_left add_gid gids init = (init ++ dedup_first_z (0%Z :: init) gids)%list.
Proof.
  induction gids as [|g r IH]; intro init; cbn [fold_left dedup_first_z]; [rewrite app_nil_r; reflexivity|].
  rewrite IH. unfold add_gid. cbn [existsb]. destruct (Z.eqb g 0) eqn:E0; cbn [orb]; [reflexivity|].
  destruct (existsb (Z.eqb g) init) eqn:Ei; [reflexivity|].
  rewrite <- app_assoc. cbn [app]. f_equal. f_equal. apply dedup_first_z_ext.
  intro x. cbn [existsb]. rewrite existsb_app. cbn [existsb]. rewrite orb_false_r.
  destruct (Z.eqb x 0), (Z.eqb x g), (existsb (Z.eqb x) init); reflexivity.
Qed.

(* ------------------------------------------------------------------------------------------ *)
(* environment: outside the class of the known finding (no initial variable is named by the edits) the generator's
   index cache behaves like replace-or-append on the added part *)
Fixpoint upd (l : list string) (e : string) : list string :=
  match l with
  | [] => [e]
  | x :: r => if String.eqb (env_name x) (env_name e) then e :: r else x :: upd r e
  end.
Fixpoint idx (n : string) (ns : list string) (off : nat) : option nat :=
  match ns with [] => None | x :: r => if String.eqb x n then Some off else idx n r (S off) end.

Lemma env_name_idem e : env_name (env_name e) = env_name e.
Proof.
  assert (H : forall n, contains "=" n = false -> env_name n = n).
  { intros n Hc. unfold env_name. apply split_first_none in Hc. rewrite Hc. reflexivity. }
  apply H. unfold env_name. destruct (split_first "=" e) as [[n b]|] eqn:E.
  - apply split_first_spec in E as [_ Hc]. exact Hc.
  - apply split_first_none. exact E.
Qed.

Lemma emap_get_cache k env : forall i m,
  emap_get k (env_cache_aux env i m) = None <-> (emap_get k m = None /\ mem_s k env = false).
Proof.
  induction env as [|e r IH]; intros i m; cbn [env_cache_aux mem_s existsb].
  - tauto.
  - rewrite IH. unfold emap_set. cbn [emap_get]. unfold mem_s.
    destruct (String.eqb k e); cbn [orb]; split; intros [H1 H2]; try discriminate; auto.
Qed.

Lemma miss_of_unknown init entries e :
  env_known_class init entries = false -> In e entries ->
  emap_get (env_name e) (env_cache init) = None.
Proof.
  intros K Hin. unfold env_cache. apply emap_get_cache. split; [reflexivity|].
  destruct (mem_s (env_name e) init) eqn:M; [|reflexivity]. exfalso.
  unfold mem_s in M. apply existsb_exists in M as [x [Hx Ex]]. apply String.eqb_eq in Ex. subst x.
  unfold env_known_class in K.
  assert (T : existsb (fun e0 => mem_s (env_name e0) (env_names entries)) init = true).
  { apply existsb_exists. exists (env_name e). split; [exact Hx|]. rewrite env_name_idem.
    unfold mem_s, env_names. apply existsb_exists. exists (env_name e). split; [apply in_map; exact Hin|apply String.eqb_refl]. }
  congruence.
Qed.

Lemma idx_snoc n ns x : forall off,
  idx n (ns ++ [x])%list off = match idx n ns off with Some i => Some i | None => if String.eqb x n then Some (off + length ns) else None end.
Proof.
  induction ns as [|y r IH]; intro off; cbn [app idx length].
  - rewrite Nat.add_0_r. reflexivity.
  - destruct (String.eqb y n); [reflexivity|]. rewrite IH. replace (S off + length r) with (off + S (length r)) by lia. reflexivity.
Qed.

Lemma list_set_app_len {A} (pre : list A) x r e : list_set (pre ++ x :: r) (length pre) e = (pre ++ e :: r)%list.
Proof. induction pre as [|p q IH]; cbn [app length list_set]; [reflexivity|]. rewrite IH. reflexivity. Qed.

Lemma idx_found n e added : env_name e = n -> forall pre i,
  idx n (map env_name added) (length pre) = Some i ->
  list_set (pre ++ added) i e = (pre ++ upd added e)%list /\ map env_name (upd added e) = map env_name added.
Proof.
  intros En. induction added as [|x r IH]; intros pre i H; cbn [map idx] in H; [discriminate|].
  cbn [upd]. rewrite En. destruct (String.eqb (env_name x) n) eqn:E.
  - inversion H; subst i. split; [apply list_set_app_len|]. cbn [map]. apply String.eqb_eq in E. congruence.
  - specialize (IH (pre ++ [x])%list i). rewrite app_length in IH. cbn [length] in IH.
    replace (length pre + 1) with (S (length pre)) in IH by lia. destruct (IH H) as [I1 I2].
    rewrite <- !app_assoc in I1. cbn [app] in I1. split; [exact I1|]. cbn [map]. rewrite I2. reflexivity.
Qed.
Lemma idx_missing n e added : env_name e = n -> forall off,
  idx n (map env_name added) off = None -> upd added e = (added ++ [e])%list.
Proof.
  intros En. induction added as [|x r IH]; intros off H; cbn [map idx] in H; cbn [upd app]; [reflexivity|].
  rewrite En. destruct (String.eqb (env_name x) n); [discriminate|]. f_equal. exact (IH _ H).
Qed.

Definition env_inv (init added : list string) (miss : string -> Prop) (st : list string * envmap) : Prop :=
  fst st = (init ++ added)%list /\
  forall n, miss n -> emap_get n (snd st) = idx n (map env_name added) (length init).

Lemma add_env_inv init miss added st e :
  env_inv init added miss st -> miss (env_name e) -> env_inv init (upd added e) miss (add_env st e).
Proof.
  destruct st as [env m]. intros [I1 I2] M. cbn [fst snd] in *. unfold add_env.
  destruct (emap_get (env_name e) m) as [i|] eqn:G.
  - rewrite (I2 _ M) in G. destruct (idx_found (env_name e) e added eq_refl init i G) as [L N].
    split; cbn [fst snd]; [rewrite I1; exact L|]. intros n Hn. rewrite N. apply I2. exact Hn.
  - rewrite (I2 _ M) in G. rewrite (idx_missing (env_name e) e added eq_refl _ G).
    split; cbn [fst snd]; [rewrite I1, app_assoc; reflexivity|].
    intros n Hn. unfold emap_set. cbn [emap_get]. rewrite map_app. cbn [map]. rewrite idx_snoc.
    rewrite <- (I2 n Hn). rewrite (String.eqb_sym n (env_name e)).
    destruct (String.eqb (env_name e) n) eqn:E.
    + apply String.eqb_eq in E. subst n. rewrite (I2 _ M), G. rewrite I1, app_length, map_length. reflexivity.
    + destruct (emap_get n m); reflexivity.
Qed.

Lemma add_envs_inv init miss entries : forall added st,
  env_inv init added miss st -> (forall e, In e entries -> miss (env_name e)) ->
  env_inv init (fold_left upd entries added) miss (fold_left add_env entries st).
Proof.
  induction entries as [|e r IH]; intros added st I M; cbn [fold_left]; [exact I|].
  apply IH; [apply add_env_inv; [exact I|apply M; left; reflexivity]|]. intros x Hx. apply M. right. exact Hx.
Qed.

Lemma gen_add_multiple_env_spec init entries :
  env_known_class init entries = false ->
  gen_add_multiple_env init entries = (init ++ fold_left upd entries [])%list.
Proof.
  intro K. unfold gen_add_multiple_env.
  pose (miss := fun n => emap_get n (env_cache init) = None).
  assert (I0 : env_inv init [] miss (init, env_cache init)).
  { split; cbn [fst snd]; [rewrite app_nil_r; reflexivity|]. intros n Hn. exact Hn. }
  destruct (add_envs_inv init miss entries [] _ I0) as [F _]; [|exact F].
  intros e He. apply (miss_of_unknown init entries e K He).
Qed.
(* after dropEnv no entry of the OCI env is named by the edits *)
Lemma drop_env_unknown init entries : env_known_class (drop_env init entries) entries = false.
Proof.
  unfold env_known_class, drop_env, env_names. induction init as [|x r IH]; cbn [filter existsb]; [reflexivity|].
  destruct (mem_s (env_name x) (map env_name entries)) eqn:M; cbn [negb]; [exact IH|].
  cbn [existsb]. rewrite M, IH. reflexivity.
Qed.
Lemma add_multiple_env_spec init entries :
  add_multiple_env init entries = (drop_env init entries ++ fold_left upd entries [])%list.
Proof. unfold add_multiple_env. apply gen_add_multiple_env_spec. apply drop_env_unknown. Qed.

Lemma add_multiple_env_nil env : add_multiple_env env [] = env.
Proof.
  unfold add_multiple_env, gen_add_multiple_env, drop_env. cbn [fold_left fst map mem_s existsb negb].
  induction env as [|x r IH]; cbn [filter]; [reflexivity|rewrite IH; reflexivity].
Qed.

(* what replace-or-append computes *)
Lemma upd_names l e :
  map env_name (upd l e) = if mem_s (env_name e) (map env_name l) then map env_name l else (map env_name l ++ [env_name e])%list.
Proof.
  unfold mem_s. induction l as [|x r IH]; cbn [upd map existsb app]; [reflexivity|].
  rewrite (String.eqb_sym (env_name e) (env_name x)). destruct (String.eqb (env_name x) (env_name e)) eqn:E; cbn [orb map].
  - apply String.eqb_eq in E. congruence.
  - rewrite IH. destruct (existsb (String.eqb (env_name e)) (map env_name r)); reflexivity.
Qed.
Lemma upd_nodup l e : nodup_s (map env_name l) = true -> nodup_s (map env_name (upd l e)) = true.
Proof.
  intro H. rewrite upd_names. destruct (mem_s (env_name e) (map env_name l)) eqn:M; [exact H|].
  rewrite nodup_s_snoc, H, M. reflexivity.
Qed.
Definition named_by (k : string) := fun e => String.eqb (env_name e) k.
Lemma filter_none k l : mem_s k (map env_name l) = false -> filter (named_by k) l = [].
Proof.
  unfold mem_s, named_by. induction l as [|x r IH]; cbn [map existsb filter]; [reflexivity|].
  intro H. apply orb_false_iff in H as [H1 H2]. rewrite String.eqb_sym, H1. apply IH. exact H2.
Qed.
Lemma upd_filter k l e : nodup_s (map env_name l) = true ->
  filter (named_by k) (upd l e) = if String.eqb (env_name e) k then [e] else filter (named_by k) l.
Proof.
  induction l as [|x r IH]; cbn [map nodup_s upd filter]; intro H.
  - unfold named_by. destruct (String.eqb (env_name e) k); reflexivity.
  - apply andb_true_iff in H as [Hx Hr]. apply negb_true_iff in Hx.
    destruct (String.eqb (env_name x) (env_name e)) eqn:E; cbn [filter].
    + apply String.eqb_eq in E.
      assert (N : named_by k x = named_by k e) by (unfold named_by; rewrite E; reflexivity).
      rewrite N. change (named_by k e) with (String.eqb (env_name e) k).
      destruct (String.eqb (env_name e) k) eqn:Ek; [|reflexivity].
      apply String.eqb_eq in Ek. subst k. rewrite <- E. rewrite filter_none by exact Hx. reflexivity.
    + rewrite IH by exact Hr. change (named_by k x) with (String.eqb (env_name x) k).
      destruct (String.eqb (env_name e) k) eqn:Ek.
      * apply String.eqb_eq in Ek. subst k. rewrite E. reflexivity.
      * reflexivity.
Qed.
Lemma upds_filter k entries : forall acc, nodup_s (map env_name acc) = true ->
  filter (named_by k) (fold_left upd entries acc) =
  match last_entry k entries with Some v => [v] | None => filter (named_by k) acc end.
Proof.
  induction entries as [|e r IH]; intros acc H; cbn [fold_left last_entry]; [reflexivity|].
  rewrite IH by (apply upd_nodup; exact H). destruct (last_entry k r); [reflexivity|].
  rewrite upd_filter by exact H. destruct (String.eqb (env_name e) k); reflexivity.
Qed.
Lemma upds_in x entries : forall acc, In x (fold_left upd entries acc) -> In x acc \/ In x entries.
Proof.
  induction entries as [|e r IH]; intros acc H; cbn [fold_left] in H; [left; exact H|].
  apply IH in H as [H|H]; [|right; right; exact H].
  assert (U : In x (upd acc e) -> In x acc \/ x = e).
  { clear. induction acc as [|y a IHa]; cbn [upd]; [intros [H|[]]; right; auto|].
    destruct (String.eqb (env_name y) (env_name e)); intros [H|H]; cbn [In]; auto.
    apply IHa in H as [H|H]; auto. }
  apply U in H as [H|H]; [left; exact H|right; left; auto].
Qed.
Lemma last_entry_some k entries : mem_s k (env_names entries) = true -> exists v, last_entry k entries = Some v.
Proof.
  unfold mem_s, env_names. induction entries as [|e r IH]; cbn [map existsb last_entry]; [discriminate|].
  intro H. destruct (last_entry k r) as [v|] eqn:L; [exists v; reflexivity|].
  rewrite String.eqb_sym in H. destruct (String.eqb (env_name e) k); [exists e; reflexivity|].
  cbn [orb] in H. destruct (IH H) as [v Hv]. discriminate.
Qed.

(* the generator alone meets the postcondition when no entry of the OCI env is named by the edits *)
Theorem gen_env_post_holds init entries :
  env_known_class init entries = false ->
  env_post init entries (gen_add_multiple_env init entries) = true.
Proof.
  intro K. rewrite gen_add_multiple_env_spec by exact K. unfold env_post.
  set (U := fold_left upd entries []). set (named := env_names entries).
  assert (Hinit : forall x, In x init -> mem_s (env_name x) named = false).
  { intros x Hx. unfold env_known_class in K. destruct (mem_s (env_name x) named) eqn:M; [|reflexivity].
    assert (T : existsb (fun e0 => mem_s (env_name e0) (env_names entries)) init = true)
      by (apply existsb_exists; exists x; split; [exact Hx|exact M]). congruence. }
  apply andb_true_iff. split.
  - rewrite filter_app.
    replace (filter (fun e => negb (mem_s (env_name e) named)) U) with (@nil string);
      [rewrite app_nil_r; apply ls_eqb_refl|].
    symmetry. assert (HU : forall x, In x U -> mem_s (env_name x) named = true).
    { intros x Hx. apply upds_in in Hx as [[]|Hx]. unfold mem_s, named, env_names. apply existsb_exists.
      exists (env_name x). split; [apply in_map; exact Hx|apply String.eqb_refl]. }
    clearbody U. induction U as [|x r IHU]; cbn [filter]; [reflexivity|].
    rewrite (HU x) by (left; reflexivity). cbn [negb]. apply IHU. intros y Hy. apply HU. right. exact Hy.
  - apply forallb_forall. intros k Hk.
    assert (Mk : mem_s k named = true) by (unfold mem_s; apply existsb_exists; exists k; split; [exact Hk|apply String.eqb_refl]).
    destruct (last_entry_some k entries Mk) as [v Hv]. rewrite Hv.
    rewrite filter_app. change (fun e => String.eqb (env_name e) k) with (named_by k).
    unfold U. rewrite upds_filter by reflexivity. rewrite Hv.
    replace (filter (named_by k) init) with (@nil string); [apply ls_eqb_refl|].
    symmetry. clear - Hinit Mk. induction init as [|x r IH]; cbn [filter]; [reflexivity|].
    unfold named_by at 1. destruct (String.eqb (env_name x) k) eqn:E.
    + apply String.eqb_eq in E. subst k. rewrite Hinit in Mk by (left; reflexivity). discriminate.
    + apply IH. intros y Hy. apply Hinit. right. exact Hy.
Qed.

(* the entries not named by the edits are the same in the OCI env and in what dropEnv leaves of it *)
Lemma drop_env_others init entries :
  filter (fun e => negb (mem_s (env_name e) (env_names entries))) (drop_env init entries) =
  filter (fun e => negb (mem_s (env_name e) (env_names entries))) init.
Proof.
  unfold drop_env, env_names. induction init as [|x r IH]; cbn [filter]; [reflexivity|].
  destruct (negb (mem_s (env_name x) (map env_name entries))) eqn:M; cbn [filter]; rewrite ?M, IH; reflexivity.
Qed.

(* Apply's environment step, for EVERY OCI env and every entry list: each variable named by the edits is defined exactly once,
   with the value of its last edit; every other entry is kept, in order *)
Theorem env_post_holds init entries :
  env_post init entries (add_multiple_env init entries) = true.
Proof.
  pose proof (gen_env_post_holds (drop_env init entries) entries (drop_env_unknown init entries)) as H.
  unfold add_multiple_env. unfold env_post in *. apply andb_true_iff in H as [H1 H2]. apply andb_true_iff. split; [|exact H2].
  rewrite <- (drop_env_others init entries). exact H1.
Qed.

(* ------------------------------------------------------------------------------------------ *)
(* the whole of Apply *)
Lemma all_some_entries {A} (l : list (option A)) :
  forallb (fun x => match x with Some _ => true | None => false end) l = true -> l = map Some (somes l).
Proof.
  induction l as [|[x|] r IH]; cbn [forallb somes map]; intro H; [reflexivity| |discriminate].
  f_equal. apply IH. exact H.
Qed.
Lemma valid_hooks_entries (l : list (option hook)) :
  forallb (fun x => match x with Some h => known_hook_name (h_name h) | None => false end) l = true ->
  l = map Some (somes l) /\ forallb (fun h => known_hook_name (h_name h)) (somes l) = true.
Proof.
  induction l as [|[x|] r IH]; cbn [forallb somes map]; intro H; [split; reflexivity| |discriminate].
  apply andb_true_iff in H as [H1 H2]. destruct (IH H2) as [I1 I2]. split; [f_equal; exact I1|].
  rewrite H1, I2. reflexivity.
Qed.
Lemma set_env_same o : set_env o (o_env o) = o.
Proof. destruct o; reflexivity. Qed.

(* the final OCI spec of a successful application, in closed form *)
Definition apply_result (e : edits) (o : oci) (pairs : list (devnode * ocidev)) : oci :=
  mkOci (add_multiple_env (o_env o) (e_env e)) (o_uid o) (o_gid o)
        (o_gids o ++ dedup_first_z (0%Z :: o_gids o) (e_gids e))
        (match somes (e_mounts e) with
         | [] => o_mounts o
         | ms => sort_mounts (fold_left (kstep om_dest) (map mount_to_oci ms) (o_mounts o))
         end)
        (hooks_app (o_hooks o) (staged (somes (e_hooks e))))
        (fold_left devstep (map snd pairs) (o_devices o))
        (o_cgroup o ++ rules_of pairs)
        (match e_rdt e with Some r => Some r | None => o_rdt o end)
        (o_rest o).

Theorem apply_closed_form host e o :
  valid_edits e = true ->
  match expect_all host (o_uid o) (o_gid o) (somes (e_nodes e)) with
  | Some pairs => apply host e o = (apply_result e o pairs, 0)
  | None => snd (apply host e o) = 1
  end.
Proof.
  intro V. unfold valid_edits in V. apply andb_true_iff in V as [V Vh]. apply andb_true_iff in V as [Vn Vm].
  apply all_some_entries in Vn. apply all_some_entries in Vm. apply valid_hooks_entries in Vh as [Vh Kh].
  unfold apply, apply_result.
  set (ns := somes (e_nodes e)) in *. set (ms0 := somes (e_mounts e)) in *. set (hs := somes (e_hooks e)) in *.
  assert (E1 : match e_env e with [] => o | env => set_env o (add_multiple_env (o_env o) env) end =
               set_env o (add_multiple_env (o_env o) (e_env e))).
  { destruct (e_env e); [|reflexivity]. rewrite add_multiple_env_nil, set_env_same. reflexivity. }
  rewrite E1. clear E1. rewrite Vn. rewrite apply_nodes_spec.
  cbn [set_env o_uid o_gid o_env o_gids o_mounts o_hooks o_devices o_cgroup o_rdt o_rest].
  destruct (expect_all host (o_uid o) (o_gid o) ns) as [pairs|]; [|reflexivity].
  cbn [Nat.eqb negb]. cbn beta iota.
  rewrite Vm. rewrite Vh. clearbody ns ms0 hs.
  destruct ms0 as [|m ms]; cbn [map].
  - cbn [Nat.eqb negb]. cbn beta iota. cbn [set_hooks o_hooks o_env o_uid o_gid o_gids o_mounts o_devices o_cgroup o_rdt o_rest].
    rewrite apply_hooks_spec by exact Kh. cbn [Nat.eqb negb]. cbn beta iota.
    destruct (e_rdt e); cbn [set_rdt set_hooks set_gids o_hooks o_env o_uid o_gid o_gids o_mounts o_devices o_cgroup o_rdt o_rest];
      rewrite gids_spec; reflexivity.
  - change (Some m :: map Some ms) with (map Some (m :: ms)). rewrite apply_mounts_spec.
    cbn [o_mounts Nat.eqb negb]. cbn beta iota.
    cbn [set_mounts set_hooks o_hooks o_env o_uid o_gid o_gids o_mounts o_devices o_cgroup o_rdt o_rest].
    rewrite apply_hooks_spec by exact Kh. cbn [Nat.eqb negb]. cbn beta iota.
    destruct (e_rdt e); cbn [set_rdt set_hooks set_gids set_mounts o_hooks o_env o_uid o_gid o_gids o_mounts o_devices o_cgroup o_rdt o_rest];
      rewrite gids_spec; reflexivity.
Qed.

(* ------------------------------------------------------------------------------------------ *)
(* the documented semantics *)
Lemma wf_initial_parts o : wf_initial o = true ->
  nodup_s (map od_path (o_devices o)) = true /\ nodup_s (map om_dest (o_mounts o)) = true.
Proof. unfold wf_initial. intro H. apply andb_true_iff in H. exact H. Qed.

Lemma map_snd_pairs host uid gid ds pairs : expect_all host uid gid ds = Some pairs ->
  all_some (map (expected_dev host uid gid) ds) = Some (map snd pairs).
Proof. intro H. rewrite expect_all_devs, H. reflexivity. Qed.

Lemma mounts_post_holds init ms : nodup_s (map om_dest init) = true ->
  mounts_post init ms
    (match ms with [] => init | m :: l => sort_mounts (fold_left (kstep om_dest) (map mount_to_oci (m :: l)) init) end) = true.
Proof.
  intro N. unfold mounts_post. destruct ms as [|m r]; [apply list_eqb_refl; apply ocimount_eqb_refl|].
  set (ms := m :: r).
  assert (D : map m_ctr ms = map om_dest (map mount_to_oci ms)) by (rewrite map_map; reflexivity).
  rewrite D. rewrite <- (ksteps om_dest) by exact N.
  rewrite sort_mounts_sorted, sort_mounts_length, Nat.eqb_refl. cbn [andb].
  apply forallb_forall. intros x _. rewrite sort_mounts_stable. apply list_eqb_refl. apply ocimount_eqb_refl.
Qed.

Theorem apply_result_post host e o pairs :
  wf_initial o = true ->
  expect_all host (o_uid o) (o_gid o) (somes (e_nodes e)) = Some pairs ->
  apply_post_but_env host e o (apply_result e o pairs) = true.
Proof.
  intros W E. destruct (wf_initial_parts o W) as [Nd Nm]. unfold apply_post_but_env, apply_result.
  cbn [o_env o_uid o_gid o_gids o_mounts o_hooks o_devices o_cgroup o_rdt o_rest].
  assert (H1 : devices_post host (o_uid o) (o_gid o) (o_devices o) (somes (e_nodes e))
                 (fold_left devstep (map snd pairs) (o_devices o)) = true).
  { unfold devices_post. rewrite (map_snd_pairs _ _ _ _ _ E). rewrite devsteps by exact Nd.
    apply list_eqb_refl. apply ocidev_eqb_refl. }
  assert (H2 : cgroup_post host (o_uid o) (o_gid o) (o_cgroup o) (somes (e_nodes e)) (o_cgroup o ++ rules_of pairs) = true).
  { unfold cgroup_post. rewrite expect_all_pairs, E. apply list_eqb_refl. apply cgrule_eqb_refl. }
  assert (H4 : hooks_post (o_hooks o) (somes (e_hooks e)) (hooks_app (o_hooks o) (staged (somes (e_hooks e)))) = true).
  { unfold hooks_post, hooks_app, staged. cbn [hk_prestart hk_create_runtime hk_create_container hk_start_container hk_poststart hk_poststop].
    apply ocihooks_eqb_refl. }
  assert (H5 : gids_post (o_gids o) (e_gids e) (o_gids o ++ dedup_first_z (0%Z :: o_gids o) (e_gids e)) = true).
  { unfold gids_post. apply list_eqb_refl. apply Z.eqb_refl. }
  assert (H6 : rdt_post (o_rdt o) (e_rdt e) (match e_rdt e with Some r => Some r | None => o_rdt o end) = true).
  { unfold rdt_post. apply option_eqb_refl. apply rdt_eqb_refl. }
  rewrite H1, H2, (mounts_post_holds _ _ Nm), H4, H5, H6, !Z.eqb_refl, String.eqb_refl. reflexivity.
Qed.

(* Apply on a well-formed OCI spec and valid (loaded) edits: never a nil dereference; it succeeds exactly when every
   device node can be completed from the host; and the result then satisfies the whole documented postcondition
   (the environment part outside the class of the known finding C03/env-existing-name). *)
Theorem apply_meets_spec host e o :
  wf_initial o = true -> valid_edits e = true ->
  let r := apply host e o in
  snd r <> 2 /\
  (snd r = 0 <-> exists devs, all_some (map (expected_dev host (o_uid o) (o_gid o)) (somes (e_nodes e))) = Some devs) /\
  (snd r = 0 ->
     apply_post_but_env host e o (fst r) = true /\
     env_post (o_env o) (e_env e) (o_env (fst r)) = true).
Proof.
  intros W V. cbn zeta. pose proof (apply_closed_form host e o V) as C.
  rewrite expect_all_devs. destruct (expect_all host (o_uid o) (o_gid o) (somes (e_nodes e))) as [pairs|] eqn:E.
  - rewrite C. cbn [fst snd option_map]. split; [discriminate|]. split; [split; [eexists; reflexivity|reflexivity]|].
    intros _. split; [apply apply_result_post; assumption|].
    unfold apply_result. cbn [o_env]. apply env_post_holds.
  - rewrite C. cbn [option_map]. split; [discriminate|]. split; [split; [discriminate|intros [d Hd]; discriminate]|discriminate].
Qed.

(* nothing but the parts named by the property changes: the opaque rest of the spec, uid and gid are returned unchanged,
   and a field whose edit list is empty keeps its value *)
Theorem apply_frame host e o pairs :
  expect_all host (o_uid o) (o_gid o) (somes (e_nodes e)) = Some pairs ->
  let o' := apply_result e o pairs in
  o_rest o' = o_rest o /\ o_uid o' = o_uid o /\ o_gid o' = o_gid o /\
  (e_env e = [] -> o_env o' = o_env o) /\ (e_nodes e = [] -> o_devices o' = o_devices o /\ o_cgroup o' = o_cgroup o) /\
  (e_mounts e = [] -> o_mounts o' = o_mounts o) /\ (e_hooks e = [] -> o_hooks o' = o_hooks o) /\
  (e_gids e = [] -> o_gids o' = o_gids o) /\ (e_rdt e = None -> o_rdt o' = o_rdt o).
Proof.
  intro E. cbn zeta. unfold apply_result. cbn [o_env o_uid o_gid o_gids o_mounts o_hooks o_devices o_cgroup o_rdt o_rest].
  repeat split.
  - intros ->. apply add_multiple_env_nil.
  - rewrite H in E. cbn in E. inversion E. reflexivity.
  - rewrite H in E. cbn in E. inversion E. unfold rules_of. cbn. apply app_nil_r.
  - intros ->. reflexivity.
  - intros ->. cbn [somes]. apply hooks_app_nil.
  - intros ->. cbn. apply app_nil_r.
  - intros ->. reflexivity.
Qed.

(* why Apply drops the variables first: the generator alone duplicates a variable the OCI env already defines *)
Theorem gen_env_post_refuted : exists init entries,
  env_known_class init entries = true /\ env_post init entries (gen_add_multiple_env init entries) = false.
Proof. exists ["FOO=1"], ["FOO=2"]. split; vm_compute; reflexivity. Qed.
