(* ConfigureDefault.v — the package-level default cache is an ordinary cache: creating it through cdi.Configure or
   GetDefaultCache is NewCache with those options, configuring it afterwards is Cache.Configure (C20: default_cache_same). *)
From Coq Require Import String Ascii List Bool Arith Lia.
From CDI Require Import Base Paths Configure ConfigureProofs ConfigureRes ConfigureSim ConfigureEquiv.
Import ListNotations.
Open Scope string_scope.

(* the same history written with explicit-cache operations *)
Fixpoint explicit (created : bool) (ops : list op) : list op :=
  match ops with
  | [] => []
  | DefaultConfigure os :: r => (if created then Configure os else New os) :: explicit true r
  | DefaultGet :: r => New [] :: explicit true r
  | New os :: r => New os :: explicit true r
  | o :: r => o :: explicit created r
  end.

Lemma default_get_step w : step w DefaultGet = step w (New []).
Proof. cbn [step]. destruct (cache w); reflexivity. Qed.

Lemma default_configure_step w os :
  step w (DefaultConfigure os) = if is_some (cache w) then step w (Configure os) else step w (New os).
Proof. cbn [step]. destruct (cache w); cbn [is_some]; [destruct os|]; reflexivity. Qed.

Lemma configure_cache_some w c os : is_some (cache (configure w c os)) = true.
Proof.
  unfold configure.
  destruct (stop w _) as [w2 c2]. destruct (auto c2); [destruct (setup w2 c2) as [w' c']|]; reflexivity.
Qed.

Lemma step_created w o :
  is_some (cache (fst (step w o))) =
  match o with
  | New _ | DefaultConfigure _ | DefaultGet => true
  | _ => is_some (cache w)
  end.
Proof.
  destruct o; cbn [step fst]; destruct (cache w) as [c|] eqn:C; cbn [fst is_some];
    unfold new_cache; rewrite ?C, ?configure_cache_some; cbn [is_some]; try reflexivity.
  - destruct os; rewrite ?C, ?configure_cache_some; reflexivity.
  - destruct (fires (fs w) f) as [[d self]|]; [destruct (live w c && is_tracked c d)|]; reflexivity.
  - destruct os; rewrite ?C, ?configure_cache_some; reflexivity.
Qed.

Lemma default_cache_same ops : forall w,
  run w ops = run w (explicit (is_some (cache w)) ops) /\
  run_outs w ops = run_outs w (explicit (is_some (cache w)) ops).
Proof.
  induction ops as [|o r IH]; intros w; [cbn; auto|].
  pose proof (step_created w o) as SC.
  destruct (IH (fst (step w o))) as (E1 & E2). rewrite SC in E1, E2. clear SC.
  cbn [run_outs]. change (run w (o :: r)) with (run (fst (step w o)) r). rewrite E1, E2. clear E1 E2.
  destruct o; cbn [explicit]; try (split; reflexivity).
  - (* DefaultConfigure *)
    rewrite default_configure_step. destruct (is_some (cache w)); split; reflexivity.
Qed.
