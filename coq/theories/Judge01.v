(* Judge01.v — evaluation of harness cases for C01 (precedence, listings) and C13 (fault isolation, error report). *)
From Coq Require Import String Ascii List Bool Arith ZArith.
From CDI Require Import Base SpecModel Parser Paths Oci Apply Cache.
Import ListNotations.
Open Scope string_scope.

(* what the harness observes through the query API after a refresh *)
Record obs01 := mkObs01 {
  ob_devices : list string;                                   (* ListDevices() *)
  ob_probes : list (string * option (string * nat * string)); (* GetDevice(n) for every probed n: Spec path, priority, fingerprint *)
  ob_vendors : list string; ob_classes : list string;
  ob_vspecs : list (string * list (string * nat));            (* GetVendorSpecs(v): path, priority, in order *)
  ob_errkeys : list string;                                   (* keys of GetErrors() that are Spec files *)
  ob_referr : bool;                                           (* Refresh() returned an error *)
  ob_auto : bool;                                             (* the cache is in automatic refresh mode now *)
  ob_direrrs : list string;                                   (* keys of GetSpecDirErrors() *)
  ob_specerrs : list string;                                  (* paths of the cached Specs s with GetSpecErrors(s) non-empty *)
  ob_allerrs : list string }.                                 (* every key of GetErrors() *)
Inductive case01 := Case01 (fs : fsview) (o : obs01).

Definition fingerprint (d : device) : string := hd "" (e_env (d_edits d)).
Definition proj_dev (o : option cdev) : option (string * nat * string) :=
  match o with Some cd => Some (lf_path (cd_file cd), lf_prio (cd_file cd), fingerprint (cd_dev cd)) | None => None end.
Definition probe_eqb := option_eqb (fun a b : string * nat * string =>
  String.eqb (fst (fst a)) (fst (fst b)) && Nat.eqb (snd (fst a)) (snd (fst b)) && String.eqb (snd a) (snd b)).
Definition pn_eqb (a b : string * nat) : bool := String.eqb (fst a) (fst b) && Nat.eqb (snd a) (snd b).
Definition proj_files (l : list lfile) : list (string * nat) := map (fun f => (lf_path f, lf_prio f)) l.

(* directory-level entries: in automatic refresh mode exactly the configured directories that cannot be watched because they
   are missing or lie below a non-directory (a configured path which is a file can be watched); none in manual mode, whatever
   the cache went through *)
Definition expected_direrrs (fs : fsview) (auto : bool) : list string :=
  if auto then sort_strings (dedup_s (map fst (filter (fun d => match snd d with DMissing | DUnscannable => true | _ => false end) fs))) else [].

(* the cached Specs (every vendor) whose path has an entry in the error report *)
Definition spec_err_paths (c : cache) : list string :=
  sort_strings (dedup_s (filter (fun p => mem_s p (c_errs c)) (map lf_path (flat_map snd (c_specs c))))).

(* the model's answers equal the observed ones *)
Definition corr01 (c : case01) : bool :=
  match c with
  | Case01 fs o =>
      let ch := refresh fs in
      ls_eqb (list_devices ch) (ob_devices o) &&
      forallb (fun p => probe_eqb (proj_dev (get_device ch (fst p))) (snd p)) (ob_probes o) &&
      ls_eqb (list_vendors ch) (ob_vendors o) && ls_eqb (list_classes ch) (ob_classes o) &&
      forallb (fun vs => list_eqb pn_eqb (proj_files (vendor_specs (c_specs ch) (fst vs))) (snd vs)) (ob_vspecs o) &&
      ls_eqb (error_keys ch) (ob_errkeys o) && Bool.eqb (refresh_fails ch) (ob_referr o) &&
      ls_eqb (expected_direrrs fs (ob_auto o)) (ob_direrrs o) &&
      ls_eqb (spec_err_paths ch) (ob_specerrs o)
  end.

(* sort a list of (path, prio) for the order-insensitive comparison of the oracle *)
Fixpoint insert_pn (x : string * nat) (l : list (string * nat)) : list (string * nat) :=
  match l with
  | [] => [x]
  | y :: r => if str_ltb (fst y) (fst x) || (String.eqb (fst y) (fst x) && Nat.ltb (snd y) (snd x)) then y :: insert_pn x r else x :: l
  end.
Definition sort_pn (l : list (string * nat)) := fold_right insert_pn [] l.

(* the property, evaluated on the OBSERVED answers against the declarative specification *)
Definition oracle01 (c : case01) : bool :=
  match c with
  | Case01 fs o =>
      let files := scan fs in
      let fl := loaded files in
      (* a name resolves iff exactly one file defines it at the highest priority among its definers, and to that definition *)
      forallb (fun p => probe_eqb (proj_dev (resolve_spec fl (fst p))) (snd p)) (ob_probes o) &&
      (* the listings are exactly those derivable from the valid Spec files present *)
      ls_eqb (ob_devices o) (resolvable fl) &&
      ls_eqb (ob_vendors o) (sort_strings (dedup_s (map vendor_of fl))) &&
      ls_eqb (ob_classes o) (sort_strings (dedup_s (map class_of fl))) &&
      forallb (fun vs => list_eqb pn_eqb (sort_pn (snd vs))
                           (sort_pn (proj_files (filter (fun f => String.eqb (vendor_of f) (fst vs)) fl)))) (ob_vspecs o) &&
      ls_eqb (ob_vendors o) (sort_strings (map fst (ob_vspecs o))) &&
      (* C13: every failing file, and every file in a same-priority conflict, has an error entry; nothing else has *)
      ls_eqb (ob_errkeys o) (expected_error_keys files) &&
      Bool.eqb (ob_referr o) (match expected_error_keys files with [] => false | _ => true end) &&
      (* an entry for a directory is there exactly while its cause is (C13: it disappears at the first refresh afterwards) *)
      ls_eqb (ob_direrrs o) (expected_direrrs fs (ob_auto o)) &&
      (* GetSpecErrors answers with errors exactly for the loaded files which have an entry (those in a conflict) *)
      ls_eqb (ob_specerrs o)
             (sort_strings (dedup_s (filter (fun p => mem_s p (expected_error_keys files)) (map lf_path fl)))) &&
      (* the error report holds the entries of the Spec files and those of the directories, nothing else *)
      ls_eqb (ob_allerrs o) (sort_strings (dedup_s (ob_errkeys o ++ ob_direrrs o)%list))
  end.

Definition judge01 (cases : list case01) : list nat * list nat :=
  (bad_indices corr01 0 cases, bad_indices oracle01 0 cases).
