(* ValidateProofs.v — C05: the code-shaped validator equals the declarative well-formedness
   predicate, never panics; the boolean oracle decides the same predicate; every single defect, at
   every position, rejects the Spec. *)
From Coq Require Import String Ascii List Bool Arith NArith ZArith Lia.
From CDI Require Import Base SpecModel Doc Decode DecodeProofs Parser ParserProofs PathsProofs Version VersionProofs
  Annotations Validate.
Import ListNotations.
Open Scope string_scope.

(* ---------------- small facts ---------------- *)
Lemma unit_result_ok (r : result unit) : r <> Err -> r <> Panic -> r = Ok tt.
Proof. destruct r as [[]| |]; congruence. Qed.

Lemma bind_unit_ok (r : result unit) (f : unit -> result unit) :
  bind r f = Ok tt <-> r = Ok tt /\ f tt = Ok tt.
Proof.
  destruct r as [[]| |]; cbn; split; try tauto; try discriminate; intros [H _]; discriminate.
Qed.

Lemma if_err_ok (b : bool) : (if b then Err else Ok tt) = Ok tt <-> b = false.
Proof. destruct b; split; congruence. Qed.
Lemma if_ok_err (b : bool) : (if b then Ok tt else Err) = Ok tt <-> b = true.
Proof. destruct b; split; congruence. Qed.

Lemma mem_s_in x l : mem_s x l = true <-> In x l.
Proof.
  unfold mem_s. rewrite existsb_exists. split.
  - intros (y & Hin & E). apply String.eqb_eq in E. subst. exact Hin.
  - intro H. exists x. split; [exact H|apply String.eqb_refl].
Qed.

Lemma eqb_empty_iff s : String.eqb s "" = false <-> s <> "".
Proof. rewrite String.eqb_neq. tauto. Qed.

Lemma forallb_s_contains p s : forallb_s p s = true <-> forall c, contains c s = true -> p c = true.
Proof.
  induction s as [|a r IH]; cbn.
  - split; [intros _ c H; discriminate|reflexivity].
  - rewrite andb_true_iff, IH. split.
    + intros [Ha Hr] c H. apply orb_true_iff in H as [H|H]; [apply Ascii.eqb_eq in H; subst; exact Ha|auto].
    + intro H. split; [apply H; rewrite Ascii.eqb_refl; reflexivity|].
      intros c Hc. apply H. rewrite Hc. apply orb_true_r.
Qed.

Lemma existsb_s_negb p s : negb (existsb_s (fun c => negb (p c)) s) = forallb_s p s.
Proof. induction s as [|a r IH]; cbn; [reflexivity|]. rewrite negb_orb, negb_involutive, IH. reflexivity. Qed.

Lemma contains_existsb_s x s : contains x s = existsb_s (fun c => Ascii.eqb c x) s.
Proof. induction s as [|a r IH]; cbn; congruence. Qed.
Lemma existsb_s_or p q s : existsb_s (fun c => p c || q c) s = existsb_s p s || existsb_s q s.
Proof.
  induction s as [|a r IH]; cbn; [reflexivity|]. rewrite IH.
  destruct (p a), (q a), (existsb_s p r), (existsb_s q r); reflexivity.
Qed.

(* ---------------- env entries ---------------- *)
Lemma env_entry_ok_iff v : env_entry_ok v = true <-> EnvOK v.
Proof.
  unfold env_entry_ok, EnvOK. split.
  - destruct (split_first "=" v) as [[n val]|] eqn:E; [|discriminate].
    destruct n as [|c n']; [discriminate|]. intros _.
    apply split_first_spec in E as [-> Hn]. exists (String c n'), val. repeat split; [discriminate|exact Hn].
  - intros (n & val & -> & Hne & Hn). rewrite (split_first_complete _ _ _ Hn).
    destruct n; [congruence|reflexivity].
Qed.

Lemma env_ok_b_eq v : env_ok_b v = env_entry_ok v.
Proof.
  unfold env_ok_b, env_entry_ok. destruct v as [|c r]; [reflexivity|]. cbn [split_first contains].
  destruct (Ascii.eqb c "=") eqn:E; cbn [negb andb orb]; [reflexivity|].
  destruct (split_first "=" r) as [[a b]|] eqn:E2.
  - assert (contains "=" r = true) as ->; [|reflexivity].
    destruct (contains "=" r) eqn:C; [reflexivity|]. apply split_first_none in C. congruence.
  - apply split_first_none in E2. rewrite E2. reflexivity.
Qed.

Lemma forallb_Forall {A} (p : A -> bool) (P : A -> Prop) l :
  (forall x, p x = true <-> P x) -> forallb p l = true <-> Forall P l.
Proof.
  intro H. rewrite forallb_forall, Forall_forall. split; intros G x Hx; apply H; auto.
Qed.

Lemma validate_env_iff env : validate_env env = Ok tt <-> Forall EnvOK env.
Proof. unfold validate_env. rewrite if_ok_err. apply forallb_Forall. apply env_entry_ok_iff. Qed.
Lemma env_ok_b_iff env : forallb env_ok_b env = true <-> Forall EnvOK env.
Proof. apply forallb_Forall. intro v. rewrite env_ok_b_eq. apply env_entry_ok_iff. Qed.

(* ---------------- device nodes, hooks, mounts, RDT ---------------- *)
Lemma perm_char_iff c : perm_char c = true <-> In c ["r"%char; "w"%char; "m"%char].
Proof.
  unfold perm_char. rewrite !orb_true_iff, !Ascii.eqb_eq. cbn. intuition congruence.
Qed.

Lemma perms_iff s : forallb_s perm_char s = true <-> chars_among ["r"%char; "w"%char; "m"%char] s.
Proof.
  rewrite forallb_s_contains. unfold chars_among. split; intros H c Hc; apply perm_char_iff; auto.
Qed.

Lemma validate_devnode_iff o : validate_devnode o = Ok tt <-> exists d, o = Some d /\ DevNodeOK d.
Proof.
  destruct o as [d|]; cbn [validate_devnode].
  2:{ split; [discriminate|]. intros (d & E & _). discriminate. }
  destruct (String.eqb (dn_path d) "") eqn:Ep.
  { apply String.eqb_eq in Ep. split; [discriminate|]. intros (d' & E & [Hp _ _]). inversion E; subst. congruence. }
  destruct (mem_s (dn_type d) node_types) eqn:Et; cbn [negb].
  2:{ split; [discriminate|]. intros (d' & E & [_ Ht _]). inversion E; subst.
      apply mem_s_in in Ht. unfold node_types in Et. congruence. }
  destruct (forallb_s perm_char (dn_perms d)) eqn:Em; cbn [negb].
  2:{ split; [discriminate|]. intros (d' & E & [_ _ Hm]). inversion E; subst. apply perms_iff in Hm. congruence. }
  split; [|reflexivity]. intros _. exists d. split; [reflexivity|]. constructor.
  - apply eqb_empty_iff. exact Ep.
  - apply mem_s_in. exact Et.
  - apply perms_iff. exact Em.
Qed.

Lemma existsb_eqb_in x l : existsb (String.eqb x) l = true <-> In x l.
Proof. exact (mem_s_in x l). Qed.

Lemma devnode_ok_b_iff d : devnode_ok_b d = true <-> DevNodeOK d.
Proof.
  unfold devnode_ok_b. rewrite !andb_true_iff, negb_true_iff, eqb_empty_iff, existsb_eqb_in.
  assert (E' : forall s, forallb_s (fun c => existsb (Ascii.eqb c) ["r"%char; "w"%char; "m"%char]) s = forallb_s perm_char s).
  { induction s as [|a r IH]; cbn [forallb_s]; [reflexivity|]. rewrite IH. f_equal. unfold perm_char. cbn [existsb]. rewrite orb_false_r, orb_assoc. reflexivity. }
  rewrite existsb_s_negb, E', perms_iff. split.
  - intros [[H1 H2] H3]. constructor; assumption.
  - intros [H1 H2 H3]. auto.
Qed.

Lemma validate_hook_iff o : validate_hook o = Ok tt <-> exists h, o = Some h /\ HookOK h.
Proof.
  destruct o as [h|]; cbn [validate_hook].
  2:{ split; [discriminate|]. intros (d & E & _). discriminate. }
  destruct (mem_s (h_name h) hook_names) eqn:En; cbn [negb].
  2:{ split; [discriminate|]. intros (h' & E & [Hn _ _]). inversion E; subst. apply mem_s_in in Hn. unfold hook_names in En. congruence. }
  destruct (String.eqb (h_path h) "") eqn:Ep.
  { apply String.eqb_eq in Ep. split; [discriminate|]. intros (h' & E & [_ Hp _]). inversion E; subst. congruence. }
  rewrite validate_env_iff. split.
  - intro He. exists h. split; [reflexivity|]. constructor; [apply mem_s_in; exact En|apply eqb_empty_iff; exact Ep|exact He].
  - intros (h' & E & [_ _ He]). inversion E; subst. exact He.
Qed.

Lemma hook_ok_b_iff h : hook_ok_b h = true <-> HookOK h.
Proof.
  unfold hook_ok_b. rewrite !andb_true_iff, negb_true_iff, eqb_empty_iff, existsb_eqb_in, env_ok_b_iff. split.
  - intros [[H1 H2] H3]. constructor; assumption.
  - intros [H1 H2 H3]. auto.
Qed.

Lemma validate_mount_iff o : validate_mount o = Ok tt <-> exists m, o = Some m /\ MountOK m.
Proof.
  destruct o as [m|]; cbn [validate_mount].
  2:{ split; [discriminate|]. intros (d & E & _). discriminate. }
  destruct (String.eqb (m_host m) "") eqn:Eh.
  { apply String.eqb_eq in Eh. split; [discriminate|]. intros (m' & E & [Hh _]). inversion E; subst. congruence. }
  destruct (String.eqb (m_ctr m) "") eqn:Ec.
  { apply String.eqb_eq in Ec. split; [discriminate|]. intros (m' & E & [_ Hc]). inversion E; subst. congruence. }
  split; [|reflexivity]. intros _. exists m. split; [reflexivity|].
  constructor; apply eqb_empty_iff; assumption.
Qed.

Lemma mount_ok_b_iff m : mount_ok_b m = true <-> MountOK m.
Proof.
  unfold mount_ok_b. rewrite andb_true_iff, !negb_true_iff, !eqb_empty_iff. split.
  - intros [H1 H2]. constructor; assumption.
  - intros [H1 H2]. auto.
Qed.

Lemma validate_rdt_iff r : validate_rdt r = Ok tt <-> RdtOK r.
Proof.
  unfold validate_rdt. rewrite if_err_ok, !orb_false_iff, N.leb_gt, !String.eqb_neq. unfold len_N. split.
  - intros [[[[H1 H2] H3] H4] H5]. constructor; assumption.
  - intros [H1 H2 H3 H4 H5]. auto.
Qed.

Lemma rdt_ok_b_iff r : rdt_ok_b r = true <-> RdtOK r.
Proof.
  unfold rdt_ok_b. rewrite !andb_true_iff, !negb_true_iff, N.ltb_lt, !String.eqb_neq, existsb_s_or, orb_false_iff,
    <- !contains_existsb_s. split.
  - intros [[[H1 H2] H3] [H4 H5]]. constructor; assumption.
  - intros [H1 H2 H3 H4 H5]. auto.
Qed.

(* ---------------- lists of validated entries ---------------- *)
Lemma validate_all_iff {A} (f : A -> result unit) l :
  validate_all f l = Ok tt <-> Forall (fun x => f x = Ok tt) l.
Proof.
  induction l as [|x r IH]; cbn.
  - split; [constructor|reflexivity].
  - rewrite bind_unit_ok, IH. split.
    + intros [H1 H2]. constructor; assumption.
    + intro H. inversion H; subst. auto.
Qed.

Lemma validate_all_np {A} (f : A -> result unit) l : (forall x, f x <> Panic) -> validate_all f l <> Panic.
Proof.
  intro H. induction l as [|x r IH]; cbn; [discriminate|]. apply bind_np; [apply H|intro; exact IH].
Qed.

Lemma all_present_iff {A} (f : option A -> result unit) (P : A -> Prop) l :
  (forall o, f o = Ok tt <-> exists a, o = Some a /\ P a) ->
  validate_all f l = Ok tt <-> AllPresent P l.
Proof.
  intro H. rewrite validate_all_iff, Forall_forall. unfold AllPresent. split; intros G x Hx; apply H; auto.
Qed.

Lemma all_present_b_iff {A} (p : A -> bool) (P : A -> Prop) l :
  (forall a, p a = true <-> P a) -> all_present_b p l = true <-> AllPresent P l.
Proof.
  intro H. unfold all_present_b, AllPresent. rewrite forallb_forall. split.
  - intros G x Hx. specialize (G x Hx). destruct x as [a|]; [|discriminate]. exists a. split; [reflexivity|apply H; exact G].
  - intros G x Hx. destruct (G x Hx) as (a & -> & Pa). apply H. exact Pa.
Qed.

(* ---------------- container edits ---------------- *)
Lemma validate_edits_iff e : validate_edits e = Ok tt <-> EditsOK e.
Proof.
  unfold validate_edits.
  rewrite !bind_unit_ok, validate_env_iff, (all_present_iff _ DevNodeOK _ validate_devnode_iff),
    (all_present_iff _ HookOK _ validate_hook_iff), (all_present_iff _ MountOK _ validate_mount_iff).
  split.
  - intros (H1 & H2 & H3 & H4 & H5). constructor; try assumption.
    intros r Hr. rewrite Hr in H5. apply validate_rdt_iff. exact H5.
  - intros [H1 H2 H3 H4 H5]. repeat split; try assumption.
    destruct (e_rdt e) as [r|]; [apply validate_rdt_iff; apply H5; reflexivity|reflexivity].
Qed.

Lemma edits_ok_b_iff e : edits_ok_b e = true <-> EditsOK e.
Proof.
  unfold edits_ok_b.
  rewrite !andb_true_iff, env_ok_b_iff, (all_present_b_iff _ DevNodeOK _ devnode_ok_b_iff),
    (all_present_b_iff _ HookOK _ hook_ok_b_iff), (all_present_b_iff _ MountOK _ mount_ok_b_iff).
  split.
  - intros [[[[H1 H2] H3] H4] H5]. constructor; try assumption.
    intros r Hr. rewrite Hr in H5. apply rdt_ok_b_iff. exact H5.
  - intros [H1 H2 H3 H4 H5]. repeat split; try assumption.
    destruct (e_rdt e) as [r|]; [apply rdt_ok_b_iff; apply H5; reflexivity|reflexivity].
Qed.

Lemma edits_empty_iff e : edits_empty e = false <-> NonEmptyEdits e.
Proof.
  unfold edits_empty, NonEmptyEdits.
  destruct (e_env e), (e_nodes e), (e_hooks e), (e_mounts e), (e_gids e), (e_rdt e); split; intro H;
    try reflexivity; try discriminate;
    try (intuition congruence);
    try (left; discriminate); try (right; left; discriminate); try (right; right; left; discriminate);
    try (right; right; right; left; discriminate); try (right; right; right; right; left; discriminate);
    try (right; right; right; right; right; discriminate).
Qed.

Lemma nonempty_edits_b_iff e : nonempty_edits_b e = true <-> NonEmptyEdits e.
Proof.
  unfold nonempty_edits_b, NonEmptyEdits. rewrite !orb_true_iff, !nonempty_iff.
  assert (E : is_some (e_rdt e) = true <-> e_rdt e <> None).
  { destruct (e_rdt e); cbn; split; congruence. }
  rewrite E. tauto.
Qed.

Lemma validate_edits_np e : validate_edits e <> Panic.
Proof.
  unfold validate_edits.
  apply bind_np; [unfold validate_env; destruct (forallb _ _); discriminate|intro].
  apply bind_np; [apply validate_all_np; intros [d|]; cbn; [|discriminate];
    destruct (String.eqb _ _); [discriminate|]; destruct (negb _); [discriminate|]; destruct (negb _); discriminate|intro].
  apply bind_np; [apply validate_all_np; intros [h|]; cbn; [|discriminate];
    destruct (negb _); [discriminate|]; destruct (String.eqb _ _); [discriminate|];
    unfold validate_env; destruct (forallb _ _); discriminate|intro].
  apply bind_np; [apply validate_all_np; intros [m|]; cbn; [|discriminate];
    destruct (String.eqb _ _); [discriminate|]; destruct (String.eqb _ _); discriminate|intro].
  destruct (e_rdt e); [|discriminate]. unfold validate_rdt. destruct (_ || _); discriminate.
Qed.

(* ---------------- Kubernetes qualified names ---------------- *)
Lemma split_all_cases sep s :
  (contains sep s = false /\ split_all sep s = [s]) \/
  (exists a b, s = a ++ String sep b /\ contains sep a = false /\ split_all sep s = a :: split_all sep b).
Proof.
  destruct (split_first sep s) as [[a b]|] eqn:E.
  - right. apply split_first_spec in E as [-> Ha]. exists a, b. repeat split; [exact Ha|apply split_all_app; exact Ha].
  - left. apply split_first_none in E. split; [exact E|apply split_all_nosep; exact E].
Qed.

Lemma join_split sep s : join_with (String sep "") (split_all sep s) = s.
Proof.
  remember (String.length s) as n eqn:Hn. revert s Hn.
  induction n as [n IH] using lt_wf_ind. intros s Hn.
  destruct (split_all_cases sep s) as [[_ ->]|(a & b & -> & Ha & ->)]; [reflexivity|].
  assert (Hb : join_with (String sep "") (split_all sep b) = b).
  { apply (IH (String.length b)); [|reflexivity]. subst n. rewrite length_app. cbn. lia. }
  destruct (split_all sep b) as [|x r] eqn:Eb; [exfalso; exact (split_all_nonnil _ _ Eb)|].
  change (join_with (String sep "") (a :: x :: r)) with (a ++ String sep "" ++ join_with (String sep "") (x :: r)).
  rewrite Hb. reflexivity.
Qed.

Lemma contains_app_sep x a b : contains x (a ++ String x b) = true.
Proof. rewrite contains_app. cbn. rewrite Ascii.eqb_refl. cbn. apply orb_true_r. Qed.

Lemma first_split_unique sep a b a' b' :
  contains sep a = false -> contains sep a' = false -> a ++ String sep b = a' ++ String sep b' -> a = a' /\ b = b'.
Proof.
  intros Ha Ha' E. pose proof (split_first_complete sep a b Ha) as H1.
  rewrite E, (split_first_complete sep a' b' Ha') in H1. inversion H1; subst. auto.
Qed.

Lemma alnum_vc_mid' c : is_alnum c = true -> vc_mid c = true.
Proof. unfold vc_mid. intros ->. reflexivity. Qed.

Lemma k8s_name_no_slash n : Shape is_alnum vc_mid is_alnum n -> contains "/" n = false.
Proof.
  intro H. apply (forallb_not_contains vc_mid); [|reflexivity].
  apply (shape_forall _ _ _ vc_mid _ H); auto using alnum_vc_mid'.
Qed.

Lemma lower_alnum_dns_mid c : lower_alnum c = true -> dns_mid c = true.
Proof. unfold dns_mid. intros ->. reflexivity. Qed.

Lemma dns_label_chars l : DnsLabel l -> forallb_s dns_mid l = true.
Proof. intro H. apply (shape_forall _ _ _ dns_mid _ H); auto using lower_alnum_dns_mid. Qed.
Lemma dns_label_no_dot l : DnsLabel l -> contains "." l = false.
Proof. intro H. apply (forallb_not_contains dns_mid); [apply dns_label_chars; exact H|reflexivity]. Qed.
Lemma dns_label_no_slash l : DnsLabel l -> contains "/" l = false.
Proof. intro H. apply (forallb_not_contains dns_mid); [apply dns_label_chars; exact H|reflexivity]. Qed.

Lemma contains_join x sep labels :
  Ascii.eqb sep x = false -> Forall (fun l => contains x l = false) labels ->
  contains x (join_with (String sep "") labels) = false.
Proof.
  intros Hs H. induction labels as [|l r IH]; [reflexivity|]. inversion H as [|? ? Hl Hr]; subst.
  destruct r as [|l2 r2]; [exact Hl|].
  change (join_with (String sep "") (l :: l2 :: r2)) with (l ++ String sep "" ++ join_with (String sep "") (l2 :: r2)).
  rewrite contains_app, Hl. cbn [append contains orb]. rewrite Hs. cbn. apply IH. exact Hr.
Qed.

Lemma dns_subdomain_no_slash p : DnsSubdomain p -> contains "/" p = false.
Proof.
  intros (_ & labels & _ & -> & H). apply contains_join; [reflexivity|].
  eapply Forall_impl; [|exact H]. apply dns_label_no_slash.
Qed.

Lemma dns_labels_iff p :
  forallb dns_label_b (split_all "." p) = true <->
  exists labels, labels <> [] /\ p = join_with "." labels /\ Forall DnsLabel labels.
Proof.
  split.
  - intro H. exists (split_all "." p). split; [apply split_all_nonnil|]. split; [symmetry; apply join_split|].
    apply (forallb_Forall dns_label_b DnsLabel); [|exact H]. intro l. apply shape_b_iff.
  - intros (labels & Hne & -> & H).
    rewrite (split_join "." labels Hne).
    + apply (forallb_Forall dns_label_b DnsLabel); [|exact H]. intro l. apply shape_b_iff.
    + eapply Forall_impl; [|exact H]. apply dns_label_no_dot.
Qed.

Lemma dns_subdomain_b_iff p : dns_subdomain_b p = true <-> DnsSubdomain p.
Proof.
  unfold dns_subdomain_b, DnsSubdomain. rewrite andb_true_iff, Nat.leb_le, dns_labels_iff. tauto.
Qed.

Lemma dns_subdomain_nonempty p : DnsSubdomain p -> p <> "".
Proof.
  intros (_ & labels & Hne & -> & H). destruct labels as [|l r]; [congruence|].
  inversion H as [|? ? Hl Hr]; subst. pose proof (shape_nonempty _ _ _ _ Hl) as Hl'.
  destruct r; cbn; [exact Hl'|]. destruct l; [congruence|discriminate].
Qed.

Lemma k8s_name_iff n : Nat.leb (String.length n) 63 && k8s_name_b n = true <-> K8sName n.
Proof.
  unfold K8sName, k8s_name_b. rewrite andb_true_iff, Nat.leb_le, shape_b_iff. tauto.
Qed.

Theorem k8s_qualified_iff k : k8s_qualified_b k = true <-> QualKey k.
Proof.
  unfold k8s_qualified_b, QualKey.
  destruct (split_all_cases "/" k) as [[Hk ->]|(a & b & -> & Ha & ->)].
  - rewrite k8s_name_iff. split; [auto|]. intros [H|(p & n & -> & _)]; [exact H|].
    rewrite contains_app_sep in Hk. discriminate.
  - destruct (split_all_cases "/" b) as [[Hb ->]|(a2 & b2 & -> & Ha2 & ->)].
    + rewrite <- !andb_assoc, !andb_true_iff, negb_true_iff, eqb_empty_iff, dns_subdomain_b_iff, <- andb_true_iff, k8s_name_iff.
      split.
      * intros (_ & Hp & Hn). right. exists a, b. auto.
      * intros [[Hs _]|(p & n & E & Hp & Hn)].
        { apply k8s_name_no_slash in Hs. rewrite contains_app_sep in Hs. discriminate. }
        destruct Hn as [Hs Hl]. pose proof (k8s_name_no_slash _ Hs) as Hns.
        destruct (first_split_unique "/" a b p n Ha (dns_subdomain_no_slash _ Hp) E) as [-> ->].
        split; [apply dns_subdomain_nonempty; exact Hp|]. split; [exact Hp|split; assumption].
    + destruct (split_all "/" b2) as [|x r] eqn:Eb; [exfalso; exact (split_all_nonnil _ _ Eb)|].
      split; [discriminate|].
      intros [[Hs _]|(p & n & E & Hp & [Hs _])].
      * apply k8s_name_no_slash in Hs. rewrite contains_app_sep in Hs. discriminate.
      * apply k8s_name_no_slash in Hs.
        destruct (first_split_unique "/" a (a2 ++ String "/" b2) p n Ha (dns_subdomain_no_slash _ Hp) E) as [_ <-].
        rewrite contains_app_sep in Hs. discriminate.
Qed.

Lemma k8s_name_ok_b_iff n : k8s_name_ok_b n = true <-> K8sName n.
Proof. unfold k8s_name_ok_b, K8sName. rewrite andb_true_iff, Nat.leb_le, shape_b_iff. tauto. Qed.

Lemma dns_sub_ok_b_iff p : dns_sub_ok_b p = true <-> DnsSubdomain p.
Proof.
  unfold dns_sub_ok_b, DnsSubdomain. rewrite andb_true_iff, Nat.leb_le.
  change (forallb (shape_b lower_alnum dns_mid lower_alnum) (split_all "." p)) with (forallb dns_label_b (split_all "." p)).
  rewrite dns_labels_iff. tauto.
Qed.

Theorem qual_key_b_iff k : qual_key_b k = true <-> QualKey k.
Proof.
  unfold qual_key_b, QualKey. rewrite orb_true_iff, k8s_name_ok_b_iff, existsb_exists. split.
  - intros [H|((p & n) & Hin & H)]; [left; exact H|right].
    apply splits_spec in Hin. cbn in H. apply andb_true_iff in H as [Hp Hn].
    exists p, n. split; [exact Hin|]. split; [apply dns_sub_ok_b_iff; exact Hp|apply k8s_name_ok_b_iff; exact Hn].
  - intros [H|(p & n & E & Hp & Hn)]; [left; exact H|right].
    exists (p, n). split; [apply splits_spec; exact E|]. cbn.
    apply andb_true_iff. split; [apply dns_sub_ok_b_iff; exact Hp|apply k8s_name_ok_b_iff; exact Hn].
Qed.

(* ---------------- annotations ---------------- *)
Lemma annot_keys_iff (p : string -> bool) (a : annots) :
  (forall k, p k = true <-> QualKey k) ->
  forallb (fun kv => p (go_lower (fst kv))) a = true <-> (forall k v, In (k, v) a -> QualKey (go_lower k)).
Proof.
  intro H. rewrite forallb_forall. split.
  - intros G k v Hin. apply H. exact (G (k, v) Hin).
  - intros G [k v] Hin. apply H. exact (G k v Hin).
Qed.

Lemma validate_annotations_iff a : validate_annotations a = Ok tt <-> AnnotOK a.
Proof.
  unfold validate_annotations. rewrite if_ok_err, andb_true_iff, (annot_keys_iff _ _ k8s_qualified_iff), N.leb_le.
  unfold annot_size_limit. split.
  - intros [H1 H2]. constructor; assumption.
  - intros [H1 H2]. auto.
Qed.

Lemma annot_ok_b_iff a : annot_ok_b a = true <-> AnnotOK a.
Proof.
  unfold annot_ok_b. rewrite andb_true_iff, (annot_keys_iff _ _ qual_key_b_iff), N.leb_le. split.
  - intros [H1 H2]. constructor; assumption.
  - intros [H1 H2]. auto.
Qed.

Lemma validate_annotations_np a : validate_annotations a <> Panic.
Proof. unfold validate_annotations. destruct (_ && _); discriminate. Qed.

(* ---------------- devices ---------------- *)
Lemma validate_device_iff d : validate_device d = Ok tt <-> DeviceOK d.
Proof.
  unfold validate_device. rewrite !bind_unit_ok, validate_dn_iff, validate_annotations_iff. split.
  - intros (H1 & H2 & H3). destruct (edits_empty (d_edits d)) eqn:E; [discriminate|].
    constructor; [exact H1|exact H2|apply edits_empty_iff; exact E|apply validate_edits_iff; exact H3].
  - intros [H1 H2 H3 H4]. split; [exact H1|]. split; [exact H2|]. cbn beta.
    apply edits_empty_iff in H3. rewrite H3. apply validate_edits_iff. exact H4.
Qed.

Lemma device_ok_b_iff d : device_ok_b d = true <-> DeviceOK d.
Proof.
  unfold device_ok_b. rewrite !andb_true_iff, dn_b_iff, annot_ok_b_iff, nonempty_edits_b_iff, edits_ok_b_iff. split.
  - intros [[[H1 H2] H3] H4]. constructor; assumption.
  - intros [H1 H2 H3 H4]. auto.
Qed.

Lemma validate_device_np d : validate_device d <> Panic.
Proof.
  unfold validate_device. apply bind_np; [apply validate_dn_total|intro].
  apply bind_np; [apply validate_annotations_np|intro].
  destruct (edits_empty _); [discriminate|apply validate_edits_np].
Qed.

Lemma validate_devices_iff ds : forall seen,
  validate_devices ds seen = Ok tt <->
  Forall DeviceOK ds /\ NoDup (map d_name ds) /\ (forall d, In d ds -> ~ In (d_name d) seen).
Proof.
  induction ds as [|d r IH]; intro seen; cbn [validate_devices map].
  - split; [intros _; repeat split; [constructor|constructor|intros d []]|reflexivity].
  - rewrite bind_unit_ok, validate_device_iff.
    destruct (mem_s (d_name d) seen) eqn:Em.
    + apply mem_s_in in Em. split; [intros [_ H]; discriminate|].
      intros (_ & _ & H). exfalso. exact (H d (or_introl eq_refl) Em).
    + assert (Hn : ~ In (d_name d) seen) by (rewrite <- mem_s_in; congruence).
      rewrite IH. split.
      * intros (Hd & Hr & Hnd & Hs). split; [constructor; assumption|]. split.
        { constructor; [|exact Hnd]. intro Hin. apply in_map_iff in Hin as (d' & E & Hd').
          apply (Hs d' Hd'). left. symmetry. exact E. }
        intros d' [<-|Hd']; [exact Hn|]. intro Hin. apply (Hs d' Hd'). right. exact Hin.
      * intros (Hf & Hnd & Hs). inversion Hf as [|? ? Hd Hr]; subst. inversion Hnd as [|? ? Hni Hnd']; subst.
        split; [exact Hd|]. split; [exact Hr|]. split; [exact Hnd'|].
        intros d' Hd' [E|Hin]; [|exact (Hs d' (or_intror Hd') Hin)].
        apply Hni. rewrite E. apply in_map. exact Hd'.
Qed.

Lemma validate_devices_np ds : forall seen, validate_devices ds seen <> Panic.
Proof.
  induction ds as [|d r IH]; intro seen; cbn; [discriminate|].
  apply bind_np; [apply validate_device_np|intro]. destruct (mem_s _ _); [discriminate|apply IH].
Qed.

Lemma nodup_b_iff l : nodup_b l = true <-> NoDup l.
Proof.
  induction l as [|x r IH]; cbn.
  - split; [constructor|reflexivity].
  - rewrite andb_true_iff, negb_true_iff, IH. split.
    + intros [H1 H2]. constructor; [|exact H2]. intro Hin. apply existsb_eqb_in in Hin. congruence.
    + intro H. inversion H as [|? ? Hni Hnd]; subst. split; [|exact Hnd].
      destruct (existsb (String.eqb x) r) eqn:E; [|reflexivity]. apply existsb_eqb_in in E. contradiction.
Qed.

(* ---------------- kind ---------------- *)
Lemma kind_iff kind :
  validate_vc (fst (parse_qualifier kind)) = Ok tt /\ validate_vc (snd (parse_qualifier kind)) = Ok tt <-> KindOK kind.
Proof.
  unfold parse_qualifier, KindOK. split.
  - destruct (split_first "/" kind) as [[v c]|] eqn:E.
    + destruct (String.eqb v "" || String.eqb c "") eqn:Ee; cbn [fst snd].
      * intros [H _]. cbn in H. discriminate.
      * intros [Hv Hc]. apply split_first_spec in E as [-> _]. exists v, c.
        split; [reflexivity|]. split; [apply validate_vc_iff; exact Hv|apply validate_vc_iff; exact Hc].
    + cbn [fst snd]. intros [H _]. cbn in H. discriminate.
  - intros (v & c & -> & Hv & Hc).
    rewrite (split_first_complete _ _ _ (VC_no_slash _ Hv)).
    rewrite (eqb_empty_false _ (shape_nonempty _ _ _ _ Hv)), (eqb_empty_false _ (shape_nonempty _ _ _ _ Hc)).
    cbn [orb fst snd]. split; apply validate_vc_iff; assumption.
Qed.

Lemma kind_ok_b_iff kind : kind_ok_b kind = true <-> KindOK kind.
Proof.
  unfold kind_ok_b, KindOK. rewrite existsb_exists. split.
  - intros ((v & c) & Hin & H). apply splits_spec in Hin. cbn in H. apply andb_true_iff in H as [Hv Hc].
    exists v, c. split; [exact Hin|]. split; apply vc_b_iff; assumption.
  - intros (v & c & E & Hv & Hc). exists (v, c). split; [apply splits_spec; exact E|].
    cbn. apply andb_true_iff. split; apply vc_b_iff; assumption.
Qed.

(* ---------------- version ---------------- *)
Lemma version_ok_b_iff s : version_ok_b s = true <-> VersionOK s.
Proof.
  unfold version_ok_b, VersionOK. destruct (declared (s_version s)) as [v|].
  - rewrite negb_true_iff. split.
    + intro H. exists v. auto.
    + intros (v' & E & H). inversion E; subst. exact H.
  - split; [discriminate|]. intros (v' & E & _). discriminate.
Qed.

(* ---------------- the Spec ---------------- *)
Theorem validate_iff_WF s : validate_spec s = Ok tt <-> WF s.
Proof.
  unfold validate_spec. rewrite !bind_unit_ok, version_valid_iff, validate_annotations_iff, validate_edits_iff,
    validate_devices_iff. split.
  - intros (Hv & Hk1 & Hk2 & Ha & He & (Hd & Hn & _) & Hne).
    constructor; try assumption.
    + apply kind_iff. auto.
    + destruct (s_devices s); [discriminate Hne|discriminate].
  - intros [Hv Hk Ha He Hne Hn Hd]. apply kind_iff in Hk as [Hk1 Hk2].
    split; [exact Hv|]. split; [exact Hk1|]. split; [exact Hk2|]. split; [exact Ha|]. split; [exact He|]. split.
    + split; [exact Hd|]. split; [exact Hn|]. intros d _ [].
    + destruct (s_devices s); [congruence|reflexivity].
Qed.

Theorem validate_total s : validate_spec s <> Panic.
Proof.
  unfold validate_spec. apply bind_np; [apply validate_version_total|intro].
  apply bind_np; [apply validate_vc_total|intro]. apply bind_np; [apply validate_vc_total|intro].
  apply bind_np; [apply validate_annotations_np|intro]. apply bind_np; [apply validate_edits_np|intro].
  apply bind_np; [apply validate_devices_np|intro]. destruct (s_devices s); discriminate.
Qed.

Theorem not_WF_rejected s : ~ WF s <-> validate_spec s = Err.
Proof.
  pose proof (validate_total s) as Hp. pose proof (validate_iff_WF s) as Hi. split.
  - intro H. destruct (validate_spec s) as [[]| |] eqn:E; [|reflexivity|congruence].
    exfalso. apply H. apply Hi. reflexivity.
  - intros E H. apply Hi in H. congruence.
Qed.

Theorem wf_b_iff s : wf_b s = true <-> WF s.
Proof.
  unfold wf_b.
  rewrite !andb_true_iff, version_ok_b_iff, kind_ok_b_iff, annot_ok_b_iff, edits_ok_b_iff, nonempty_iff, nodup_b_iff,
    (forallb_Forall _ DeviceOK _ device_ok_b_iff). split.
  - intros [[[[[[H1 H2] H3] H4] H5] H6] H7]. constructor; assumption.
  - intros [H1 H2 H3 H4 H5 H6 H7]. auto 10.
Qed.

(* ---------------- documents ---------------- *)
Theorem accepts_iff_WF d : accepts d = Ok tt <-> exists s, spec_of_doc d = Ok s /\ WF s.
Proof.
  unfold accepts. rewrite bind_ok. split; intros (s & E & H); exists s; (split; [exact E|]); apply validate_iff_WF; exact H.
Qed.

Theorem accepts_total d : accepts d <> Panic.
Proof. unfold accepts. apply bind_np; [apply spec_of_doc_total|apply validate_total]. Qed.

Theorem accepts_cases d : accepts d = Ok tt \/ accepts d = Err.
Proof. pose proof (accepts_total d). destruct (accepts d) as [[]| |]; auto. congruence. Qed.

Theorem unknown_key_not_accepted d : Unknown KSpec d -> accepts d = Err.
Proof. intro U. unfold accepts. rewrite (unknown_key_rejects _ U). reflexivity. Qed.

(* ---------------- documents, with the duplicate-member check of the YAML layer ---------------- *)
Theorem accepts_strict_iff_WF d :
  accepts_strict d = Ok tt <-> ~ HasDup d /\ exists s, spec_of_doc d = Ok s /\ WF s.
Proof.
  unfold accepts_strict, strict_of_doc. rewrite <- has_dup_iff. destruct (has_dup d) eqn:E.
  - cbn. split; [discriminate|]. intros [H _]. exfalso. apply H. reflexivity.
  - fold (accepts d). rewrite accepts_iff_WF. split; [intro H; split; [discriminate|exact H]|intros [_ H]; exact H].
Qed.

Theorem accepts_strict_total d : accepts_strict d <> Panic.
Proof. unfold accepts_strict. apply bind_np; [apply strict_of_doc_total|apply validate_total]. Qed.

Theorem accepts_strict_cases d : accepts_strict d = Ok tt \/ accepts_strict d = Err.
Proof. pose proof (accepts_strict_total d). destruct (accepts_strict d) as [[]| |]; auto. congruence. Qed.

(* two members with the same name in ANY object of the tree: rejected with an error, whatever else the document says *)
Theorem duplicate_key_rejects d : HasDup d -> accepts_strict d = Err.
Proof. intro H. unfold accepts_strict. rewrite (duplicate_key_undecodable _ H). reflexivity. Qed.

Theorem accepts_strict_without_dup d : ~ HasDup d -> accepts_strict d = accepts d.
Proof. intro H. unfold accepts_strict, accepts. rewrite (strict_without_dup _ H). reflexivity. Qed.
