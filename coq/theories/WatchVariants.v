(* WatchVariants.v — the watcher machine of Watch.v instantiated with the behaviours the code had before the
   fixes for D8 (824d7cd) and D13 (4c15c01), and with one further plausible slip; for each a concrete history
   after which the drained machine answers a query differently from a freshly built cache.  Documentation of why
   the two fixes are needed: the statements proved for [fixed_variant] in WatchProofs.v are false for these.
   At the end: the code as it stands with a non-atomic handler (operations between update and refresh). *)
From Coq Require Import String Ascii List Bool.
From CDI Require Import Base Paths Watch.
Import ListNotations.
Open Scope string_scope.

(* pinned code on Linux: Create is not in the event mask (D8) *)
Definition linux_mask_variant : variant := {| v_mask := [Rename; Remove; Write]; v_removed_first := true |}.
(* pinned code: update() marks the removed directories after the re-add loop (D13) *)
Definition old_update_variant : variant := {| v_mask := [Rename; Remove; Write; Create]; v_removed_first := false |}.
(* a slip: Rename dropped from the mask as redundant with Create *)
Definition no_rename_variant : variant := {| v_mask := [Remove; Write; Create]; v_removed_first := true |}.

Definition spec1 : content := CSpec "vendor.com/class" ["dev0"] "t".
Definition one_dir : list dname := ["/etc/cdi"].
Definition empty_dir : fsys := mkfs [("/etc/cdi", [])].

(* a Spec file moved in from outside: one Create event, dropped by the mask *)
Definition witness_linux_mask : list label := [LOp (OMoveIn "/etc/cdi" "a.json" spec1); LDeliver].

(* the directory is removed and re-created with a Spec before the watcher handles the removal; the watcher
   catches up (caching the new content but leaving the directory unwatched); the directory is removed again *)
Definition witness_update_order : list label :=
  [LOp (ORmAll "/etc/cdi"); LOp (OMkdir "/etc/cdi"); LOp (OWrite "/etc/cdi" "b.json" spec1); LDeliver; LOp (ORmAll "/etc/cdi")].

(* a Spec file renamed away: one Rename event *)
Definition witness_no_rename : list label :=
  [LOp (OWrite "/etc/cdi" "a.json" spec1); LDeliver; LDeliver; LOp (OMoveOut "/etc/cdi" "a.json"); LDeliver].

Definition diverges (v : variant) (dirs : list dname) (f : fsys) (ls : list label) : Prop :=
  let s := run v dirs (init dirs f) ls in
  kq s = [] /\ cq s = [] /\ answer dirs (query v dirs s) <> fresh dirs (fs s).

Lemma linux_mask_diverges : diverges linux_mask_variant one_dir empty_dir witness_linux_mask.
Proof. unfold diverges. vm_compute. repeat split; discriminate. Qed.
Lemma update_order_diverges : diverges old_update_variant one_dir empty_dir witness_update_order.
Proof. unfold diverges. vm_compute. repeat split; discriminate. Qed.
Lemma no_rename_diverges : diverges no_rename_variant one_dir empty_dir witness_no_rename.
Proof. unfold diverges. vm_compute. repeat split; discriminate. Qed.

Lemma linux_mask_refuted : exists dirs f ls, diverges linux_mask_variant dirs f ls.
Proof. exists one_dir, empty_dir, witness_linux_mask. exact linux_mask_diverges. Qed.
Lemma update_order_refuted : exists dirs f ls, diverges old_update_variant dirs f ls.
Proof. exists one_dir, empty_dir, witness_update_order. exact update_order_diverges. Qed.
Lemma no_rename_refuted : exists dirs f ls, diverges no_rename_variant dirs f ls.
Proof. exists one_dir, empty_dir, witness_no_rename. exact no_rename_diverges. Qed.

(* the same three histories under the code as it stands: the queues are empty and the query answers like a fresh
   cache, with the concrete (non-empty where applicable) answers shown *)
Lemma fixed_on_witnesses :
  (let s := run fixed_variant one_dir (init one_dir empty_dir) witness_linux_mask in
   kq s = [] /\ cq s = [] /\
   answer one_dir (query fixed_variant one_dir s) = ([("vendor.com/class=dev0", "/etc/cdi/a.json#t")], [])) /\
  (let s := run fixed_variant one_dir (init one_dir empty_dir) witness_update_order in
   let s' := drain fixed_variant one_dir 2 s in
   kq s' = [] /\ cq s' = [] /\ answer one_dir (query fixed_variant one_dir s') = ([], ["/etc/cdi"]) /\
   fresh one_dir (fs s') = ([], ["/etc/cdi"])) /\
  (let s := run fixed_variant one_dir (init one_dir empty_dir) witness_no_rename in
   kq s = [] /\ cq s = [] /\ answer one_dir (query fixed_variant one_dir s) = ([], [])).
Proof. vm_compute. repeat split; reflexivity. Qed.

(* ---------- the code as it stands, with update() and refresh() of one handler run NOT atomic ----------
   In Watch.v the handler's update + refresh is one transition.  In the code both run under the cache lock, which
   excludes queries but not other processes: file-system operations can fall between watcher.Add (in update) and
   the scan (in refresh).  [handle_split] is [handle] with such operations in between (known finding
   C11/add-scan-window, observed on the implementation). *)
Definition handle_split (v : variant) (dirs : list dname) (s : state) (between : list fsop) : state :=
  match cq s with
  | [] => s
  | e :: r =>
      let s1 := mkst (fs s) (kw s) (tr s) (derr s) (kq s) r (cache s) in
      if accepts v e then
        let removed := match e with
                       | EvSelf d => match tr s d with Some true => Some d | _ => None end
                       | Ev _ _ _ => None
                       end in
        refresh dirs (fold_left apply_op between (fst (update v dirs s1 removed)))
      else s1
  end.

Lemma handle_split_nil v dirs s : handle_split v dirs s [] = handle v dirs s.
Proof. reflexivity. Qed.

(* the directory is removed; the watcher handles the removal: Add fails (directory missing), then the directory is
   re-created and populated, then the scan sees the new Spec; the directory, unwatched, is removed again *)
Definition window_pre : list label := [LOp (ORmAll "/etc/cdi"); LRead].
Definition window_between : list fsop := [OMkdir "/etc/cdi"; OWrite "/etc/cdi" "b.json" spec1].
Definition window_post : list label := [LOp (ORmAll "/etc/cdi")].

Definition diverges_split (dirs : list dname) (f : fsys) (pre : list label) (between : list fsop) (post : list label) : Prop :=
  let s0 := run fixed_variant dirs (init dirs f) pre in
  let s := run fixed_variant dirs (handle_split fixed_variant dirs s0 between) post in
  kq s = [] /\ cq s = [] /\ answer dirs (query fixed_variant dirs s) <> fresh dirs (fs s).

Lemma add_scan_window_diverges : diverges_split one_dir empty_dir window_pre window_between window_post.
Proof. unfold diverges_split. vm_compute. repeat split; discriminate. Qed.
Lemma add_scan_window_refuted : exists dirs f pre between post, diverges_split dirs f pre between post.
Proof. exists one_dir, empty_dir, window_pre, window_between, window_post. exact add_scan_window_diverges. Qed.
