(* Conc.v — lock-discipline model for C12 (executable definitions and the interleaving semantics; no proofs).

   A thread is a list of actions over mutexes and guarded variables.  A program is any number of threads,
   each running an arbitrary sequence of *method paths*; the paths of the cache are regenerated from the Go
   source by tools/gen_locks.py into CDIGen.LockGen.  The semantics is the interleaving relation with
   non-reentrant mutexes (sync.Mutex; sync.RWMutex with shared acquisitions; sync.Once.Do is a critical
   section of the once's own mutex).  `Block` stands for every operation that may wait for another thread
   other than a mutex acquisition (channel receive/send, select without default, WaitGroup.Wait, ...).

   Mutex identifiers are their ranks: a thread may only acquire a mutex that is greater than everything it
   holds (this also forbids re-acquiring a held mutex). *)
From Coq Require Import List Bool Arith String.
Import ListNotations.

Definition tid := nat.
Definition mid := nat.
Definition var := nat.

Inductive act :=
| Lock (m : mid) | Unlock (m : mid)
| RLock (m : mid) | RUnlock (m : mid)
| Rd (x : var) | Wr (x : var)
| Block.

Definition memb (m : nat) (l : list nat) : bool := existsb (Nat.eqb m) l.
Definition rem (m : nat) (l : list nat) : list nat := filter (fun k => negb (Nat.eqb m k)) l.
Definition above (m : nat) (l : list nat) : bool := forallb (fun k => Nat.ltb k m) l.
Definition nil_b {A} (l : list A) : bool := match l with [] => true | _ => false end.

(* which mutex protects which variable, as an association list (generated) *)
Definition guard_of (guards : list (var * mid)) (x : var) : option mid :=
  match find (fun g => Nat.eqb (fst g) x) guards with Some g => Some (snd g) | None => None end.

Section Discipline.
  Variable guard : var -> option mid.
  Variable nmut : nat.                       (* mutex identifiers are < nmut *)

  (* The executable checker run on every generated path.  hw: mutexes held exclusively, hr: held shared.
     - an acquisition takes a known mutex that is above everything held (rank order, non-reentrancy);
     - a release releases something held in that mode;
     - a write of a guarded variable needs its mutex exclusively, a read needs it in either mode;
     - a blocking operation is only allowed with nothing held;
     - at the end of the path nothing is held. *)
  Fixpoint wl (hw hr : list mid) (p : list act) : bool :=
    match p with
    | [] => nil_b hw && nil_b hr
    | Lock m :: r => Nat.ltb m nmut && above m hw && above m hr && wl (m :: hw) hr r
    | RLock m :: r => Nat.ltb m nmut && above m hw && above m hr && wl hw (m :: hr) r
    | Unlock m :: r => memb m hw && wl (rem m hw) hr r
    | RUnlock m :: r => memb m hr && wl hw (rem m hr) r
    | Rd x :: r => match guard x with Some m => memb m hw || memb m hr | None => true end && wl hw hr r
    | Wr x :: r => match guard x with Some m => memb m hw | None => true end && wl hw hr r
    | Block :: r => nil_b hw && nil_b hr && wl hw hr r
    end.

  Definition well_locked (p : list act) : Prop := wl [] [] p = true.

  Definition check_paths (ps : list (string * list act)) : bool := forallb (fun np => wl [] [] (snd np)) ps.

  (* first path the checker rejects (for diagnostics in the generated-instance check) *)
  Definition first_bad (ps : list (string * list act)) : option string :=
    match find (fun np => negb (wl [] [] (snd np))) ps with Some np => Some (fst np) | None => None end.

  (* ---- interleaving semantics ---- *)
  Record state := { own : mid -> option tid;       (* exclusive owner *)
                    rdrs : mid -> list tid;        (* threads holding the mutex shared *)
                    thr : tid -> list act }.       (* remaining code of every thread *)

  Definition upd {A} (f : nat -> A) (k : nat) (v : A) : nat -> A := fun n => if Nat.eqb n k then v else f n.

  Inductive step : state -> tid -> act -> state -> Prop :=
  | SLock s i m r : thr s i = Lock m :: r -> own s m = None -> rdrs s m = [] ->
      step s i (Lock m) {| own := upd (own s) m (Some i); rdrs := rdrs s; thr := upd (thr s) i r |}
  | SUnlock s i m r : thr s i = Unlock m :: r ->
      step s i (Unlock m) {| own := upd (own s) m None; rdrs := rdrs s; thr := upd (thr s) i r |}
  | SRLock s i m r : thr s i = RLock m :: r -> own s m = None ->
      step s i (RLock m) {| own := own s; rdrs := upd (rdrs s) m (i :: rdrs s m); thr := upd (thr s) i r |}
  | SRUnlock s i m r : thr s i = RUnlock m :: r ->
      step s i (RUnlock m) {| own := own s; rdrs := upd (rdrs s) m (rem i (rdrs s m)); thr := upd (thr s) i r |}
  | SRd s i x r : thr s i = Rd x :: r ->
      step s i (Rd x) {| own := own s; rdrs := rdrs s; thr := upd (thr s) i r |}
  | SWr s i x r : thr s i = Wr x :: r ->
      step s i (Wr x) {| own := own s; rdrs := rdrs s; thr := upd (thr s) i r |}
  | SBlock s i r : thr s i = Block :: r ->
      step s i Block {| own := own s; rdrs := rdrs s; thr := upd (thr s) i r |}.

  Inductive reach (s0 : state) : state -> Prop :=
  | R0 : reach s0 s0
  | RS s i a s' : reach s0 s -> step s i a s' -> reach s0 s'.

  (* labelled executions *)
  Inductive run : state -> list (tid * act) -> state -> Prop :=
  | run_nil s : run s [] s
  | run_cons s i a s' tr s'' : step s i a s' -> run s' tr s'' -> run s ((i, a) :: tr) s''.

  (* every thread runs a sequence of paths taken from ps; initially no mutex is held *)
  Definition runs_paths (ps : list (list act)) (code : list act) : Prop :=
    exists l, Forall (fun p => In p ps) l /\ code = List.concat l.

  Definition program (ps : list (list act)) (s0 : state) : Prop :=
    (forall m, own s0 m = None) /\ (forall m, rdrs s0 m = []) /\ forall i, runs_paths ps (thr s0 i).

  (* p is q with some accesses left out (the translator drops an access that repeats one made just before
     under the same locks; a thread that makes fewer accesses is covered as well) *)
  Inductive subpath : list act -> list act -> Prop :=
  | sub_nil : subpath [] []
  | sub_keep a p q : subpath p q -> subpath (a :: p) (a :: q)
  | sub_drop_rd x p q : subpath p q -> subpath p (Rd x :: q)
  | sub_drop_wr x p q : subpath p q -> subpath p (Wr x :: q).

  Definition program_sub (ps : list (list act)) (s0 : state) : Prop :=
    (forall m, own s0 m = None) /\ (forall m, rdrs s0 m = []) /\
    forall i, exists l, Forall (fun p => exists q, In q ps /\ subpath p q) l /\ thr s0 i = List.concat l.

  Definition init_ok (s0 : state) : Prop :=
    (forall m, own s0 m = None) /\ (forall m, rdrs s0 m = []) /\ forall i, wl [] [] (thr s0 i) = true.

  (* ---- vocabulary of the theorems ---- *)
  Definition accesses (a : act) (x : var) : Prop := a = Rd x \/ a = Wr x.
  (* two accesses conflict when they touch the same variable and at least one writes *)
  Definition conflict (a b : act) (x : var) : Prop := (a = Wr x /\ accesses b x) \/ (accesses a x /\ b = Wr x).
  Definition holds (s : state) (i : tid) (m : mid) : Prop := own s m = Some i \/ memb i (rdrs s m) = true.
  Definition acquires (a : act) (m : mid) : Prop := a = Lock m \/ a = RLock m.
  (* an action that can be performed now, whatever the Go scheduler and the RWMutex writer preference do:
     acquisitions need a completely free mutex, Block is never counted as enabled *)
  Definition enabled (s : state) (a : act) : Prop :=
    match a with
    | Lock m | RLock m => own s m = None /\ rdrs s m = []
    | Block => False
    | _ => True
    end.
End Discipline.

(* ---- snapshot discipline of one operation path (executable) ----
   G: the variables whose values make up "the snapshot" (specs, devices, errors);  m: their mutex. *)
Definition is_release (m : mid) (a : act) : bool :=
  match a with Unlock k | RUnlock k => Nat.eqb k m | _ => false end.
Definition reads_of (G : list var) (a : act) : bool := match a with Rd x => memb x G | _ => false end.
Definition writes_of (G : list var) (a : act) : bool := match a with Wr x => memb x G | _ => false end.

Fixpoint drop_until (f : act -> bool) (p : list act) : list act :=
  match p with [] => [] | a :: r => if f a then p else drop_until f r end.
(* the part of p from the first to the last action satisfying f *)
Definition span (f : act -> bool) (p : list act) : list act := rev (drop_until f (rev (drop_until f p))).

(* all reads of the snapshot variables made by the path lie in one critical section of m *)
Definition one_section (m : mid) (G : list var) (p : list act) : bool :=
  forallb (fun a => negb (is_release m a)) (span (reads_of G) p).

(* every critical section of m that writes one of the slots S writes all of them, and does not read a
   snapshot variable while only some are written (refresh swaps specs, devices and errors together) *)
Definition covers (S W : list var) : bool := forallb (fun x => memb x W) S.
Fixpoint swaps_together (m : mid) (S : list var) (W : list var) (p : list act) : bool :=
  match p with
  | [] => nil_b W || covers S W
  | Lock k :: r => if Nat.eqb k m then swaps_together m S [] r else swaps_together m S W r
  | Unlock k :: r => if Nat.eqb k m then (nil_b W || covers S W) && swaps_together m S [] r else swaps_together m S W r
  | Wr x :: r => if memb x S then swaps_together m S (x :: W) r else swaps_together m S W r
  | Rd x :: r => if memb x S then (nil_b W || covers S W) && swaps_together m S W r else swaps_together m S W r
  | _ :: r => swaps_together m S W r
  end.

Definition never_written (C : list var) (p : list act) : bool := forallb (fun a => negb (writes_of C a)) p.
