(* CacheProofs.v — the code-shaped refresh (ascending scan, device index, conflict set) computes the declarative
   precedence rule, for every list of scanned files in ascending priority order whose files have unique device names;
   the scan of any directory population is in that order. *)
From Coq Require Import String Ascii List Bool Arith ZArith Lia.
From CDI Require Import Base SpecModel Parser Paths Oci Apply Cache.
Import ListNotations.
Open Scope string_scope.

(* ---------- per-name projection of the refresh state ---------- *)
Definition mk_cdev (f : lfile) (n : string) : option cdev := option_map (mkCdev f) (def_in f n (s_devices (lf_spec f))).
Definition proj (n : string) (st : rstate) : option cdev * bool := (dlookup n (r_devs st), mem_s n (r_conf st)).

Definition step1 (n : string) (st : option cdev * bool) (f : lfile) : option cdev * bool :=
  match mk_cdev f n with
  | None => st
  | Some cd =>
      match fst st with
      | None => (Some cd, snd st)
      | Some old => if Nat.ltb (lf_prio (cd_file old)) (lf_prio f) then (Some cd, false)
                    else if Nat.eqb (lf_prio f) (lf_prio (cd_file old)) then (Some old, true) else st
      end
  end.

Lemma mem_sdel_same n s : mem_s n (sdel n s) = false.
Proof.
  unfold mem_s, sdel. induction s as [|k r IH]; cbn; [reflexivity|].
  destruct (String.eqb n k) eqn:E; cbn; [exact IH|]. rewrite E. exact IH.
Qed.
Lemma mem_sdel_other n k s : String.eqb n k = false -> mem_s n (sdel k s) = mem_s n s.
Proof.
  intro H. unfold mem_s, sdel. induction s as [|x r IH]; cbn; [reflexivity|].
  destruct (String.eqb k x) eqn:E; cbn.
  - apply String.eqb_eq in E; subst. rewrite H. exact IH.
  - rewrite IH. reflexivity.
Qed.

Lemma add_dev_other f st n d : String.eqb n (qname f d) = false -> proj n (add_dev f st d) = proj n st.
Proof.
  intro H. unfold add_dev, proj.
  destruct (dlookup (qname f d) (r_devs st)) as [old|]; cbn [r_devs r_conf].
  - destruct (Nat.ltb (lf_prio (cd_file old)) (lf_prio f)); cbn [r_devs r_conf dlookup].
    + rewrite H. rewrite mem_sdel_other by exact H. reflexivity.
    + destruct (Nat.eqb (lf_prio f) (lf_prio (cd_file old))); cbn [r_devs r_conf mem_s existsb]; [rewrite H|]; reflexivity.
  - cbn [dlookup]. rewrite H. reflexivity.
Qed.

Lemma add_dev_same f st d :
  proj (qname f d) (add_dev f st d) =
  match fst (proj (qname f d) st) with
  | None => (Some (mkCdev f d), snd (proj (qname f d) st))
  | Some old => if Nat.ltb (lf_prio (cd_file old)) (lf_prio f) then (Some (mkCdev f d), false)
                else if Nat.eqb (lf_prio f) (lf_prio (cd_file old)) then (Some old, true) else proj (qname f d) st
  end.
Proof.
  unfold add_dev, proj. cbn [fst snd].
  destruct (dlookup (qname f d) (r_devs st)) as [old|] eqn:L.
  - destruct (Nat.ltb (lf_prio (cd_file old)) (lf_prio f)); cbn [r_devs r_conf dlookup].
    + rewrite String.eqb_refl, mem_sdel_same. reflexivity.
    + destruct (Nat.eqb (lf_prio f) (lf_prio (cd_file old))); cbn [r_devs r_conf].
      * rewrite L. unfold mem_s. cbn [existsb]. rewrite String.eqb_refl. reflexivity.
      * rewrite L. reflexivity.
  - cbn [dlookup r_devs r_conf]. rewrite String.eqb_refl. reflexivity.
Qed.

Lemma fold_add_dev_absent f n l : forall st,
  existsb (fun d => String.eqb n (qname f d)) l = false -> proj n (fold_left (add_dev f) l st) = proj n st.
Proof.
  induction l as [|d r IH]; cbn [fold_left existsb]; intros st H; [reflexivity|].
  apply orb_false_iff in H as [H1 H2]. rewrite IH by exact H2. apply add_dev_other; exact H1.
Qed.

Lemma def_in_none f n l : def_in f n l = None <-> existsb (fun d => String.eqb n (qname f d)) l = false.
Proof.
  induction l as [|d r IH]; cbn [def_in existsb]; [tauto|].
  destruct (String.eqb n (qname f d)); cbn [orb]; [split; discriminate|exact IH].
Qed.

(* the devices of one file: unique qualified names *)
Definition names_of (f : lfile) : list string := map (qname f) (s_devices (lf_spec f)).

Lemma fold_add_dev_proj f n l : forall st,
  NoDup (map (qname f) l) ->
  proj n (fold_left (add_dev f) l st) =
  match def_in f n l with
  | None => proj n st
  | Some d => match fst (proj n st) with
              | None => (Some (mkCdev f d), snd (proj n st))
              | Some old => if Nat.ltb (lf_prio (cd_file old)) (lf_prio f) then (Some (mkCdev f d), false)
                            else if Nat.eqb (lf_prio f) (lf_prio (cd_file old)) then (Some old, true) else proj n st
              end
  end.
Proof.
  induction l as [|d r IH]; intros st ND; cbn [fold_left def_in map]; [reflexivity|].
  cbn [map] in ND. inversion ND as [|x y Hnotin ND']; subst.
  destruct (String.eqb n (qname f d)) eqn:E.
  - apply String.eqb_eq in E. subst n.
    rewrite fold_add_dev_absent.
    + apply add_dev_same.
    + destruct (existsb (fun d0 => String.eqb (qname f d) (qname f d0)) r) eqn:X; [|reflexivity].
      apply existsb_exists in X as (x & Hx & Ex). apply String.eqb_eq in Ex. exfalso. apply Hnotin.
      rewrite Ex. apply in_map. exact Hx.
  - rewrite IH by exact ND'. rewrite add_dev_other by exact E. reflexivity.
Qed.

Lemma add_scanned_proj n st x :
  match x with SLoaded f => NoDup (names_of f) | SError _ => True end ->
  proj n (add_scanned st x) = match x with SLoaded f => step1 n (proj n st) f | SError _ => proj n st end.
Proof.
  destruct x as [f|p]; intro ND; cbn [add_scanned]; [|reflexivity].
  rewrite fold_add_dev_proj by exact ND. unfold step1, mk_cdev. cbn [r_devs r_conf].
  change (proj n (mkR (add_spec (vendor_of f) f (r_specs st)) (r_devs st) (r_conf st) (r_errs st))) with (proj n st).
  destruct (def_in f n (s_devices (lf_spec f))); reflexivity.
Qed.

Definition unique_names (files : list scanned) : Prop :=
  Forall (fun x => match x with SLoaded f => NoDup (names_of f) | SError _ => True end) files.

Lemma scan_proj n files : forall st, unique_names files ->
  proj n (fold_left add_scanned files st) = fold_left (step1 n) (loaded files) (proj n st).
Proof.
  induction files as [|x r IH]; intros st U; cbn [fold_left loaded]; [reflexivity|].
  inversion U as [|y z Hx Hr]; subst. rewrite IH by exact Hr. rewrite add_scanned_proj by exact Hx.
  destruct x; reflexivity.
Qed.

(* ---------- the per-name machine computes the rule on a priority-sorted scan ---------- *)
Definition sorted (fl : list lfile) := forall pre f post, fl = (pre ++ f :: post)%list -> Forall (fun g => lf_prio g <= lf_prio f) pre.

Lemma top_app a b : top (a ++ b) = Nat.max (top a) (top b).
Proof. unfold top. induction a as [|x a IHa]; cbn; [reflexivity|]. rewrite IHa. lia. Qed.
Lemma top_bound l k : Forall (fun g => lf_prio g <= k) l -> top l <= k.
Proof. unfold top. induction 1; cbn; lia. Qed.
Lemma Forall_filter {A} (P : A -> Prop) p l : Forall P l -> Forall P (filter p l).
Proof. induction 1 as [|x l Hx Hl IH]; cbn; [constructor|]. destruct (p x); auto. Qed.

Definition inv (n : string) (pre : list lfile) (st : option cdev * bool) : Prop :=
  fst st = match hd_error (at_top n pre) with Some f => mk_cdev f n | None => None end /\
  snd st = Nat.leb 2 (length (at_top n pre)).

Lemma defines_mk f n : defines n f = true -> exists cd, mk_cdev f n = Some cd /\ cd_file cd = f.
Proof.
  unfold defines, mk_cdev. destruct (def_in f n (s_devices (lf_spec f))) as [d|]; [|discriminate].
  intros _. exists (mkCdev f d). split; reflexivity.
Qed.
Lemma not_defines_mk f n : defines n f = false -> mk_cdev f n = None.
Proof. unfold defines, mk_cdev. destruct (def_in f n (s_devices (lf_spec f))); [discriminate|reflexivity]. Qed.

Lemma at_top_snoc_not n pre f : defines n f = false -> at_top n (pre ++ [f]) = at_top n pre.
Proof. intro H. unfold at_top, defs. rewrite filter_app. cbn. rewrite H, app_nil_r. reflexivity. Qed.

Lemma at_top_in n pre g : In g (at_top n pre) -> lf_prio g = top (defs n pre) /\ In g (defs n pre).
Proof. unfold at_top. intro H. apply filter_In in H as [H1 H2]. apply Nat.eqb_eq in H2. auto. Qed.

Lemma at_top_snoc_def n pre f :
  defines n f = true -> Forall (fun g => lf_prio g <= lf_prio f) pre ->
  at_top n (pre ++ [f]) = if Nat.ltb (top (defs n pre)) (lf_prio f) then [f] else (at_top n pre ++ [f])%list.
Proof.
  intros Hd Hs. unfold at_top, defs. rewrite filter_app. cbn [filter]. rewrite Hd.
  set (D := filter (defines n) pre).
  assert (HD : Forall (fun g => lf_prio g <= lf_prio f) D) by (apply Forall_filter; exact Hs).
  pose proof (top_bound _ _ HD) as Hb.
  rewrite top_app. cbn [top fold_right]. rewrite filter_app. cbn [filter].
  replace (Nat.max (top D) (Nat.max (lf_prio f) 0)) with (lf_prio f) by lia.
  rewrite Nat.eqb_refl.
  destruct (Nat.ltb (top D) (lf_prio f)) eqn:E.
  - apply Nat.ltb_lt in E. replace (filter (fun g => Nat.eqb (lf_prio g) (lf_prio f)) D) with (@nil lfile); [reflexivity|].
    symmetry. clear - E. unfold top in E. induction D as [|g r IH]; cbn in *; [reflexivity|].
    replace (Nat.eqb (lf_prio g) (lf_prio f)) with false by (symmetry; apply Nat.eqb_neq; lia).
    apply IH. lia.
  - apply Nat.ltb_ge in E. assert (H : top D = lf_prio f) by lia. rewrite H. reflexivity.
Qed.

Lemma top_attained l : l <> [] -> exists g, In g l /\ lf_prio g = top l.
Proof.
  unfold top. induction l as [|a r IH]; [congruence|]. intros _. cbn [fold_right].
  destruct r as [|b r'].
  - exists a. cbn. split; [auto|lia].
  - destruct IH as (g & Hg & E); [discriminate|].
    destruct (Nat.le_ge_cases (lf_prio a) (fold_right (fun f m => Nat.max (lf_prio f) m) 0 (b :: r'))).
    + exists g. split; [right; exact Hg|]. rewrite E. lia.
    + exists a. split; [left; reflexivity|]. lia.
Qed.

Lemma at_top_nil n pre : at_top n pre = [] -> defs n pre = [].
Proof.
  intro H. destruct (defs n pre) as [|d ds] eqn:D; [reflexivity|]. exfalso.
  destruct (top_attained (d :: ds)) as (g & Hg & E); [discriminate|].
  assert (X : In g (at_top n pre)).
  { unfold at_top. rewrite D. apply filter_In. split; [exact Hg|]. apply Nat.eqb_eq. exact E. }
  rewrite H in X. contradiction.
Qed.

Lemma step1_inv n pre f st :
  Forall (fun g => lf_prio g <= lf_prio f) pre ->
  inv n pre st -> inv n (pre ++ [f]) (step1 n st f).
Proof.
  intros Hs [H1 H2]. unfold step1.
  destruct (defines n f) eqn:Hd.
  2:{ rewrite (not_defines_mk _ _ Hd). unfold inv. rewrite at_top_snoc_not by exact Hd. auto. }
  destruct (defines_mk _ _ Hd) as [cd [Hcd Hfile]]. rewrite Hcd.
  unfold inv. rewrite (at_top_snoc_def n pre f Hd Hs).
  destruct (at_top n pre) as [|g r] eqn:A.
  - rewrite H1. cbn [hd_error]. rewrite (at_top_nil _ _ A). cbn [top fold_right app].
    rewrite H2. destruct (Nat.ltb 0 (lf_prio f)); cbn [fst snd hd_error length]; rewrite Hcd; auto.
  - rewrite H1. cbn [hd_error].
    destruct (at_top_in n pre g) as [G Gin]; [rewrite A; left; reflexivity|].
    assert (Gdef : defines n g = true) by (unfold defs in Gin; apply filter_In in Gin as [_ X]; exact X).
    destruct (defines_mk _ _ Gdef) as [cg [Hcg Hgfile]]. rewrite Hcg. rewrite Hgfile.
    assert (Gle : lf_prio g <= lf_prio f).
    { unfold defs in Gin. apply filter_In in Gin as [Gin _]. exact (proj1 (Forall_forall _ _) Hs g Gin). }
    rewrite <- G.
    destruct (Nat.ltb (lf_prio g) (lf_prio f)) eqn:E; cbn [fst snd hd_error length app].
    + rewrite Hcd. split; reflexivity.
    + apply Nat.ltb_ge in E.
      replace (Nat.eqb (lf_prio f) (lf_prio g)) with true by (symmetry; apply Nat.eqb_eq; lia).
      cbn [fst snd hd_error]. rewrite Hcg. split; [reflexivity|]. rewrite app_length. cbn. destruct (length r); reflexivity.
Qed.

Lemma sorted_snoc pre f : sorted (pre ++ [f]) -> sorted pre /\ Forall (fun g => lf_prio g <= lf_prio f) pre.
Proof.
  intro H. split.
  - intros a x b E. apply (H a x (b ++ [f])%list). rewrite E, <- app_assoc. reflexivity.
  - apply (H pre f []). reflexivity.
Qed.

Lemma machine_inv n fl : sorted fl -> inv n fl (fold_left (step1 n) fl (None, false)).
Proof.
  induction fl as [|f pre IH] using rev_ind; intro S.
  - split; reflexivity.
  - apply sorted_snoc in S as [S1 S2]. rewrite fold_left_app. cbn [fold_left].
    apply step1_inv; auto.
Qed.

(* ---------- C01: resolution follows the precedence rule ---------- *)
Theorem refresh_resolves files n :
  sorted (loaded files) -> unique_names files ->
  get_device (refresh_files files) n = resolve_spec (loaded files) n.
Proof.
  intros S U. unfold get_device, refresh_files, refresh_st. cbn [c_conf c_devs].
  pose proof (scan_proj n files (mkR [] [] [] []) U) as P.
  change (proj n (mkR [] [] [] [])) with (@None cdev, false) in P.
  destruct (machine_inv n (loaded files) S) as [I1 I2]. rewrite <- P in I1, I2. unfold proj in I1, I2. cbn [fst snd] in I1, I2.
  unfold resolve_spec. rewrite I1, I2. unfold mk_cdev.
  destruct (at_top n (loaded files)) as [|a [|b r]]; cbn [hd_error length Nat.leb]; reflexivity.
Qed.

(* ---------- the scan of a directory population is in ascending priority order ---------- *)
Lemma loaded_app a b : loaded (a ++ b) = (loaded a ++ loaded b)%list.
Proof. induction a as [|[f|p] r IH]; cbn [app loaded]; [reflexivity|rewrite IH; reflexivity|exact IH]. Qed.

Lemma load_prio prio path e : Forall (fun f => lf_prio f = prio) (loaded (load prio path e)).
Proof. destruct e as [[s|]|]; cbn; repeat constructor. Qed.

Lemma scan_dir_prio prio d : Forall (fun f => lf_prio f = prio) (loaded (scan_dir prio d)).
Proof.
  destruct d as [dpath [| |e|l]]; cbn [scan_dir]; try constructor.
  - destruct (is_spec_name dpath); [apply load_prio|constructor].
  - induction (sort_entries l) as [|ne r IH]; cbn [flat_map]; [constructor|].
    rewrite loaded_app. apply Forall_app. split; [|exact IH].
    destruct (is_spec_name (fst ne)); [apply load_prio|constructor].
Qed.

Lemma scan_from_ge fs : forall prio, Forall (fun f => prio <= lf_prio f) (loaded (scan_from prio fs)).
Proof.
  induction fs as [|d r IH]; intro prio; cbn [scan_from]; [constructor|].
  rewrite loaded_app. apply Forall_app. split.
  - eapply Forall_impl; [|apply scan_dir_prio]. cbn beta. intros; lia.
  - eapply Forall_impl; [|apply (IH (S prio))]. cbn beta. intros; lia.
Qed.

Lemma sorted_app_le a b k :
  Forall (fun f => lf_prio f = k) a -> Forall (fun f => k <= lf_prio f) b -> sorted b -> sorted (a ++ b).
Proof.
  intros Ha Hb Sb.
  induction a as [|x a' IHa]; cbn [app]; [exact Sb|].
  apply Forall_cons_iff in Ha as [Hx Ha']. cbn beta in Hx. specialize (IHa Ha').
  intros pre f post E. destruct pre as [|q pre']; [constructor|].
  cbn [app] in E. injection E as Eq E'. subst q. constructor.
  - assert (Hin : In f (a' ++ b)) by (rewrite E'; apply in_or_app; right; left; reflexivity).
    apply in_app_or in Hin as [Hin|Hin].
    + pose proof (proj1 (Forall_forall _ _) Ha' f Hin) as X. cbn beta in X. lia.
    + pose proof (proj1 (Forall_forall _ _) Hb f Hin) as X. cbn beta in X. lia.
  - apply (IHa pre' f post E').
Qed.

Lemma scan_from_sorted fs : forall prio, sorted (loaded (scan_from prio fs)).
Proof.
  induction fs as [|d r IH]; intro prio; cbn [scan_from].
  - intros pre f post E. destruct pre; discriminate.
  - rewrite loaded_app. apply (sorted_app_le _ _ prio).
    + apply scan_dir_prio.
    + eapply Forall_impl; [|apply (scan_from_ge r (S prio))]. cbn beta. intros; lia.
    + apply IH.
Qed.

Theorem scan_sorted fs : sorted (loaded (scan fs)).
Proof. apply scan_from_sorted. Qed.

(* for every list of directories and every population: a name resolves iff exactly one file defines it at the
   highest priority among the files that define it, and then to that file's definition *)
Theorem refresh_resolves_fs fs n :
  unique_names (scan fs) -> get_device (refresh fs) n = resolve_spec (loaded (scan fs)) n.
Proof. intro U. apply refresh_resolves; [apply scan_sorted|exact U]. Qed.

(* ---------- lower-priority definitions and conflicts never matter ---------- *)
Definition from_prio (p : nat) (fl : list lfile) : list lfile := filter (fun f => Nat.leb p (lf_prio f)) fl.

Lemma defs_from_prio n p fl : defs n (from_prio p fl) = from_prio p (defs n fl).
Proof.
  unfold defs, from_prio. induction fl as [|f r IH]; cbn [filter]; [reflexivity|].
  destruct (Nat.leb p (lf_prio f)) eqn:E, (defines n f) eqn:D; cbn [filter]; rewrite ?E, ?D, IH; reflexivity.
Qed.

Lemma top_ge l f : In f l -> lf_prio f <= top l.
Proof. unfold top. induction l as [|a r IH]; cbn [In fold_right]; [tauto|]. intros [->|H]; [lia|]. apply IH in H. lia. Qed.
Lemma top_filter_le q l : top (filter q l) <= top l.
Proof. unfold top. induction l as [|a r IH]; cbn [filter fold_right]; [lia|]. destruct (q a); cbn [fold_right]; lia. Qed.

Lemma top_from_prio p l : (exists f, In f l /\ p <= lf_prio f) -> top (from_prio p l) = top l.
Proof.
  intros [f [Hin Hp]]. pose proof (top_filter_le (fun f => Nat.leb p (lf_prio f)) l) as Hle. fold (from_prio p l) in Hle.
  destruct (top_attained l) as [g [Hg Eg]]; [intro E; rewrite E in Hin; destruct Hin|].
  pose proof (top_ge l f Hin) as Hf.
  assert (Hgin : In g (from_prio p l)).
  { unfold from_prio. apply filter_In. split; [exact Hg|]. apply Nat.leb_le. lia. }
  pose proof (top_ge _ _ Hgin). lia.
Qed.

Lemma at_top_from_prio n p fl : (exists f, In f (defs n fl) /\ p <= lf_prio f) ->
  at_top n (from_prio p fl) = at_top n fl.
Proof.
  intro H. unfold at_top. rewrite defs_from_prio, (top_from_prio p _ H).
  destruct H as [f [Hin Hp]]. pose proof (top_ge _ _ Hin) as Ht.
  set (T := top (defs n fl)) in *. unfold from_prio. generalize (defs n fl) as D. intro D.
  induction D as [|g r IH]; cbn [filter]; [reflexivity|].
  destruct (Nat.leb p (lf_prio g)) eqn:E; cbn [filter].
  - destruct (Nat.eqb (lf_prio g) T); rewrite IH; reflexivity.
  - apply Nat.leb_gt in E. replace (Nat.eqb (lf_prio g) T) with false by (symmetry; apply Nat.eqb_neq; lia). exact IH.
Qed.

(* definitions and conflicts below the highest directory that defines n never change how n resolves *)
Theorem lower_dirs_irrelevant n p fl1 fl2 :
  from_prio p fl1 = from_prio p fl2 -> (exists f, In f (defs n fl1) /\ p <= lf_prio f) ->
  resolve_spec fl1 n = resolve_spec fl2 n.
Proof.
  intros E H. unfold resolve_spec.
  rewrite <- (at_top_from_prio n p fl1 H).
  assert (H2 : exists f, In f (defs n fl2) /\ p <= lf_prio f).
  { destruct H as [f [Hin Hp]]. exists f. split; [|exact Hp].
    assert (X : In f (from_prio p (defs n fl1))) by (unfold from_prio; apply filter_In; split; [exact Hin|apply Nat.leb_le; exact Hp]).
    rewrite <- defs_from_prio, E, defs_from_prio in X. unfold from_prio in X. apply filter_In in X as [X _]. exact X. }
  rewrite <- (at_top_from_prio n p fl2 H2). rewrite E. reflexivity.
Qed.
