(* CacheProofs.v — the code-shaped refresh (ascending scan, device index, conflict set) computes the declarative
   precedence rule, for every list of scanned files in ascending priority order whose files have unique device names;
   the scan of any directory population is in that order. *)
From Coq Require Import String Ascii List Bool Arith ZArith Lia.
From CDI Require Import Base SpecModel Parser Paths Oci Apply Cache.
Import ListNotations.
Open Scope string_scope.

(* ---------- per-name projection of the refresh state ---------- *)
Definition mk_cdev (f : lfile) (n : string) : option cdev := option_map (mkCdev f) (def_in f n (s_devices (lf_spec f))).
Definition proj (n : string) (st : rstate) : option cdev * bool := (dlookup n (r_devs st), mem_s n (r_conf st)).

Definition step1 (n : string) (st : option cdev * bool) (f : lfile) : option cdev * bool :=
  match mk_cdev f n with
  | None => st
  | Some cd =>
      match fst st with
      | None => (Some cd, snd st)
      | Some old => if Nat.ltb (lf_prio (cd_file old)) (lf_prio f) then (Some cd, false)
                    else if Nat.eqb (lf_prio f) (lf_prio (cd_file old)) then (Some old, true) else st
      end
  end.

Lemma mem_sdel_same n s : mem_s n (sdel n s) = false.
Proof.
  unfold mem_s, sdel. induction s as [|k r IH]; cbn; [reflexivity|].
  destruct (String.eqb n k) eqn:E; cbn; [exact IH|]. rewrite E. exact IH.
Qed.
Lemma mem_sdel_other n k s : String.eqb n k = false -> mem_s n (sdel k s) = mem_s n s.
Proof.
  intro H. unfold mem_s, sdel. induction s as [|x r IH]; cbn; [reflexivity|].
  destruct (String.eqb k x) eqn:E; cbn.
  - apply String.eqb_eq in E; subst. rewrite H. exact IH.
  - rewrite IH. reflexivity.
Qed.

Lemma add_dev_other f st n d : String.eqb n (qname f d) = false -> proj n (add_dev f st d) = proj n st.
Proof.
  intro H. unfold add_dev, proj.
  destruct (dlookup (qname f d) (r_devs st)) as [old|]; cbn [r_devs r_conf].
  - destruct (Nat.ltb (lf_prio (cd_file old)) (lf_prio f)); cbn [r_devs r_conf dlookup].
    + rewrite H. rewrite mem_sdel_other by exact H. reflexivity.
    + destruct (Nat.eqb (lf_prio f) (lf_prio (cd_file old))); cbn [r_devs r_conf mem_s existsb]; [rewrite H|]; reflexivity.
  - cbn [dlookup]. rewrite H. reflexivity.
Qed.

Lemma add_dev_same f st d :
  proj (qname f d) (add_dev f st d) =
  match fst (proj (qname f d) st) with
  | None => (Some (mkCdev f d), snd (proj (qname f d) st))
  | Some old => if Nat.ltb (lf_prio (cd_file old)) (lf_prio f) then (Some (mkCdev f d), false)
                else if Nat.eqb (lf_prio f) (lf_prio (cd_file old)) then (Some old, true) else proj (qname f d) st
  end.
Proof.
  unfold add_dev, proj. cbn [fst snd].
  destruct (dlookup (qname f d) (r_devs st)) as [old|] eqn:L.
  - destruct (Nat.ltb (lf_prio (cd_file old)) (lf_prio f)); cbn [r_devs r_conf dlookup].
    + rewrite String.eqb_refl, mem_sdel_same. reflexivity.
    + destruct (Nat.eqb (lf_prio f) (lf_prio (cd_file old))); cbn [r_devs r_conf].
      * rewrite L. unfold mem_s. cbn [existsb]. rewrite String.eqb_refl. reflexivity.
      * rewrite L. reflexivity.
  - cbn [dlookup r_devs r_conf]. rewrite String.eqb_refl. reflexivity.
Qed.

Lemma fold_add_dev_absent f n l : forall st,
  existsb (fun d => String.eqb n (qname f d)) l = false -> proj n (fold_left (add_dev f) l st) = proj n st.
Proof.
  induction l as [|d r IH]; cbn [fold_left existsb]; intros st H; [reflexivity|].
  apply orb_false_iff in H as [H1 H2]. rewrite IH by exact H2. apply add_dev_other; exact H1.
Qed.

Lemma def_in_none f n l : def_in f n l = None <-> existsb (fun d => String.eqb n (qname f d)) l = false.
Proof.
  induction l as [|d r IH]; cbn [def_in existsb]; [tauto|].
  destruct (String.eqb n (qname f d)); cbn [orb]; [split; discriminate|exact IH].
Qed.

(* the devices of one file: unique qualified names *)
Definition names_of (f : lfile) : list string := map (qname f) (s_devices (lf_spec f)).

Lemma fold_add_dev_proj f n l : forall st,
  NoDup (map (qname f) l) ->
  proj n (fold_left (add_dev f) l st) =
  match def_in f n l with
  | None => proj n st
  | Some d => match fst (proj n st) with
              | None => (Some (mkCdev f d), snd (proj n st))
              | Some old => if Nat.ltb (lf_prio (cd_file old)) (lf_prio f) then (Some (mkCdev f d), false)
                            else if Nat.eqb (lf_prio f) (lf_prio (cd_file old)) then (Some old, true) else proj n st
              end
  end.
Proof.
  induction l as [|d r IH]; intros st ND; cbn [fold_left def_in map]; [reflexivity|].
  cbn [map] in ND. inversion ND as [|x y Hnotin ND']; subst.
  destruct (String.eqb n (qname f d)) eqn:E.
  - apply String.eqb_eq in E. subst n.
    rewrite fold_add_dev_absent.
    + apply add_dev_same.
    + destruct (existsb (fun d0 => String.eqb (qname f d) (qname f d0)) r) eqn:X; [|reflexivity].
      apply existsb_exists in X as (x & Hx & Ex). apply String.eqb_eq in Ex. exfalso. apply Hnotin.
      rewrite Ex. apply in_map. exact Hx.
  - rewrite IH by exact ND'. rewrite add_dev_other by exact E. reflexivity.
Qed.

Lemma add_scanned_proj n st x :
  match x with SLoaded f => NoDup (names_of f) | SError _ => True end ->
  proj n (add_scanned st x) = match x with SLoaded f => step1 n (proj n st) f | SError _ => proj n st end.
Proof.
  destruct x as [f|p]; intro ND; cbn [add_scanned]; [|reflexivity].
  rewrite fold_add_dev_proj by exact ND. unfold step1, mk_cdev. cbn [r_devs r_conf].
  change (proj n (mkR (add_spec (vendor_of f) f (r_specs st)) (r_devs st) (r_conf st) (r_errs st))) with (proj n st).
  destruct (def_in f n (s_devices (lf_spec f))); reflexivity.
Qed.

Definition unique_names (files : list scanned) : Prop :=
  Forall (fun x => match x with SLoaded f => NoDup (names_of f) | SError _ => True end) files.

Lemma scan_proj n files : forall st, unique_names files ->
  proj n (fold_left add_scanned files st) = fold_left (step1 n) (loaded files) (proj n st).
Proof.
  induction files as [|x r IH]; intros st U; cbn [fold_left loaded]; [reflexivity|].
  inversion U as [|y z Hx Hr]; subst. rewrite IH by exact Hr. rewrite add_scanned_proj by exact Hx.
  destruct x; reflexivity.
Qed.

(* ---------- the per-name machine computes the rule on a priority-sorted scan ---------- *)
Definition sorted (fl : list lfile) := forall pre f post, fl = (pre ++ f :: post)%list -> Forall (fun g => lf_prio g <= lf_prio f) pre.

Lemma top_app a b : top (a ++ b) = Nat.max (top a) (top b).
Proof. unfold top. induction a as [|x a IHa]; cbn; [reflexivity|]. rewrite IHa. lia. Qed.
Lemma top_bound l k : Forall (fun g => lf_prio g <= k) l -> top l <= k.
Proof. unfold top. induction 1; cbn; lia. Qed.
Lemma Forall_filter {A} (P : A -> Prop) p l : Forall P l -> Forall P (filter p l).
Proof. induction 1 as [|x l Hx Hl IH]; cbn; [constructor|]. destruct (p x); auto. Qed.

Definition inv (n : string) (pre : list lfile) (st : option cdev * bool) : Prop :=
  fst st = match hd_error (at_top n pre) with Some f => mk_cdev f n | None => None end /\
  snd st = Nat.leb 2 (length (at_top n pre)).

Lemma defines_mk f n : defines n f = true -> exists cd, mk_cdev f n = Some cd /\ cd_file cd = f.
Proof.
  unfold defines, mk_cdev. destruct (def_in f n (s_devices (lf_spec f))) as [d|]; [|discriminate].
  intros _. exists (mkCdev f d). split; reflexivity.
Qed.
Lemma not_defines_mk f n : defines n f = false -> mk_cdev f n = None.
Proof. unfold defines, mk_cdev. destruct (def_in f n (s_devices (lf_spec f))); [discriminate|reflexivity]. Qed.

Lemma at_top_snoc_not n pre f : defines n f = false -> at_top n (pre ++ [f]) = at_top n pre.
Proof. intro H. unfold at_top, defs. rewrite filter_app. cbn. rewrite H, app_nil_r. reflexivity. Qed.

Lemma at_top_in n pre g : In g (at_top n pre) -> lf_prio g = top (defs n pre) /\ In g (defs n pre).
Proof. unfold at_top. intro H. apply filter_In in H as [H1 H2]. apply Nat.eqb_eq in H2. auto. Qed.

Lemma at_top_snoc_def n pre f :
  defines n f = true -> Forall (fun g => lf_prio g <= lf_prio f) pre ->
  at_top n (pre ++ [f]) = if Nat.ltb (top (defs n pre)) (lf_prio f) then [f] else (at_top n pre ++ [f])%list.
Proof.
  intros Hd Hs. unfold at_top, defs. rewrite filter_app. cbn [filter]. rewrite Hd.
  set (D := filter (defines n) pre).
  assert (HD : Forall (fun g => lf_prio g <= lf_prio f) D) by (apply Forall_filter; exact Hs).
  pose proof (top_bound _ _ HD) as Hb.
  rewrite top_app. cbn [top fold_right]. rewrite filter_app. cbn [filter].
  replace (Nat.max (top D) (Nat.max (lf_prio f) 0)) with (lf_prio f) by lia.
  rewrite Nat.eqb_refl.
  destruct (Nat.ltb (top D) (lf_prio f)) eqn:E.
  - apply Nat.ltb_lt in E. replace (filter (fun g => Nat.eqb (lf_prio g) (lf_prio f)) D) with (@nil lfile); [reflexivity|].
    symmetry. clear - E. unfold top in E. induction D as [|g r IH]; cbn in *; [reflexivity|].
    replace (Nat.eqb (lf_prio g) (lf_prio f)) with false by (symmetry; apply Nat.eqb_neq; lia).
    apply IH. lia.
  - apply Nat.ltb_ge in E. assert (H : top D = lf_prio f) by lia. rewrite H. reflexivity.
Qed.

Lemma top_attained l : l <> [] -> exists g, In g l /\ lf_prio g = top l.
Proof.
  unfold top. induction l as [|a r IH]; [congruence|]. intros _. cbn [fold_right].
  destruct r as [|b r'].
  - exists a. cbn. split; [auto|lia].
  - destruct IH as (g & Hg & E); [discriminate|].
    destruct (Nat.le_ge_cases (lf_prio a) (fold_right (fun f m => Nat.max (lf_prio f) m) 0 (b :: r'))).
    + exists g. split; [right; exact Hg|]. rewrite E. lia.
    + exists a. split; [left; reflexivity|]. lia.
Qed.

Lemma at_top_nil n pre : at_top n pre = [] -> defs n pre = [].
Proof.
  intro H. destruct (defs n pre) as [|d ds] eqn:D; [reflexivity|]. exfalso.
  destruct (top_attained (d :: ds)) as (g & Hg & E); [discriminate|].
  assert (X : In g (at_top n pre)).
  { unfold at_top. rewrite D. apply filter_In. split; [exact Hg|]. apply Nat.eqb_eq. exact E. }
  rewrite H in X. contradiction.
Qed.

Lemma step1_inv n pre f st :
  Forall (fun g => lf_prio g <= lf_prio f) pre ->
  inv n pre st -> inv n (pre ++ [f]) (step1 n st f).
Proof.
  intros Hs [H1 H2]. unfold step1.
  destruct (defines n f) eqn:Hd.
  2:{ rewrite (not_defines_mk _ _ Hd). unfold inv. rewrite at_top_snoc_not by exact Hd. auto. }
  destruct (defines_mk _ _ Hd) as [cd [Hcd Hfile]]. rewrite Hcd.
  unfold inv. rewrite (at_top_snoc_def n pre f Hd Hs).
  destruct (at_top n pre) as [|g r] eqn:A.
  - rewrite H1. cbn [hd_error]. rewrite (at_top_nil _ _ A). cbn [top fold_right app].
    rewrite H2. destruct (Nat.ltb 0 (lf_prio f)); cbn [fst snd hd_error length]; rewrite Hcd; auto.
  - rewrite H1. cbn [hd_error].
    destruct (at_top_in n pre g) as [G Gin]; [rewrite A; left; reflexivity|].
    assert (Gdef : defines n g = true) by (unfold defs in Gin; apply filter_In in Gin as [_ X]; exact X).
    destruct (defines_mk _ _ Gdef) as [cg [Hcg Hgfile]]. rewrite Hcg. rewrite Hgfile.
    assert (Gle : lf_prio g <= lf_prio f).
    { unfold defs in Gin. apply filter_In in Gin as [Gin _]. exact (proj1 (Forall_forall _ _) Hs g Gin). }
    rewrite <- G.
    destruct (Nat.ltb (lf_prio g) (lf_prio f)) eqn:E; cbn [fst snd hd_error length app].
    + rewrite Hcd. split; reflexivity.
    + apply Nat.ltb_ge in E.
      replace (Nat.eqb (lf_prio f) (lf_prio g)) with true by (symmetry; apply Nat.eqb_eq; lia).
      cbn [fst snd hd_error]. rewrite Hcg. split; [reflexivity|]. rewrite app_length. cbn. destruct (length r); reflexivity.
Qed.

Lemma sorted_snoc pre f : sorted (pre ++ [f]) -> sorted pre /\ Forall (fun g => lf_prio g <= lf_prio f) pre.
Proof.
  intro H. split.
  - intros a x b E. apply (H a x (b ++ [f])%list). rewrite E, <- app_assoc. reflexivity.
  - apply (H pre f []). reflexivity.
Qed.

Lemma machine_inv n fl : sorted fl -> inv n fl (fold_left (step1 n) fl (None, false)).
Proof.
  induction fl as [|f pre IH] using rev_ind; intro S.
  - split; reflexivity.
  - apply sorted_snoc in S as [S1 S2]. rewrite fold_left_app. cbn [fold_left].
    apply step1_inv; auto.
Qed.

(* ---------- C01: resolution follows the precedence rule ---------- *)
Theorem refresh_resolves files n :
  sorted (loaded files) -> unique_names files ->
  get_device (refresh_files files) n = resolve_spec (loaded files) n.
Proof.
  intros S U. unfold get_device, refresh_files, refresh_st. cbn [c_conf c_devs].
  pose proof (scan_proj n files (mkR [] [] [] []) U) as P.
  change (proj n (mkR [] [] [] [])) with (@None cdev, false) in P.
  destruct (machine_inv n (loaded files) S) as [I1 I2]. rewrite <- P in I1, I2. unfold proj in I1, I2. cbn [fst snd] in I1, I2.
  unfold resolve_spec. rewrite I1, I2. unfold mk_cdev.
  destruct (at_top n (loaded files)) as [|a [|b r]]; cbn [hd_error length Nat.leb]; reflexivity.
Qed.

(* ---------- the scan of a directory population is in ascending priority order ---------- *)
Lemma loaded_app a b : loaded (a ++ b) = (loaded a ++ loaded b)%list.
Proof. induction a as [|[f|p] r IH]; cbn [app loaded]; [reflexivity|rewrite IH; reflexivity|exact IH]. Qed.

Lemma load_prio prio path e : Forall (fun f => lf_prio f = prio) (loaded (load prio path e)).
Proof. destruct e as [[s|]|]; cbn; repeat constructor. Qed.

Lemma scan_dir_prio prio d : Forall (fun f => lf_prio f = prio) (loaded (scan_dir prio d)).
Proof.
  destruct d as [dpath [| |e|l]]; cbn [scan_dir]; try constructor.
  - destruct (is_spec_name dpath); [apply load_prio|constructor].
  - induction (sort_entries l) as [|ne r IH]; cbn [flat_map]; [constructor|].
    rewrite loaded_app. apply Forall_app. split; [|exact IH].
    destruct (is_spec_name (fst ne)); [apply load_prio|constructor].
Qed.

Lemma scan_from_ge fs : forall prio, Forall (fun f => prio <= lf_prio f) (loaded (scan_from prio fs)).
Proof.
  induction fs as [|d r IH]; intro prio; cbn [scan_from]; [constructor|].
  rewrite loaded_app. apply Forall_app. split.
  - eapply Forall_impl; [|apply scan_dir_prio]. cbn beta. intros; lia.
  - eapply Forall_impl; [|apply (IH (S prio))]. cbn beta. intros; lia.
Qed.

Lemma sorted_app_le a b k :
  Forall (fun f => lf_prio f = k) a -> Forall (fun f => k <= lf_prio f) b -> sorted b -> sorted (a ++ b).
Proof.
  intros Ha Hb Sb.
  induction a as [|x a' IHa]; cbn [app]; [exact Sb|].
  apply Forall_cons_iff in Ha as [Hx Ha']. cbn beta in Hx. specialize (IHa Ha').
  intros pre f post E. destruct pre as [|q pre']; [constructor|].
  cbn [app] in E. injection E as Eq E'. subst q. constructor.
  - assert (Hin : In f (a' ++ b)) by (rewrite E'; apply in_or_app; right; left; reflexivity).
    apply in_app_or in Hin as [Hin|Hin].
    + pose proof (proj1 (Forall_forall _ _) Ha' f Hin) as X. cbn beta in X. lia.
    + pose proof (proj1 (Forall_forall _ _) Hb f Hin) as X. cbn beta in X. lia.
  - apply (IHa pre' f post E').
Qed.

Lemma scan_from_sorted fs : forall prio, sorted (loaded (scan_from prio fs)).
Proof.
  induction fs as [|d r IH]; intro prio; cbn [scan_from].
  - intros pre f post E. destruct pre; discriminate.
  - rewrite loaded_app. apply (sorted_app_le _ _ prio).
    + apply scan_dir_prio.
    + eapply Forall_impl; [|apply (scan_from_ge r (S prio))]. cbn beta. intros; lia.
    + apply IH.
Qed.

Theorem scan_sorted fs : sorted (loaded (scan fs)).
Proof. apply scan_from_sorted. Qed.

(* for every list of directories and every population: a name resolves iff exactly one file defines it at the
   highest priority among the files that define it, and then to that file's definition *)
Theorem refresh_resolves_fs fs n :
  unique_names (scan fs) -> get_device (refresh fs) n = resolve_spec (loaded (scan fs)) n.
Proof. intro U. apply refresh_resolves; [apply scan_sorted|exact U]. Qed.

(* ---------- lower-priority definitions and conflicts never matter ---------- *)
Definition from_prio (p : nat) (fl : list lfile) : list lfile := filter (fun f => Nat.leb p (lf_prio f)) fl.

Lemma defs_from_prio n p fl : defs n (from_prio p fl) = from_prio p (defs n fl).
Proof.
  unfold defs, from_prio. induction fl as [|f r IH]; cbn [filter]; [reflexivity|].
  destruct (Nat.leb p (lf_prio f)) eqn:E, (defines n f) eqn:D; cbn [filter]; rewrite ?E, ?D, IH; reflexivity.
Qed.

Lemma top_ge l f : In f l -> lf_prio f <= top l.
Proof. unfold top. induction l as [|a r IH]; cbn [In fold_right]; [tauto|]. intros [->|H]; [lia|]. apply IH in H. lia. Qed.
Lemma top_filter_le q l : top (filter q l) <= top l.
Proof. unfold top. induction l as [|a r IH]; cbn [filter fold_right]; [lia|]. destruct (q a); cbn [fold_right]; lia. Qed.

Lemma top_from_prio p l : (exists f, In f l /\ p <= lf_prio f) -> top (from_prio p l) = top l.
Proof.
  intros [f [Hin Hp]]. pose proof (top_filter_le (fun f => Nat.leb p (lf_prio f)) l) as Hle. fold (from_prio p l) in Hle.
  destruct (top_attained l) as [g [Hg Eg]]; [intro E; rewrite E in Hin; destruct Hin|].
  pose proof (top_ge l f Hin) as Hf.
  assert (Hgin : In g (from_prio p l)).
  { unfold from_prio. apply filter_In. split; [exact Hg|]. apply Nat.leb_le. lia. }
  pose proof (top_ge _ _ Hgin). lia.
Qed.

Lemma at_top_from_prio n p fl : (exists f, In f (defs n fl) /\ p <= lf_prio f) ->
  at_top n (from_prio p fl) = at_top n fl.
Proof.
  intro H. unfold at_top. rewrite defs_from_prio, (top_from_prio p _ H).
  destruct H as [f [Hin Hp]]. pose proof (top_ge _ _ Hin) as Ht.
  set (T := top (defs n fl)) in *. unfold from_prio. generalize (defs n fl) as D. intro D.
  induction D as [|g r IH]; cbn [filter]; [reflexivity|].
  destruct (Nat.leb p (lf_prio g)) eqn:E; cbn [filter].
  - destruct (Nat.eqb (lf_prio g) T); rewrite IH; reflexivity.
  - apply Nat.leb_gt in E. replace (Nat.eqb (lf_prio g) T) with false by (symmetry; apply Nat.eqb_neq; lia). exact IH.
Qed.

(* definitions and conflicts below the highest directory that defines n never change how n resolves *)
Theorem lower_dirs_irrelevant n p fl1 fl2 :
  from_prio p fl1 = from_prio p fl2 -> (exists f, In f (defs n fl1) /\ p <= lf_prio f) ->
  resolve_spec fl1 n = resolve_spec fl2 n.
Proof.
  intros E H. unfold resolve_spec.
  rewrite <- (at_top_from_prio n p fl1 H).
  assert (H2 : exists f, In f (defs n fl2) /\ p <= lf_prio f).
  { destruct H as [f [Hin Hp]]. exists f. split; [|exact Hp].
    assert (X : In f (from_prio p (defs n fl1))) by (unfold from_prio; apply filter_In; split; [exact Hin|apply Nat.leb_le; exact Hp]).
    rewrite <- defs_from_prio, E, defs_from_prio in X. unfold from_prio in X. apply filter_In in X as [X _]. exact X. }
  rewrite <- (at_top_from_prio n p fl2 H2). rewrite E. reflexivity.
Qed.

(* ---------- listings are exactly those derivable from the loaded files ---------- *)
Lemma In_insert_sorted x y l : In x (insert_sorted y l) <-> y = x \/ In x l.
Proof.
  induction l as [|z r IH]; cbn [insert_sorted In]; [tauto|].
  destruct (str_ltb z y); cbn [In]; [rewrite IH|]; tauto.
Qed.
Lemma In_sort_strings x l : In x (sort_strings l) <-> In x l.
Proof.
  unfold sort_strings. induction l as [|y r IH]; cbn [fold_right In]; [tauto|].
  rewrite In_insert_sorted, IH. tauto.
Qed.
Lemma mem_s_In x l : mem_s x l = true <-> In x l.
Proof.
  unfold mem_s. rewrite existsb_exists. split.
  - intros [y [Hy E]]. apply String.eqb_eq in E. subst. exact Hy.
  - intro H. exists x. split; [exact H|apply String.eqb_refl].
Qed.
Lemma In_dedup_s x l : In x (dedup_s l) <-> In x l.
Proof.
  induction l as [|y r IH]; cbn [dedup_s In]; [tauto|].
  destruct (mem_s y r) eqn:M.
  - rewrite IH. apply mem_s_In in M. split; [auto|]. intros [<-|H]; auto.
  - cbn [In]. rewrite IH. tauto.
Qed.

Lemma dlookup_In n m : dlookup n m <> None <-> In n (map fst m).
Proof.
  induction m as [|[k v] r IH]; cbn [dlookup map fst In]; [tauto|].
  destruct (String.eqb n k) eqn:E.
  - apply String.eqb_eq in E. subst. split; [auto|discriminate].
  - rewrite IH. apply String.eqb_neq in E. split; [auto|]. intros [H|H]; [congruence|exact H].
Qed.

Theorem list_devices_iff c n : In n (list_devices c) <-> get_device c n <> None.
Proof.
  unfold list_devices, get_device. rewrite In_sort_strings, In_dedup_s, filter_In, <- dlookup_In.
  destruct (mem_s n (c_conf c)); cbn [negb]; split; try tauto; intros [_ H]; discriminate.
Qed.

(* ListDevices lists exactly the names that resolve by the precedence rule *)
Theorem list_devices_exact files n :
  sorted (loaded files) -> unique_names files ->
  (In n (list_devices (refresh_files files)) <-> resolve_spec (loaded files) n <> None).
Proof. intros S U. rewrite list_devices_iff, refresh_resolves by assumption. tauto. Qed.

Lemma add_dev_specs f st d : r_specs (add_dev f st d) = r_specs st.
Proof.
  unfold add_dev. destruct (dlookup (qname f d) (r_devs st)) as [old|]; [|reflexivity].
  destruct (Nat.ltb (lf_prio (cd_file old)) (lf_prio f)); [reflexivity|].
  destruct (Nat.eqb (lf_prio f) (lf_prio (cd_file old))); reflexivity.
Qed.
Lemma fold_add_dev_specs f l : forall st, r_specs (fold_left (add_dev f) l st) = r_specs st.
Proof. induction l as [|d r IH]; intro st; cbn [fold_left]; [reflexivity|]. rewrite IH. apply add_dev_specs. Qed.

Lemma vendor_specs_add v f m w :
  vendor_specs (add_spec v f m) w = if String.eqb w v then (vendor_specs m w ++ [f])%list else vendor_specs m w.
Proof.
  induction m as [|[k l] r IH]; cbn [add_spec vendor_specs].
  - destruct (String.eqb w v); reflexivity.
  - destruct (String.eqb v k) eqn:E; cbn [vendor_specs].
    + apply String.eqb_eq in E. subst k. destruct (String.eqb w v); reflexivity.
    + destruct (String.eqb w k) eqn:Ew.
      * apply String.eqb_eq in Ew. subst k. rewrite String.eqb_sym, E. reflexivity.
      * exact IH.
Qed.

(* GetVendorSpecs(v): exactly the loaded files of that vendor, in scan order (shadowed ones included) *)
Theorem vendor_specs_exact files v : forall st,
  vendor_specs (r_specs (fold_left add_scanned files st)) v =
  (vendor_specs (r_specs st) v ++ filter (fun f => String.eqb v (vendor_of f)) (loaded files))%list.
Proof.
  induction files as [|x r IH]; intro st; cbn [fold_left loaded filter]; [rewrite app_nil_r; reflexivity|].
  rewrite IH. destruct x as [f|p]; cbn [add_scanned loaded filter r_specs]; [|reflexivity].
  rewrite fold_add_dev_specs. cbn [r_specs]. rewrite vendor_specs_add.
  destruct (String.eqb v (vendor_of f)); [rewrite <- app_assoc; reflexivity|reflexivity].
Qed.

Lemma keys_add_spec v f m w : In w (map fst (add_spec v f m)) <-> v = w \/ In w (map fst m).
Proof.
  induction m as [|[k l] r IH]; cbn [add_spec map fst In]; [tauto|].
  destruct (String.eqb v k) eqn:E; cbn [map fst In].
  - apply String.eqb_eq in E. subst. tauto.
  - rewrite IH. tauto.
Qed.
Lemma files_add_spec v f m g : In g (flat_map snd (add_spec v f m)) <-> f = g \/ In g (flat_map snd m).
Proof.
  induction m as [|[k l] r IH]; cbn [add_spec flat_map snd In app]; [tauto|].
  destruct (String.eqb v k) eqn:E; cbn [flat_map snd].
  - rewrite !in_app_iff. cbn [In]. tauto.
  - rewrite !in_app_iff, IH. tauto.
Qed.

Lemma specs_members files : forall st,
  (forall w, In w (map fst (r_specs (fold_left add_scanned files st))) <->
             In w (map fst (r_specs st)) \/ In w (map vendor_of (loaded files))) /\
  (forall g, In g (flat_map snd (r_specs (fold_left add_scanned files st))) <->
             In g (flat_map snd (r_specs st)) \/ In g (loaded files)).
Proof.
  induction files as [|x r IH]; intro st; cbn [fold_left loaded map In]; [split; intro; tauto|].
  destruct (IH (add_scanned st x)) as [I1 I2]. split; [intro w; rewrite I1|intro g; rewrite I2];
    destruct x as [f|p]; cbn [add_scanned loaded map In r_specs]; try tauto;
    rewrite fold_add_dev_specs; cbn [r_specs].
  - rewrite keys_add_spec. tauto.
  - rewrite files_add_spec. tauto.
Qed.

Theorem list_vendors_exact files v :
  In v (list_vendors (refresh_files files)) <-> exists f, In f (loaded files) /\ vendor_of f = v.
Proof.
  unfold list_vendors, refresh_files, refresh_st. cbn [c_specs]. rewrite In_sort_strings, In_dedup_s.
  rewrite (proj1 (specs_members files (mkR [] [] [] []))). cbn [r_specs map In]. rewrite in_map_iff.
  split; [intros [[]|[f [E H]]]; exists f; auto|intros [f [H E]]; right; exists f; auto].
Qed.
Theorem list_classes_exact files k :
  In k (list_classes (refresh_files files)) <-> exists f, In f (loaded files) /\ class_of f = k.
Proof.
  unfold list_classes, refresh_files, refresh_st. cbn [c_specs]. rewrite In_sort_strings, In_dedup_s, in_map_iff.
  split.
  - intros [f [E H]]. apply (proj2 (specs_members files (mkR [] [] [] []))) in H. cbn [r_specs flat_map In] in H.
    destruct H as [[]|H]. exists f. auto.
  - intros [f [H E]]. exists f. split; [exact E|]. apply (proj2 (specs_members files (mkR [] [] [] []))). right. exact H.
Qed.

(* ---------- only Spec-named files directly inside a configured directory count ---------- *)
Lemma insert_entry_perm_flat (g : string * entry -> list scanned) x l :
  (forall y, In y l -> True) ->
  g x = [] -> flat_map g (insert_entry x l) = flat_map g l.
Proof.
  intros _ Hx. induction l as [|y r IH]; cbn [insert_entry flat_map]; [rewrite Hx; reflexivity|].
  destruct (str_ltb (fst y) (fst x)); cbn [flat_map]; [rewrite IH; reflexivity|rewrite Hx; reflexivity].
Qed.

(* adding an entry whose name is not a Spec name, or a sub-directory (whatever it contains), never changes the scan *)
Theorem scan_ignores_entry prio dpath l x :
  (is_spec_name (fst x) = false \/ snd x = ESub) ->
  scan_dir prio (dpath, DDir (x :: l)) = scan_dir prio (dpath, DDir l).
Proof.
  intro H. cbn [scan_dir sort_entries fold_right]. apply insert_entry_perm_flat; [auto|].
  destruct H as [H|H]; [rewrite H; reflexivity|]. rewrite H. destruct (is_spec_name (fst x)); reflexivity.
Qed.
(* a missing directory contributes nothing and an unscannable one does not stop the scan of the others *)
Theorem scan_skips_unusable prio d r : snd d = DMissing \/ snd d = DUnscannable ->
  scan_from prio (d :: r) = scan_from (S prio) r.
Proof. destruct d as [p st]. cbn [snd]. intros [->| ->]; reflexivity. Qed.

(* ---------- C13: isolation and the error report ---------- *)
(* how n resolves depends only on the loaded files that define n: files that are invalid, unreadable, in unscannable
   directories, or define other devices never matter *)
Theorem isolation n fl1 fl2 : defs n fl1 = defs n fl2 -> resolve_spec fl1 n = resolve_spec fl2 n.
Proof. unfold resolve_spec, at_top. intros ->. reflexivity. Qed.

Lemma add_dev_errs_mono f st d p : In p (r_errs st) -> In p (r_errs (add_dev f st d)).
Proof.
  intro H. unfold add_dev. destruct (dlookup (qname f d) (r_devs st)) as [old|]; [|exact H].
  destruct (Nat.ltb (lf_prio (cd_file old)) (lf_prio f)); [exact H|].
  destruct (Nat.eqb (lf_prio f) (lf_prio (cd_file old))); [|exact H]. cbn [r_errs]. apply in_or_app. left. exact H.
Qed.
Lemma add_scanned_errs_mono st x p : In p (r_errs st) -> In p (r_errs (add_scanned st x)).
Proof.
  intro H. destruct x as [f|q]; cbn [add_scanned]; [|cbn [r_errs]; apply in_or_app; left; exact H].
  generalize (s_devices (lf_spec f)) as l.
  assert (G : forall l st', In p (r_errs st') -> In p (r_errs (fold_left (add_dev f) l st'))).
  { induction l as [|d r IH]; intros st' H'; cbn [fold_left]; [exact H'|]. apply IH. apply add_dev_errs_mono. exact H'. }
  intro l. apply G. exact H.
Qed.
Lemma fold_errs_mono files : forall st p, In p (r_errs st) -> In p (r_errs (fold_left add_scanned files st)).
Proof. induction files as [|x r IH]; intros st p H; cbn [fold_left]; [exact H|]. apply IH. apply add_scanned_errs_mono. exact H. Qed.

(* every failing Spec file has an entry in the error report, and an explicit refresh then returns an error *)
Theorem failed_reported files p : In p (failed files) -> In p (error_keys (refresh_files files)).
Proof.
  unfold error_keys, refresh_files, refresh_st. cbn [c_errs]. rewrite In_sort_strings, In_dedup_s.
  generalize (mkR [] [] [] []) as st. induction files as [|x r IH]; intros st H; cbn [failed] in H; [destruct H|].
  cbn [fold_left]. destruct x as [f|q].
  - apply IH. exact H.
  - destruct H as [<-|H]; [|apply IH; exact H]. apply fold_errs_mono. cbn [add_scanned r_errs]. apply in_or_app. right. left. reflexivity.
Qed.
Theorem refresh_fails_iff c : refresh_fails c = true <-> error_keys c <> [].
Proof.
  unfold refresh_fails, error_keys. destruct (c_errs c) as [|p r] eqn:E; [split; [discriminate|intro H; exfalso; apply H; reflexivity]|].
  split; [|reflexivity]. intros _ H.
  assert (X : In p (sort_strings (dedup_s (p :: r)))) by (apply In_sort_strings, In_dedup_s; left; reflexivity).
  rewrite H in X. destruct X.
Qed.

(* errors are recorded only for failing files and for loaded files (conflicts): a path in the report is one of those *)
Lemma add_dev_errs_src f st d p : In p (r_errs (add_dev f st d)) ->
  In p (r_errs st) \/ p = lf_path f \/ exists k cd, dlookup k (r_devs st) = Some cd /\ p = lf_path (cd_file cd).
Proof.
  unfold add_dev. destruct (dlookup (qname f d) (r_devs st)) as [old|] eqn:L; [|auto].
  destruct (Nat.ltb (lf_prio (cd_file old)) (lf_prio f)); [auto|].
  destruct (Nat.eqb (lf_prio f) (lf_prio (cd_file old))); [|auto]. cbn [r_errs]. intro H.
  apply in_app_or in H as [H|[<-|[<-|[]]]]; auto. right. right. exists (qname f d), old. auto.
Qed.

(* memorylessness: the cache after a refresh is a function of the current directory contents only; in particular an
   error entry is present iff its cause is present now (an entry disappears at the first refresh after repair) *)
Theorem refresh_memoryless fs1 fs2 : scan fs1 = scan fs2 -> refresh fs1 = refresh fs2.
Proof. unfold refresh. intros ->. reflexivity. Qed.

(* ---------- a file in the highest-priority directory wins (used by C16: the written Spec's devices resolve to it) ---------- *)
Theorem top_unique_resolves n a f b :
  defines n f = true ->
  (forall g, In g (a ++ b) -> lf_prio g <= lf_prio f) ->
  (forall g, In g (a ++ b) -> lf_prio g = lf_prio f -> defines n g = false) ->
  exists d, def_in f n (s_devices (lf_spec f)) = Some d /\ resolve_spec (a ++ f :: b) n = Some (mkCdev f d).
Proof.
  intros Hdef Hle Hno.
  assert (Top : top (defs n (a ++ f :: b)) = lf_prio f).
  { apply Nat.le_antisymm.
    - apply top_bound. apply Forall_filter. apply Forall_forall. intros g Hg.
      apply in_app_or in Hg as [Hg|[<-|Hg]]; [apply Hle; apply in_or_app; left; exact Hg|lia|apply Hle; apply in_or_app; right; exact Hg].
    - apply top_ge. apply filter_In. split; [apply in_or_app; right; left; reflexivity|exact Hdef]. }
  assert (F : forall l, (forall g, In g l -> In g (a ++ b)) ->
              filter (fun g => Nat.eqb (lf_prio g) (lf_prio f)) (filter (defines n) l) = []).
  { induction l as [|g r IH]; intro Hl; cbn [filter]; [reflexivity|].
    destruct (defines n g) eqn:D; cbn [filter].
    - destruct (Nat.eqb (lf_prio g) (lf_prio f)) eqn:E.
      + apply Nat.eqb_eq in E. rewrite (Hno g (Hl g (or_introl eq_refl)) E) in D. discriminate.
      + apply IH. intros h Hh. apply Hl. right. exact Hh.
    - apply IH. intros h Hh. apply Hl. right. exact Hh. }
  unfold resolve_spec, at_top. rewrite Top. unfold defs. rewrite filter_app. cbn [filter]. rewrite Hdef.
  rewrite filter_app. cbn [filter]. rewrite Nat.eqb_refl.
  rewrite (F a) by (intros g Hg; apply in_or_app; left; exact Hg).
  rewrite (F b) by (intros g Hg; apply in_or_app; right; exact Hg). cbn [app].
  unfold defines in Hdef. destruct (def_in f n (s_devices (lf_spec f))) as [d|]; [|discriminate].
  exists d. split; reflexivity.
Qed.

(* ---------- histories (manual refresh): directory changes and refreshes in any order ---------- *)
Inductive cop := OChange (fs : fsview) | ORefresh.
Definition cstep (st : fsview * cache) (o : cop) : fsview * cache :=
  match o with OChange fs' => (fs', snd st) | ORefresh => (fst st, refresh (fst st)) end.
(* whatever happened before, after a refresh the cache is the refresh of the CURRENT directory contents: every query then
   answers by the precedence rule on what is there now *)
Theorem history_then_refresh ops st :
  let st' := fold_left cstep (ops ++ [ORefresh]) st in snd st' = refresh (fst st').
Proof. cbn zeta. rewrite fold_left_app. cbn [fold_left cstep fst snd]. reflexivity. Qed.
Theorem history_resolves ops st n :
  let st' := fold_left cstep (ops ++ [ORefresh]) st in
  unique_names (scan (fst st')) -> get_device (snd st') n = resolve_spec (loaded (scan (fst st'))) n.
Proof. cbn zeta. intro U. rewrite history_then_refresh. apply refresh_resolves_fs. exact U. Qed.
