(* AtomicWrite.v — C10: the Spec directory at inode level, the file-system operations used by
   Spec.write() in pkg/cdi/spec.go, the writer's program for every chunking and every fault,
   an interleaved reader, and the boolean forms of the atomic-publication predicates which the
   case judge evaluates on OBSERVED system-call sequences and directory listings.
   Executable definitions only; the proofs are in AtomicWriteProofs.v. *)
From Coq Require Import String Ascii List Bool Arith.
From CDI Require Import Base Paths.
Import ListNotations.
Open Scope string_scope.

Definition name := string.      (* a directory entry of the Spec directory *)
Definition bytes := string.
Definition inode := nat.

(* os.CreateTemp(dir, "spec.*.tmp"): prefix ++ random part ++ suffix *)
Definition tmp_name (rnd : string) : name := "spec." ++ rnd ++ ".tmp".
Definition all_digits (s : string) : bool := forallb_s is_digit s.

(* ---- association lists: directory entries (by name), descriptor table (by number) ---- *)
Fixpoint lookup {A} (n : name) (l : list (name * A)) : option A :=
  match l with
  | [] => None
  | (m, v) :: r => if String.eqb n m then Some v else lookup n r
  end.

Fixpoint remove_n {A} (n : name) (l : list (name * A)) : list (name * A) :=
  match l with
  | [] => []
  | (m, v) :: r => if String.eqb n m then remove_n n r else (m, v) :: remove_n n r
  end.

Definition nbind {A} (n : name) (v : A) (l : list (name * A)) : list (name * A) := (n, v) :: remove_n n l.

Fixpoint flookup {A} (k : nat) (l : list (nat * A)) : option A :=
  match l with
  | [] => None
  | (j, v) :: r => if Nat.eqb k j then Some v else flookup k r
  end.

Fixpoint fremove {A} (k : nat) (l : list (nat * A)) : list (nat * A) :=
  match l with
  | [] => []
  | (j, v) :: r => if Nat.eqb k j then fremove k r else (j, v) :: fremove k r
  end.

(* inode contents; a missing entry reads as the empty file *)
Fixpoint dget (d : list (inode * bytes)) (i : inode) : bytes :=
  match d with
  | [] => ""
  | (j, b) :: r => if Nat.eqb i j then b else dget r i
  end.
Definition dset (i : inode) (b : bytes) (d : list (inode * bytes)) : list (inode * bytes) := (i, b) :: d.

(* ---- byte strings: positional write ---- *)
Fixpoint take_s (n : nat) (s : string) : string :=
  match n, s with
  | S n', String c r => String c (take_s n' r)
  | _, _ => EmptyString
  end.

(* s cut or extended with zero bytes to exactly n bytes (a write beyond the end leaves a hole) *)
Fixpoint pad_to (n : nat) (s : string) : string :=
  match n with
  | 0 => EmptyString
  | S n' => match s with
            | EmptyString => String zero (pad_to n' EmptyString)
            | String c r => String c (pad_to n' r)
            end
  end.

(* the file content s after b was written at offset off *)
Definition write_at (s : bytes) (off : nat) (b : bytes) : bytes :=
  pad_to off s ++ b ++ drop_s (off + String.length b) s.

Fixpoint concat_s (l : list string) : string :=
  match l with [] => EmptyString | x :: r => x ++ concat_s r end.

(* ---- the directory ---- *)
Record fs := mkfs {
  dir_ok : bool;                          (* the Spec directory exists *)
  names  : list (name * inode);           (* its entries (regular files) *)
  data   : list (inode * bytes);          (* inode contents *)
  next   : inode;                         (* the next inode the kernel hands out *)
  fds    : list (nat * (inode * nat))     (* open descriptors: number -> inode and file offset *)
}.

Definition content (st : fs) (n : name) : option bytes := option_map (dget (data st)) (lookup n (names st)).

Inductive op :=
| MkdirAll                                             (* os.MkdirAll(dir) *)
| OpenW (fd : nat) (n : name) (creat excl trunc : bool)  (* openat(dir/n, O_WRONLY or O_RDWR, flags) returning fd *)
| WriteChunk (fd : nat) (b : bytes)                    (* a write(2) on fd that transferred exactly b *)
| Close (fd : nat)
| Rename (src dst : name) (noreplace : bool)           (* rename / renameat2 inside the directory: atomic rebinding *)
| Unlink (n : name)
| Fail (call : string)                                 (* a system call that failed: no effect *)
| Other (call : string).                               (* a call on the directory which is not modelled (no effect in the model) *)

(* CreateTemp's open: O_RDWR|O_CREAT|O_EXCL *)
Definition CreateExcl (fd : nat) (n : name) : op := OpenW fd n true true false.

Definition step (st : fs) (o : op) : fs :=
  match o with
  | MkdirAll => mkfs true (names st) (data st) (next st) (fds st)
  | OpenW f n creat excl trunc =>
      match lookup n (names st) with
      | Some i =>
          if creat && excl then st
          else mkfs (dir_ok st) (names st) (if trunc then dset i "" (data st) else data st) (next st)
                    ((f, (i, 0)) :: fds st)
      | None =>
          if creat && dir_ok st
          then mkfs (dir_ok st) (nbind n (next st) (names st)) (dset (next st) "" (data st)) (S (next st))
                    ((f, (next st, 0)) :: fds st)
          else st
      end
  | WriteChunk f b =>
      match flookup f (fds st) with
      | Some (i, off) =>
          mkfs (dir_ok st) (names st) (dset i (write_at (dget (data st) i) off b) (data st)) (next st)
               ((f, (i, off + String.length b)) :: fds st)
      | None => st
      end
  | Close f => mkfs (dir_ok st) (names st) (data st) (next st) (fremove f (fds st))
  | Rename src dst noreplace =>
      match lookup src (names st) with
      | Some i =>
          if noreplace && match lookup dst (names st) with Some _ => true | None => false end then st
          else mkfs (dir_ok st) (nbind dst i (remove_n src (names st))) (data st) (next st) (fds st)
      | None => st
      end
  | Unlink n => mkfs (dir_ok st) (remove_n n (names st)) (data st) (next st) (fds st)
  | Fail _ => st
  | Other _ => st
  end.

Definition run (l : list op) (st : fs) : fs := fold_left step l st.

(* every intermediate state, the initial one first *)
Fixpoint trace (st : fs) (l : list op) : list fs :=
  st :: match l with [] => [] | o :: r => trace (step st o) r end.

(* ---- the writer: Spec.write() ---- *)
Inductive fault :=
| NoFault
| MkdirFails                  (* os.MkdirAll returns an error: return *)
| CreateFails                 (* os.CreateTemp returns an error: return *)
| WriteFails (k : nat)        (* tmp.Write fails after k bytes: close, return; the temp file stays *)
| RenameFails.                (* renameat2 fails: remove the temp file, return *)

Record wparams := mkw {
  w_target : name;            (* filepath.Base(s.path) *)
  w_new    : bytes;           (* the marshalled Spec *)
  w_rnd    : string;          (* CreateTemp's random part *)
  w_fd     : nat;             (* the descriptor CreateTemp returns *)
  w_chunks : list nat;        (* sizes of the successive successful write(2) calls *)
  w_fault  : fault
}.

(* s cut into pieces of the given sizes; what is left over forms a last piece *)
Fixpoint split_chunks (sizes : list nat) (s : string) : list string :=
  match sizes with
  | [] => match s with EmptyString => [] | _ => [s] end
  | k :: r => take_s k s :: split_chunks r (drop_s k s)
  end.

Definition written (p : wparams) : bytes :=
  match w_fault p with WriteFails k => take_s k (w_new p) | _ => w_new p end.

Definition w_tmp (p : wparams) : name := tmp_name (w_rnd p).

Definition chunk_ops (p : wparams) : list op :=
  map (WriteChunk (w_fd p)) (split_chunks (w_chunks p) (written p)).

Definition post_ops (p : wparams) : list op :=
  match w_fault p with
  | WriteFails _ => [Fail "write"; Close (w_fd p)]
  | RenameFails => [Close (w_fd p); Fail "rename"; Unlink (w_tmp p)]
  | _ => [Close (w_fd p); Rename (w_tmp p) (w_target p) false]
  end.

Definition writer_ops (p : wparams) : list op :=
  match w_fault p with
  | MkdirFails => [Fail "mkdir"]
  | CreateFails => [MkdirAll; Fail "open"]
  | _ => MkdirAll :: CreateExcl (w_fd p) (w_tmp p) :: (chunk_ops p ++ post_ops p)%list
  end.

(* number of operations before the rename (for the faults that get that far) *)
Definition rename_pos (p : wparams) : nat := 3 + length (chunk_ops p).

Definition failed (p : wparams) : bool := match w_fault p with NoFault => false | _ => true end.

(* number of operations completed when the hook verifPoint("write:<step>") is reached:
   0 mkdir, 1 created, 2 written, 3 closed, 4 renamed; anything else: the call returned *)
Definition crash_prefix (p : wparams) (hook : nat) : nat :=
  let n := length (chunk_ops p) in
  match w_fault p with
  | MkdirFails | CreateFails => length (writer_ops p)
  | WriteFails _ =>
      match hook with 0 => 1 | 1 => 2 | 2 => 3 + n | _ => length (writer_ops p) end
  | _ =>
      match hook with 0 => 1 | 1 => 2 | 2 => 2 + n | 3 => 3 + n | 4 => 4 + n | _ => length (writer_ops p) end
  end.

(* inodes in use are below the allocation mark: the kernel hands out a fresh inode *)
Definition wf (st : fs) : Prop := forall n i, lookup n (names st) = Some i -> i < next st.
Definition wfb (st : fs) : bool := forallb (fun e => Nat.ltb (snd e) (next st)) (names st).

(* ---- an interleaved reader: open a name, read it in pieces until end of file (os.ReadFile) ---- *)
Inductive rop := ROpen (n : name) | RRead (len : nat).

Record reader := mkr {
  r_ino  : option inode;      (* the inode the open bound the descriptor to *)
  r_off  : nat;
  r_buf  : bytes;
  r_eof  : bool
}.

Definition reader0 : reader := mkr None 0 "" false.

Definition rstep (st : fs) (rd : reader) (r : rop) : reader :=
  match r with
  | ROpen n => mkr (lookup n (names st)) 0 "" false
  | RRead len =>
      match r_ino rd with
      | None => rd
      | Some i =>
          let chunk := take_s len (drop_s (r_off rd) (dget (data st) i)) in
          mkr (r_ino rd) (r_off rd + String.length chunk) (r_buf rd ++ chunk)
              (r_eof rd || (negb (Nat.eqb len 0) && Nat.eqb (String.length chunk) 0))
      end
  end.

(* what ReadFile returns once it has seen end of file *)
Definition r_result (rd : reader) : option bytes := if r_eof rd then Some (r_buf rd) else None.

Inductive ev := EvW | EvR (r : rop).        (* a schedule: whose turn it is *)

Definition sys := (fs * list op * reader)%type.

Definition sys_step (s : sys) (e : ev) : sys :=
  match s with
  | (st, prog, rd) =>
      match e with
      | EvW => match prog with [] => s | o :: rest => (step st o, rest, rd) end
      | EvR r => (st, prog, rstep st rd r)
      end
  end.

Definition sys_run (sched : list ev) (s : sys) : sys := fold_left sys_step sched s.

(* ---- the property as a boolean on one state (evaluated by the judge on observed sequences) ---- *)
Definition ob_eqb (a b : option bytes) : bool := option_eqb String.eqb a b.

(* under name n: the previous complete content (or still nothing), or - the target only - the complete new content *)
Definition entry_ok (st0 : fs) (tgt : name) (new : bytes) (st : fs) (n : name) : bool :=
  ob_eqb (content st n) (content st0 n) || (String.eqb n tgt && ob_eqb (content st n) (Some new)).

Definition atomic_ok_b (st0 : fs) (tgt : name) (new : bytes) (st : fs) : bool :=
  forallb (fun n => negb (is_spec_name n) || entry_ok st0 tgt new st n)
          (map fst (names st) ++ map fst (names st0))%list.

(* the inodes bound to Spec names, with their contents *)
Definition published (st : fs) : list (inode * bytes) :=
  map (fun e => (snd e, dget (data st) (snd e))) (filter (fun e => is_spec_name (fst e)) (names st)).

(* along a sequence of states: an inode is never changed once it has been bound to a Spec name *)
Fixpoint immut_from (frozen : list (inode * bytes)) (sts : list fs) : bool :=
  match sts with
  | [] => true
  | st :: r =>
      forallb (fun e => String.eqb (dget (data st) (fst e)) (snd e)) frozen &&
      immut_from (published st ++ frozen)%list r
  end.
Definition immut_ok_b (sts : list fs) : bool := immut_from [] sts.

(* index of the first state of a sequence which violates p (for replays) *)
Fixpoint first_bad {A} (p : A -> bool) (i : nat) (l : list A) : option nat :=
  match l with
  | [] => None
  | x :: r => if p x then first_bad p (S i) r else Some i
  end.

(* ---- directory listings (for the correspondence with real directories) ---- *)
Fixpoint insert_entry {A} (e : name * A) (l : list (name * A)) : list (name * A) :=
  match l with
  | [] => [e]
  | y :: r => if str_ltb (fst y) (fst e) then y :: insert_entry e r else e :: l
  end.
Definition sort_entries {A} (l : list (name * A)) : list (name * A) := fold_right insert_entry [] l.

(* all entries with their contents, sorted by name *)
Definition listing (st : fs) : list (name * bytes) :=
  sort_entries (map (fun e => (fst e, dget (data st) (snd e))) (names st)).

(* a directory given by its listing (entries with distinct names, each its own inode) *)
Fixpoint fs_of_aux (l : list (name * bytes)) (i : inode) : list (name * inode) * list (inode * bytes) :=
  match l with
  | [] => ([], [])
  | (n, b) :: r => let '(ns, ds) := fs_of_aux r (S i) in ((n, i) :: ns, (i, b) :: ds)
  end.
Definition fs_of (dir : bool) (l : list (name * bytes)) : fs :=
  let '(ns, ds) := fs_of_aux l 0 in mkfs dir ns ds (length l) [].
