(* Judge06.v — evaluation of harness cases for C06. *)
From Coq Require Import String Ascii List Bool Arith ZArith.
From CDI Require Import Base SpecModel Version.
Import ListNotations.
Open Scope string_scope.

(* observed: MinimumRequiredVersion (None = panic), ValidateVersion returned an error (None = panic),
   cdi.ReadSpec of the JSON file of the (otherwise valid) Spec: 0 accepted, 1 rejected, 2 panicked, 3 not run *)
Inductive case06 := C06 (s : spec) (minv : option string) (verr : option bool) (readspec : nat).

Definition corr06 (c : case06) : bool :=
  match c with
  | C06 s minv verr rs =>
      option_eqb String.eqb minv (Some (minimum_required_version s)) &&
      option_eqb Bool.eqb verr (Some (negb (is_ok (validate_version s)))) &&
      (Nat.eqb rs 3 || Nat.eqb rs (if is_ok (validate_version s) then 0 else 1))
  end.

(* declarative side, straight from the property text; "anywhere" = spec level or any device *)
Definition any_edits (p : edits -> bool) (s : spec) : bool :=
  p (s_edits s) || existsb (fun d => p (d_edits d)) (s_devices s).
Definition o_f040 (s : spec) : bool :=
  any_edits (fun e => existsb (fun m => negb (String.eqb (m_type m) "")) (somes (e_mounts e))) s.
Definition o_f050 (s : spec) : bool :=
  any_edits (fun e => existsb (fun d => negb (String.eqb (dn_hostpath d) "")) (somes (e_nodes e))) s ||
  existsb (fun d => match first_char (d_name d) with Some c => is_digit c | None => false end) (s_devices s).
Definition o_f060 (s : spec) : bool :=
  negb (Nat.eqb (length (s_annot s)) 0) || existsb (fun d => negb (Nat.eqb (length (d_annot d)) 0)) (s_devices s) ||
  match split_all "/" (s_kind s) with _ :: c :: rest => existsb (contains ".") (c :: rest) | _ => false end.
Definition o_f070 (s : spec) : bool :=
  any_edits (fun e => match e_rdt e with Some _ => true | None => false end || negb (Nat.eqb (length (e_gids e)) 0)) s.
Definition o_required (s : spec) : string := required_spec (o_f040 s) (o_f050 s) (o_f060 s) (o_f070 s).
Definition index_of (v : string) : option nat :=
  (fix go (l : list string) (i : nat) := match l with [] => None | x :: r => if String.eqb x v then Some i else go r (S i) end)
    released_versions 0.
Definition o_valid (s : spec) : bool :=
  match declared (s_version s), index_of (o_required s) with
  | Some v, Some ir => match index_of v with Some iv => Nat.leb ir iv | None => false end
  | _, _ => false
  end.

Definition oracle06 (c : case06) : bool :=
  match c with
  | C06 s minv verr rs =>
      option_eqb String.eqb minv (Some (trim_prefix "v" (o_required s))) &&
      option_eqb Bool.eqb verr (Some (negb (o_valid s))) &&
      (Nat.eqb rs 3 || Nat.eqb rs (if o_valid s then 0 else 1))
  end.

Definition judge06 (cases : list case06) : list nat * list nat :=
  (bad_indices corr06 0 cases, bad_indices oracle06 0 cases).
