(* PathsProofs.v — C16: generated Spec file names are single path components; joining a single
   component onto a directory stays directly inside that directory (at the level of Clean's normal form). *)
From Coq Require Import String Ascii List Bool Arith Lia.
From CDI Require Import Base Parser ParserProofs Paths.
Import ListNotations.
Open Scope string_scope.

(* ---------------- split_all distributes over a separator ---------------- *)
Lemma split_all_app_gen sep a b :
  split_all sep (a ++ String sep b) = (split_all sep a ++ split_all sep b)%list.
Proof.
  induction a as [|c r IH]; cbn [append split_all].
  - rewrite Ascii.eqb_refl. reflexivity.
  - destruct (Ascii.eqb c sep).
    + rewrite IH. reflexivity.
    + rewrite IH. pose proof (split_all_nonnil sep r) as N.
      destruct (split_all sep r) as [|x xs]; [congruence|]. reflexivity.
Qed.

Lemma replace_no_old o n s : Ascii.eqb n o = false -> contains o (replace_char o n s) = false.
Proof.
  intro H. induction s as [|c r IH]; cbn; [reflexivity|].
  destruct (Ascii.eqb c o) eqn:E.
  - rewrite H. exact IH.
  - rewrite E. exact IH.
Qed.

(* ---------------- generated names ---------------- *)
Lemma VC_no_slash s : VC s -> contains "/" s = false.
Proof. intro H. apply (forallb_not_contains dn_mid); [apply VC_chars; exact H|reflexivity]. Qed.

Lemma VC_first_letter s : VC s -> exists c r, s = String c r /\ is_letter c = true.
Proof. intros [c Hf _ | c m l Hf _ _]; eexists _, _; split; try reflexivity; exact Hf. Qed.

Lemma letter_not_dot c : is_letter c = true -> Ascii.eqb c "." = false.
Proof. destruct c as [[] [] [] [] [] [] [] []]; vm_compute; congruence. Qed.

Lemma single_component_intro c r :
  contains "/" (String c r) = false -> Ascii.eqb c "." = false -> single_component (String c r) = true.
Proof.
  intros H1 H2. unfold single_component. rewrite H1. cbn [negb andb String.eqb].
  rewrite H2. reflexivity.
Qed.

Theorem spec_name_single_component v c :
  VC v -> VC c -> single_component (generate_spec_name v c) = true.
Proof.
  intros Hv Hc. destruct (VC_first_letter _ Hv) as (c0 & r0 & E & Hl).
  unfold generate_spec_name.
  assert (H : contains "/" (v ++ "-" ++ c) = false).
  { change (v ++ "-" ++ c) with (v ++ String "-" c). rewrite contains_app. cbn [contains].
    rewrite (VC_no_slash _ Hv), (VC_no_slash _ Hc). reflexivity. }
  rewrite E in H |- *. cbn [append] in H |- *. apply single_component_intro; [exact H|].
  apply letter_not_dot. exact Hl.
Qed.

Theorem transient_name_single_component v c tid :
  VC v -> VC c -> single_component (generate_transient_spec_name v c tid) = true.
Proof.
  intros Hv Hc. destruct (VC_first_letter _ Hv) as (c0 & r0 & E & Hl).
  unfold generate_transient_spec_name, generate_spec_name.
  assert (H : contains "/" ((v ++ "-" ++ c) ++ "_" ++ replace_char "/" "_" tid) = false).
  { change ((v ++ "-" ++ c) ++ "_" ++ replace_char "/" "_" tid)
      with ((v ++ String "-" c) ++ String "_" (replace_char "/" "_" tid)).
    rewrite !contains_app. cbn [contains].
    rewrite (VC_no_slash _ Hv), (VC_no_slash _ Hc), replace_no_old by reflexivity. reflexivity. }
  rewrite E in H |- *. cbn [append] in H |- *. apply single_component_intro; [exact H|].
  apply letter_not_dot. exact Hl.
Qed.

(* ---------------- confinement at the level of Clean's normal form ---------------- *)
Lemma single_component_spec n :
  single_component n = true ->
  contains "/" n = false /\ String.eqb n "" = false /\ String.eqb n "." = false /\ String.eqb n ".." = false.
Proof.
  unfold single_component. intro H. repeat (apply andb_true_iff in H as [H ?]).
  repeat split; apply negb_true_iff; assumption.
Qed.

Lemma clean_step_push rooted st n : single_component n = true -> clean_step rooted st n = n :: st.
Proof.
  intro H. apply single_component_spec in H as (_ & H1 & H2 & H3).
  unfold clean_step. rewrite H1, H2, H3. reflexivity.
Qed.

Lemma is_rooted_app d x : d <> "" -> is_rooted (d ++ x) = is_rooted d.
Proof. destruct d; [congruence|reflexivity]. Qed.

(* the file lands directly inside the directory: the normal form of dir/name is the normal form of dir
   extended by exactly the component name *)
Theorem join_confined d n :
  d <> "" -> single_component n = true ->
  norm (d ++ "/" ++ n) = (is_rooted d, (snd (norm d) ++ [n])%list).
Proof.
  intros Hd Hn. unfold norm. rewrite (is_rooted_app d _ Hd). f_equal. cbn [snd].
  change (d ++ "/" ++ n) with (d ++ String "/" n). rewrite split_all_app_gen.
  destruct (single_component_spec _ Hn) as (Hs & _).
  rewrite (split_all_nosep _ _ Hs), fold_left_app. cbn [fold_left].
  rewrite (clean_step_push _ _ _ Hn). reflexivity.
Qed.

(* adding the default extension changes only that last component *)
Lemma single_component_suffix n e :
  single_component n = true -> contains "/" e = false -> single_component (n ++ e) = true.
Proof.
  intros Hn He. destruct (single_component_spec _ Hn) as (H1 & H2 & H3 & H4).
  destruct n as [|c r]; [discriminate|].
  unfold single_component. rewrite contains_app, H1, He. cbn [negb orb andb append String.eqb].
  destruct r as [|c2 r2].
  - (* n is one character, not "." *)
    cbn [append]. destruct (Ascii.eqb c ".") eqn:E.
    + apply Ascii.eqb_eq in E. subst. discriminate.
    + reflexivity.
  - destruct (Ascii.eqb c ".") eqn:E; [|reflexivity].
    cbn [append String.eqb]. destruct (Ascii.eqb c2 ".") eqn:E2; [|reflexivity].
    destruct r2 as [|c3 r3]; [|reflexivity].
    apply Ascii.eqb_eq in E. apply Ascii.eqb_eq in E2. subst. discriminate.
Qed.

Theorem join_confined_ext d n :
  d <> "" -> single_component n = true ->
  norm ((d ++ "/" ++ n) ++ ".yaml") = (is_rooted d, (snd (norm d) ++ [(n ++ ".yaml")%string])%list).
Proof.
  intros Hd Hn. rewrite !app_assoc_s. apply (join_confined d (n ++ ".yaml") Hd).
  apply single_component_suffix; [exact Hn|reflexivity].
Qed.

(* write and remove compute their target from the same function of (directories, name) *)
Theorem remove_path_eq_target dirs n : remove_path dirs n = target_path dirs n.
Proof. reflexivity. Qed.
Theorem write_path_from_target dirs n :
  write_path dirs n = option_map (fun p => with_default_ext (clean p)) (remove_path dirs n).
Proof. unfold write_path, remove_path. destruct (target_path dirs n); reflexivity. Qed.

(* the temporary file of the writer is never a Spec file name *)
Lemma ext_aux_nodot s acc : contains "." s = false -> contains "/" s = false -> ext_aux s acc = match acc with Some e => e | None => "" end.
Proof.
  revert acc. induction s as [|c r IH]; intros acc Hd Hs; cbn; [reflexivity|].
  cbn in Hd, Hs. apply orb_false_iff in Hd as [Hd1 Hd2]. apply orb_false_iff in Hs as [Hs1 Hs2].
  rewrite Hs1, Hd1. apply IH; assumption.
Qed.

Example write_path_example :
  write_path ["/etc/cdi"; "/var/run//cdi/"] (generate_transient_spec_name "vendor.com" "gpu" "pod/ctr") =
  Some "/var/run/cdi/vendor.com-gpu_pod_ctr.yaml".
Proof. reflexivity. Qed.
Example write_path_json :
  write_path ["/var/run/cdi"] (generate_spec_name "vendor.com" "net.json") = Some "/var/run/cdi/vendor.com-net.json".
Proof. reflexivity. Qed.
