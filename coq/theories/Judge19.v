(* Judge19.v — evaluation of harness cases for C19: the built cdi and validate binaries against the library's
   answers for the same directories / documents.

   corr19   : the model of the command (Cli.v), fed with the LIBRARY's answers, reproduces the observed stdout
              (byte for byte for the plain listings; frame plus bodies-as-printed for the verbose ones; through
              the parser and up to order for the error listing, whose texts and map order are not modelled) and
              the observed exit status.
   oracle19 : the property on the observed output alone, independent of the renderers: the parsed listing equals
              the library's listing, the files reported in error are exactly the keys of the library's error map,
              the exit status is non-zero iff the library reports cache errors (inject / resolve: or the selection
              or injection fails; cmd/validate: iff a document fails or the schema cannot be loaded), the printed
              objects decode to the library's objects (canonical JSON computed by the harness). *)
From Coq Require Import String Ascii List Bool Arith NArith ZArith.
From CDI Require Import Base Cli.
From CDIGen Require Import CliGen.
Import ListNotations.
Open Scope string_scope.

Inductive lsub :=
| LDevices | LVendors | LClasses | LDirs | LValidate | LDevicesV
| LSpecs (args : list string) | LSpecsV (args : list string).

Inductive case19 :=
(* a listing sub-command.  given: --spec-dirs present (else the default directories are in use and v is the
   library's view of those).  lib_bodies: canonical JSON of the library's objects in print order (verbose only);
   obs_bodies: per printed object (found by the harness) its lines as printed (unindented) and the canonical
   JSON they decode to *)
| CList (given : bool) (s : lsub) (v : lib_view) (lib_bodies : list string)
        (stdout : string) (exit : Z) (obs_bodies : list (list string * string))
(* cdi inject: rows = filepath.Match results per listed device per pattern; sel = devices the harness handed to
   the library; lib_ok / lib_canon = result of Cache.InjectDevices on the same OCI Spec; obs = printed OCI Spec *)
| CInject (v : lib_view) (rows : list (string * list mres)) (sel : list string) (lib_ok : bool) (lib_canon : string)
          (stdout : string) (exit : Z) (obs : option (list string * string))
(* cdi resolve of one OCI Spec file: the library's answer (unresolved devices, success, canonical result) for the
   directories given with --spec-dirs (_g) and for the default directories (_d) *)
| CResolve (v : lib_view)
           (unres_g : list string) (ok_g : bool) (canon_g : string)
           (unres_d : list string) (ok_d : bool) (canon_d : string)
           (stdout : string) (exit : Z) (obs : option (list string * string))
(* cdi resolve f1 f2 ... (no cache errors) against the runs of cdi resolve on each file alone (stdout, exit status) *)
| CResolveMany (singles : list (string * Z)) (stdout : string) (exit : Z)
(* cdi monitor <aspects> (no cache errors): what it had printed when the harness stopped it after its first refresh *)
| CMonitor (args : list string) (v : lib_view) (stdout : string)
(* the schema named with --schema cannot be loaded (schema.Load fails in the library) *)
| CSchemaFail (exit : Z)
(* cmd/validate: schema argument, schema.Load succeeded, documents (printed name, library validation ok) *)
| CValidate (schema_arg : string) (load_ok : bool) (docs : list (string * bool))
            (stdout stderr : string) (exit : Z).

Definition lines_eqb := list_eqb String.eqb.
Definition err_eqb (a b : string * N) : bool := String.eqb (fst a) (fst b) && N.eqb (snd a) (snd b).

Fixpoint insert_err (x : string * N) (l : list (string * N)) : list (string * N) :=
  match l with
  | [] => [x]
  | y :: r => if str_ltb (fst y) (fst x) then y :: insert_err x r else x :: l
  end.
Definition sort_errs (l : list (string * N)) : list (string * N) := fold_right insert_err [] l.

(* the error listing on stdout names the library's files in error, each with its number of errors (any order) *)
Definition errors_reported (v : lib_view) (ls : list string) : bool :=
  match parse_errors ls with
  | Some es => list_eqb err_eqb (sort_errs es) (sort_errs (v_errors v))
  | None => false
  end.
(* ... weaker, for the oracle: exactly the library's files in error *)
Definition error_files_reported (v : lib_view) (ls : list string) : bool :=
  match parse_errors ls with
  | Some es => lines_eqb (sort_strings (map fst es)) (sort_strings (map fst (v_errors v)))
  | None => false
  end.

Definition dbodies (bs : list dblock) : list (list string) :=
  flat_map (fun b => b_body b :: match b_edits b with Some e => [e] | None => [] end) bs.
Definition sbodies (gs : list (string * list sblock)) : list (list string) :=
  flat_map (fun g => map snd (snd g)) gs.

Definition to_sub (s : lsub) : sub :=
  match s with
  | LDevices => SDevices | LVendors => SVendors | LClasses => SClasses | LDirs => SDirs | LValidate => SValidate
  | LSpecs a => SSpecs a
  | LDevicesV => SDevicesV [] | LSpecsV a => SSpecsV a []
  end.

Definition one_line (ls : list string) : bool := match ls with [_] => true | _ => false end.

Definition corr19 (c : case19) : bool :=
  match c with
  | CList given s v _ stdout exit obs =>
      let ls := lines_of stdout in
      Z.eqb exit (exit_code given (to_sub s) v) &&
      if shows_errors given (to_sub s) v then errors_reported v ls
      else
        match s with
        | LDevicesV =>
            match parse_devices_v ls with
            | Some bs =>
                dframe_ok v bs && String.eqb (unlines (render_sub (SDevicesV bs) v)) stdout &&
                list_eqb lines_eqb (dbodies bs) (map fst obs)
            | None => false
            end
        | LSpecsV args =>
            match parse_specs_v ls with
            | Some gs =>
                list_eqb (pair_eqb String.eqb lines_eqb) (sframe_of gs) (specs_selected args v) &&
                String.eqb (unlines (render_sub (SSpecsV args gs) v)) stdout &&
                list_eqb lines_eqb (sbodies gs) (map fst obs)
            | None => false
            end
        | _ => String.eqb (unlines (render_sub (to_sub s) v)) stdout
        end
  | CInject v rows sel lib_ok _ stdout exit obs =>
      let ls := lines_of stdout in
      if has_errors v then Z.eqb exit 1 && errors_reported v ls
      else
        match inject_selection rows with
        | None => Z.eqb exit 1 && one_line ls && match obs with None => true | _ => false end
        | Some s =>
            lines_eqb sel s &&
            match obs with
            | Some (raw, _) =>
                match run_inject v rows lib_ok raw with
                | (Some out, code) => String.eqb (unlines out) stdout && Z.eqb exit code
                | _ => false
                end
            | None =>
                match run_inject v rows lib_ok [] with
                | (None, code) => Z.eqb exit code && one_line ls
                | _ => false
                end
            end
        end
  | CResolve v ug okg cg ud okd cd stdout exit obs =>
      let ls := lines_of stdout in
      if has_errors v then Z.eqb exit 1 && errors_reported v ls
      else
        let '(unres, ok, canon) := if resolve_uses_default_dirs then (ud, okd, cd) else (ug, okg, cg) in
        match obs with
        | Some (raw, oc) =>
            match run_resolve unres ok raw with
            | (out, false, code) => String.eqb (unlines out) stdout && Z.eqb exit code && String.eqb oc canon
            | _ => false
            end
        | None =>
            match run_resolve unres ok [] with
            | (out, true, code) =>
                Z.eqb exit code && lines_eqb (firstn (length out) ls) out && Nat.eqb (length ls) (S (length out))
            | _ => false
            end
        end
  | CResolveMany singles stdout exit =>
      let '(o, c) := resolve_many singles in String.eqb o stdout && Z.eqb c exit
  | CMonitor args v stdout => String.eqb (unlines (render_monitor args v)) stdout
  | CSchemaFail exit => Z.eqb exit 1
  | CValidate arg load_ok docs stdout stderr exit =>
      String.eqb (unlines (fst (run_validate load_ok (validate_banner arg) docs))) stdout &&
      Z.eqb exit (snd (run_validate load_ok (validate_banner arg) docs)) &&
      (negb load_ok || lines_eqb (filter_map parse_failed_line (lines_of stderr)) (validate_failed docs))
  end.

(* ------------------------------------------------------------------ the property on the observed output *)
Fixpoint sorted_strict (l : list string) : bool :=
  match l with
  | a :: ((b :: _) as r) => str_ltb a b && sorted_strict r
  | _ => true
  end.
Definition same_members (a b : list string) : bool :=
  forallb (fun x => mem_s x b) a && forallb (fun x => mem_s x a) b.

(* vendors that have a Spec of the class, per the library *)
Definition vendors_of_class (v : lib_view) (cls : string) : list string :=
  filter (fun vend => existsb (fun sf => String.eqb (sf_class sf) cls) (specs_of (v_specs v) vend)) (v_vendors v).

Definition nz_eqb (a b : string * N) : bool := String.eqb (fst a) (fst b) && N.eqb (snd a) (snd b).

(* the Spec files the library has for the requested vendors (all vendors when none is requested) *)
Definition specs_expected (args : list string) (v : lib_view) : list (string * list string) :=
  let all := map (fun vend => (vend, map sf_path (specs_of (v_specs v) vend))) (v_vendors v) in
  match args with
  | [] => all
  | _ => filter (fun g => mem_s (fst g) args) all
  end.

(* groups of Spec files compared as a set of non-empty groups keyed by vendor (with a vendor list the order of
   the groups and a header without Spec files for an unknown vendor are the command's business) *)
Fixpoint insert_group (x : string * list string) (l : list (string * list string)) : list (string * list string) :=
  match l with
  | [] => [x]
  | y :: r => if str_ltb (fst y) (fst x) then y :: insert_group x r else x :: l
  end.
Definition norm_groups (l : list (string * list string)) : list (string * list string) :=
  fold_right insert_group [] (filter (fun g => match snd g with [] => false | _ => true end) l).
Definition groups_eqb (a b : list (string * list string)) : bool :=
  list_eqb (pair_eqb String.eqb lines_eqb) (norm_groups a) (norm_groups b).

(* without a vendor list: exactly the library's groups in ListVendors order *)
Definition groups_match (args : list string) (a b : list (string * list string)) : bool :=
  match args with
  | [] => list_eqb (pair_eqb String.eqb lines_eqb) a b
  | _ => groups_eqb a b
  end.

Definition oracle_listing (s : lsub) (v : lib_view) (lib_bodies : list string)
           (ls : list string) (obs : list (list string * string)) : bool :=
  match s with
  | LDevices => option_eqb lines_eqb (parse_devices ls) (Some (map d_name (v_devices v)))
  | LVendors =>
      option_eqb (list_eqb nz_eqb) (parse_vendors ls)
                 (Some (map (fun vend => (vend, N.of_nat (length (specs_of (v_specs v) vend)))) (v_vendors v)))
  | LClasses =>
      (* exactly the library's classes; the vendors named beside a class are, as a set, the vendors that have a
         Spec of that class (how often one is repeated / counted is the command's own arithmetic) *)
      match parse_classes ls with
      | Some l =>
          lines_eqb (map fst l) (v_classes v) &&
          forallb (fun x => same_members (snd x) (vendors_of_class v (fst x))) l
      | None => false
      end
  | LSpecs args =>
      match parse_specs ls with
      | Some gs => groups_match args gs (specs_expected args v)
      | None => false
      end
  | LSpecsV args =>
      match parse_specs_v ls with
      | Some gs => groups_match args (sframe_of gs) (specs_expected args v) &&
                   lines_eqb (map snd obs) lib_bodies
      | None => false
      end
  | LDirs => option_eqb lines_eqb (parse_dirs ls) (Some (v_dirs v))
  | LValidate => lines_eqb ls ["No CDI cache errors."]
  | LDevicesV =>
      match parse_devices_v ls with
      | Some bs =>
          lines_eqb (map b_name bs) (map d_name (v_devices v)) &&
          lines_eqb (map b_path bs) (map d_path (v_devices v)) &&
          lines_eqb (map snd obs) lib_bodies
      | None => false
      end
  end.

(* cdi monitor: the documented aspects, and the output cut into listings at the lines which open one *)
Definition monitor_lsubs (a : string) : option (list lsub) :=
  if String.eqb a "vendors" then Some [LVendors]
  else if String.eqb a "classes" then Some [LClasses]
  else if String.eqb a "specs" then Some [LSpecs []]
  else if String.eqb a "devices" then Some [LDevices]
  else if String.eqb a "all" then Some [LVendors; LClasses; LSpecs []; LDevices]
  else None.
Definition is_listing_header (l : string) : bool :=
  mem_s l ["CDI vendors found:"; "No CDI vendors found."; "CDI device classes found:"; "No CDI device classes found.";
           "CDI Specs found:"; "No CDI Specs found."; "CDI devices found:"; "No CDI devices found."].
(* right to left: (lines seen since the last header, listings) *)
Fixpoint cut_listings (ls : list string) : list string * list (list string) :=
  match ls with
  | [] => ([], [])
  | l :: r => let '(pend, segs) := cut_listings r in
              if is_listing_header l then ([], (l :: pend) :: segs) else (l :: pend, segs)
  end.
Definition oracle_monitor (args : list string) (v : lib_view) (ls : list string) : bool :=
  let wanted := flat_map (fun a => match monitor_lsubs a with Some l => l | None => [LValidate] end)
                         (match args with [] => ["all"] | _ => args end) in
  match cut_listings ls with
  | ([], segs) => forall2b (fun s seg => oracle_listing s v [] seg []) wanted segs
  | _ => false
  end.

(* the single answers up to the first failing one, and that one *)
Fixpoint ok_prefix (l : list (string * Z)) : list string * option (string * Z) :=
  match l with
  | [] => ([], None)
  | (o, c) :: r => if Z.eqb c 0 then let '(p, f) := ok_prefix r in (o :: p, f) else ([], Some (o, c))
  end.

Definition is_yes (m : mres) : bool := match m with MYes => true | _ => false end.
Definition is_bad (m : mres) : bool := match m with MBad => true | _ => false end.
Definition is_validate (s : lsub) : bool := match s with LValidate => true | _ => false end.

Definition oracle19 (c : case19) : bool :=
  match c with
  | CList given s v lib_bodies stdout exit obs =>
      let ls := lines_of stdout in
      if given || is_validate s then
        Bool.eqb (negb (Z.eqb exit 0)) (has_errors v) &&
        if has_errors v then error_files_reported v ls
        else oracle_listing s v lib_bodies ls obs
      else
        (* no --spec-dirs: outside the property's exit-status clause; the listing must still be the library's *)
        oracle_listing s v lib_bodies ls obs
  | CInject v rows sel lib_ok lib_canon stdout exit obs =>
      let ls := lines_of stdout in
      let bad := existsb (fun r => existsb is_bad (snd r)) rows in
      Bool.eqb (negb (Z.eqb exit 0)) (has_errors v || bad || negb lib_ok) &&
      (* the devices injected: every listed device matched by some pattern, once, sorted *)
      (bad || (sorted_strict sel &&
               same_members sel (map fst (filter (fun r => existsb is_yes (snd r)) rows)))) &&
      if has_errors v then error_files_reported v ls
      else if bad || negb lib_ok then true
      else match obs, parse_inject ls with
           | Some (raw, canon), Some body => lines_eqb raw body && String.eqb canon lib_canon
           | _, _ => false
           end
  | CResolve v ug okg cg _ _ _ stdout exit obs =>
      let ls := lines_of stdout in
      Bool.eqb (negb (Z.eqb exit 0)) (has_errors v || negb okg || match ug with [] => false | _ => true end) &&
      if has_errors v then error_files_reported v ls
      else match ug with
           | _ :: _ =>
               (* the unresolvable devices are named *)
               lines_eqb (firstn (S (length ug)) ls) (render_unresolved ug)
           | [] =>
               if okg then
                 match obs, parse_resolve ls with
                 | Some (raw, canon), Some body => lines_eqb raw body && String.eqb canon cg
                 | _, _ => false
                 end
               else true
           end
  | CResolveMany singles stdout exit =>
      (* every file is answered as if it were alone (each single answer is judged by its own CResolve case): the output is the
         chain of the single outputs up to and including the first failure, and the run fails iff one of those does *)
      match ok_prefix singles with
      | (p, None) => Z.eqb exit 0 && String.eqb stdout (String.concat "" p)
      | (p, Some (o, _)) => negb (Z.eqb exit 0) && String.eqb stdout (String.concat "" p ++ o)
      end
  | CMonitor args v stdout => oracle_monitor args v (lines_of stdout)
  | CSchemaFail exit => negb (Z.eqb exit 0)
  | CValidate arg load_ok docs stdout stderr exit =>
      Bool.eqb (negb (Z.eqb exit 0)) (negb load_ok || existsb (fun d => negb (snd d)) docs) &&
      (negb load_ok ||
       (lines_eqb (filter_map parse_valid_line (tl (lines_of stdout))) (map fst (filter snd docs)) &&
        lines_eqb (filter_map parse_failed_line (lines_of stderr)) (map fst (filter (fun d => negb (snd d)) docs))))
  end.

Definition judge19 (cases : list case19) : list nat * list nat :=
  (bad_indices corr19 0 cases, bad_indices oracle19 0 cases).
