(* Judge08.v — evaluation of harness cases for C08 (no untrusted input can crash the library). *)
From Coq Require Import String Ascii List Bool Arith.
From CDI Require Import Base Parser Annotations.
Import ListNotations.
Open Scope string_scope.

(* observed class: 0 = every call returned (value or error), 2 = some call panicked, 3 = some call did not return in time *)
Inductive case08 :=
| NName (s : string) (cls : nat)                 (* every pkg/parser entry point on s *)
| NAnnot (m : amap) (cls : nat)                  (* cdi.ParseAnnotations(m) *)
| NKey (plugin devid : string) (cls : nat)       (* cdi.AnnotationKey *)
| NVal (devices : list string) (cls : nat)       (* cdi.AnnotationValue *)
| NUpd (m : amap) (plugin devid : string) (devices : list string) (cls : nat)   (* cdi.UpdateAnnotations *)
| NBytes (entry : string) (len : nat) (cls : nat) (reported : bool).
  (* byte-level stream (text layers are third-party code, not modelled): entry point, input length, class, and whether the
     outcome was reported as the property demands (error returned / error entry for the file / content loaded) *)

Definition model_cls {A} (r : result A) : nat := if is_panic r then 2 else 0.
Definition corr08 (c : case08) : bool :=
  match c with
  | NName s cls =>
      let m := Nat.max (model_cls (fst (parse_qualified_name s)))
               (Nat.max (model_cls (is_qualified_name s)) (Nat.max (model_cls (validate_vc s)) (model_cls (validate_dn s)))) in
      Nat.eqb m cls || Nat.eqb cls 3
  | NAnnot m cls => Nat.eqb (model_cls (parse_annotations m)) cls || Nat.eqb cls 3
  | NKey p d cls => Nat.eqb (model_cls (annotation_key p d)) cls || Nat.eqb cls 3
  | NVal ds cls => Nat.eqb (model_cls (annotation_value ds)) cls || Nat.eqb cls 3
  | NUpd m p d ds cls => Nat.eqb (model_cls (fst (update_annotations m p d ds))) cls || Nat.eqb cls 3
  | NBytes _ _ _ _ => true
  end.
Definition oracle08 (c : case08) : bool :=
  match c with
  | NName _ cls | NAnnot _ cls | NKey _ _ cls | NVal _ cls | NUpd _ _ _ _ cls => Nat.eqb cls 0
  | NBytes _ _ cls reported => Nat.eqb cls 0 && reported
  end.
Definition judge08 (cases : list case08) : list nat * list nat :=
  (bad_indices corr08 0 cases, bad_indices oracle08 0 cases).
