(* YamlFallback.v — what Spec.write puts into a .yaml file since repair D29 (pkg/cdi/spec.go): the YAML encoding if the parser of
   Spec files reads it back as the same Spec (compared through the JSON images, readsBack), otherwise the document in JSON syntax
   (which is YAML).  Consequence: that a .yaml file reads back no longer depends on the YAML emitter at all — for ANY behaviour of
   the YAML text layer, faithful, lossy or failing, the file reads back as a Spec with the JSON image of the original, as soon as
   the JSON text layer carries the document (JsonStringFix.spec_json_string_layer for its strings). *)
From Coq Require Import String Ascii List Bool Arith ZArith.
From CDI Require Import Base SpecModel Doc Decode Codec CodecProofs.
Import ListNotations.

Section Fallback.
  (* emitted in one encoding and scanned again by the parser of Spec files (None: unreadable) *)
  Variable text_yaml text_json : doc -> option doc.
  (* bytes.Equal(json.Marshal(a), json.Marshal(b)) *)
  Variable same_image : spec -> spec -> bool.
  Hypothesis same_image_sound : forall a b, same_image a b = true -> doc_of_spec a = doc_of_spec b.
  Hypothesis same_image_refl : forall a, same_image a a = true.

  Definition reads_back (s : spec) : bool :=
    match text_yaml (doc_of_spec s) with
    | Some d => match spec_of_doc d with Ok s' => same_image s' s | _ => false end
    | None => false
    end.
  (* the document a reader finds in the .yaml file *)
  Definition yaml_file (s : spec) : option doc :=
    if reads_back s then text_yaml (doc_of_spec s) else text_json (doc_of_spec s).
  Definition read_yaml_file (s : spec) : result spec :=
    match yaml_file s with Some d => spec_of_doc d | None => Err end.

  Theorem yaml_file_reads_back : forall s,
    spec_ranges s = true -> text_json (doc_of_spec s) = Some (doc_of_spec s) ->
    exists s', read_yaml_file s = Ok s' /\ doc_of_spec s' = doc_of_spec s.
  Proof.
    intros s R J. unfold read_yaml_file, yaml_file. destruct (reads_back s) eqn:B.
    - unfold reads_back in B. destruct (text_yaml (doc_of_spec s)) as [d|]; [|discriminate].
      destruct (spec_of_doc d) as [s'| |]; try discriminate. exists s'. split; [reflexivity|]. apply same_image_sound. exact B.
    - rewrite J. exists s. split; [apply struct_roundtrip; exact R|reflexivity].
  Qed.

  (* when the YAML text layer is faithful on the document nothing changes: the file is the YAML encoding and reads back as s *)
  Theorem yaml_file_unchanged_when_faithful : forall s,
    spec_ranges s = true -> text_yaml (doc_of_spec s) = Some (doc_of_spec s) ->
    yaml_file s = text_yaml (doc_of_spec s) /\ read_yaml_file s = Ok s.
  Proof.
    intros s R Y. assert (B : reads_back s = true).
    { unfold reads_back. rewrite Y, (struct_roundtrip s R). apply same_image_refl. }
    unfold read_yaml_file, yaml_file. rewrite B, Y. split; [reflexivity|apply struct_roundtrip; exact R].
  Qed.
End Fallback.
