(* Validate.v — C05.  Part 1: executable model of Spec.validate() (pkg/cdi/spec.go) with the
   validators it calls (device.go, container-edits.go, internal/validation), in the code's order,
   and [accepts] = strict decoding then validation.  Part 2: the declarative well-formedness
   predicate [WF], transcribing the property text / SPEC.md rule by rule with no reference to an
   evaluation order.  Part 3: [wf_b], a boolean decision of WF written independently of part 1
   (scans and brute-force searches instead of slicing and splitting), used as the oracle.
   No proofs here (see ValidateProofs.v). *)
From Coq Require Import String Ascii List Bool Arith NArith ZArith.
From CDI Require Import Base SpecModel Doc Decode Parser Version Annotations.
Import ListNotations.
Open Scope string_scope.

(* ====================== Part 1: the model of the code ====================== *)

(* ValidateEnv: strings.IndexByte(v, '=') <= 0 is an error *)
Definition env_entry_ok (v : string) : bool :=
  match split_first "=" v with
  | Some (String _ _, _) => true
  | _ => false
  end.
Definition validate_env (env : list string) : result unit :=
  if forallb env_entry_ok env then Ok tt else Err.

Definition node_types : list string := [""; "b"; "c"; "u"; "p"].
Definition perm_char (c : ascii) : bool := Ascii.eqb c "r" || Ascii.eqb c "w" || Ascii.eqb c "m".
(* DeviceNode.Validate, preceded by the nil test of ContainerEdits.Validate *)
Definition validate_devnode (o : option devnode) : result unit :=
  match o with
  | None => Err
  | Some d =>
      if String.eqb (dn_path d) "" then Err
      else if negb (mem_s (dn_type d) node_types) then Err
      else if negb (forallb_s perm_char (dn_perms d)) then Err
      else Ok tt
  end.

Definition hook_names : list string :=
  ["prestart"; "createRuntime"; "createContainer"; "startContainer"; "poststart"; "poststop"].
Definition validate_hook (o : option hook) : result unit :=
  match o with
  | None => Err
  | Some h =>
      if negb (mem_s (h_name h) hook_names) then Err
      else if String.eqb (h_path h) "" then Err
      else validate_env (h_env h)
  end.

Definition validate_mount (o : option mount) : result unit :=
  match o with
  | None => Err
  | Some m =>
      if String.eqb (m_host m) "" then Err
      else if String.eqb (m_ctr m) "" then Err
      else Ok tt
  end.

Definition newline : ascii := ascii_of_N 10.
(* IntelRdt.Validate: len >= 4096, ".", "..", or containing '/' or '\n' is an error *)
Definition validate_rdt (r : rdt) : result unit :=
  let c := r_closid r in
  if (4096 <=? N.of_nat (String.length c))%N || String.eqb c "." || String.eqb c ".." ||
     contains "/" c || contains newline c
  then Err else Ok tt.

Fixpoint validate_all {A} (f : A -> result unit) (l : list A) : result unit :=
  match l with
  | [] => Ok tt
  | x :: r => bind (f x) (fun _ => validate_all f r)
  end.

(* ContainerEdits.Validate *)
Definition validate_edits (e : edits) : result unit :=
  bind (validate_env (e_env e)) (fun _ =>
  bind (validate_all validate_devnode (e_nodes e)) (fun _ =>
  bind (validate_all validate_hook (e_hooks e)) (fun _ =>
  bind (validate_all validate_mount (e_mounts e)) (fun _ =>
  match e_rdt e with
  | Some r => validate_rdt r
  | None => Ok tt
  end)))).

(* isEmpty *)
Definition edits_empty (e : edits) : bool :=
  match e_env e, e_nodes e, e_hooks e, e_mounts e, e_gids e, e_rdt e with
  | [], [], [], [], [], None => true
  | _, _, _, _, _, _ => false
  end.

(* strings.ToLower as far as the qualified-name check can tell: ASCII letters, and the two non-ASCII
   runes whose lower case is ASCII (U+0130 -> i, U+212A -> k); every other non-ASCII byte stays
   non-ASCII in Go's result and here, and makes the check fail either way *)
Fixpoint go_lower (s : string) : string :=
  match s with
  | EmptyString => EmptyString
  | String a r =>
      match r with
      | String b r2 =>
          if byte_is 196 a && byte_is 176 b then String "i" (go_lower r2)              (* U+0130 = C4 B0 *)
          else match r2 with
               | String c r3 =>
                   if byte_is 226 a && byte_is 132 b && byte_is 170 c                  (* U+212A = E2 84 AA *)
                   then String "k" (go_lower r3)
                   else String (to_lower_c a) (go_lower r)
               | EmptyString => String (to_lower_c a) (go_lower r)
               end
      | EmptyString => String (to_lower_c a) EmptyString
      end
  end.

(* byte length as N *)
Definition len_N (s : string) : N := N.of_nat (String.length s).
Definition annots_size (a : annots) : N :=
  fold_right (fun kv acc => (len_N (fst kv) + len_N (snd kv) + acc)%N) 0%N a.
Definition annot_size_limit : N := 262144.

(* validation.ValidateSpecAnnotations -> k8s.ValidateAnnotations *)
Definition validate_annotations (a : annots) : result unit :=
  if forallb (fun kv => k8s_qualified_b (go_lower (fst kv))) a && (annots_size a <=? annot_size_limit)%N
  then Ok tt else Err.

(* Device.validate *)
Definition validate_device (d : device) : result unit :=
  bind (validate_dn (d_name d)) (fun _ =>
  bind (validate_annotations (d_annot d)) (fun _ =>
  if edits_empty (d_edits d) then Err else validate_edits (d_edits d))).

(* the device loop of Spec.validate with its name map *)
Fixpoint validate_devices (ds : list device) (seen : list string) : result unit :=
  match ds with
  | [] => Ok tt
  | d :: r =>
      bind (validate_device d) (fun _ =>
      if mem_s (d_name d) seen then Err else validate_devices r (d_name d :: seen))
  end.

(* Spec.validate, vendor and class as newSpec computes them *)
Definition validate_spec (s : spec) : result unit :=
  bind (validate_version s) (fun _ =>
  let vc := parse_qualifier (s_kind s) in
  bind (validate_vc (fst vc)) (fun _ =>
  bind (validate_vc (snd vc)) (fun _ =>
  bind (validate_annotations (s_annot s)) (fun _ =>
  bind (validate_edits (s_edits s)) (fun _ =>
  bind (validate_devices (s_devices s) []) (fun _ =>
  match s_devices s with [] => Err | _ => Ok tt end)))))).

(* ReadSpec / the cache scan on a document *)
Definition accepts (d : doc) : result unit := bind (spec_of_doc d) validate_spec.
(* the same with the duplicate-member check of the YAML layer in front (what ReadSpec does with any tree) *)
Definition accepts_strict (d : doc) : result unit := bind (strict_of_doc d) validate_spec.

(* ====================== Part 2: well-formedness, declaratively ====================== *)

(* NAME=value with a non-empty NAME free of '=' *)
Definition EnvOK (v : string) : Prop :=
  exists name value, v = name ++ String "=" value /\ name <> "" /\ contains "=" name = false.

(* every byte of s is one of the allowed ones *)
Definition chars_among (allowed : list ascii) (s : string) : Prop :=
  forall c, contains c s = true -> In c allowed.

Record DevNodeOK (d : devnode) : Prop := {
  node_path : dn_path d <> "";
  node_type : In (dn_type d) [""; "b"; "c"; "u"; "p"];
  node_perms : chars_among ["r"%char; "w"%char; "m"%char] (dn_perms d) }.

Record HookOK (h : hook) : Prop := {
  hook_stage : In (h_name h) ["prestart"; "createRuntime"; "createContainer"; "startContainer"; "poststart"; "poststop"];
  hook_path : h_path h <> "";
  hook_env : Forall EnvOK (h_env h) }.

Record MountOK (m : mount) : Prop := {
  mount_host : m_host m <> "";
  mount_ctr : m_ctr m <> "" }.

(* a class id that is a legal file name (the empty one means: not set) *)
Record RdtOK (r : rdt) : Prop := {
  rdt_len : (len_N (r_closid r) < 4096)%N;
  rdt_dot : r_closid r <> ".";
  rdt_dotdot : r_closid r <> "..";
  rdt_slash : contains "/" (r_closid r) = false;
  rdt_nl : contains newline (r_closid r) = false }.

(* every entry of a pointer list is present and good *)
Definition AllPresent {A} (P : A -> Prop) (l : list (option A)) : Prop :=
  forall x, In x l -> exists a, x = Some a /\ P a.

Record EditsOK (e : edits) : Prop := {
  edits_env : Forall EnvOK (e_env e);
  edits_nodes : AllPresent DevNodeOK (e_nodes e);
  edits_hooks : AllPresent HookOK (e_hooks e);
  edits_mounts : AllPresent MountOK (e_mounts e);
  edits_rdt : forall r, e_rdt e = Some r -> RdtOK r }.

Definition NonEmptyEdits (e : edits) : Prop :=
  e_env e <> [] \/ e_nodes e <> [] \/ e_hooks e <> [] \/ e_mounts e <> [] \/ e_gids e <> [] \/ e_rdt e <> None.

(* Kubernetes qualified names: [prefix/]name *)
Definition K8sName (n : string) : Prop := Shape is_alnum vc_mid is_alnum n /\ String.length n <= 63.
Definition DnsLabel (l : string) : Prop := Shape lower_alnum dns_mid lower_alnum l.
Definition DnsSubdomain (p : string) : Prop :=
  String.length p <= 253 /\ exists labels, labels <> [] /\ p = join_with "." labels /\ Forall DnsLabel labels.
Definition QualKey (k : string) : Prop :=
  K8sName k \/ exists p n, k = p ++ String "/" n /\ DnsSubdomain p /\ K8sName n.

(* keys are qualified names up to letter case; keys and values together stay within 256 KiB *)
Record AnnotOK (a : annots) : Prop := {
  annot_keys : forall k v, In (k, v) a -> QualKey (go_lower k);
  annot_size : (annots_size a <= 262144)%N }.

Record DeviceOK (d : device) : Prop := {
  dev_name : DN (d_name d);
  dev_annot : AnnotOK (d_annot d);
  dev_nonempty : NonEmptyEdits (d_edits d);
  dev_edits : EditsOK (d_edits d) }.

(* the declared version is released and not older than the features used require (C06 says what
   [required] is: the highest introduction version among the features used anywhere) *)
Definition VersionOK (s : spec) : Prop :=
  exists v, declared (s_version s) = Some v /\ ver_gtb (required s) v = false.

Definition KindOK (kind : string) : Prop :=
  exists vendor class, kind = vendor ++ String "/" class /\ VC vendor /\ VC class.

Record WF (s : spec) : Prop := {
  wf_version : VersionOK s;
  wf_kind : KindOK (s_kind s);
  wf_annot : AnnotOK (s_annot s);
  wf_edits : EditsOK (s_edits s);
  wf_some_device : s_devices s <> [];
  wf_unique : NoDup (map d_name (s_devices s));
  wf_devices : Forall DeviceOK (s_devices s) }.

(* ====================== Part 3: an independent boolean decision of WF ====================== *)
Definition env_ok_b (v : string) : bool :=
  match v with
  | EmptyString => false
  | String c _ => negb (Ascii.eqb c "=") && contains "=" v
  end.
Definition is_some {A} (o : option A) : bool := match o with Some _ => true | None => false end.
Definition devnode_ok_b (d : devnode) : bool :=
  negb (String.eqb (dn_path d) "") &&
  existsb (String.eqb (dn_type d)) [""; "b"; "c"; "u"; "p"] &&
  negb (existsb_s (fun c => negb (existsb (Ascii.eqb c) ["r"%char; "w"%char; "m"%char])) (dn_perms d)).
Definition hook_ok_b (h : hook) : bool :=
  existsb (String.eqb (h_name h)) ["prestart"; "createRuntime"; "createContainer"; "startContainer"; "poststart"; "poststop"] &&
  negb (String.eqb (h_path h) "") && forallb env_ok_b (h_env h).
Definition mount_ok_b (m : mount) : bool := negb (String.eqb (m_host m) "") && negb (String.eqb (m_ctr m) "").
Definition rdt_ok_b (r : rdt) : bool :=
  let c := r_closid r in
  (len_N c <? 4096)%N && negb (String.eqb c ".") && negb (String.eqb c "..") &&
  negb (existsb_s (fun x => Ascii.eqb x "/" || Ascii.eqb x newline) c).
Definition all_present_b {A} (p : A -> bool) (l : list (option A)) : bool :=
  forallb (fun o => match o with Some a => p a | None => false end) l.
Definition edits_ok_b (e : edits) : bool :=
  forallb env_ok_b (e_env e) && all_present_b devnode_ok_b (e_nodes e) && all_present_b hook_ok_b (e_hooks e) &&
  all_present_b mount_ok_b (e_mounts e) && match e_rdt e with Some r => rdt_ok_b r | None => true end.
Definition nonempty_edits_b (e : edits) : bool :=
  nonempty (e_env e) || nonempty (e_nodes e) || nonempty (e_hooks e) || nonempty (e_mounts e) ||
  nonempty (e_gids e) || is_some (e_rdt e).

Definition k8s_name_ok_b (n : string) : bool := shape_b is_alnum vc_mid is_alnum n && Nat.leb (String.length n) 63.
(* a subdomain: every dot-separated label is a DNS label *)
Definition dns_sub_ok_b (p : string) : bool :=
  Nat.leb (String.length p) 253 && forallb (shape_b lower_alnum dns_mid lower_alnum) (split_all "." p).
Definition qual_key_b (k : string) : bool :=
  k8s_name_ok_b k ||
  existsb (fun pn => dns_sub_ok_b (fst pn) && k8s_name_ok_b (snd pn)) (splits "/" k).
Definition annot_ok_b (a : annots) : bool :=
  forallb (fun kv => qual_key_b (go_lower (fst kv))) a && (annots_size a <=? 262144)%N.
Definition device_ok_b (d : device) : bool :=
  dn_b (d_name d) && annot_ok_b (d_annot d) && nonempty_edits_b (d_edits d) && edits_ok_b (d_edits d).
Fixpoint nodup_b (l : list string) : bool :=
  match l with
  | [] => true
  | x :: r => negb (existsb (String.eqb x) r) && nodup_b r
  end.
Definition version_ok_b (s : spec) : bool :=
  match declared (s_version s) with
  | Some v => negb (ver_gtb (required s) v)
  | None => false
  end.
Definition kind_ok_b (kind : string) : bool :=
  existsb (fun vc => vc_b (fst vc) && vc_b (snd vc)) (splits "/" kind).

Definition wf_b (s : spec) : bool :=
  version_ok_b s && kind_ok_b (s_kind s) && annot_ok_b (s_annot s) && edits_ok_b (s_edits s) &&
  nonempty (s_devices s) && nodup_b (map d_name (s_devices s)) && forallb device_ok_b (s_devices s).
