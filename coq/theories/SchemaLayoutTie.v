(* SchemaLayoutTie.v — a fact that ties the two regenerated fragments together: every member the shipped schema REQUIRES of an
   object is written by the encoder of the corresponding Go struct even when it is empty (no omitempty on it, in either tag).
   Without it an in-memory Spec and the document it was read from would get different verdicts (Validate(spec) would miss a
   member which ValidateData sees): one of the ways the entry points of C17 can come to disagree, and the reason why a
   library-valid Spec of C18 cannot lose a required member on its way to the file. *)
From Coq Require Import String Ascii List Bool ZArith.
From CDI Require Import Base Schema.
From CDIGen Require Import SchemaGen LayoutGen.
Import ListNotations.
Open Scope string_scope.

Definition req_of (s : schema) : list string := match s with SNode _ _ req _ _ _ _ _ => req | _ => [] end.
Definition prop_of (s : schema) (k : string) : schema :=
  match s with
  | SNode _ props _ _ _ _ _ _ =>
      (fix go (l : list (string * schema)) : schema :=
         match l with [] => SBool true | (k', v) :: r => if String.eqb k k' then v else go r end) props
  | _ => SBool true
  end.
Definition items_of (s : schema) : schema := match s with SNode _ _ _ (Some i) _ _ _ _ => i | _ => SBool true end.
Fixpoint struct_fields (l : list (string * list field)) (st : string) : list field :=
  match l with [] => [] | (k, fs) :: r => if String.eqb st k then fs else struct_fields r st end.

(* every required member is a field of the struct, written under that name by both encoders and never omitted *)
Definition required_kept (st : string) (s : schema) : bool :=
  forallb (fun r => existsb (fun f => String.eqb (f_json f) r && String.eqb (f_yaml f) r && negb (f_json_omit f) && negb (f_yaml_omit f))
                            (struct_fields layout st)) (req_of s).

(* the objects of a Spec document and the Go structs they are decoded into *)
Definition device_schema : schema := items_of (prop_of builtin "devices").
Definition edits_schema : schema := prop_of device_schema "containerEdits".
Definition object_structs : list (string * schema) :=
  [("Spec", builtin); ("Device", device_schema); ("ContainerEdits", edits_schema);
   ("DeviceNode", items_of (prop_of edits_schema "deviceNodes")); ("Mount", items_of (prop_of edits_schema "mounts"));
   ("Hook", items_of (prop_of edits_schema "hooks")); ("IntelRdt", prop_of edits_schema "intelRdt")].

(* the statement is about something: the schema does require members of these objects *)
Theorem required_members_always_encoded :
  forallb (fun p => required_kept (fst p) (snd p)) object_structs = true.
Proof. vm_compute. reflexivity. Qed.

(* the statement is about something: the schema does require members of these objects *)
Example required_members_exist :
  map (fun p => (fst p, req_of (snd p))) object_structs =
  [("Spec", ["cdiVersion"; "kind"; "devices"]); ("Device", ["name"; "containerEdits"]); ("ContainerEdits", []);
   ("DeviceNode", ["path"]); ("Mount", ["hostPath"; "containerPath"]); ("Hook", ["hookName"; "path"]); ("IntelRdt", [])].
Proof. vm_compute. reflexivity. Qed.
