(* Judge05Proofs.v — what the C05 oracle bit means, and that a case the model predicts can never fail
   the oracle (so on a tree the model is faithful to, an oracle failure is impossible). *)
From Coq Require Import String Ascii List Bool Arith ZArith Lia.
From CDI Require Import Base SpecModel Doc Decode DecodeProofs Validate ValidateProofs Judge05.
Import ListNotations.
Open Scope string_scope.

Lemma should_accept_doc_iff d :
  should_accept_doc d = true <-> ~ HasDup d /\ exists s, spec_of_doc d = Ok s /\ WF s.
Proof.
  unfold should_accept_doc. rewrite andb_true_iff, negb_true_iff, <- has_dup_iff.
  assert ((match spec_of_doc d with Ok s => wf_b s | _ => false end) = true <-> exists s, spec_of_doc d = Ok s /\ WF s) as ->.
  { destruct (spec_of_doc d) as [s| |]; split.
    - intro H. exists s. split; [reflexivity|apply wf_b_iff; exact H].
    - intros (s' & E & W). inversion E; subst. apply wf_b_iff. exact W.
    - discriminate.
    - intros (s' & E & _). discriminate.
    - discriminate.
    - intros (s' & E & _). discriminate. }
  split; intros [H1 H2]; (split; [|exact H2]).
  - rewrite H1. discriminate.
  - destruct (has_dup d); [exfalso; apply H1; reflexivity|reflexivity].
Qed.

Lemma all_eq_in n l : all_eq n l = true <-> forall o, In o l -> o = n.
Proof.
  unfold all_eq. rewrite forallb_forall. split; intros H o Ho.
  - symmetry. apply Nat.eqb_eq. exact (H o Ho).
  - apply Nat.eqb_eq. symmetry. exact (H o Ho).
Qed.

Lemma verdict_ok_meaning should obs :
  verdict_ok should obs = true ->
  obs <> [] /\ forall o, In o obs -> o <> 2 /\ (o = 0 <-> should = true).
Proof.
  destruct obs as [|o0 r]; cbn [verdict_ok]; [discriminate|]. intro H.
  apply andb_true_iff in H as [H H3]. apply andb_true_iff in H as [H1 H2].
  split; [discriminate|]. intros o Ho. rewrite all_eq_in in H1. rewrite (H1 o Ho).
  apply negb_true_iff, Nat.eqb_neq in H2. split; [exact H2|].
  apply eqb_prop in H3. rewrite <- H3. apply iff_sym, Nat.eqb_eq.
Qed.

(* the oracle bit, in terms of the declarative predicate *)
Theorem oracle05_doc_meaning d obs parsed :
  oracle05 (CDoc d obs parsed) = true ->
  obs <> [] /\ forall o, In o obs -> o <> 2 /\ (o = 0 <-> ~ HasDup d /\ exists s, spec_of_doc d = Ok s /\ WF s).
Proof.
  intro H. destruct (verdict_ok_meaning _ _ H) as [Hne Ho]. split; [exact Hne|].
  intros o Hin. destruct (Ho o Hin) as [H2 Hi]. split; [exact H2|]. rewrite Hi. apply should_accept_doc_iff.
Qed.

Theorem oracle05_typed_meaning s obs :
  oracle05 (CTyped s obs) = true ->
  obs <> [] /\ forall o, In o obs -> o <> 2 /\ (o = 0 <-> WF s).
Proof.
  intro H. destruct (verdict_ok_meaning _ _ H) as [Hne Ho]. split; [exact Hne|].
  intros o Hin. destruct (Ho o Hin) as [H2 Hi]. split; [exact H2|]. rewrite Hi. apply wf_b_iff.
Qed.

Lemma verdict_ok_intro should obs n :
  obs <> [] -> all_eq n obs = true -> n <> 2 -> (n = 0 <-> should = true) -> verdict_ok should obs = true.
Proof.
  intros Hne Ha H2 Hi. destruct obs as [|o r]; [congruence|]. cbn [verdict_ok].
  rewrite all_eq_in in Ha. assert (o = n) as -> by (apply Ha; left; reflexivity).
  apply andb_true_iff. split; [apply andb_true_iff; split|].
  - apply all_eq_in. exact Ha.
  - apply negb_true_iff, Nat.eqb_neq. exact H2.
  - apply eqb_true_iff. destruct should, (Nat.eqb n 0) eqn:E; try reflexivity.
    + apply Nat.eqb_neq in E. exfalso. apply E, Hi. reflexivity.
    + apply Nat.eqb_eq in E. apply Hi in E. discriminate.
Qed.

Definition case_obs (c : case05) : list nat := match c with CDoc _ obs _ => obs | CTyped _ obs => obs end.

(* whatever the model predicts satisfies the property: the oracle can fail only where the correspondence fails *)
Theorem corr_implies_oracle c : case_obs c <> [] -> corr05 c = true -> oracle05 c = true.
Proof.
  destruct c as [d obs parsed | s obs]; cbn [case_obs corr05 oracle05]; intros Hne H.
  - apply andb_true_iff in H as [H _].
    apply (verdict_ok_intro _ _ (rclass (accepts_strict d)) Hne H).
    + destruct (accepts_strict_cases d) as [E|E]; rewrite E; discriminate.
    + rewrite should_accept_doc_iff, <- accepts_strict_iff_WF.
      destruct (accepts_strict_cases d) as [E|E]; rewrite E; cbn; split; congruence.
  - apply (verdict_ok_intro _ _ (rclass (validate_spec s)) Hne H).
    + pose proof (validate_total s). destruct (validate_spec s); cbn; congruence.
    + rewrite wf_b_iff, <- validate_iff_WF. pose proof (validate_total s).
      destruct (validate_spec s) as [[]| |]; cbn; split; congruence.
Qed.
