(* DefectProofs.v — C05: one defect of any kind, at any position (spec level; any device of any number
   of devices; any element of any list), makes a Spec ill-formed, hence rejected with an error.
   Positions are quantified: "In e (all_edits s)" ranges over the spec-level edits and the edits of every
   device; "In x (list)" over every element. *)
From Coq Require Import String Ascii List Bool Arith NArith ZArith Lia.
From CDI Require Import Base SpecModel Doc Decode DecodeProofs Parser ParserProofs PathsProofs Version VersionProofs
  Annotations Validate ValidateProofs.
Import ListNotations.
Open Scope string_scope.

(* every annotation map of a Spec: the spec-level one, then each device's *)
Definition all_annots (s : spec) : list annots := s_annot s :: map d_annot (s_devices s).

Lemma WF_edits s e : WF s -> In e (all_edits s) -> EditsOK e.
Proof.
  intros W Hin. unfold all_edits in Hin. apply in_app_or in Hin as [Hin|[<-|[]]].
  - apply in_map_iff in Hin as (d & <- & Hd). pose proof (wf_devices _ W) as F.
    rewrite Forall_forall in F. exact (dev_edits _ (F d Hd)).
  - exact (wf_edits _ W).
Qed.

Lemma WF_annots s a : WF s -> In a (all_annots s) -> AnnotOK a.
Proof.
  intros W [<-|Hin]; [exact (wf_annot _ W)|].
  apply in_map_iff in Hin as (d & <- & Hd). pose proof (wf_devices _ W) as F.
  rewrite Forall_forall in F. exact (dev_annot _ (F d Hd)).
Qed.

Lemma WF_device s d : WF s -> In d (s_devices s) -> DeviceOK d.
Proof. intros W Hd. pose proof (wf_devices _ W) as F. rewrite Forall_forall in F. exact (F d Hd). Qed.

Lemma present {A} (P : A -> Prop) l a : AllPresent P l -> In (Some a) l -> P a.
Proof. intros H Hin. destruct (H _ Hin) as (a' & E & Pa). inversion E; subst. exact Pa. Qed.
Lemma no_null {A} (P : A -> Prop) l : AllPresent P l -> ~ In None l.
Proof. intros H Hin. destruct (H _ Hin) as (a' & E & _). discriminate. Qed.

Definition hook_stages : list string :=
  ["prestart"; "createRuntime"; "createContainer"; "startContainer"; "poststart"; "poststop"].

(* the kinds of single defects; every constructor quantifies over the position *)
Inductive Defect (s : spec) : Prop :=
| D_version_unreleased :
    declared (s_version s) = None -> Defect s
| D_version_below_requirement v :
    declared (s_version s) = Some v -> ver_gtb (required s) v = true -> Defect s
| D_kind_without_slash :
    contains "/" (s_kind s) = false -> Defect s
| D_bad_vendor v c :
    s_kind s = v ++ String "/" c -> contains "/" v = false -> ~ VC v -> Defect s
| D_bad_class v c :
    s_kind s = v ++ String "/" c -> contains "/" v = false -> ~ VC c -> Defect s
| D_no_devices :
    s_devices s = [] -> Defect s
| D_duplicate_name l1 d1 l2 d2 l3 :
    s_devices s = (l1 ++ d1 :: l2 ++ d2 :: l3)%list -> d_name d1 = d_name d2 -> Defect s
| D_bad_device_name d :
    In d (s_devices s) -> ~ DN (d_name d) -> Defect s
| D_empty_device_edits d :
    In d (s_devices s) -> edits_empty (d_edits d) = true -> Defect s
| D_bad_env_entry e v :
    In e (all_edits s) -> In v (e_env e) -> ~ EnvOK v -> Defect s
| D_empty_node_path e n :
    In e (all_edits s) -> In (Some n) (e_nodes e) -> dn_path n = "" -> Defect s
| D_bad_node_type e n :
    In e (all_edits s) -> In (Some n) (e_nodes e) -> ~ In (dn_type n) [""; "b"; "c"; "u"; "p"] -> Defect s
| D_bad_permissions e n c :
    In e (all_edits s) -> In (Some n) (e_nodes e) -> contains c (dn_perms n) = true ->
    ~ In c ["r"%char; "w"%char; "m"%char] -> Defect s
| D_unknown_hook_stage e h :
    In e (all_edits s) -> In (Some h) (e_hooks e) -> ~ In (h_name h) hook_stages -> Defect s
| D_empty_hook_path e h :
    In e (all_edits s) -> In (Some h) (e_hooks e) -> h_path h = "" -> Defect s
| D_bad_hook_env e h v :
    In e (all_edits s) -> In (Some h) (e_hooks e) -> In v (h_env h) -> ~ EnvOK v -> Defect s
| D_empty_mount_host_path e m :
    In e (all_edits s) -> In (Some m) (e_mounts e) -> m_host m = "" -> Defect s
| D_empty_mount_container_path e m :
    In e (all_edits s) -> In (Some m) (e_mounts e) -> m_ctr m = "" -> Defect s
| D_bad_closid e r :
    In e (all_edits s) -> e_rdt e = Some r ->
    (r_closid r = "." \/ r_closid r = ".." \/ contains "/" (r_closid r) = true \/
     contains newline (r_closid r) = true \/ (4096 <= len_N (r_closid r))%N) -> Defect s
| D_bad_annotation_key a k v :
    In a (all_annots s) -> In (k, v) a -> ~ QualKey (go_lower k) -> Defect s
| D_oversize_annotations a :
    In a (all_annots s) -> (262144 < annots_size a)%N -> Defect s
| D_null_device_node e :
    In e (all_edits s) -> In None (e_nodes e) -> Defect s
| D_null_hook e :
    In e (all_edits s) -> In None (e_hooks e) -> Defect s
| D_null_mount e :
    In e (all_edits s) -> In None (e_mounts e) -> Defect s.

Lemma kind_unique kind v c :
  kind = v ++ String "/" c -> contains "/" v = false -> KindOK kind -> VC v /\ VC c.
Proof.
  intros E Hv (v' & c' & E' & Hv' & Hc'). rewrite E in E'.
  destruct (first_split_unique "/" v c v' c' Hv (VC_no_slash _ Hv') E') as [-> ->]. auto.
Qed.

Theorem single_defect_rejects s : Defect s -> ~ WF s.
Proof.
  intros D W. destruct D.
  - destruct (wf_version _ W) as (v & E & _). congruence.
  - destruct (wf_version _ W) as (v' & E & G). congruence.
  - destruct (wf_kind _ W) as (v & c & E & _). rewrite E, contains_app_sep in H. discriminate.
  - destruct (kind_unique _ _ _ H H0 (wf_kind _ W)). contradiction.
  - destruct (kind_unique _ _ _ H H0 (wf_kind _ W)). contradiction.
  - exact (wf_some_device _ W H).
  - pose proof (wf_unique _ W) as N. rewrite H, map_app in N. cbn [map] in N.
    apply NoDup_remove_2 in N. apply N. apply in_or_app. right. rewrite map_app. apply in_or_app. right.
    left. symmetry. exact H0.
  - exact (H0 (dev_name _ (WF_device _ _ W H))).
  - pose proof (dev_nonempty _ (WF_device _ _ W H)) as N. apply edits_empty_iff in N. congruence.
  - pose proof (edits_env _ (WF_edits _ _ W H)) as F. rewrite Forall_forall in F. exact (H1 (F _ H0)).
  - exact (node_path _ (present _ _ _ (edits_nodes _ (WF_edits _ _ W H)) H0) H1).
  - exact (H1 (node_type _ (present _ _ _ (edits_nodes _ (WF_edits _ _ W H)) H0))).
  - exact (H2 (node_perms _ (present _ _ _ (edits_nodes _ (WF_edits _ _ W H)) H0) _ H1)).
  - exact (H1 (hook_stage _ (present _ _ _ (edits_hooks _ (WF_edits _ _ W H)) H0))).
  - exact (hook_path _ (present _ _ _ (edits_hooks _ (WF_edits _ _ W H)) H0) H1).
  - pose proof (hook_env _ (present _ _ _ (edits_hooks _ (WF_edits _ _ W H)) H0)) as F.
    rewrite Forall_forall in F. exact (H2 (F _ H1)).
  - exact (mount_host _ (present _ _ _ (edits_mounts _ (WF_edits _ _ W H)) H0) H1).
  - exact (mount_ctr _ (present _ _ _ (edits_mounts _ (WF_edits _ _ W H)) H0) H1).
  - pose proof (edits_rdt _ (WF_edits _ _ W H) _ H0) as [R1 R2 R3 R4 R5].
    destruct H1 as [E|[E|[E|[E|E]]]]; try congruence. apply N.lt_nge in R1. contradiction.
  - exact (H1 (annot_keys _ (WF_annots _ _ W H) _ _ H0)).
  - pose proof (annot_size _ (WF_annots _ _ W H)) as L. apply N.lt_nge in H0. contradiction.
  - exact (no_null _ _ (edits_nodes _ (WF_edits _ _ W H)) H0).
  - exact (no_null _ _ (edits_hooks _ (WF_edits _ _ W H)) H0).
  - exact (no_null _ _ (edits_mounts _ (WF_edits _ _ W H)) H0).
Qed.

Corollary defect_rejected s : Defect s -> validate_spec s = Err.
Proof. intro D. apply not_WF_rejected. exact (single_defect_rejects _ D). Qed.

Corollary defect_document_rejected d s : spec_of_doc d = Ok s -> Defect s -> accepts d = Err.
Proof. intros E D. unfold accepts. rewrite E. cbn. exact (defect_rejected _ D). Qed.

(* a feature used at ANY place forces the declared version up (with C06's characterisation of [required]) *)
Lemma declared_released v r : declared v = Some r -> In r released_versions.
Proof.
  unfold declared. destruct (mem_s (new_version v) released_versions) eqn:E; [|discriminate].
  intro H. inversion H; subst. apply mem_s_in. exact E.
Qed.

Theorem v070_feature_needs_070 s v :
  uses_v070 s -> declared (s_version s) = Some v -> ver_gtb "v0.7.0" v = true -> ~ WF s.
Proof.
  intros U E G. apply single_defect_rejects. apply (D_version_below_requirement _ v E).
  rewrite required_exact_b. apply requires070_iff in U. rewrite U. exact G.
Qed.

Theorem mount_type_needs_040 s v :
  uses_mount_type s -> declared (s_version s) = Some v -> ver_gtb "v0.4.0" v = true -> ~ WF s.
Proof.
  intros U E G. apply single_defect_rejects. apply (D_version_below_requirement _ v E).
  rewrite required_exact_b. apply requires040_iff in U. rewrite U.
  pose proof (declared_released _ _ E) as R. unfold released_versions in R. cbn [In] in R.
  destruct (requires070 s), (requires060 s), (requires050 s); cbn [required_spec];
    repeat (destruct R as [<-|R]; [revert G; vm_compute; congruence|]); destruct R.
Qed.

(* convenient ways to establish the negative side conditions by computation *)
Lemma not_DN_b n : dn_b n = false -> ~ DN n.
Proof. intros H D. apply dn_b_iff in D. congruence. Qed.
Lemma not_VC_b n : vc_b n = false -> ~ VC n.
Proof. intros H D. apply vc_b_iff in D. congruence. Qed.
Lemma not_EnvOK_b v : env_entry_ok v = false -> ~ EnvOK v.
Proof. intros H D. apply env_entry_ok_iff in D. congruence. Qed.
Lemma not_QualKey_b k : qual_key_b k = false -> ~ QualKey k.
Proof. intros H D. apply qual_key_b_iff in D. congruence. Qed.

(* ---------------- examples: the hypotheses are satisfiable ---------------- *)
Definition ex_node := mkDevnode "/dev/a" "/dev/host-a" "c" 10 1 (Some 432%Z) "rwm" (Some 1000%Z) (Some 0%Z).
Definition ex_mount' := mkMount "/host/lib" "/usr/lib" ["ro"; "bind"] "bind".
Definition ex_hook := mkHook "createContainer" "/usr/bin/hook" ["hook"; "--x"] ["H=1"; "E="] (Some 5%Z).
Definition ex_rdt := mkRdt "clos0" "L3:0=ff" "MB:0=50" true true.
Definition ex_edits := mkEdits ["A=b"; "C=d=e"] [Some ex_node] [Some ex_hook] [Some ex_mount'] (Some ex_rdt) [0%Z; 7%Z].
Definition ex_spec : spec :=
  mkSpec "0.7.0" "vendor.com/cl.ass" [("Example.com/Key", "value"); ("plain", "")]
         [mkDevice "dev0" [("a.b/c", "1")] ex_edits; mkDevice "9p" [] (mkEdits [] [] [] [] None [5%Z])] ex_edits.

Example ex_spec_WF : WF ex_spec.
Proof. apply wf_b_iff. vm_compute. reflexivity. Qed.
Example ex_spec_validates : validate_spec ex_spec = Ok tt.
Proof. vm_compute. reflexivity. Qed.
Example ex_doc_accepted : accepts (doc_of_spec ex_spec) = Ok tt.
Proof. vm_compute. reflexivity. Qed.
Example ex_version_too_low : ~ WF (mkSpec "0.6.0" (s_kind ex_spec) (s_annot ex_spec) (s_devices ex_spec) (s_edits ex_spec)).
Proof. apply single_defect_rejects. apply (D_version_below_requirement _ "v0.6.0"); vm_compute; reflexivity. Qed.

(* a null hook entry as the last element of the list of the last device *)
Definition ex_null_hook : spec :=
  mkSpec "0.7.0" "vendor.com/class" [] [mkDevice "dev0" [] ex_edits;
    mkDevice "dev1" [] (mkEdits [] [] [Some ex_hook; None] [] None [])] empty_edits.
Example ex_null_hook_defect : Defect ex_null_hook.
Proof.
  apply (D_null_hook _ (mkEdits [] [] [Some ex_hook; None] [] None [])).
  - cbn. right. left. reflexivity.
  - cbn. right. left. reflexivity.
Qed.
Example ex_null_hook_rejected : validate_spec ex_null_hook = Err.
Proof. exact (defect_rejected _ ex_null_hook_defect). Qed.
Example ex_bad_key_defect :
  Defect (mkSpec "0.7.0" "vendor.com/class" [] [mkDevice "dev0" [("ok", "1"); ("not/a/key", "2")] ex_edits] empty_edits).
Proof.
  apply (D_bad_annotation_key _ [("ok", "1"); ("not/a/key", "2")] "not/a/key" "2").
  - cbn. right. left. reflexivity.
  - right. left. reflexivity.
  - apply not_QualKey_b. vm_compute. reflexivity.
Qed.
