(* SchemaInstProofs.v — every Spec value with the consequences of library validity passes the schema REGENERATED
   from schema/*.json: one lemma per struct of specs-go/config.go, members treated one by one (no case split over the
   omitempty combinations), lists by Forall.  The leaf steps are closed computations on the generated schema, so a
   schema change that breaks the statement breaks exactly the lemma of the struct concerned. *)
From Coq Require Import String Ascii List Bool Arith ZArith Lia.
From CDI Require Import Base Parser Annotations SpecModel Doc Schema SchemaProofs SchemaInst.
From CDIGen Require Import SchemaGen LayoutGen.
Import ListNotations.
Open Scope string_scope.

(* ---------------- generic facts about the validator ---------------- *)

(* in this fragment no keyword looks at the content of a string *)
Lemma validate_str_any s a b : validate s (DStr a) = validate s (DStr b).
Proof. destruct s; reflexivity. Qed.

Lemma type_ok_int ty a b : type_ok ty (DInt a) = type_ok ty (DInt b).
Proof. destruct ty; reflexivity. Qed.

(* the integers a schema of the fragment accepts form an interval *)
Lemma validate_int_range s lo hi z :
  in_range lo hi z = true -> validate s (DInt lo) = true -> validate s (DInt hi) = true -> validate s (DInt z) = true.
Proof.
  unfold in_range. rewrite andb_true_iff, !Z.leb_le. intros [L H]. destruct s; try (intros; assumption).
  rewrite !validate_node, (type_ok_int ty lo z), (type_ok_int ty hi z). cbn [range_ok]. rewrite !andb_true_r, !andb_true_iff.
  intros [T1 [A1 B1]] [T2 [A2 B2]]. repeat split; [exact T1| |].
  - destruct mn as [a|]; [|reflexivity]. apply Z.leb_le. apply Z.leb_le in A1. lia.
  - destruct mx as [b|]; [|reflexivity]. apply Z.leb_le. apply Z.leb_le in B2. lia.
Qed.

Definition items_of (s : schema) : option schema :=
  match s with SNode _ _ _ items _ _ _ _ => items | _ => None end.

Lemma type_ok_arr ty a b : type_ok ty (DArr a) = type_ok ty (DArr b).
Proof. destruct ty; reflexivity. Qed.

(* an array passes when the empty array does and the elements pass the items schema *)
Lemma validate_arr s l :
  validate s (DArr []) = true ->
  (forall si, items_of s = Some si -> Forall (fun d => validate si d = true) l) ->
  validate s (DArr l) = true.
Proof.
  destruct s; try (intros; assumption). rewrite !validate_node, (type_ok_arr ty [] l). cbn [range_ok items_of].
  rewrite !andb_true_r. intros T H. rewrite andb_true_iff in T. destruct T as [T _]. rewrite T. cbn [andb].
  destruct items as [si|]; [|reflexivity]. cbn [items_ok]. apply forallb_forall. apply Forall_forall. apply H. reflexivity.
Qed.

(* the schemas that apply to the member named k of an object: properties, matching patterns, additionalProperties *)
Fixpoint lookup_all (k : string) (props : list (string * schema)) : list schema :=
  match props with
  | [] => []
  | (k', s') :: r => if String.eqb k k' then s' :: lookup_all k r else lookup_all k r
  end.
Definition applicable (props : list (string * schema)) (pats : list (kpat * schema)) (addl : option schema) (k : string)
  : list schema :=
  (lookup_all k props ++ map snd (filter (fun ps => pat_matches (fst ps) k) pats) ++
   match addl with Some sa => if is_additional props pats k then [sa] else [] | None => [] end)%list.

Definition member_ok props pats addl (kv : string * doc) : Prop :=
  Forall (fun s' => validate s' (snd kv) = true) (applicable props pats addl (fst kv)).
Definition omember_ok props pats addl (o : option (string * doc)) : Prop :=
  match o with Some kv => member_ok props pats addl kv | None => True end.

Lemma type_ok_obj ty a b : type_ok ty (DObj a) = type_ok ty (DObj b).
Proof. destruct ty; reflexivity. Qed.

Lemma validate_obj ty props req items pats addl mn mx fields :
  type_ok ty (DObj []) = true ->
  forallb (fun r => mem_s r (keys fields)) req = true ->
  Forall (member_ok props pats addl) fields ->
  validate (SNode ty props req items pats addl mn mx) (DObj fields) = true.
Proof.
  intros T R M. rewrite validate_node, (type_ok_obj ty fields []), T, R. cbn [range_ok andb].
  rewrite Forall_forall in M. unfold member_ok, applicable in M.
  assert (M1 : forall kv, In kv fields -> forall s', In s' (lookup_all (fst kv) props) -> validate s' (snd kv) = true).
  { intros kv Hin s' Hs. specialize (M kv Hin). rewrite Forall_forall in M. apply M. apply in_or_app. left. exact Hs. }
  assert (M2 : forall kv, In kv fields -> forall ps, In ps pats -> pat_matches (fst ps) (fst kv) = true -> validate (snd ps) (snd kv) = true).
  { intros kv Hin ps Hp Hm. specialize (M kv Hin). rewrite Forall_forall in M. apply M. apply in_or_app. right. apply in_or_app. left.
    apply in_map. apply filter_In. auto. }
  assert (M3 : forall kv, In kv fields -> forall sa, addl = Some sa -> is_additional props pats (fst kv) = true -> validate sa (snd kv) = true).
  { intros kv Hin sa -> Ha. specialize (M kv Hin). rewrite Forall_forall in M. apply M. apply in_or_app. right. apply in_or_app. right.
    rewrite Ha. left. reflexivity. }
  clear M. rewrite !andb_true_iff. repeat split.
  - unfold props_ok. apply forallb_forall. intros [k s'] Hp. apply forallb_forall. intros kv Hin. cbn [fst snd].
    destruct (String.eqb (fst kv) k) eqn:E; [|reflexivity]. apply String.eqb_eq in E. apply (M1 kv Hin). subst k.
    clear - Hp. induction props as [|[k2 s2] r IH]; [destruct Hp|]. cbn [lookup_all]. destruct Hp as [E|Hp].
    + inversion E; subst. rewrite String.eqb_refl. left. reflexivity.
    + destruct (String.eqb (fst kv) k2); [right|]; apply IH; exact Hp.
  - unfold pats_ok. apply forallb_forall. intros ps Hp. apply forallb_forall. intros kv Hin.
    destruct (pat_matches (fst ps) (fst kv)) eqn:E; [|reflexivity]. exact (M2 kv Hin ps Hp E).
  - unfold addl_ok. destruct addl as [sa|]; [|reflexivity]. apply forallb_forall. intros kv Hin.
    destruct (is_additional props pats (fst kv)) eqn:E; [|reflexivity]. exact (M3 kv Hin sa eq_refl E).
Qed.

Lemma Forall_somes {A} (P : A -> Prop) (l : list (option A)) :
  Forall (fun o => match o with Some a => P a | None => True end) l -> Forall P (somes l).
Proof. induction 1 as [|[a|] r H _ IH]; cbn; auto. Qed.

Lemma in_somes {A} (x : A) l : In (Some x) l -> In x (somes l).
Proof.
  induction l as [|[a|] r IH]; cbn; [tauto| |].
  - intros [E|H]; [inversion E; auto|auto].
  - intros [E|H]; [discriminate|auto].
Qed.

(* required names: enough that they are among members that are always present *)
Lemma required_from_sure (must fields : list (string * doc)) req :
  forallb (fun r => mem_s r (keys must)) req = true -> incl must fields ->
  forallb (fun r => mem_s r (keys fields)) req = true.
Proof.
  intros H I. apply forallb_forall. intros r Hr. rewrite forallb_forall in H. specialize (H r Hr).
  apply mem_keys_iff in H as (v & Hv). apply mem_keys_iff. exists v. apply I. exact Hv.
Qed.

(* one potential member at a time *)
Section Members.
  Variables (props : list (string * schema)) (pats : list (kpat * schema)) (addl : option schema).
  Let M := member_ok props pats addl.
  Let OM := omember_ok props pats addl.
  Lemma om_always k v : M (k, v) -> OM (always k v).
  Proof. exact (fun H => H). Qed.
  Lemma om_omit_s k v : M (k, DStr v) -> OM (omit_s k v).
  Proof. intro H. unfold omit_s. destruct (String.eqb v ""); [exact I|exact H]. Qed.
  Lemma om_omit_z k v : M (k, DInt v) -> OM (omit_z k v).
  Proof. intro H. unfold omit_z. destruct (Z.eqb v 0); [exact I|exact H]. Qed.
  Lemma om_omit_b k v : M (k, DBool true) -> OM (omit_b k v).
  Proof. intro H. unfold omit_b. destruct v; [exact H|exact I]. Qed.
  Lemma om_omit_o k o : (forall z, o = Some z -> M (k, DInt z)) -> OM (omit_o k o).
  Proof. intro H. destruct o as [z|]; [exact (H z eq_refl)|exact I]. Qed.
  Lemma om_omit_l k l : M (k, DArr l) -> OM (omit_l k l).
  Proof. intro H. destruct l; [exact I|exact H]. Qed.
  Lemma om_omit_m k l : M (k, DObj l) -> OM (omit_m k l).
  Proof. intro H. destruct l; [exact I|exact H]. Qed.
  Lemma om_omit_p k o : (forall d, o = Some d -> M (k, d)) -> OM (omit_p k o).
  Proof. intro H. destruct o as [d|]; [exact (H d eq_refl)|exact I]. Qed.
End Members.

(* a list of strings passes a schema when the empty array does and its items schema accepts strings *)
Lemma strs_pass s l :
  validate s (DArr []) = true ->
  (forall si, items_of s = Some si -> validate si (DStr "") = true) ->
  validate s (DArr (enc_strs l)) = true.
Proof.
  intros E H. apply validate_arr; [exact E|]. intros si Hs. apply Forall_forall. intros d Hd.
  apply in_map_iff in Hd as (x & <- & _). rewrite (validate_str_any si x ""). apply H. exact Hs.
Qed.

(* a map of strings passes an object schema when every member schema it has accepts strings *)
Definition member_schemas (s : schema) : list schema :=
  match s with
  | SNode _ props _ _ pats addl _ _ => (map snd props ++ map snd pats ++ match addl with Some sa => [sa] | None => [] end)%list
  | _ => []
  end.
Definition required_of (s : schema) : list string := match s with SNode _ _ req _ _ _ _ _ => req | _ => [] end.

Lemma lookup_all_in k props s' : In s' (lookup_all k props) -> In s' (map snd props).
Proof.
  induction props as [|[k2 s2] r IH]; cbn; [tauto|]. destruct (String.eqb k k2); cbn; [intros [E|H]; auto|intro H; auto].
Qed.

Lemma annots_pass s (m : annots) :
  validate s (DObj []) = true -> required_of s = [] ->
  forallb (fun s' => validate s' (DStr "")) (member_schemas s) = true ->
  validate s (DObj (enc_annots m)) = true.
Proof.
  destruct s; try (intros; assumption). cbn [required_of member_schemas]. intros E -> H.
  rewrite forallb_forall in H.
  rewrite validate_node in E. cbn [range_ok] in E. rewrite !andb_true_iff in E. destruct E as [[T _] _].
  apply validate_obj; [exact T|reflexivity|].
  apply Forall_forall. intros kv Hkv. unfold enc_annots in Hkv. apply in_map_iff in Hkv as ((k & v) & <- & _).
  unfold member_ok, applicable. cbn [fst snd]. apply Forall_forall. intros s' Hs. rewrite (validate_str_any s' v "").
  apply H. apply in_app_or in Hs as [Hs|Hs].
  - apply in_or_app. left. exact (lookup_all_in _ _ _ Hs).
  - apply in_or_app. right. apply in_app_or in Hs as [Hs|Hs].
    + apply in_or_app. left. apply in_map_iff in Hs as (ps & <- & Hps). apply in_map. apply filter_In in Hps. tauto.
    + apply in_or_app. right. destruct addl as [sa|]; [|destruct Hs]. destruct (is_additional props pats k); [exact Hs|destruct Hs].
Qed.

(* ---------------- tactics for the per-struct lemmas ---------------- *)
(* expose the head constructor of a schema given by name *)
Ltac expose s := let s' := eval hnf in s in change s with s'.

(* compute the list of applicable member schemas (a closed term) *)
Ltac compute_applicable :=
  unfold member_ok; cbn [fst snd];
  match goal with |- Forall _ ?L => let L' := eval vm_compute in L in change L with L' end.

Ltac leaf_str := idtac; match goal with |- validate ?S (DStr ?v) = true => rewrite (validate_str_any S v ""); vm_compute; reflexivity end.
Ltac leaf_bool := idtac; match goal with |- validate ?S (DBool true) = true => vm_compute; reflexivity end.
Ltac leaf_int :=
  idtac; match goal with
  | H : in_range ?lo ?hi ?z = true |- validate ?S (DInt ?z) = true =>
      apply (validate_int_range S lo hi z H); vm_compute; reflexivity
  end.
Ltac leaves tac := repeat (apply Forall_cons; [cbv beta; tac|]); apply Forall_nil.

(* one goal per potential member of an encoder's member list *)
Ltac members :=
  match goal with
  | |- Forall _ (_ :: _) => apply Forall_cons; [cbv beta|members]
  | |- Forall _ [] => apply Forall_nil
  end.

(* ---------------- the structs ---------------- *)

(* the items schema of the array found under member k of an object schema *)
Definition prop_schemas (k : string) (s : schema) : list schema :=
  match s with SNode _ props _ _ pats addl _ _ => applicable props pats addl k | _ => [] end.

Lemma devnode_passes d :
  devnode_ranges d = true -> validate defs_DeviceNode (enc_devnode d) = true.
Proof.
  unfold devnode_ranges, int64_b, uint32_b. rewrite !andb_true_iff. intros [[[[Mj Mn] Fm] U] G].
  expose defs_DeviceNode. unfold enc_devnode. apply validate_obj; [vm_compute; reflexivity| |].
  - apply (required_from_sure [("path", DStr (dn_path d))]); [vm_compute; reflexivity|].
    intros x [<-|[]]. apply in_somes. left. reflexivity.
  - apply Forall_somes. members.
    + apply om_always. compute_applicable. leaves leaf_str.
    + apply om_omit_s. compute_applicable. leaves leaf_str.
    + apply om_omit_s. compute_applicable. leaves leaf_str.
    + apply om_omit_z. compute_applicable. leaves leaf_int.
    + apply om_omit_z. compute_applicable. leaves leaf_int.
    + apply om_omit_o. intros z E. rewrite E in Fm. cbn [opt_b] in Fm. compute_applicable. leaves leaf_int.
    + apply om_omit_s. compute_applicable. leaves leaf_str.
    + apply om_omit_o. intros z E. rewrite E in U. cbn [opt_b] in U. compute_applicable. leaves leaf_int.
    + apply om_omit_o. intros z E. rewrite E in G. cbn [opt_b] in G. compute_applicable. leaves leaf_int.
Qed.

Ltac leaf_strs :=
  idtac; match goal with
  | |- validate ?S (DArr (enc_strs ?l)) = true =>
      apply (strs_pass S l); [vm_compute; reflexivity|
        let si := fresh in let E := fresh in intros si E; vm_compute in E; inversion E; subst si; vm_compute; reflexivity]
  end.

Lemma mount_passes m : validate defs_Mount (enc_mount m) = true.
Proof.
  expose defs_Mount. unfold enc_mount. apply validate_obj; [vm_compute; reflexivity| |].
  - apply (required_from_sure [("hostPath", DStr (m_host m)); ("containerPath", DStr (m_ctr m))]); [vm_compute; reflexivity|].
    intros x [<-|[<-|[]]]; apply in_somes; cbn; auto.
  - apply Forall_somes. members.
    + apply om_always. compute_applicable. leaves leaf_str.
    + apply om_always. compute_applicable. leaves leaf_str.
    + apply om_omit_l. compute_applicable. leaves leaf_strs.
    + apply om_omit_s. compute_applicable. leaves leaf_str.
Qed.

Lemma hook_passes h : hook_timeout_ok h = true -> validate defs_Hook (enc_hook h) = true.
Proof.
  unfold hook_timeout_ok, uint32_b. intro T.
  expose defs_Hook. unfold enc_hook. apply validate_obj; [vm_compute; reflexivity| |].
  - apply (required_from_sure [("hookName", DStr (h_name h)); ("path", DStr (h_path h))]); [vm_compute; reflexivity|].
    intros x [<-|[<-|[]]]; apply in_somes; cbn; auto.
  - apply Forall_somes. members.
    + apply om_always. compute_applicable. leaves leaf_str.
    + apply om_always. compute_applicable. leaves leaf_str.
    + apply om_omit_l. compute_applicable. leaves leaf_strs.
    + apply om_omit_l. compute_applicable. leaves leaf_strs.
    + apply om_omit_o. intros z E. rewrite E in T. cbn [opt_b] in T. compute_applicable. leaves leaf_int.
Qed.

(* the schemas that apply to the member intelRdt of a containerEdits object *)
Lemma rdt_passes r :
  Forall (fun s' => validate s' (enc_rdt r) = true) (prop_schemas "intelRdt" defs_containerEdits).
Proof.
  match goal with |- Forall _ ?L => let L' := eval vm_compute in L in change L with L' end.
  leaves ltac:(unfold enc_rdt; apply validate_obj; [vm_compute; reflexivity|vm_compute; reflexivity|];
               apply Forall_somes; members;
               [ apply om_omit_s; compute_applicable; leaves leaf_str
               | apply om_omit_s; compute_applicable; leaves leaf_str
               | apply om_omit_s; compute_applicable; leaves leaf_str
               | apply om_omit_b; compute_applicable; leaves leaf_bool
               | apply om_omit_b; compute_applicable; leaves leaf_bool ]).
Qed.

(* lists of pointers without null entries *)
Lemma ptr_list_pass {A} (enc : A -> doc) (ok : A -> bool) (si : schema) (l : list (option A)) :
  (forall a, ok a = true -> validate si (enc a) = true) ->
  forallb is_some l = true -> forallb ok (somes l) = true ->
  Forall (fun d => validate si d = true) (map (enc_ptr enc) l).
Proof.
  intros H. induction l as [|[a|] r IH]; cbn; intros N O; [constructor| |discriminate].
  apply andb_true_iff in O as [O1 O2]. constructor; [apply H; exact O1|apply IH; assumption].
Qed.

Lemma ints_pass (si : schema) lo hi l :
  validate si (DInt lo) = true -> validate si (DInt hi) = true ->
  forallb (in_range lo hi) l = true -> Forall (fun d => validate si d = true) (map DInt l).
Proof.
  intros L H. induction l as [|z r IH]; cbn; intro O; [constructor|].
  apply andb_true_iff in O as [O1 O2]. constructor; [exact (validate_int_range si lo hi z O1 L H)|apply IH; exact O2].
Qed.

(* an array member whose element schema is obtained by computation and whose elements pass by the given fact *)
Ltac leaf_arr elems :=
  idtac; match goal with
  | |- validate ?S (DArr ?l) = true =>
      apply (validate_arr S l); [vm_compute; reflexivity|
        let si := fresh "si" in let E := fresh "E" in intros si E; vm_compute in E; inversion E; subst si; clear E; elems]
  end.

Lemma edits_pass e :
  edits_no_null e = true -> edits_ranges e = true -> forallb hook_timeout_ok (somes (e_hooks e)) = true ->
  validate defs_containerEdits (enc_edits e) = true.
Proof.
  unfold edits_no_null, edits_ranges. rewrite !andb_true_iff. intros [[Nn Nh] Nm] [[Rn Rh] Rg] T.
  pose proof (rdt_passes) as RDT.
  expose defs_containerEdits. unfold enc_edits. apply validate_obj; [vm_compute; reflexivity|vm_compute; reflexivity|].
  apply Forall_somes. members.
  - apply om_omit_l. compute_applicable. leaves leaf_strs.
  - apply om_omit_l. compute_applicable.
    leaves ltac:(leaf_arr ltac:(apply (ptr_list_pass enc_devnode devnode_ranges); [exact devnode_passes|exact Nn|exact Rn])).
  - apply om_omit_l. compute_applicable.
    leaves ltac:(leaf_arr ltac:(apply (ptr_list_pass enc_hook hook_timeout_ok); [exact hook_passes|exact Nh|exact T])).
  - apply om_omit_l. compute_applicable.
    leaves ltac:(leaf_arr ltac:(apply (ptr_list_pass enc_mount (fun _ => true)); [intros a _; exact (mount_passes a)|exact Nm|
                                  clear; induction (somes (e_mounts e)); [reflexivity|assumption]])).
  - apply om_omit_p. intros d E. destruct (e_rdt e) as [r|]; [|discriminate]. cbn [option_map] in E. inversion E; subst d.
    unfold member_ok. cbn [fst snd]. exact (RDT r).
  - apply om_omit_l. compute_applicable.
    leaves ltac:(leaf_arr ltac:(apply (ints_pass _ 0 4294967295); [vm_compute; reflexivity|vm_compute; reflexivity|exact Rg])).
Qed.

Ltac leaf_annots :=
  idtac; match goal with
  | |- validate ?S (DObj (enc_annots ?m)) = true => apply (annots_pass S m); vm_compute; reflexivity
  end.

(* the schemas for the elements of the member "devices" of the Spec *)
Definition device_schemas : list schema :=
  flat_map (fun s => match items_of s with Some si => [si] | None => [] end) (prop_schemas "devices" builtin).

Lemma device_passes d :
  edits_no_null (d_edits d) = true -> edits_ranges (d_edits d) = true ->
  forallb hook_timeout_ok (somes (e_hooks (d_edits d))) = true ->
  Forall (fun si => validate si (enc_device d) = true) device_schemas.
Proof.
  intros N R T. pose proof (edits_pass (d_edits d) N R T) as EP.
  match goal with |- Forall _ ?L => let L' := eval vm_compute in L in change L with L' end.
  leaves ltac:(unfold enc_device; apply validate_obj; [vm_compute; reflexivity| |];
               [ apply (required_from_sure [("name", DStr (d_name d)); ("containerEdits", enc_edits (d_edits d))]);
                 [vm_compute; reflexivity|intros x [<-|[<-|[]]]; apply in_somes; cbn; auto]
               | apply Forall_somes; members;
                 [ apply om_always; compute_applicable; leaves leaf_str
                 | apply om_omit_m; compute_applicable; leaves leaf_annots
                 | apply om_always; compute_applicable; leaves ltac:(exact EP) ] ]).
Qed.

Lemma forallb_map {A B} (f : B -> bool) (g : A -> B) l : forallb f (map g l) = forallb (fun x => f (g x)) l.
Proof. induction l; cbn; congruence. Qed.

Lemma all_edits_forallb f s :
  forallb f (all_edits s) = true -> Forall (fun d => f (d_edits d) = true) (s_devices s) /\ f (s_edits s) = true.
Proof.
  unfold all_edits. rewrite forallb_app, forallb_map, andb_true_iff. cbn [forallb]. rewrite andb_true_r.
  intros [H1 H2]. split; [|exact H2]. apply Forall_forall. rewrite forallb_forall in H1. exact H1.
Qed.

Theorem lib_valid_passes_schema s :
  lib_ok s -> in_go_ranges s -> timeouts_ok s -> validate builtin (doc_of_spec s) = true.
Proof.
  unfold lib_ok, lib_ok_b, in_go_ranges, in_go_ranges_b, timeouts_ok, timeouts_ok_b. rewrite andb_true_iff.
  intros [D N] R T.
  apply all_edits_forallb in N as [Nd Ns]. apply all_edits_forallb in R as [Rd Rs]. apply all_edits_forallb in T as [Td Ts].
  pose proof (edits_pass (s_edits s) Ns Rs Ts) as EP.
  assert (DP : Forall (fun d => Forall (fun si => validate si (enc_device d) = true) device_schemas) (s_devices s)).
  { rewrite Forall_forall in *. intros d Hd. apply device_passes; auto. }
  clear Nd Rd Td Ns Rs Ts.
  expose builtin. unfold doc_of_spec. apply validate_obj; [vm_compute; reflexivity| |].
  - apply (required_from_sure [("cdiVersion", DStr (s_version s)); ("kind", DStr (s_kind s));
                               ("devices", enc_devices (s_devices s)); ("containerEdits", enc_edits (s_edits s))]);
      [vm_compute; reflexivity|]. intros x [<-|[<-|[<-|[<-|[]]]]]; apply in_somes; cbn; auto 6.
  - apply Forall_somes. members.
    + apply om_always. compute_applicable. leaves leaf_str.
    + apply om_always. compute_applicable. leaves leaf_str.
    + apply om_omit_m. compute_applicable. leaves leaf_annots.
    + apply om_always.
      assert (Ed : enc_devices (s_devices s) = DArr (map enc_device (s_devices s)))
        by (destruct (s_devices s); [discriminate D|reflexivity]).
      rewrite Ed. compute_applicable.
      leaves ltac:(leaf_arr ltac:(apply Forall_forall; intros x Hx; apply in_map_iff in Hx as (d & <- & Hd);
                                  rewrite Forall_forall in DP; specialize (DP d Hd); rewrite Forall_forall in DP;
                                  apply DP; vm_compute; auto 10)).
    + apply om_always. compute_applicable. leaves ltac:(exact EP).
Qed.

(* the proviso on timeouts is needed *)
Theorem timeout_hypothesis_needed_refuted :
  exists s, lib_ok s /\ in_go_ranges s /\ validate builtin (doc_of_spec s) = false.
Proof. exists neg_timeout_spec. vm_compute. repeat split. Qed.

(* corollaries: the in-memory route (Validate / ValidateType = SetSpecValidator hook on read and write), and the
   routes that also run the content check (ValidateData, ValidateFile of the written YAML) *)
Corollary validator_never_rejects_loadable s :
  lib_ok s -> in_go_ranges s -> timeouts_ok s -> v_type (CfgSchema builtin) (doc_of_spec s) = true.
Proof. exact (lib_valid_passes_schema s). Qed.

Lemma device_contents_ok d : ann_ok (enc_annots (d_annot d)) = true -> device_ok (enc_device d) = true.
Proof.
  intro A. unfold enc_device, device_ok, obj_annotations_ok, always, omit_m.
  destruct (enc_annots (d_annot d)) as [|b0 br] eqn:Eb; cbn [somes member].
  - change (String.eqb "annotations" "name") with false.
    change (String.eqb "annotations" "containerEdits") with false. reflexivity.
  - change (String.eqb "annotations" "name") with false.
    change (String.eqb "annotations" "annotations") with true. exact A.
Qed.

Lemma devices_contents_ok l :
  forallb (fun d => ann_ok (enc_annots (d_annot d))) l = true ->
  match enc_devices l with DArr l' => forallb device_ok l' | _ => true end = true.
Proof.
  intro H. unfold enc_devices. destruct l as [|d0 ds]; [reflexivity|]. rewrite forallb_map.
  rewrite forallb_forall in H |- *. intros d Hd. apply device_contents_ok. exact (H d Hd).
Qed.

Lemma contents_ok_spec s : lib_annots_ok s -> contents_ok (doc_of_spec s) = true.
Proof.
  unfold lib_annots_ok, lib_annots_ok_b. rewrite andb_true_iff. intros [A Dv].
  pose proof (devices_contents_ok (s_devices s) Dv) as DC.
  unfold doc_of_spec, contents_ok, obj_annotations_ok, always, omit_m.
  destruct (enc_annots (s_annot s)) as [|a0 ar] eqn:Ea; cbn [somes member].
  - change (String.eqb "annotations" "cdiVersion") with false. change (String.eqb "annotations" "kind") with false.
    change (String.eqb "annotations" "devices") with false. change (String.eqb "annotations" "containerEdits") with false.
    change (String.eqb "devices" "cdiVersion") with false. change (String.eqb "devices" "kind") with false.
    change (String.eqb "devices" "devices") with true. cbn [andb]. exact DC.
  - change (String.eqb "annotations" "cdiVersion") with false. change (String.eqb "annotations" "kind") with false.
    change (String.eqb "annotations" "annotations") with true. cbv iota. rewrite A. cbn [andb].
    change (String.eqb "devices" "cdiVersion") with false. change (String.eqb "devices" "kind") with false.
    change (String.eqb "devices" "annotations") with false. change (String.eqb "devices" "devices") with true. exact DC.
Qed.

Corollary written_files_pass s :
  lib_ok s -> lib_annots_ok s -> in_go_ranges s -> timeouts_ok s ->
  Forall (fun ep => ep (CfgSchema builtin) (doc_of_spec s) = true) entry_points.
Proof.
  intros L A R T. pose proof (lib_valid_passes_schema s L R T) as V.
  pose proof (entry_points_agree (doc_of_spec s) (contents_ok_spec s A)) as E.
  rewrite Forall_forall in *. intros ep Hep. rewrite (E ep Hep). exact V.
Qed.

(* hypotheses are satisfiable *)
Definition c18_example_spec : spec :=
  mkSpec "1.0.0" "vendor.com/class" [("vendor.com/note", "x")]
    [mkDevice "d" []
       (mkEdits ["A=b"]
          [Some (mkDevnode "/dev/x" "" "c" 9223372036854775807 (-9223372036854775808) (Some 4294967295%Z) "rw" (Some 0%Z) (Some 4294967295%Z))]
          [Some (mkHook "createContainer" "/bin/hook" ["hook"] ["X=y"] (Some 4294967295%Z))]
          [Some (mkMount "/h" "/c" ["ro"] "bind")] (Some (mkRdt "c" "" "" true false)) [0%Z; 4294967295%Z])]
    empty_edits.
Example c18_example_hyps :
  lib_ok c18_example_spec /\ lib_annots_ok c18_example_spec /\ in_go_ranges c18_example_spec /\ timeouts_ok c18_example_spec.
Proof. vm_compute. repeat split. Qed.

(* ---------------- the layout regenerated from specs-go/config.go ---------------- *)
Definition struct_names : list string := map fst layout.
(* omitempty has no effect on a member whose type is a (non-pointer) struct *)
Definition effective_omit (f : field) : bool := f_json_omit f && negb (mem_s (f_type f) struct_names).
Definition layout_probe (fs : list field) : list string * list string :=
  (map f_json fs, map f_json (filter (fun f => negb (effective_omit f)) fs)).

(* the encoder emits exactly the members of the layout, in its order, and omits exactly those with an effective omitempty *)
Example encoder_follows_layout : encoder_probes = map (fun sf => (fst sf, layout_probe (snd sf))) layout.
Proof. vm_compute. reflexivity. Qed.
(* the records and the range predicate assume exactly the Go types of the layout *)
Example types_follow_layout : assumed_types = map (fun sf => (fst sf, map f_type (snd sf))) layout.
Proof. vm_compute. reflexivity. Qed.
(* JSON and YAML use the same member names and the same omitempty flags *)
Example tags_agree :
  forallb (fun sf => forallb (fun f => String.eqb (f_json f) (f_yaml f) && Bool.eqb (f_json_omit f) (f_yaml_omit f)) (snd sf)) layout = true.
Proof. vm_compute. reflexivity. Qed.
