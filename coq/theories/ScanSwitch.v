(* ScanSwitch.v — a directory scan that overlaps one atomic replacement of a file (C12, second sentence).

   A Spec directory is a list of (file name, content) in the order filepath.Walk visits it (names unique).
   The scan reads the listing once and then every file once, in order.  rename(2) of a new file over an
   existing name replaces the content of that one entry atomically and does not change the listing.  If the
   replacement happens after the scan has read k files, the scan sees the old content in the first k
   entries and the new directory in the rest. *)
From Coq Require Import String List Bool Arith.
Import ListNotations.
Open Scope string_scope.

Definition fsdir := list (string * string).

Definition set_file (d : fsdir) (f c : string) : fsdir :=
  map (fun e => if String.eqb (fst e) f then (f, c) else e) d.

(* what a scan returns when file f is replaced by content c after k files have been read *)
Definition scan_switch (d : fsdir) (f c : string) (k : nat) : fsdir :=
  (firstn k d ++ skipn k (set_file d f c))%list.

Lemma set_file_absent d f c : ~ In f (map fst d) -> set_file d f c = d.
Proof.
  induction d as [|[n x] r IH]; intro H; [reflexivity|].
  unfold set_file. cbn [map fst]. fold (set_file r f c). cbn [map fst] in H.
  destruct (String.eqb n f) eqn:E.
  - apply String.eqb_eq in E. subst. exfalso. apply H. left. reflexivity.
  - rewrite IH; [reflexivity|]. intro X. apply H. right. exact X.
Qed.

(* the scan equals the scan of the old directory or the scan of the new directory, never a mixture *)
Theorem scan_atomic_switch d f c k :
  NoDup (map fst d) -> scan_switch d f c k = d \/ scan_switch d f c k = set_file d f c.
Proof.
  unfold scan_switch. revert k. induction d as [|[n x] r IH]; intros k ND.
  - destruct k; left; reflexivity.
  - inversion ND as [|? ? Hn ND']; subst. destruct k as [|k].
    + right. reflexivity.
    + cbn [firstn skipn set_file map fst]. fold (set_file r f c).
      destruct (String.eqb n f) eqn:E.
      * (* the replaced file has already been read: the rest does not contain it *)
        apply String.eqb_eq in E. subst n. left. rewrite (set_file_absent r f c Hn).
        cbn. rewrite firstn_skipn. reflexivity.
      * destruct (IH k ND') as [H|H].
        -- left. cbn. f_equal. exact H.
        -- right. cbn. f_equal. exact H.
Qed.
