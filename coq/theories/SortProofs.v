(* SortProofs.v — byte-lexical order on strings is a strict total order; sort_strings o dedup_s is a canonical form:
   two lists with the same members have the same sorted, duplicate-free listing. *)
From Coq Require Import String Ascii List Bool Arith NArith Lia.
From CDI Require Import Base.
Import ListNotations.
Open Scope string_scope.

Lemma N_of_ascii_inj x y : N_of_ascii x = N_of_ascii y -> x = y.
Proof. intro H. rewrite <- (ascii_N_embedding x), <- (ascii_N_embedding y), H. reflexivity. Qed.

Lemma ltb_irrefl a : str_ltb a a = false.
Proof. induction a as [|x a IH]; cbn; [reflexivity|]. rewrite N.ltb_irrefl. exact IH. Qed.

Lemma ltb_trans a : forall b c, str_ltb a b = true -> str_ltb b c = true -> str_ltb a c = true.
Proof.
  induction a as [|x a IH]; intros [|y b] [|z c]; cbn; try discriminate; try reflexivity.
  destruct (N.ltb_spec (N_of_ascii x) (N_of_ascii y)) as [Lxy|Lxy];
  destruct (N.ltb_spec (N_of_ascii y) (N_of_ascii x)) as [Lyx|Lyx];
  destruct (N.ltb_spec (N_of_ascii y) (N_of_ascii z)) as [Lyz|Lyz];
  destruct (N.ltb_spec (N_of_ascii z) (N_of_ascii y)) as [Lzy|Lzy];
  destruct (N.ltb_spec (N_of_ascii x) (N_of_ascii z)) as [Lxz|Lxz];
  destruct (N.ltb_spec (N_of_ascii z) (N_of_ascii x)) as [Lzx|Lzx];
  try discriminate; try reflexivity; try lia.
  apply IH.
Qed.

Lemma ltb_total a : forall b, a <> b -> str_ltb a b = true \/ str_ltb b a = true.
Proof.
  induction a as [|x a IH]; intros [|y b] H; cbn; try (left; reflexivity); try (right; reflexivity); [congruence|].
  destruct (N.ltb_spec (N_of_ascii x) (N_of_ascii y)) as [Lxy|Lxy]; [left; reflexivity|].
  destruct (N.ltb_spec (N_of_ascii y) (N_of_ascii x)) as [Lyx|Lyx]; [right; reflexivity|].
  assert (E : x = y) by (apply N_of_ascii_inj; lia). subst y.
  apply IH. intro E. apply H. rewrite E. reflexivity.
Qed.

Lemma ltb_asym a b : str_ltb a b = true -> str_ltb b a = false.
Proof.
  intro H. destruct (str_ltb b a) eqn:E; [|reflexivity].
  pose proof (ltb_trans _ _ _ H E) as X. rewrite ltb_irrefl in X. discriminate.
Qed.

(* strictly ascending lists *)
Inductive asc : list string -> Prop :=
| asc_nil : asc []
| asc_cons x l : Forall (fun y => str_ltb x y = true) l -> asc l -> asc (x :: l).

Lemma asc_ext l1 : forall l2, asc l1 -> asc l2 -> (forall x, In x l1 <-> In x l2) -> l1 = l2.
Proof.
  induction l1 as [|x r IH]; intros l2 A1 A2 H.
  - destruct l2 as [|y r2]; [reflexivity|]. exfalso. apply (proj2 (H y)). left. reflexivity.
  - destruct l2 as [|y r2]; [exfalso; apply (proj1 (H x)); left; reflexivity|].
    inversion A1 as [|x' r' Hx Ar]; subst. inversion A2 as [|y' r2' Hy Ar2]; subst.
    assert (E : x = y).
    { destruct (proj1 (H x) (or_introl eq_refl)) as [E|Hin]; [auto|].
      destruct (proj2 (H y) (or_introl eq_refl)) as [E|Hin2]; [auto|].
      pose proof (proj1 (Forall_forall _ _) Hy x Hin) as L1. pose proof (proj1 (Forall_forall _ _) Hx y Hin2) as L2.
      cbn beta in L1, L2. rewrite (ltb_asym _ _ L1) in L2. discriminate. }
    subst y. f_equal. apply IH; [exact Ar|exact Ar2|].
    intro z. split; intro Hz.
    + destruct (proj1 (H z) (or_intror Hz)) as [E|Hin]; [|exact Hin].
      subst z. pose proof (proj1 (Forall_forall _ _) Hx x Hz) as L. cbn beta in L. rewrite ltb_irrefl in L. discriminate.
    + destruct (proj2 (H z) (or_intror Hz)) as [E|Hin]; [|exact Hin].
      subst z. pose proof (proj1 (Forall_forall _ _) Hy x Hz) as L. cbn beta in L. rewrite ltb_irrefl in L. discriminate.
Qed.

Lemma In_insert x y l : In x (insert_sorted y l) <-> y = x \/ In x l.
Proof.
  induction l as [|z r IH]; cbn [insert_sorted In]; [tauto|].
  destruct (str_ltb z y); cbn [In]; [rewrite IH|]; tauto.
Qed.
Lemma In_sort x l : In x (sort_strings l) <-> In x l.
Proof. unfold sort_strings. induction l as [|y r IH]; cbn [fold_right In]; [tauto|]. rewrite In_insert, IH. tauto. Qed.
Lemma mem_In x l : mem_s x l = true <-> In x l.
Proof.
  unfold mem_s. rewrite existsb_exists. split.
  - intros [y [Hy E]]. apply String.eqb_eq in E. subst. exact Hy.
  - intro H. exists x. split; [exact H|apply String.eqb_refl].
Qed.
Lemma In_dedup x l : In x (dedup_s l) <-> In x l.
Proof.
  induction l as [|y r IH]; cbn [dedup_s In]; [tauto|].
  destruct (mem_s y r) eqn:M.
  - rewrite IH. apply mem_In in M. split; [auto|]. intros [<-|H]; auto.
  - cbn [In]. rewrite IH. tauto.
Qed.
Lemma NoDup_dedup l : NoDup (dedup_s l).
Proof.
  induction l as [|y r IH]; cbn [dedup_s]; [constructor|].
  destruct (mem_s y r) eqn:M; [exact IH|]. constructor; [|exact IH].
  intro H. apply (proj1 (In_dedup y r)) in H. apply (proj2 (mem_In y r)) in H. rewrite H in M. discriminate.
Qed.

Lemma insert_asc x l : asc l -> ~ In x l -> asc (insert_sorted x l).
Proof.
  induction 1 as [|y r Hy Ar IH]; intro Hn; cbn [insert_sorted].
  - constructor; constructor.
  - destruct (str_ltb y x) eqn:E.
    + constructor; [|apply IH; intro H; apply Hn; right; exact H].
      apply Forall_forall. intros z Hz. apply In_insert in Hz as [<-|Hz]; [exact E|].
      exact (proj1 (Forall_forall _ _) Hy z Hz).
    + assert (Lxy : str_ltb x y = true).
      { destruct (ltb_total x y) as [L|L]; [intro Exy; apply Hn; left; auto|exact L|congruence]. }
      constructor; [|constructor; assumption].
      constructor; [exact Lxy|]. apply Forall_forall. intros z Hz.
      apply (ltb_trans _ _ _ Lxy). exact (proj1 (Forall_forall _ _) Hy z Hz).
Qed.
Lemma sort_asc l : NoDup l -> asc (sort_strings l).
Proof.
  unfold sort_strings. induction 1 as [|x r Hx ND IH]; cbn [fold_right]; [constructor|].
  apply insert_asc; [exact IH|]. intro H. apply (proj1 (In_sort x r)) in H. exact (Hx H).
Qed.

(* the canonical listing of a set of strings *)
Theorem canonical_listing l1 l2 : (forall x, In x l1 <-> In x l2) -> sort_strings (dedup_s l1) = sort_strings (dedup_s l2).
Proof.
  intro H. apply asc_ext; try (apply sort_asc, NoDup_dedup).
  intro x. rewrite !In_sort, !In_dedup. apply H.
Qed.
Theorem canonical_sorted l : asc (sort_strings (dedup_s l)).
Proof. apply sort_asc, NoDup_dedup. Qed.
