(* Annotations.v — executable model of pkg/cdi/annotations.go and of the Kubernetes qualified-name
   check in internal/validation/k8s (explicit matchers for its three regular expressions). *)
From Coq Require Import String Ascii List Bool Arith NArith Lia.
From CDI Require Import Base Parser.
Import ListNotations.
Open Scope string_scope.

Definition annotation_prefix : string := "cdi.k8s.io/".
Definition is_cdi_key (k : string) : bool := has_prefix annotation_prefix k.

(* Go maps are modelled as association lists; the harness hands them over sorted by key *)
Definition amap := list (string * string).
Fixpoint alookup (k : string) (m : amap) : option string :=
  match m with
  | [] => None
  | (k', v) :: r => if String.eqb k k' then Some v else alookup k r
  end.
Fixpoint ainsert (k v : string) (m : amap) : amap :=
  match m with
  | [] => [(k, v)]
  | (k', v') :: r => if str_ltb k' k then (k', v') :: ainsert k v r else (k, v) :: m
  end.
Definition akeys (m : amap) : list string := map fst m.

(* AnnotationKey: annotations.go:90-127 *)
Definition annotation_key (plugin devid : string) : result string :=
  if String.eqb plugin "" then Err
  else if String.eqb devid "" then Err
  else
    let name := plugin ++ "_" ++ replace_char "/" "_" devid in
    if Nat.ltb 63 (String.length name) then Err
    else match name with
         | EmptyString => Panic                              (* name[0] *)
         | String c0 _ =>
             if negb (is_alnum c0) then Err
             else
               bind (if Nat.ltb 2 (String.length name)
                     then bind (go_slice name 1 (String.length name - 1))
                            (fun mid => if forallb_s vc_mid mid then Ok tt else Err)
                     else Ok tt)
                 (fun _ => match last_char name with
                           | None => Panic
                           | Some l => if is_alnum l then Ok (annotation_prefix ++ name) else Err
                           end)
         end.

(* AnnotationValue: annotations.go:130-141 *)
Fixpoint annotation_value_aux (devices : list string) (value sep : string) : result string :=
  match devices with
  | [] => Ok value
  | d :: r =>
      match fst (parse_qualified_name d) with
      | Ok _ => annotation_value_aux r (value ++ sep ++ d) ","
      | Err => Err
      | Panic => Panic
      end
  end.
Definition annotation_value (devices : list string) : result string := annotation_value_aux devices "" "".

(* UpdateAnnotations: annotations.go:36-55.  Returns the outcome and the map the caller holds afterwards
   (Go maps are references: on success the entry is added to the caller's map, or to a new one if it was nil). *)
Definition update_annotations (m : amap) (plugin devid : string) (devices : list string) : result unit * amap :=
  match annotation_key plugin devid with
  | Panic => (Panic, m) | Err => (Err, m)
  | Ok key =>
      match alookup key m with
      | Some _ => (Err, m)
      | None =>
          match annotation_value devices with
          | Panic => (Panic, m) | Err => (Err, m)
          | Ok value => (Ok tt, ainsert key value m)
          end
      end
  end.

(* ParseAnnotations: annotations.go:63-83.  Result per CDI key, in the (sorted) key order of the model map;
   Go's iteration order is random, the harness groups the returned devices by key and sorts by key. *)
Fixpoint all_qualified (ds : list string) : result unit :=
  match ds with
  | [] => Ok tt
  | d :: r => match is_qualified_name d with
              | Ok true => all_qualified r
              | Ok false => Err
              | _ => Panic
              end
  end.

Fixpoint parse_annotations (m : amap) : result (list (string * list string)) :=
  match m with
  | [] => Ok []
  | (k, v) :: r =>
      if is_cdi_key k then
        let ds := split_all "," v in
        match all_qualified ds with
        | Ok _ => match parse_annotations r with
                  | Ok l => Ok ((k, ds) :: l)
                  | e => e
                  end
        | Err => match parse_annotations r with Panic => Panic | _ => Err end
        | Panic => Panic
        end
      else parse_annotations r
  end.

(* ---------------- Kubernetes qualified names (internal/validation/k8s/validation.go) ------------- *)
(* qualifiedNameFmt: optional (alnum followed by any of alnum - _ .) then alnum, anchored *)
Definition k8s_name_b (s : string) : bool := shape_b is_alnum vc_mid is_alnum s.
(* dns1123LabelFmt: lower alnum, optionally (lower alnum or -)... ending in lower alnum *)
Definition lower_alnum (c : ascii) : bool := is_lower c || is_digit c.
Definition dns_mid (c : ascii) : bool := lower_alnum c || Ascii.eqb c "-".
Definition dns_label_b (s : string) : bool := shape_b lower_alnum dns_mid lower_alnum s.
Definition dns_subdomain_b (s : string) : bool :=
  Nat.leb (String.length s) 253 && forallb dns_label_b (split_all "." s).

(* IsQualifiedName(value) returns no error messages *)
Definition k8s_qualified_b (value : string) : bool :=
  match split_all "/" value with
  | [name] => Nat.leb (String.length name) 63 && k8s_name_b name
  | [prefix; name] =>
      negb (String.eqb prefix "") && dns_subdomain_b prefix &&
      Nat.leb (String.length name) 63 && k8s_name_b name
  | _ => false
  end.
