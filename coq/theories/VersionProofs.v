(* VersionProofs.v — C06: the minimum required version is exact, position- and order-independent;
   version validity is "released and not lower than the minimum". *)
From Coq Require Import String Ascii List Bool Arith NArith ZArith Lia Permutation.
From CDI Require Import Base SpecModel Version.
From CDIGen Require Import VersionGen.
Import ListNotations.
Open Scope string_scope.

(* ---- the generated table is the one of SPEC.md and is fully understood by the model ---- *)
Lemma table_matches_SPEC : map fst version_table = released_versions.
Proof. reflexivity. Qed.
Lemma table_predicates_known :
  forallb (fun e => match snd e with None => true | Some n => match pred_of n with Some _ => true | None => false end end)
          version_table = true.
Proof. reflexivity. Qed.
Lemma table_wellformed :
  forallb (fun e => match semver_triple (fst e) with Some _ => true | None => false end) version_table = true.
Proof. reflexivity. Qed.
Lemma earliest_is_030 : earliest_version = "v0.3.0".
Proof. reflexivity. Qed.

(* ---- required = the if-chain over the four feature predicates ---- *)
Theorem required_exact_b s :
  required s = required_spec (requires040 s) (requires050 s) (requires060 s) (requires070 s).
Proof.
  unfold required, required_in. cbn [version_table fold_left required_step snd fst pred_of].
  unfold required_step. cbn -[requires040 requires050 requires060 requires070 ver_gtb].
  destruct (requires040 s), (requires050 s), (requires060 s), (requires070 s); vm_compute; reflexivity.
Qed.

(* ---- the boolean predicates say what the property says ---- *)
Lemma existsb_somes {A} (p : A -> bool) (q : option A -> bool) l :
  (forall x, q (Some x) = p x) -> q None = false ->
  existsb q l = true <-> exists x, In (Some x) l /\ p x = true.
Proof.
  intros Hs Hn. rewrite existsb_exists. split.
  - intros ([x|] & Hin & H); [|congruence]. exists x. rewrite <- Hs. auto.
  - intros (x & Hin & H). exists (Some x). rewrite Hs. auto.
Qed.

Lemma neqb_empty s : negb (String.eqb s "") = true <-> s <> "".
Proof.
  destruct (String.eqb s "") eqn:E; cbn; split; intro H; try congruence.
  - apply String.eqb_eq in E. congruence.
  - apply String.eqb_neq in E. exact E.
Qed.

Theorem requires040_iff s : requires040 s = true <-> uses_mount_type s.
Proof.
  unfold requires040, uses_mount_type. rewrite existsb_exists. split.
  - intros (e & He & H). apply (existsb_somes (fun m => negb (String.eqb (m_type m) "")) mount_has_type) in H;
      [|reflexivity|reflexivity]. destruct H as (m & Hm & Ht). exists e, m. rewrite neqb_empty in Ht. auto.
  - intros (e & m & He & Hm & Ht). exists e. split; [exact He|].
    apply (existsb_somes (fun m => negb (String.eqb (m_type m) "")) mount_has_type); [reflexivity|reflexivity|].
    exists m. rewrite neqb_empty. auto.
Qed.

Theorem requires050_iff s : requires050 s = true <-> uses_digit_name s \/ uses_hostpath s.
Proof.
  unfold requires050, uses_digit_name, uses_hostpath. rewrite orb_true_iff, !existsb_exists. split.
  - intros [(d & Hd & H)|(e & He & H)].
    + left. unfold name_starts_with_digit in H. destruct (d_name d) as [|c r] eqn:E; [discriminate|].
      exists d, c, r. auto.
    + right. apply (existsb_somes (fun d => negb (String.eqb (dn_hostpath d) "")) node_has_hostpath) in H;
        [|reflexivity|reflexivity]. destruct H as (d & Hd & Ht). exists e, d. rewrite neqb_empty in Ht. auto.
  - intros [(d & c & r & Hd & E & H)|(e & d & He & Hd & Ht)].
    + left. exists d. split; [exact Hd|]. unfold name_starts_with_digit. rewrite E. exact H.
    + right. exists e. split; [exact He|].
      apply (existsb_somes (fun d => negb (String.eqb (dn_hostpath d) "")) node_has_hostpath); [reflexivity|reflexivity|].
      exists d. rewrite neqb_empty. auto.
Qed.

Lemma nonempty_iff {A} (l : list A) : nonempty l = true <-> l <> [].
Proof. destruct l; cbn; split; congruence. Qed.

Lemma class_has_dot_iff kind :
  class_has_dot kind = true <-> exists v c, kind = v ++ String "/" c /\ contains "/" v = false /\ contains "." c = true.
Proof.
  unfold class_has_dot. split.
  - destruct (split_first "/" kind) as [[v c]|] eqn:E; [|discriminate].
    intro H. apply split_first_spec in E as [-> Hv]. exists v, c. auto.
  - intros (v & c & -> & Hv & Hc). rewrite (split_first_complete _ _ _ Hv). exact Hc.
Qed.

Theorem requires060_iff s : requires060 s = true <-> uses_annotations s \/ uses_dotted_class s.
Proof.
  unfold requires060, uses_annotations, uses_dotted_class.
  rewrite !orb_true_iff, nonempty_iff, existsb_exists, class_has_dot_iff. split.
  - intros [[H|(d & Hd & H)]|H]; auto.
    left. right. exists d. rewrite nonempty_iff in H. auto.
  - intros [[H|(d & Hd & H)]|H]; auto.
    left. right. exists d. rewrite nonempty_iff. auto.
Qed.

Lemma edits_v070_iff e : edits_v070 e = true <-> e_rdt e <> None \/ e_gids e <> [].
Proof.
  unfold edits_v070. rewrite orb_true_iff, nonempty_iff.
  destruct (e_rdt e); split; intros [H|H]; auto; try congruence; left; congruence.
Qed.

Theorem requires070_iff s : requires070 s = true <-> uses_v070 s.
Proof.
  unfold requires070, uses_v070, all_edits. rewrite orb_true_iff, existsb_exists. split.
  - intros [H|(d & Hd & H)].
    + exists (s_edits s). split; [apply in_or_app; right; left; reflexivity|apply edits_v070_iff; exact H].
    + exists (d_edits d). split; [apply in_or_app; left; apply in_map; exact Hd|apply edits_v070_iff; exact H].
  - intros (e & He & H). apply edits_v070_iff in H. apply in_app_or in He as [He|[<-|[]]].
    + right. apply in_map_iff in He as (d & <- & Hd). exists d. auto.
    + left. exact H.
Qed.

(* ---- independence of the device order ---- *)
Lemma existsb_perm {A} (p : A -> bool) l l' : Permutation l l' -> existsb p l = existsb p l'.
Proof.
  induction 1; cbn; try congruence.
  - destruct (p x), (p y); reflexivity.
Qed.

Definition same_but_devices (s s' : spec) : Prop :=
  s_version s = s_version s' /\ s_kind s = s_kind s' /\ s_annot s = s_annot s' /\ s_edits s = s_edits s' /\
  Permutation (s_devices s) (s_devices s').

Lemma all_edits_perm s s' : same_but_devices s s' -> Permutation (all_edits s) (all_edits s').
Proof.
  intros (_ & _ & _ & He & Hp). unfold all_edits. rewrite He.
  apply Permutation_app_tail. apply Permutation_map. exact Hp.
Qed.

Theorem required_perm s s' : same_but_devices s s' -> required s = required s'.
Proof.
  intro H. rewrite !required_exact_b.
  pose proof (all_edits_perm _ _ H) as Pe. destruct H as (Hv & Hk & Ha & He & Hp).
  f_equal.
  - unfold requires040. apply existsb_perm. exact Pe.
  - unfold requires050. f_equal; apply existsb_perm; assumption.
  - unfold requires060. rewrite Ha, Hk. f_equal. f_equal. apply existsb_perm. exact Hp.
  - unfold requires070. rewrite He. f_equal. apply existsb_perm. exact Hp.
Qed.

Theorem validate_version_perm s s' : same_but_devices s s' -> validate_version s = validate_version s'.
Proof.
  intro H. unfold validate_version, minimum_required_version. rewrite (required_perm _ _ H).
  destruct H as (-> & _). reflexivity.
Qed.

(* ---- version validity ---- *)
Lemma declared_is_valid v : is_valid_version v = match declared v with Some _ => true | None => false end.
Proof. unfold is_valid_version, declared. rewrite table_matches_SPEC. destruct (mem_s _ _); reflexivity. Qed.

Lemma required_is_released s : In (required s) released_versions.
Proof.
  rewrite required_exact_b. unfold required_spec, released_versions.
  destruct (requires070 s); [cbn; tauto|]. destruct (requires060 s); [cbn; tauto|].
  destruct (requires050 s); [cbn; tauto|]. destruct (requires040 s); cbn; tauto.
Qed.

Lemma new_version_required s : new_version (minimum_required_version s) = required s.
Proof.
  unfold minimum_required_version. pose proof (required_is_released s) as H.
  unfold released_versions in H. cbn [In] in H.
  repeat (destruct H as [E|H]; [rewrite <- E; reflexivity|]). destruct H.
Qed.

Theorem version_valid_iff s :
  validate_version s = Ok tt <->
  exists v, declared (s_version s) = Some v /\ ver_gtb (required s) v = false.
Proof.
  unfold validate_version. rewrite declared_is_valid, new_version_required.
  unfold declared. destruct (mem_s (new_version (s_version s)) released_versions); cbn [negb].
  - destruct (ver_gtb (required s) (new_version (s_version s))) eqn:E; split.
    + discriminate. + intros (v & Hv & H). inversion Hv; subst. congruence.
    + intros _. eexists; split; [reflexivity|exact E]. + reflexivity.
  - split; [discriminate|]. intros (v & Hv & _). discriminate.
Qed.

Theorem validate_version_total s : validate_version s <> Panic.
Proof.
  unfold validate_version. destruct (negb _); [discriminate|]. destruct (ver_gtb _ _); discriminate.
Qed.

(* ver_gtb is the strict order of the release table *)
Lemma ver_order_on_table :
  forallb (fun a => forallb (fun b => Bool.eqb (ver_gtb (fst a) (fst b)) (Nat.ltb (snd b) (snd a)))
     (combine released_versions (seq 0 9))) (combine released_versions (seq 0 9)) = true.
Proof. vm_compute. reflexivity. Qed.

(* the defect repaired by the fix commit: a predicate that only looks at the last device *)
Definition requires040_pinned (s : spec) : bool :=
  existsb (fun e => existsb mount_has_type (e_mounts e))
          (match rev (s_devices s) with d :: _ => map (fun _ => d_edits d) (s_devices s) | [] => [] end ++ [s_edits s]).
Definition ex_mount := mkMount "/h" "/c" [] "bind".
Definition ex_dev_typed := mkDevice "d0" [] (mkEdits [] [] [] [Some ex_mount] None []).
Definition ex_dev_plain := mkDevice "d1" [] (mkEdits ["A=b"] [] [] [] None []).
Theorem requires040_pinned_refuted :
  exists s s', same_but_devices s s' /\ requires040_pinned s <> requires040_pinned s'.
Proof.
  exists (mkSpec "0.3.0" "v.com/c" [] [ex_dev_typed; ex_dev_plain] empty_edits),
         (mkSpec "0.3.0" "v.com/c" [] [ex_dev_plain; ex_dev_typed] empty_edits).
  split; [|vm_compute; discriminate].
  repeat split. apply perm_swap.
Qed.

Example required_example :
  minimum_required_version (mkSpec "0.3.0" "v.com/c" [] [ex_dev_typed; ex_dev_plain] empty_edits) = "0.4.0".
Proof. reflexivity. Qed.

(* the statement of the property: the result is the highest introduction version among the features used
   anywhere (spec level or any device, any position) *)
Theorem required_exact s :
  exists f4 f5 f6 f7,
    required s = required_spec f4 f5 f6 f7 /\
    (f4 = true <-> uses_mount_type s) /\
    (f5 = true <-> uses_digit_name s \/ uses_hostpath s) /\
    (f6 = true <-> uses_annotations s \/ uses_dotted_class s) /\
    (f7 = true <-> uses_v070 s).
Proof.
  exists (requires040 s), (requires050 s), (requires060 s), (requires070 s).
  split; [apply required_exact_b|].
  split; [apply requires040_iff|]. split; [apply requires050_iff|].
  split; [apply requires060_iff|apply requires070_iff].
Qed.
