(* AnnotationsProofs.v — C15: keys are legal Kubernetes annotation keys, values round-trip,
   update is all-or-nothing and never overwrites, parse ignores foreign keys; nothing panics. *)
From Coq Require Import String Ascii List Bool Arith NArith Lia.
From CDI Require Import Base Parser ParserProofs Annotations.
Import ListNotations.
Open Scope string_scope.

(* ---------------- strings ---------------- *)
Lemma map_s_app f a b : map_s f (a ++ b) = map_s f a ++ map_s f b.
Proof. induction a; cbn; congruence. Qed.
Lemma map_s_length f s : String.length (map_s f s) = String.length s.
Proof. induction s; cbn; congruence. Qed.
Lemma forallb_s_map p f s : forallb_s p (map_s f s) = forallb_s (fun c => p (f c)) s.
Proof. induction s; cbn; congruence. Qed.
Lemma forallb_s_impl (p q : ascii -> bool) s :
  (forall c, p c = true -> q c = true) -> forallb_s p s = true -> forallb_s q s = true.
Proof.
  intro H. induction s as [|c r IH]; cbn; [reflexivity|]. intro E.
  apply andb_true_iff in E as [E1 E2]. rewrite (H _ E1), (IH E2). reflexivity.
Qed.

Lemma shape_map first mid last g s :
  (forall c, first c = true -> first (g c) = true) ->
  (forall c, mid c = true -> mid (g c) = true) ->
  (forall c, last c = true -> last (g c) = true) ->
  Shape first mid last s -> Shape first mid last (map_s g s).
Proof.
  intros H1 H2 H3 [c Hf Hl | c m l Hf Hm Hl]; cbn.
  - constructor; auto.
  - rewrite map_s_app. cbn. constructor; auto.
    rewrite forallb_s_map. eapply forallb_s_impl; [|exact Hm]. cbn. auto.
Qed.

Lemma shape_length first mid last s : Shape first mid last s -> 1 <= String.length s.
Proof. intros [c ? ? | c m l ? ? ?]; cbn; lia. Qed.

(* ---------------- character facts (256-way) ---------------- *)
Lemma alnum_lower c : is_alnum c = true -> is_alnum (to_lower_c c) = true.
Proof. destruct c as [[] [] [] [] [] [] [] []]; vm_compute; congruence. Qed.
Lemma vc_mid_lower c : vc_mid c = true -> vc_mid (to_lower_c c) = true.
Proof. destruct c as [[] [] [] [] [] [] [] []]; vm_compute; congruence. Qed.
Lemma alnum_vc_mid c : is_alnum c = true -> vc_mid c = true.
Proof. unfold vc_mid. intros ->. reflexivity. Qed.
Lemma vc_mid_not_slash : vc_mid "/" = false. Proof. reflexivity. Qed.

(* ---------------- AnnotationKey ---------------- *)
Definition key_name (plugin devid : string) : string := plugin ++ "_" ++ replace_char "/" "_" devid.
Definition KeyName := Shape is_alnum vc_mid is_alnum.

Lemma annotation_key_spec plugin devid k :
  annotation_key plugin devid = Ok k ->
  plugin <> "" /\ devid <> "" /\ k = annotation_prefix ++ key_name plugin devid /\
  String.length (key_name plugin devid) <= 63 /\ KeyName (key_name plugin devid).
Proof.
  unfold annotation_key. fold (key_name plugin devid).
  destruct (String.eqb plugin "") eqn:Ep; [discriminate|].
  destruct (String.eqb devid "") eqn:Ed; [discriminate|].
  destruct (Nat.ltb 63 (String.length (key_name plugin devid))) eqn:El; [discriminate|].
  apply Nat.ltb_ge in El.
  assert (Np : plugin <> "") by (intros ->; discriminate).
  assert (Nd : devid <> "") by (intros ->; discriminate).
  generalize dependent (key_name plugin devid). intros name El.
  destruct name as [|c0 r]; [discriminate|].
  destruct (is_alnum c0) eqn:Hc0; cbn [negb]; [|discriminate].
  intro H. repeat split; auto.
  - (* k *)
    destruct (Nat.ltb 2 (String.length (String c0 r))).
    + destruct (go_slice (String c0 r) 1 (String.length (String c0 r) - 1)) as [mid| |]; cbn [bind] in H; try discriminate.
      destruct (forallb_s vc_mid mid); cbn [bind] in H; try discriminate.
      destruct (last_char (String c0 r)) as [l|]; [|discriminate]. destruct (is_alnum l); congruence.
    + cbn [bind] in H. destruct (last_char (String c0 r)) as [l|]; [|discriminate]. destruct (is_alnum l); congruence.
  - (* shape *)
    unfold KeyName. destruct r as [|c1 r1].
    + cbn in H. rewrite Hc0 in H. constructor; assumption.
    + destruct (snoc_decomp (String c1 r1)) as (m & l & E); [discriminate|]. rewrite E in *.
      rewrite shape_last in H.
      destruct (Nat.ltb 2 (String.length (String c0 (m ++ String l "")))) eqn:E2.
      * rewrite shape_mid in H. cbn [bind] in H.
        destruct (forallb_s vc_mid m) eqn:Hm; cbn [bind] in H; [|discriminate].
        destruct (is_alnum l) eqn:Hl; [|discriminate]. constructor; assumption.
      * cbn [bind] in H. destruct (is_alnum l) eqn:Hl; [|discriminate].
        apply Nat.ltb_ge in E2. cbn [String.length] in E2. rewrite length_app in E2. cbn in E2.
        destruct m; [|cbn in E2; lia]. constructor; auto.
Qed.

Theorem annotation_key_total plugin devid : annotation_key plugin devid <> Panic.
Proof.
  unfold annotation_key. fold (key_name plugin devid).
  destruct (String.eqb plugin "") eqn:Ep; [discriminate|].
  destruct (String.eqb devid ""); [discriminate|].
  destruct (Nat.ltb 63 (String.length (key_name plugin devid))); [discriminate|].
  assert (N : key_name plugin devid <> "").
  { unfold key_name. destruct plugin; [discriminate|]. discriminate. }
  destruct (key_name plugin devid) as [|c0 r]; [congruence|].
  destruct (is_alnum c0); cbn [negb]; [|discriminate].
  destruct r as [|c1 r1].
  - cbn. destruct (is_alnum c0); discriminate.
  - destruct (snoc_decomp (String c1 r1)) as (m & l & E); [discriminate|]. rewrite E.
    rewrite shape_last.
    destruct (Nat.ltb 2 (String.length (String c0 (m ++ String l "")))).
    + rewrite shape_mid. cbn [bind]. destruct (forallb_s vc_mid m); cbn [bind]; [|discriminate].
      destruct (is_alnum l); discriminate.
    + cbn [bind]. destruct (is_alnum l); discriminate.
Qed.

Lemma to_lower_prefix s : to_lower (annotation_prefix ++ s) = annotation_prefix ++ to_lower s.
Proof. unfold to_lower. rewrite map_s_app. reflexivity. Qed.

Theorem key_is_legal plugin devid k :
  annotation_key plugin devid = Ok k ->
  has_prefix annotation_prefix k = true /\ k8s_qualified_b (to_lower k) = true.
Proof.
  intro H. apply annotation_key_spec in H as (_ & _ & -> & Hlen & Hs).
  set (name := key_name plugin devid) in *.
  split; [reflexivity|].
  rewrite to_lower_prefix.
  assert (Hl : KeyName (to_lower name)).
  { apply shape_map; auto using alnum_lower, vc_mid_lower. }
  assert (Hns : contains "/" (to_lower name) = false).
  { apply (forallb_not_contains vc_mid); [|reflexivity].
    apply (shape_forall _ _ _ vc_mid _ Hl); auto using alnum_vc_mid. }
  unfold k8s_qualified_b.
  change (annotation_prefix ++ to_lower name) with ("cdi.k8s.io" ++ String "/" (to_lower name)).
  rewrite split_all_app by reflexivity. rewrite (split_all_nosep _ _ Hns).
  change (negb (String.eqb "cdi.k8s.io" "") && dns_subdomain_b "cdi.k8s.io") with true. cbn [andb].
  unfold to_lower at 1. rewrite map_s_length.
  apply andb_true_iff. split; [apply Nat.leb_le; exact Hlen|].
  apply shape_b_iff. exact Hl.
Qed.

(* ---------------- AnnotationValue ---------------- *)
Fixpoint concat_sep (sep : string) (ds : list string) : string :=
  match ds with [] => "" | d :: r => sep ++ d ++ concat_sep "," r end.

Definition qualified (d : string) : Prop := exists v c n, QN d v c n.

Lemma annotation_value_aux_spec ds : forall value sep v,
  annotation_value_aux ds value sep = Ok v ->
  v = value ++ concat_sep sep ds /\ Forall qualified ds.
Proof.
  induction ds as [|d r IH]; intros value sep v; cbn [annotation_value_aux concat_sep].
  - intro H. inversion H. rewrite app_nil_r_s. auto.
  - destruct (fst (parse_qualified_name d)) as [[[a b] c]| |] eqn:E; try discriminate.
    intro H. apply IH in H as [-> HF]. split.
    + rewrite !app_assoc_s. reflexivity.
    + constructor; [|exact HF]. exists a, b, c. apply parse_ok_iff. exact E.
Qed.

Lemma concat_sep_join d r : concat_sep "" (d :: r) = join_with "," (d :: r).
Proof.
  revert d. induction r as [|d2 r2 IH]; intro d; cbn [concat_sep join_with].
  - cbn. rewrite app_nil_r_s. reflexivity.
  - cbn [append]. f_equal. specialize (IH d2). cbn [concat_sep] in IH. cbn [append] in IH.
    change (concat_sep "," (d2 :: r2)) with ("," ++ d2 ++ concat_sep "," r2). rewrite IH. reflexivity.
Qed.

Lemma qualified_no_comma d : qualified d -> contains "," d = false.
Proof.
  intros (v & c & n & -> & Hv & Hc & Hn). unfold qualified_name.
  rewrite !contains_app. cbn [contains].
  rewrite (forallb_not_contains _ _ _ (VC_chars _ Hv) dn_mid_not_comma),
          (forallb_not_contains _ _ _ (VC_chars _ Hc) dn_mid_not_comma),
          (forallb_not_contains _ _ _ (DN_chars _ Hn) dn_mid_not_comma). reflexivity.
Qed.

Theorem annotation_value_spec ds v :
  annotation_value ds = Ok v -> Forall qualified ds /\ (ds <> [] -> v = join_with "," ds).
Proof.
  unfold annotation_value. intro H. apply annotation_value_aux_spec in H as [-> HF]. split; [exact HF|].
  destruct ds as [|d r]; [congruence|]. intros _. cbn [append]. apply concat_sep_join.
Qed.

Theorem value_roundtrip ds v :
  ds <> [] -> annotation_value ds = Ok v -> split_all "," v = ds /\ all_qualified ds = Ok tt.
Proof.
  intros N H. apply annotation_value_spec in H as [HF Hv]. rewrite (Hv N). split.
  - apply split_join; [exact N|]. eapply Forall_impl; [|exact HF]. apply qualified_no_comma.
  - clear - HF. induction HF as [|d r Hd _ IH]; cbn; [reflexivity|].
    apply is_qualified_iff in Hd. rewrite Hd. exact IH.
Qed.

Lemma annotation_value_aux_total ds : forall value sep, annotation_value_aux ds value sep <> Panic.
Proof.
  induction ds as [|d r IH]; intros value sep; cbn; [discriminate|].
  pose proof (parse_total d). destruct (fst (parse_qualified_name d)); try congruence; try apply IH.
Qed.
Theorem annotation_value_total ds : annotation_value ds <> Panic.
Proof. apply annotation_value_aux_total. Qed.

Lemma annotation_value_aux_err_iff ds : forall value sep,
  annotation_value_aux ds value sep = Err <-> ~ Forall qualified ds.
Proof.
  induction ds as [|d r IH]; intros value sep; cbn.
  - split; [discriminate|]. intro H. exfalso. apply H. constructor.
  - destruct (fst (parse_qualified_name d)) as [[[a b] c]| |] eqn:E.
    + rewrite IH. split; intros H HF; apply H; [inversion HF; assumption|].
      constructor; [|exact HF]. exists a, b, c. apply parse_ok_iff. exact E.
    + split; [|reflexivity]. intros _ HF. inversion HF as [|? ? (a & b & c & Hq) _]; subst.
      apply parse_ok_iff in Hq. congruence.
    + exfalso. exact (parse_total d E).
Qed.
Theorem annotation_value_err_iff ds : annotation_value ds = Err <-> ~ Forall qualified ds.
Proof. apply annotation_value_aux_err_iff. Qed.

(* ---------------- maps ---------------- *)
Lemma str_ltb_irrefl a : str_ltb a a = false.
Proof. induction a as [|c r IH]; cbn; [reflexivity|]. rewrite N.ltb_irrefl. exact IH. Qed.

Lemma alookup_ainsert_same k v m : alookup k m = None -> alookup k (ainsert k v m) = Some v.
Proof.
  induction m as [|[k' v'] r IH]; cbn; intro H.
  - rewrite String.eqb_refl. reflexivity.
  - destruct (String.eqb k k') eqn:E; [discriminate|].
    destruct (str_ltb k' k); cbn; [rewrite E; apply IH; exact H|rewrite String.eqb_refl; reflexivity].
Qed.

Lemma alookup_ainsert_other k v m k' : k' <> k -> alookup k' (ainsert k v m) = alookup k' m.
Proof.
  intro N. induction m as [|[k2 v2] r IH]; cbn.
  - destruct (String.eqb k' k) eqn:E; [apply String.eqb_eq in E; congruence|reflexivity].
  - destruct (str_ltb k2 k); cbn.
    + destruct (String.eqb k' k2); [reflexivity|exact IH].
    + destruct (String.eqb k' k) eqn:E; [apply String.eqb_eq in E; congruence|reflexivity].
Qed.

Lemma ainsert_split k v m : exists a b, (m = a ++ b /\ ainsert k v m = a ++ (k, v) :: b)%list.
Proof.
  induction m as [|[k' v'] r (a & b & E1 & E2)]; cbn.
  - exists [], []. auto.
  - destruct (str_ltb k' k).
    + exists ((k', v') :: a), b. cbn. rewrite E2, <- E1. auto.
    + exists [], ((k', v') :: r). auto.
Qed.

(* ---------------- UpdateAnnotations ---------------- *)
Theorem update_fail_unchanged m p id ds :
  fst (update_annotations m p id ds) <> Ok tt -> snd (update_annotations m p id ds) = m.
Proof.
  unfold update_annotations.
  destruct (annotation_key p id) as [k| |]; try reflexivity.
  destruct (alookup k m); try reflexivity.
  destruct (annotation_value ds); try reflexivity. cbn. congruence.
Qed.

Theorem update_adds_one m p id ds :
  fst (update_annotations m p id ds) = Ok tt ->
  exists k v, annotation_key p id = Ok k /\ annotation_value ds = Ok v /\ alookup k m = None /\
              snd (update_annotations m p id ds) = ainsert k v m /\
              alookup k (ainsert k v m) = Some v /\
              (forall k', k' <> k -> alookup k' (ainsert k v m) = alookup k' m).
Proof.
  unfold update_annotations.
  destruct (annotation_key p id) as [k| |]; try discriminate.
  destruct (alookup k m) eqn:El; try discriminate.
  destruct (annotation_value ds) as [v| |]; try discriminate. cbn. intros _.
  exists k, v. repeat split; auto using alookup_ainsert_same, alookup_ainsert_other.
Qed.

Theorem never_overwrites m p id ds k :
  annotation_key p id = Ok k -> alookup k m <> None ->
  update_annotations m p id ds = (Err, m).
Proof.
  unfold update_annotations. intros -> H. destruct (alookup k m); [reflexivity|congruence].
Qed.

Theorem update_total m p id ds : fst (update_annotations m p id ds) <> Panic.
Proof.
  unfold update_annotations. pose proof (annotation_key_total p id). pose proof (annotation_value_total ds).
  destruct (annotation_key p id) as [k| |]; cbn; try congruence.
  destruct (alookup k m); cbn; try congruence.
  destruct (annotation_value ds); cbn; congruence.
Qed.

(* ---------------- ParseAnnotations ---------------- *)
Opaque is_cdi_key.
Lemma is_qualified_not_err d : is_qualified_name d <> Err.
Proof. unfold is_qualified_name. destruct (fst (parse_qualified_name d)); discriminate. Qed.

Lemma all_qualified_total ds : all_qualified ds <> Panic.
Proof.
  induction ds as [|d r IH]; cbn; [discriminate|]. pose proof (is_qualified_total d).
  pose proof (is_qualified_not_err d).
  destruct (is_qualified_name d) as [[]| |]; congruence.
Qed.

Lemma all_qualified_ok_iff ds : all_qualified ds = Ok tt <-> Forall qualified ds.
Proof.
  induction ds as [|d r IH]; cbn; [split; auto|].
  pose proof (is_qualified_total d) as T. pose proof (is_qualified_iff d) as Q.
  pose proof (is_qualified_not_err d) as T2.
  destruct (is_qualified_name d) as [[]| |]; try congruence.
  - rewrite IH. split; intro H; [constructor; [apply Q; reflexivity|exact H]|inversion H; assumption].
  - split; [discriminate|]. intro H. inversion H as [|? ? Hd _]; subst. apply Q in Hd. discriminate.
Qed.

Theorem parse_annotations_total m : parse_annotations m <> Panic.
Proof.
  induction m as [|[k v] r IH]; cbn [parse_annotations]; [discriminate|].
  destruct (is_cdi_key k); [|exact IH].
  pose proof (all_qualified_total (split_all "," v)).
  destruct (all_qualified (split_all "," v)); try congruence;
    destruct (parse_annotations r); congruence.
Qed.

Definition cdi_entries (m : amap) : amap := filter (fun kv => is_cdi_key (fst kv)) m.

(* the declarative reading of ParseAnnotations *)
Theorem parse_annotations_ok_iff m l :
  parse_annotations m = Ok l <->
  l = map (fun kv => (fst kv, split_all "," (snd kv))) (cdi_entries m) /\
  Forall (fun kv => Forall qualified (split_all "," (snd kv))) (cdi_entries m).
Proof.
  revert l. induction m as [|[k v] r IH]; intro l; cbn [parse_annotations cdi_entries filter fst].
  - cbn. split; [intro H; inversion H; auto|intros [-> _]; reflexivity].
  - destruct (is_cdi_key k); [|apply IH].
    cbn [map fst snd]. pose proof (all_qualified_total (split_all "," v)) as T.
    pose proof (all_qualified_ok_iff (split_all "," v)) as Q.
    destruct (all_qualified (split_all "," v)) as [[]| |]; try congruence.
    + destruct (parse_annotations r) as [l'| |] eqn:E.
      * split.
        -- intro H. inversion H; subst. destruct (proj1 (IH l') eq_refl) as [-> HF].
           split; [reflexivity|]. constructor; [apply Q; reflexivity|exact HF].
        -- intros [-> HF]. inversion HF as [|? ? H1 H2]; subst. f_equal. f_equal.
           destruct (proj1 (IH l') eq_refl) as [-> _]. reflexivity.
      * split; [discriminate|]. intros [_ HF]. inversion HF as [|? ? H1 H2]; subst.
        assert (X : @Err (list (string * list string)) = Ok (map (fun kv => (fst kv, split_all "," (snd kv))) (cdi_entries r)))
          by (apply IH; split; [reflexivity|exact H2]). discriminate.
      * exfalso. exact (parse_annotations_total r E).
    + split; [destruct (parse_annotations r); discriminate|].
      intros [_ HF]. inversion HF as [|? ? Hd _]; subst. cbn in Hd. apply Q in Hd. discriminate.
Qed.

Theorem parse_ignores_foreign m :
  cdi_entries m = [] -> parse_annotations m = Ok [].
Proof. intro H. apply parse_annotations_ok_iff. rewrite H. split; [reflexivity|constructor]. Qed.

Theorem parse_unqualified_fails m k v d :
  In (k, v) m -> is_cdi_key k = true -> In d (split_all "," v) -> ~ qualified d ->
  parse_annotations m = Err.
Proof.
  intros Hin Hp Hd Hq. pose proof (parse_annotations_total m) as T.
  destruct (parse_annotations m) as [l| |] eqn:E; [|reflexivity|congruence].
  exfalso. apply parse_annotations_ok_iff in E as [_ HF].
  rewrite Forall_forall in HF. specialize (HF (k, v)). cbn in HF.
  assert (In (k, v) (cdi_entries m)) by (apply filter_In; auto).
  specialize (HF H). rewrite Forall_forall in HF. exact (Hq (HF d Hd)).
Qed.

Lemma cdi_entries_app a b : (cdi_entries (a ++ b) = cdi_entries a ++ cdi_entries b)%list.
Proof. apply filter_app. Qed.

Theorem update_then_parse m p id ds l :
  ds <> [] ->
  fst (update_annotations m p id ds) = Ok tt ->
  parse_annotations m = Ok l ->
  exists k l', annotation_key p id = Ok k /\
    parse_annotations (snd (update_annotations m p id ds)) = Ok l' /\
    In (k, ds) l' /\ (forall x, In x l -> In x l') /\ length l' = S (length l).
Proof.
  intros N H Hp. apply update_adds_one in H as (k & v & Hk & Hv & Hl & Hs & _ & _).
  exists k. rewrite Hs. destruct (ainsert_split k v m) as (a & b & Em & Ei). rewrite Ei.
  destruct (value_roundtrip ds v N Hv) as [Hsplit Hq].
  apply parse_annotations_ok_iff in Hp as [-> HF]. rewrite Em in HF |- *.
  rewrite cdi_entries_app in HF |- *. apply Forall_app in HF as [HFa HFb].
  assert (Hpre : is_cdi_key k = true) by (apply (key_is_legal _ _ _ Hk)).
  eexists. split; [exact Hk|]. split.
  - apply parse_annotations_ok_iff. split; [reflexivity|].
    rewrite cdi_entries_app. cbn [cdi_entries filter fst]. rewrite Hpre.
    apply Forall_app. split; [exact HFa|]. constructor; [|exact HFb].
    cbn. rewrite Hsplit. apply all_qualified_ok_iff. exact Hq.
  - rewrite cdi_entries_app. cbn [cdi_entries filter fst]. rewrite Hpre.
    rewrite !map_app. cbn [map fst snd]. rewrite Hsplit. repeat split.
    + apply in_or_app. right. left. reflexivity.
    + intros x Hx. apply in_app_or in Hx as [Hx|Hx]; apply in_or_app; [left|right; right]; exact Hx.
    + rewrite !app_length. cbn [length]. rewrite !map_length. unfold cdi_entries. lia.
Qed.

(* non-vacuity *)
Example key_example : annotation_key "vendor.com-gpu" "pod1/ctr0" = Ok "cdi.k8s.io/vendor.com-gpu_pod1_ctr0".
Proof. reflexivity. Qed.
Example update_example :
  update_annotations [("foo", "bar")] "v.dev" "0" ["vendor.com/gpu=0"; "vendor.com/gpu=1"]
  = (Ok tt, [("cdi.k8s.io/v.dev_0", "vendor.com/gpu=0,vendor.com/gpu=1"); ("foo", "bar")]).
Proof. reflexivity. Qed.
