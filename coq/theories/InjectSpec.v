(* InjectSpec.v — what InjectDevices must do, stated from the declarative resolution (Cache.resolve_spec), not from the
   device index: the combined edit list in request order, and the outcome for unresolvable requests. *)
From Coq Require Import String Ascii List Bool Arith ZArith.
From CDI Require Import Base SpecModel Parser Paths Oci Apply Cache.
Import ListNotations.
Open Scope string_scope.

Definition resolves_to (fl : list lfile) (f : lfile) (m : string) : bool :=
  match resolve_spec fl m with Some cd => same_file (cd_file cd) f | None => false end.

(* per requested name: the spec-level edits of the file it resolves to, only if no earlier requested name resolves to
   that file, then the device's own edits *)
Fixpoint contributions (fl : list lfile) (before names : list string) : list edits :=
  match names with
  | [] => []
  | n :: r =>
      match resolve_spec fl n with
      | None => contributions fl (before ++ [n]) r
      | Some cd =>
          ((if existsb (resolves_to fl (cd_file cd)) before then [] else [s_edits (lf_spec (cd_file cd))]) ++
           [d_edits (cd_dev cd)] ++ contributions fl (before ++ [n]) r)%list
      end
  end.
Definition combined (fl : list lfile) (names : list string) : edits :=
  fold_left append_edits (contributions fl [] names) empty_edits.

Definition unresolvable (fl : list lfile) (n : string) : bool :=
  match resolve_spec fl n with Some _ => false | None => true end.

(* the expected result of an injection request, from the declarative side only *)
Definition inject_spec (host : hostfn) (fl : list lfile) (o : option oci) (names : list string) : list string * nat * option oci :=
  match o with
  | None => (names, 1, None)
  | Some o0 =>
      match filter (unresolvable fl) names with
      | (_ :: _) as miss => (miss, 1, Some o0)
      | [] => let '(o', code) := apply host (combined fl names) o0 in ([], code, Some o')
      end
  end.
