(* Schema.v — JSON-Schema draft-07, the keyword fragment used by the shipped CDI schema files and a little more:
   type (one name or a list), properties, required, items (single schema), patternProperties (pattern fragment
   dot-star, dot-plus, dot{n,}), additionalProperties, minimum, maximum (integral bounds), boolean schemas; $ref is
   inlined by the translator tools/gen_schema.py.
   - [validate]  : the executable validator (evaluation order of an implementation);
   - [Valid]     : the declarative reading of draft-07 sections 6.1.1, 6.2.2/6.2.4, 6.4.1, 6.5.3-6.5.6, written as
                   independent clauses over rationals and membership, no evaluation order;
   - [contents_ok]: the additional content check of schema/schema.go validateContents (annotations of the Spec
                   and of each device, by the k8s qualified-name matcher of Annotations.v);
   - the entry points of package schema as functions of the document and of the schema configuration.
   The shipped schema itself is CDIGen.SchemaGen.builtin, regenerated from schema/*.json on every run. *)
From Coq Require Import String Ascii List Bool Arith ZArith QArith.
From CDI Require Import Base Parser Annotations SpecModel Doc.
Import ListNotations.
Close Scope Q_scope.
Open Scope string_scope.

(* n copies of c — the harness prints very long runs of one byte this way (coqc cannot parse literals of 256 KiB) *)
Definition rep_s (c : string) (n : N) : string := N.iter n (fun s => c ++ s) "".

Inductive jtype := TObject | TArray | TString | TInteger | TNumber | TBoolean | TNull.

(* key patterns.  PMin n stands for the regular expression dot{n,} (n = 1: also dot-plus; n = 0: also dot-star),
   searched unanchored: somewhere in the key there are n consecutive characters none of which is LF.  Go's regexp (RE2) and
   ECMA-262 agree that the dot excludes LF; they disagree on CR, U+2028, U+2029 (RE2's dot matches them) — the model
   follows RE2, which is what gojsonschema runs.  Characters are UTF-8 code points: a byte that is not a continuation
   byte (10xxxxxx) starts one. *)
Inductive kpat := PMin (n : nat).

Inductive schema :=
| SUnsupported (kw : string)      (* a keyword of the draft-07 vocabulary outside the modelled fragment *)
| SBool (b : bool)                (* the schemas true and false *)
| SNode (ty : option (list jtype)) (props : list (string * schema)) (req : list string)
        (items : option schema) (pats : list (kpat * schema)) (addl : option schema) (mn mx : option Z).

(* the schema without constraints: {} *)
Definition SAny : schema := SNode None [] [] None [] None None None.

(* ------------------------------------------------------------------------------------------------ *)
(* executable validator *)

Definition has_type_b (t : jtype) (d : doc) : bool :=
  match t, d with
  | TObject, DObj _ | TArray, DArr _ | TString, DStr _
  | TInteger, DInt _ | TNumber, DInt _ | TNumber, DFrac _ _
  | TBoolean, DBool _ | TNull, DNull => true
  | _, _ => false
  end.

Definition type_ok (t : option (list jtype)) (d : doc) : bool :=
  match t with None => true | Some ts => existsb (fun t => has_type_b t d) ts end.

(* minimum / maximum constrain numbers only; cross-multiplied for the non-integral numbers *)
Definition range_ok (mn mx : option Z) (d : doc) : bool :=
  match d with
  | DInt z => match mn with Some a => (a <=? z)%Z | None => true end &&
              match mx with Some b => (z <=? b)%Z | None => true end
  | DFrac n q => match mn with Some a => (a * Zpos q <=? n)%Z | None => true end &&
                 match mx with Some b => (n <=? b * Zpos q)%Z | None => true end
  | _ => true
  end.

Definition LF : ascii := "010"%char.
(* a UTF-8 continuation byte: 10xxxxxx *)
Definition is_cont (c : ascii) : bool := byte_in 128 191 c.
(* number of characters (code points) of a UTF-8 byte string *)
Fixpoint nchars (s : string) : nat :=
  match s with EmptyString => 0 | String c r => (if is_cont c then 0 else 1) + nchars r end.

Definition pat_matches (p : kpat) (k : string) : bool :=
  match p with PMin n => existsb (fun seg => Nat.leb n (nchars seg)) (split_all LF k) end.

(* a member name is "additional" when it is no name of properties and matches no pattern of patternProperties *)
Definition is_additional (props : list (string * schema)) (pats : list (kpat * schema)) (k : string) : bool :=
  negb (mem_s k (map fst props)) && negb (existsb (fun p => pat_matches p k) (map fst pats)).

Fixpoint validate (s : schema) (d : doc) {struct s} : bool :=
  match s with
  | SUnsupported _ => false
  | SBool b => b
  | SNode ty props req items pats addl mn mx =>
      type_ok ty d && range_ok mn mx d &&
      match d with
      | DObj fields =>
          forallb (fun r => mem_s r (keys fields)) req &&
          (fix vprops (ps : list (string * schema)) : bool :=
             match ps with
             | [] => true
             | (k', s') :: rest =>
                 forallb (fun kv => if String.eqb (fst kv) k' then validate s' (snd kv) else true) fields && vprops rest
             end) props &&
          (fix vpats (ps : list (kpat * schema)) : bool :=
             match ps with
             | [] => true
             | (p, s') :: rest =>
                 forallb (fun kv => if pat_matches p (fst kv) then validate s' (snd kv) else true) fields && vpats rest
             end) pats &&
          match addl with
          | Some sa => forallb (fun kv => if is_additional props pats (fst kv) then validate sa (snd kv) else true) fields
          | None => true
          end
      | DArr l => match items with Some si => forallb (validate si) l | None => true end
      | _ => true
      end
  end.

(* no node outside the modelled fragment *)
Fixpoint in_fragment (s : schema) : bool :=
  match s with
  | SUnsupported _ => false
  | SBool _ => true
  | SNode _ props _ items pats addl _ _ =>
      (fix go (ps : list (string * schema)) : bool :=
         match ps with [] => true | (_, s') :: r => in_fragment s' && go r end) props &&
      match items with Some si => in_fragment si | None => true end &&
      (fix go (ps : list (kpat * schema)) : bool :=
         match ps with [] => true | (_, s') :: r => in_fragment s' && go r end) pats &&
      match addl with Some sa => in_fragment sa | None => true end
  end.

(* Three-valued validation, for schemas that have left the modelled fragment: an Unsupported node yields "unknown";
   conjunctions are Kleene's (a definite failure elsewhere still decides, unknown otherwise).  Used only by the
   judges as the reference verdict when a schema change introduces unmodelled keywords or a broken $ref: the model
   then still knows that e.g. a document without a required member is invalid whatever the unknown part says. *)
Definition and3 (a b : option bool) : option bool :=
  match a, b with
  | Some false, _ | _, Some false => Some false
  | Some true, Some true => Some true
  | _, _ => None
  end.
Fixpoint forall3 {A} (f : A -> option bool) (l : list A) : option bool :=
  match l with [] => Some true | x :: r => and3 (f x) (forall3 f r) end.

Fixpoint validate3 (s : schema) (d : doc) {struct s} : option bool :=
  match s with
  | SUnsupported _ => None
  | SBool b => Some b
  | SNode ty props req items pats addl mn mx =>
      and3 (Some (type_ok ty d && range_ok mn mx d))
      match d with
      | DObj fields =>
          and3 (Some (forallb (fun r => mem_s r (keys fields)) req))
          (and3 ((fix vprops (ps : list (string * schema)) : option bool :=
                    match ps with
                    | [] => Some true
                    | (k', s') :: rest =>
                        and3 (forall3 (fun kv => if String.eqb (fst kv) k' then validate3 s' (snd kv) else Some true) fields) (vprops rest)
                    end) props)
          (and3 ((fix vpats (ps : list (kpat * schema)) : option bool :=
                    match ps with
                    | [] => Some true
                    | (p, s') :: rest =>
                        and3 (forall3 (fun kv => if pat_matches p (fst kv) then validate3 s' (snd kv) else Some true) fields) (vpats rest)
                    end) pats)
                match addl with
                | Some sa => forall3 (fun kv => if is_additional props pats (fst kv) then validate3 sa (snd kv) else Some true) fields
                | None => Some true
                end))
      | DArr l => match items with Some si => forall3 (validate3 si) l | None => Some true end
      | _ => Some true
      end
  end.

(* ------------------------------------------------------------------------------------------------ *)
(* declarative semantics (draft-07), clause by clause *)

(* 6.1.1 type; "integer" is decided by value (DInt stands for every number with an integral value) *)
Definition has_type (t : jtype) (d : doc) : Prop :=
  match t with
  | TObject => exists f, d = DObj f
  | TArray => exists l, d = DArr l
  | TString => exists s, d = DStr s
  | TInteger => exists z, d = DInt z
  | TNumber => (exists z, d = DInt z) \/ (exists n q, d = DFrac n q)
  | TBoolean => exists b, d = DBool b
  | TNull => d = DNull
  end.

(* the mathematical value of a number *)
Definition num_value (d : doc) (q : Q) : Prop :=
  (exists z, d = DInt z /\ q = inject_Z z) \/ (exists n p, d = DFrac n p /\ q = Qmake n p).

(* the regular-expression fragment: some substring of at least n characters without LF *)
Definition Matches (p : kpat) (k : string) : Prop :=
  match p with
  | PMin n => exists a m b, k = a ++ m ++ b /\ contains LF m = false /\ n <= nchars m
  end.

Inductive Valid : schema -> doc -> Prop :=
| Valid_true : forall d, Valid (SBool true) d
| Valid_node : forall ty props req items pats addl mn mx d,
    (* type: the instance has one of the listed types *)
    (forall ts, ty = Some ts -> exists t, In t ts /\ has_type t d) ->
    (* minimum, maximum: a numeric instance lies within the inclusive bounds *)
    (forall q, num_value d q ->
       (forall a, mn = Some a -> (inject_Z a <= q)%Q) /\ (forall b, mx = Some b -> (q <= inject_Z b)%Q)) ->
    (* required: every listed name is the name of a member *)
    (forall f r, d = DObj f -> In r req -> exists v, In (r, v) f) ->
    (* properties: a member whose name is listed validates against the corresponding schema *)
    (forall f k v s', d = DObj f -> In (k, v) f -> In (k, s') props -> Valid s' v) ->
    (* patternProperties: a member validates against the schema of every pattern its name matches *)
    (forall f k v p s', d = DObj f -> In (k, v) f -> In (p, s') pats -> Matches p k -> Valid s' v) ->
    (* additionalProperties: members neither listed in properties nor matched by a pattern *)
    (forall f k v sa, d = DObj f -> In (k, v) f -> addl = Some sa ->
       (forall s', ~ In (k, s') props) -> (forall p s', In (p, s') pats -> ~ Matches p k) -> Valid sa v) ->
    (* items (single schema): every element validates *)
    (forall l si x, d = DArr l -> items = Some si -> In x l -> Valid si x) ->
    Valid (SNode ty props req items pats addl mn mx) d.

(* ------------------------------------------------------------------------------------------------ *)
(* the content check of schema.go validateContents (annotations of the Spec and of each device) *)

(* strings.ToLower: ASCII letters, plus the two non-ASCII runes whose lower case is ASCII
   (U+0130 -> i, U+212A KELVIN SIGN -> k); every other rune stays outside ASCII *)
Fixpoint go_lower (s : string) : string :=
  match s with
  | String "196" (String "176" r) => String "i" (go_lower r)
  | String "226" (String "132" (String "170" r)) => String "k" (go_lower r)
  | String c r => String (to_lower_c c) (go_lower r)
  | EmptyString => EmptyString
  end.

Definition annotation_size_limit : Z := 262144.   (* k8s.TotalAnnotationSizeLimitB *)
Fixpoint str_size (s : string) : Z :=
  match s with EmptyString => 0%Z | String _ r => (1 + str_size r)%Z end.
Definition annot_size (m : list (string * doc)) : Z :=
  fold_right (fun kv acc => (str_size (fst kv) + match snd kv with DStr v => str_size v | _ => 0 end + acc)%Z) 0%Z m.

(* validation.ValidateSpecAnnotations on a decoded map: all values strings, every key (lower-cased) a k8s
   qualified name, total size of keys and values within the limit *)
Definition ann_ok (m : list (string * doc)) : bool :=
  forallb (fun kv => match snd kv with DStr _ => true | _ => false end) m &&
  forallb (fun kv => k8s_qualified_b (go_lower (fst kv))) m &&
  (annot_size m <=? annotation_size_limit)%Z.

(* getAnnotations: only a member "annotations" that is a map is looked at *)
Definition obj_annotations_ok (f : list (string * doc)) : bool :=
  match member "annotations" f with Some (DObj m) => ann_ok m | _ => true end.

(* a device entry: nil is skipped, a map is checked, anything else is "failed to parse device" *)
Definition device_ok (d : doc) : bool :=
  match d with DNull => true | DObj f => obj_annotations_ok f | _ => false end.

Definition contents_ok (d : doc) : bool :=
  match d with
  | DObj f => obj_annotations_ok f &&
              match member "devices" f with Some (DArr l) => forallb device_ok l | _ => true end
  | _ => true
  end.

(* "annotations well-formed" of the property text: the content check has nothing to object to *)
Definition annotations_wf (d : doc) : Prop := contents_ok d = true.

(* ------------------------------------------------------------------------------------------------ *)
(* schema configurations and entry points *)
Inductive config :=
| CfgSchema (s : schema)     (* Load("builtin"), Load(path): a compiled schema *)
| CfgNop                     (* Load("none"), Load(""), NopSchema() *)
| CfgNil.                    (* a nil *Schema *)

(* the private method validate(): ValidateType, Validate, ValidateReader, ReadAndValidate, ValidateFile(x.json) *)
Definition run_validate (c : config) (d : doc) : bool :=
  match c with CfgSchema s => validate s d | _ => true end.

(* ValidateData decodes the bytes into a map first: a top-level array or scalar is an error for every
   configuration (also for a nil receiver); a top-level null decodes to the nil map *)
Definition top_decodable (d : doc) : bool := match d with DObj _ | DNull => true | _ => false end.

(* ValidateData and ValidateFile(any name not ending in .json): schema verdict, then the content check on the
   decoded map; a nil receiver and the no-op schema skip both (the latter since fix 748fe15) *)
Definition run_data (c : config) (d : doc) : bool :=
  top_decodable d &&
  match c with
  | CfgSchema s => validate s d && contents_ok d
  | CfgNop => true
  | CfgNil => true
  end.
(* the code before fix 748fe15: the no-op schema skipped only the schema, not the content check *)
Definition run_data_pinned_nop (c : config) (d : doc) : bool :=
  top_decodable d &&
  match c with
  | CfgSchema s => validate s d && contents_ok d
  | CfgNop => contents_ok d
  | CfgNil => true
  end.

Definition v_type := run_validate.          (* ValidateType(obj), Validate(spec) on the JSON image of the object *)
Definition v_reader := run_validate.        (* ValidateReader, ReadAndValidate (JSON only) *)
Definition v_file_json := run_validate.     (* ValidateFile("x.json") *)
Definition v_data_json := run_data.         (* ValidateData(JSON bytes) *)
Definition v_data_yaml := run_data.         (* ValidateData(YAML bytes) *)
Definition v_file_yaml := run_data.         (* ValidateFile("x.yaml") *)
Definition v_file_other_json := run_data.   (* ValidateFile("x.<other>") holding JSON *)

(* all entry points, for statements about "every entry point" *)
Definition entry_points : list (config -> doc -> bool) :=
  [v_type; v_reader; v_file_json; v_data_json; v_data_yaml; v_file_yaml; v_file_other_json].

(* the code before fix 6c1c860: the JSON branch of ValidateData left the decoded map nil, so the content check
   was skipped for JSON bytes only *)
Definition v_data_json_pinned (c : config) (d : doc) : bool := top_decodable d && run_validate c d.
