(* Judge12.v — evaluation of harness cases for C12.
   The model of C12 is the lock-discipline abstraction regenerated from the source (CDIGen.LockGen); its tie to
   the code is the translator.  The harness contributes (a) a cross-check of the translator's coverage: every
   exported method of *cdi.Cache found by reflection in the built package must be an analysed entry point;
   (b) schedule exploration under the Go race detector: one case per child process with what was observed;
   (c) snapshot observations: results of queries/injections made while a Spec file flips atomically between
   two contents (all distinct results seen for one kind of query in one run), each compared here with the two
   admissible results. *)
From Coq Require Import String List Bool Arith.
From CDI Require Import Base.
From CDIGen Require Import LockGen.
Import ListNotations.
Open Scope string_scope.

Inductive case12 :=
| C12api (methods : list string)
| C12run (scenario : string) (completed race stalled crashed : bool)
| C12snap (kind : string) (a b : list string) (observed : list (list string)).

(* correspondence: the translator analysed every exported method of the cache that the built package has *)
Definition corr12 (c : case12) : bool :=
  match c with
  | C12api ms => forallb (fun m => mem_s ("Cache." ++ m) api_entries) ms
  | _ => true
  end.

(* the property on the observed behaviour: the run completed, no data race was reported, no operation hung,
   nothing crashed; every result observed while the directory flips equals the result for state A or for state B *)
Definition oracle12 (c : case12) : bool :=
  match c with
  | C12api _ => true
  | C12run _ completed race stalled crashed => completed && negb race && negb stalled && negb crashed
  | C12snap _ a b observed => forallb (fun obs => list_eqb String.eqb obs a || list_eqb String.eqb obs b) observed
  end.

Definition judge12 (cases : list case12) : list nat * list nat :=
  (bad_indices corr12 0 cases, bad_indices oracle12 0 cases).
