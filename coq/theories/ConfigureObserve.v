(* ConfigureObserve.v — at ANY point of a history the cache observes like a cache newly created with the options
   that took effect so far, on the current directory contents (C20: observe_equiv_new). *)
From Coq Require Import String Ascii List Bool Arith Lia.
From CDI Require Import Base Paths Configure ConfigureProofs ConfigureRes ConfigureSim ConfigureEquiv ConfigureView ConfigureAuto.
Import ListNotations.
Open Scope string_scope.

Arguments refresh_if_required : simpl never.

(* Refresh() then a query: the current view, in either mode *)
Lemma settled_view w c :
  Inv w -> J w -> fd_ok w = true -> cache w = Some c ->
  devs_errs (settled_answer w) = Some (view (dirs c) (fs w)).
Proof.
  intros I Jw F C. unfold settled_answer.
  set (w1 := fst (step w Refresh)).
  assert (I1 : Inv w1) by apply step_inv, I.
  assert (J1 : J w1) by (apply step_J; auto).
  assert (F1 : fd_ok w1 = true) by (unfold w1; rewrite step_fd_ok; auto).
  assert (C1 : cache w1 = Some (refresh_if_required w c (negb (auto c))) /\ fs w1 = fs w).
  { unfold w1. cbn [step fst]. rewrite C. auto. }
  destruct C1 as (C1 & FS1).
  destruct (rir_keeps w c (negb (auto c))) as (KD & KA & _).
  destruct (auto c) eqn:A.
  - destruct (query_answers w1 _ I1 J1 F1 C1 KA) as (de & E). rewrite E, KD, FS1. cbn [devs_errs].
    rewrite <- surjective_pairing. reflexivity.
  - cbn [negb] in *. cbn [step]. rewrite C1. cbn [snd]. unfold refresh_if_required at 1. rewrite KA.
    unfold answer_of, refresh_if_required. rewrite refresh_ok by exact F. cfields. cbn [devs_errs].
    rewrite <- surjective_pairing. reflexivity.
Qed.

Lemma J_tracked_keys w c : J w -> cache w = Some c -> tracked_keys c = if auto c then sort_strings (norm_set (dirs c)) else [].
Proof.
  intros Jw C. unfold tracked_keys. destruct (auto c) eqn:A; [|reflexivity].
  destruct (Jw c C A) as (K & _). rewrite K. reflexivity.
Qed.

Lemma observe_by_cfg w c :
  Inv w -> J w -> fd_ok w = true -> cache w = Some c ->
  observe w = Some (dirs c, auto c, (if auto c then sort_strings (norm_set (dirs c)) else []), Some (view (dirs c) (fs w))).
Proof.
  intros I Jw F C. unfold observe. rewrite C, (settled_view w c I Jw F C), (J_tracked_keys w c Jw C). reflexivity.
Qed.

Theorem observe_equiv_new defs fs0 ops :
  let w := run (world0 defs fs0) ops in
  disciplined true ops = true -> fd_ok w = true -> cache w <> None ->
  observe w = observe (fresh w (applied false ops)).
Proof.
  intros w D F C.
  assert (I : Inv w) by apply run_inv, inv_world0.
  assert (Jw : J w) by (apply (run_J ops (world0 defs fs0)); auto using inv_world0, J_world0).
  destruct (cache w) as [c|] eqn:Cw; [clear C|congruence].
  destruct (run_cfg ops (world0 defs fs0) (inv_world0 defs fs0)) as (DD & E). fold w in DD, E.
  unfold cur_cfg in E. rewrite Cw in E. cbn [cache world0 is_some defdirs] in E.
  (* the fresh side *)
  set (wE := mkW (defdirs w) (fs w) (fd_ok w) 0 [] [] None).
  assert (PE : res_pre wE (watcher (blank wE))) by (cbn; auto).
  unfold fresh, new_cache. fold wE.
  destruct (configure_spec wE (blank wE) (applied false ops) PE) as (_ & F2 & K2 & c2 & C2 & Di2 & A2 & _).
  cbn [world0 defdirs] in DD. unfold blank in Di2, A2. unfold wE in Di2, A2.
  cbn [dirs auto defdirs fs fd_ok] in Di2, A2. rewrite DD, <- E in Di2, A2. cbn [fst snd] in Di2, A2.
  rewrite (observe_by_cfg w c I Jw F Cw).
  rewrite (observe_by_cfg _ c2 (configure_inv _ _ _ PE) (configure_J _ _ _ PE)); [|rewrite K2; exact F|exact C2].
  rewrite F2, Di2, A2. reflexivity.
Qed.
