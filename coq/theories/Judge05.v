(* Judge05.v — evaluation of harness cases for C05.

   Observed outcome classes: 0 accepted, 1 rejected with an error, 2 panicked.

   [CDoc d obs parsed]: a document, as the generic JSON value the harness decoded from the bytes it
   wrote (object members sorted by name; a document made with two members of one name is printed from
   the tree it was written from, both members kept); [obs] are the outcomes of the document routes that were run
   on it (cdi.ReadSpec on the .json file, Cache.Refresh + GetErrors on a directory holding it, the
   same two on the .yaml file); [parsed] what cdi.ParseSpec returned for the JSON and, when different,
   the YAML bytes ([None] = error or nil Spec).
   [CTyped s obs]: a Spec value handed to Cache.WriteSpec (a .json and a .yaml name). *)
From Coq Require Import String Ascii List Bool Arith ZArith.
From CDI Require Import Base SpecModel Doc Decode Validate.
Import ListNotations.
Open Scope string_scope.

(* n copies of c: the harness prints long runs of one byte (4 KiB class ids, 256 KiB annotation values)
   this way instead of as literals *)
Definition rep_s (c : string) (n : N) : string := N.iter n (String.append c) "".

Inductive case05 :=
| CDoc (d : doc) (obs : list nat) (parsed : list (option spec))
| CTyped (s : spec) (obs : list nat).

Definition all_eq (n : nat) (l : list nat) : bool := forallb (Nat.eqb n) l.

Definition parsed_agrees (d : doc) (p : option spec) : bool :=
  match strict_of_doc d, p with
  | Ok s, Some s' => spec_eqb s s'
  | Err, None => true
  | _, _ => false
  end.

(* the model predicts every observation *)
Definition corr05 (c : case05) : bool :=
  match c with
  | CDoc d obs parsed => all_eq (rclass (accepts_strict d)) obs && forallb (parsed_agrees d) parsed
  | CTyped s obs => all_eq (rclass (validate_spec s)) obs
  end.

(* the property, on the observations: all routes and encodings agree, nothing panics, and the
   document / value is accepted exactly when no object of it names a member twice and it decodes
   (only known fields, well-typed) to a well-formed Spec *)
Definition should_accept_doc (d : doc) : bool :=
  negb (has_dup d) && match spec_of_doc d with Ok s => wf_b s | _ => false end.
Definition verdict_ok (should : bool) (obs : list nat) : bool :=
  match obs with
  | [] => false
  | o :: _ => all_eq o obs && negb (Nat.eqb o 2) && Bool.eqb (Nat.eqb o 0) should
  end.
Definition oracle05 (c : case05) : bool :=
  match c with
  | CDoc d obs _ => verdict_ok (should_accept_doc d) obs
  | CTyped s obs => verdict_ok (wf_b s) obs
  end.

Definition judge05 (cases : list case05) : list nat * list nat :=
  (bad_indices corr05 0 cases, bad_indices oracle05 0 cases).
