(* Judge09.v — evaluation of harness cases for C09 (written Spec files read back equal, in both encodings). *)
From Coq Require Import String Ascii List Bool Arith NArith ZArith.
From CDI Require Import Base SpecModel Doc Decode Codec.
Import ListNotations.
Open Scope string_scope.

(* every string of a Spec *)
Definition devnode_strings (d : devnode) : list string := [dn_path d; dn_hostpath d; dn_type d; dn_perms d].
Definition mount_strings (m : mount) : list string := (m_host m :: m_ctr m :: m_type m :: m_opts m)%list.
Definition hook_strings (h : hook) : list string := (h_name h :: h_path h :: h_args h ++ h_env h)%list.
Definition rdt_strings (r : rdt) : list string := [r_closid r; r_l3 r; r_membw r].
Definition edits_strings (e : edits) : list string :=
  (e_env e ++ flat_map devnode_strings (somes (e_nodes e)) ++ flat_map hook_strings (somes (e_hooks e)) ++
   flat_map mount_strings (somes (e_mounts e)) ++ match e_rdt e with Some r => rdt_strings r | None => [] end)%list.
Definition annots_strings (a : annots) : list string := flat_map (fun kv => [fst kv; snd kv]) a.
Definition spec_strings (s : spec) : list string :=
  (s_version s :: s_kind s :: annots_strings (s_annot s) ++ edits_strings (s_edits s) ++
   flat_map (fun d => d_name d :: annots_strings (d_annot d) ++ edits_strings (d_edits d)) (s_devices s))%list.

(* the classes of the known findings, on UTF-8 bytes *)
Definition b (c : ascii) : N := N_of_ascii c.
Fixpoint has_c1 (s : string) : bool :=      (* U+007F..U+009F except U+0085, U+FFFE, U+FFFF *)
  match s with
  | EmptyString => false
  | String c r =>
      N.eqb (b c) 127 ||
      match r with
      | String d r2 =>
          (N.eqb (b c) 194 && N.leb 128 (b d) && N.leb (b d) 159 && negb (N.eqb (b d) 133)) ||
          match r2 with
          | String e _ => N.eqb (b c) 239 && N.eqb (b d) 191 && (N.eqb (b e) 190 || N.eqb (b e) 191)
          | EmptyString => false
          end
      | EmptyString => false
      end || has_c1 r
  end.
Fixpoint has_nel (s : string) : bool :=     (* U+0085 = C2 85 *)
  match s with
  | EmptyString => false
  | String c r => match r with String d _ => N.eqb (b c) 194 && N.eqb (b d) 133 | EmptyString => false end || has_nel r
  end.
Definition leading_blank_multiline (s : string) : bool :=
  contains "010" s && match s with String c _ => N.eqb (b c) 10 || N.eqb (b c) 32 || N.eqb (b c) 9 | EmptyString => false end.

(* 0: outside every class; 1: C09/json-c1-controls; 2: C09/json-nel; 3: C09/yaml-leading-blank-multiline.  enc: 0 = .json, 1 = .yaml, 2 = no extension (YAML) *)
Definition known_class (enc : nat) (s : spec) : nat :=
  let strs := spec_strings s in
  if Nat.eqb enc 0 then (if existsb has_c1 strs then 1 else if existsb has_nel strs then 2 else 0)
  else (if existsb leading_blank_multiline strs then 3 else 0).

(* one written file: the Spec handed to Cache.WriteSpec, the encoding, the generic JSON image of json.Marshal(spec), the Spec
   read back with cdi.ReadSpec (None: error), whether the devices loaded through the cache equal the original ones, the Spec
   read back from the file in the other encoding (json <-> yaml), the known-finding class claimed by the harness *)
Inductive case09 := Case09 (s : spec) (enc : nat) (image : doc) (back : option spec) (cache_same : bool) (other : option spec) (k : nat).

Definition corr09 (c : case09) : bool :=
  match c with
  | Case09 s enc image back _ _ k =>
      doc_eqb image (doc_of_spec s) &&                        (* the encoder model is json.Marshal *)
      match spec_of_doc image with Ok s' => spec_eqb s s' | _ => false end &&   (* the decoder model on the real image *)
      Nat.eqb k (known_class enc s) && spec_ranges s
  end.
Definition oracle09 (c : case09) : bool :=
  match c with
  | Case09 s _ _ back cache_same other _ =>
      match back with
      | Some s' => spec_eqb s s' && cache_same && match other with Some o => spec_eqb o s' | None => true end
      | None => false
      end
  end.
Definition judge09 (cases : list case09) : list nat * list nat :=
  (bad_indices corr09 0 cases, bad_indices oracle09 0 cases).
