(* Judge09.v — evaluation of harness cases for C09 (written Spec files read back equal, in both encodings). *)
From Coq Require Import String Ascii List Bool Arith NArith ZArith.
From CDI Require Import Base SpecModel Doc Decode Codec JsonString JsonStringFix.
Import ListNotations.
Open Scope string_scope.

(* every string of a Spec *)
Definition devnode_strings (d : devnode) : list string := [dn_path d; dn_hostpath d; dn_type d; dn_perms d].
Definition mount_strings (m : mount) : list string := (m_host m :: m_ctr m :: m_type m :: m_opts m)%list.
Definition hook_strings (h : hook) : list string := (h_name h :: h_path h :: h_args h ++ h_env h)%list.
Definition rdt_strings (r : rdt) : list string := [r_closid r; r_l3 r; r_membw r].
Definition edits_strings (e : edits) : list string :=
  (e_env e ++ flat_map devnode_strings (somes (e_nodes e)) ++ flat_map hook_strings (somes (e_hooks e)) ++
   flat_map mount_strings (somes (e_mounts e)) ++ match e_rdt e with Some r => rdt_strings r | None => [] end)%list.
Definition annots_strings (a : annots) : list string := flat_map (fun kv => [fst kv; snd kv]) a.
Definition spec_strings (s : spec) : list string :=
  (s_version s :: s_kind s :: annots_strings (s_annot s) ++ edits_strings (s_edits s) ++
   flat_map (fun d => d_name d :: annots_strings (d_annot d) ++ edits_strings (d_edits d)) (s_devices s))%list.

(* the classes of the known findings, on UTF-8 bytes: has_c1 (C09/json-c1-controls) and has_nel (C09/json-nel) live in JsonString.v,
   shared with the theorem json_string_layer *)
Definition leading_blank_multiline (s : string) : bool :=
  contains "010" s && match s with String c _ => N.eqb (b c) 10 || N.eqb (b c) 32 || N.eqb (b c) 9 | EmptyString => false end.

(* 0: outside every class; 1: C09/json-c1-controls; 2: C09/json-nel; 3: C09/yaml-leading-blank-multiline.  enc: 0 = .json, 1 = .yaml, 2 = no extension (YAML) *)
Definition known_class (enc : nat) (s : spec) : nat := 0.   (* repaired defects D20 and D29: no string is set aside any more *)

(* one written file: the Spec handed to Cache.WriteSpec, the encoding, the generic JSON image of json.Marshal(spec), the Spec
   read back with cdi.ReadSpec (None: error), whether the devices loaded through the cache equal the original ones, the Spec
   read back from the file in the other encoding (json <-> yaml), the known-finding class claimed by the harness *)
Inductive case09 :=
| Case09 (s : spec) (enc : nat) (image : doc) (back : option spec) (cache_same : bool) (other : option spec) (k : nat)
(* one string through the JSON text layer alone: the Go string, utf8.ValidString, what json.Marshal wrote between the quotes,
   what sigs.k8s.io/yaml read back from that literal as a member value (None: error), the known-finding class claimed *)
| CaseStr (s : string) (valid : bool) (escaped : string) (scanned : option string) (k : nat)
(* the link between the two: the bytes of a .json file written by Cache.WriteSpec for a Spec that carries s as the value of the
   annotation example.com/note *)
| CaseLit (s : string) (file : string)
(* a Spec too large to print as a term (n devices, about [bytes] bytes per file): the harness compares the read-back Spec and the
   devices loaded through the cache with the original itself; enc as above *)
| CaseBig (n bytes enc : nat) (same : bool).

Fixpoint has_infix (p s : string) : bool :=
  has_prefix p s || match s with String _ r => has_infix p r | EmptyString => false end.
(* the member as encoding/json writes it: the key, a colon, the literal of the model *)
Definition note_member (s : string) : string := """example.com/note"":""" ++ spec_json_escape s ++ """".

Definition str_class (s : string) : nat := 0.
Definition opt_string_eqb (a c : option string) : bool :=
  match a, c with Some x, Some y => String.eqb x y | None, None => true | _, _ => false end.

Definition corr09 (c : case09) : bool :=
  match c with
  | Case09 s enc image back _ _ k =>
      doc_eqb image (doc_of_spec s) &&                        (* the encoder model is json.Marshal *)
      match spec_of_doc image with Ok s' => spec_eqb s s' | _ => false end &&   (* the decoder model on the real image *)
      Nat.eqb k (known_class enc s) && spec_ranges s
  | CaseStr s valid escaped scanned k =>
      Bool.eqb (valid_utf8 s) valid &&                       (* the hypothesis of json_string_layer is utf8.ValidString *)
      String.eqb (spec_json_escape s) escaped &&             (* the escaping model is the library's writer: encoding/json, then escapeUnreadable *)
      opt_string_eqb (yaml_dq_scan escaped) scanned &&       (* the scanner model on the real literal is the real reader *)
      Nat.eqb k (str_class s)
  | CaseLit s file => has_infix (note_member s) file       (* the library's JSON writer is encoding/json with HTML escaping *)
  | CaseBig _ _ _ _ => true
  end.
Definition oracle09 (c : case09) : bool :=
  match c with
  | Case09 s _ _ back cache_same other _ =>
      match back with
      | Some s' => spec_eqb s s' && cache_same && match other with Some o => spec_eqb o s' | None => true end
      | None => false
      end
  | CaseStr s valid _ scanned _ =>                           (* the property speaks of valid UTF-8 strings *)
      negb valid || match scanned with Some x => String.eqb x s | None => false end
  | CaseLit _ _ => true
  | CaseBig _ _ _ same => same
  end.
Definition judge09 (cases : list case09) : list nat * list nat :=
  (bad_indices corr09 0 cases, bad_indices oracle09 0 cases).
