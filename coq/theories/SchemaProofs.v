(* SchemaProofs.v — the executable validator decides the declarative draft-07 semantics ([validate_iff_Valid], all
   schemas, all documents); the shipped schema lies in the modelled fragment; the entry points of package schema
   agree on documents with well-formed annotations; no-op and nil schemas. *)
From Coq Require Import String Ascii List Bool Arith ZArith QArith Lia.
From CDI Require Import Base Parser Annotations SpecModel Doc Schema.
From CDIGen Require Import SchemaGen.
Import ListNotations.
Close Scope Q_scope.
Open Scope string_scope.

(* ---------------- induction over schemas with the nested lists ---------------- *)
Section SchemaInd.
  Variable P : schema -> Prop.
  Hypothesis HU : forall kw, P (SUnsupported kw).
  Hypothesis HB : forall b, P (SBool b).
  Hypothesis HN : forall ty props req items pats addl mn mx,
      Forall (fun ks => P (snd ks)) props ->
      (forall si, items = Some si -> P si) ->
      Forall (fun ps => P (snd ps)) pats ->
      (forall sa, addl = Some sa -> P sa) ->
      P (SNode ty props req items pats addl mn mx).

  Fixpoint schema_ind' (s : schema) : P s :=
    match s with
    | SUnsupported kw => HU kw
    | SBool b => HB b
    | SNode ty props req items pats addl mn mx =>
        HN ty props req items pats addl mn mx
          ((fix go (l : list (string * schema)) : Forall (fun ks => P (snd ks)) l :=
              match l with
              | [] => Forall_nil _
              | (k, s') :: r => Forall_cons (k, s') (schema_ind' s') (go r)
              end) props)
          (match items as o return forall si, o = Some si -> P si with
           | Some s' => fun si E => match E in _ = o return match o with Some x => P x | None => True end with
                                    | eq_refl => schema_ind' s' end
           | None => fun si E => match E in _ = o return match o with Some x => P x | None => True end with
                                 | eq_refl => I end
           end)
          ((fix go (l : list (kpat * schema)) : Forall (fun ps => P (snd ps)) l :=
              match l with
              | [] => Forall_nil _
              | (p, s') :: r => Forall_cons (p, s') (schema_ind' s') (go r)
              end) pats)
          (match addl as o return forall sa, o = Some sa -> P sa with
           | Some s' => fun sa E => match E in _ = o return match o with Some x => P x | None => True end with
                                    | eq_refl => schema_ind' s' end
           | None => fun sa E => match E in _ = o return match o with Some x => P x | None => True end with
                                 | eq_refl => I end
           end)
    end.
End SchemaInd.

(* ---------------- the validator, unfolded once, with the nested loops as forallb ---------------- *)
Definition props_ok (fields : list (string * doc)) (props : list (string * schema)) : bool :=
  forallb (fun ks => forallb (fun kv => if String.eqb (fst kv) (fst ks) then validate (snd ks) (snd kv) else true) fields) props.
Definition pats_ok (fields : list (string * doc)) (pats : list (kpat * schema)) : bool :=
  forallb (fun ps => forallb (fun kv => if pat_matches (fst ps) (fst kv) then validate (snd ps) (snd kv) else true) fields) pats.
Definition addl_ok (fields : list (string * doc)) props pats (addl : option schema) : bool :=
  match addl with
  | Some sa => forallb (fun kv => if is_additional props pats (fst kv) then validate sa (snd kv) else true) fields
  | None => true
  end.
Definition items_ok (l : list doc) (items : option schema) : bool :=
  match items with Some si => forallb (validate si) l | None => true end.

Lemma validate_node ty props req items pats addl mn mx d :
  validate (SNode ty props req items pats addl mn mx) d =
  type_ok ty d && range_ok mn mx d &&
  match d with
  | DObj fields => forallb (fun r => mem_s r (keys fields)) req && props_ok fields props && pats_ok fields pats &&
                   addl_ok fields props pats addl
  | DArr l => items_ok l items
  | _ => true
  end.
Proof.
  destruct d; try reflexivity.
  cbn [validate]. unfold props_ok, pats_ok, addl_ok. f_equal. f_equal. f_equal.
  - f_equal. induction props as [|[k s'] r IH]; [reflexivity|]. cbn [forallb fst snd]. rewrite <- IH. reflexivity.
  - induction pats as [|[p s'] r IH]; [reflexivity|]. cbn [forallb fst snd]. rewrite <- IH. reflexivity.
Qed.

(* ---------------- clause by clause ---------------- *)
Lemma has_type_b_iff t d : has_type_b t d = true <-> has_type t d.
Proof.
  destruct t, d; cbn; split; intro H; try discriminate; try reflexivity; eauto;
    try (destruct H as [? H]; discriminate); try discriminate;
    try (destruct H as [[? H]|[? [? H]]]; discriminate).
Qed.

Lemma type_clause ty d :
  type_ok ty d = true <-> (forall ts, ty = Some ts -> exists t, In t ts /\ has_type t d).
Proof.
  destruct ty as [ts|]; cbn.
  - rewrite existsb_exists. split.
    + intros (t & Hin & Ht) ts' E. inversion E; subst. exists t. split; [exact Hin|apply has_type_b_iff; exact Ht].
    + intro H. destruct (H ts eq_refl) as (t & Hin & Ht). exists t. split; [exact Hin|apply has_type_b_iff; exact Ht].
  - split; [intros _ ts E; discriminate|reflexivity].
Qed.

Lemma range_clause mn mx d :
  range_ok mn mx d = true <->
  (forall q, num_value d q ->
     (forall a, mn = Some a -> (inject_Z a <= q)%Q) /\ (forall b, mx = Some b -> (q <= inject_Z b)%Q)).
Proof.
  unfold num_value. destruct d; cbn [range_ok];
    try (split; [intros _ q [(z' & E & _)|(n' & p' & E & _)]; discriminate | reflexivity]).
  - (* DInt *)
    rewrite andb_true_iff. split.
    + intros [Ha Hb] q [(z' & E & ->)|(n' & p' & E & _)]; [|discriminate]. inversion E; subst z'. split.
      * intros a ->. rewrite <- Zle_Qle. apply Z.leb_le. exact Ha.
      * intros b ->. rewrite <- Zle_Qle. apply Z.leb_le. exact Hb.
    + intro H. destruct (H (inject_Z z)) as [Ha Hb]; [left; eauto|]. split.
      * destruct mn as [a|]; [|reflexivity]. apply Z.leb_le. rewrite Zle_Qle. apply Ha. reflexivity.
      * destruct mx as [b|]; [|reflexivity]. apply Z.leb_le. rewrite Zle_Qle. apply Hb. reflexivity.
  - (* DFrac *)
    rewrite andb_true_iff. split.
    + intros [Ha Hb] q [(z' & E & _)|(n' & p' & E & ->)]; [discriminate|]. inversion E; subst n' p'. split.
      * intros a ->. unfold Qle, inject_Z. cbn [Qnum Qden]. rewrite Z.mul_1_r. apply Z.leb_le. exact Ha.
      * intros b ->. unfold Qle, inject_Z. cbn [Qnum Qden]. rewrite Z.mul_1_r. apply Z.leb_le. exact Hb.
    + intro H. destruct (H (Qmake num den)) as [Ha Hb]; [right; eauto|]. split.
      * destruct mn as [a|]; [|reflexivity]. apply Z.leb_le. specialize (Ha a eq_refl).
        unfold Qle, inject_Z in Ha. cbn [Qnum Qden] in Ha. rewrite Z.mul_1_r in Ha. exact Ha.
      * destruct mx as [b|]; [|reflexivity]. apply Z.leb_le. specialize (Hb b eq_refl).
        unfold Qle, inject_Z in Hb. cbn [Qnum Qden] in Hb. rewrite Z.mul_1_r in Hb. exact Hb.
Qed.

Lemma mem_keys_iff r (f : list (string * doc)) : mem_s r (keys f) = true <-> exists v, In (r, v) f.
Proof.
  unfold mem_s, keys. rewrite existsb_exists. split.
  - intros (x & Hin & E). apply String.eqb_eq in E. subst x. apply in_map_iff in Hin as ((k & v) & E & Hin).
    cbn in E. subst k. eauto.
  - intros (v & Hin). exists r. split; [|apply String.eqb_refl]. apply in_map_iff. exists (r, v). auto.
Qed.

Lemma required_clause req (f : list (string * doc)) :
  forallb (fun r => mem_s r (keys f)) req = true <-> (forall r, In r req -> exists v, In (r, v) f).
Proof.
  rewrite forallb_forall. split; intros H r Hin; [apply mem_keys_iff|apply mem_keys_iff]; auto.
Qed.

Lemma props_clause f props :
  Forall (fun ks => forall d, validate (snd ks) d = true <-> Valid (snd ks) d) props ->
  (props_ok f props = true <-> (forall k v s', In (k, v) f -> In (k, s') props -> Valid s' v)).
Proof.
  intro IH. rewrite Forall_forall in IH. unfold props_ok. rewrite forallb_forall. split.
  - intros H k v s' Hf Hp. specialize (H (k, s') Hp). rewrite forallb_forall in H. specialize (H (k, v) Hf).
    cbn [fst snd] in H. rewrite String.eqb_refl in H. apply (IH (k, s') Hp). exact H.
  - intros H [k s'] Hp. apply forallb_forall. intros [k' v] Hf. cbn [fst snd].
    destruct (String.eqb k' k) eqn:E; [|reflexivity]. apply String.eqb_eq in E. subst k'.
    apply (IH (k, s') Hp). apply (H k v s' Hf Hp).
Qed.

(* ---- the pattern fragment ---- *)
Lemma nchars_app a b : nchars (a ++ b) = nchars a + nchars b.
Proof. induction a as [|c r IH]; cbn; [reflexivity|]. rewrite IH. lia. Qed.

(* the first segment is a prefix *)
Lemma split_all_head sep r x xs :
  split_all sep r = x :: xs -> exists b', r = x ++ b' /\ contains sep x = false.
Proof.
  revert x xs. induction r as [|c r IH]; cbn; intros x xs S.
  - injection S as <- <-. exists "". auto.
  - destruct (Ascii.eqb c sep) eqn:E.
    + injection S as <- <-. exists (String c r). auto.
    + destruct (split_all sep r) as [|y ys] eqn:S'.
      * exfalso. exact (split_all_nonnil sep r S').
      * injection S as <- <-. destruct (IH y ys eq_refl) as (b' & Er & Hy). exists b'.
        split; [cbn; f_equal; exact Er|cbn; rewrite E, Hy; reflexivity].
Qed.

Lemma split_all_in_sub sep k seg :
  In seg (split_all sep k) -> exists a b, k = a ++ seg ++ b /\ contains sep seg = false.
Proof.
  revert seg. induction k as [|c r IH]; cbn; intros seg H.
  - destruct H as [<-|[]]. exists "", "". auto.
  - destruct (Ascii.eqb c sep) eqn:E.
    + destruct H as [<-|H].
      * exists "", (String c r). auto.
      * destruct (IH _ H) as (a & b & -> & Hc). exists (String c a), b. auto.
    + destruct (split_all sep r) as [|x xs] eqn:S.
      * exfalso. exact (split_all_nonnil sep r S).
      * destruct H as [<-|H].
        -- destruct (split_all_head sep r x xs S) as (b' & -> & Hx). exists "", b'. cbn. rewrite E, Hx. auto.
        -- destruct (IH seg (or_intror H)) as (a & b & -> & Hc). exists (String c a), b. auto.
Qed.

Lemma split_all_nosep_app sep m b :
  contains sep m = false ->
  split_all sep (m ++ b) = match split_all sep b with x :: r => (m ++ x) :: r | [] => [m] end.
Proof.
  induction m as [|c r IH]; cbn; intro H.
  - destruct (split_all sep b) eqn:S; [exfalso; exact (split_all_nonnil sep b S)|reflexivity].
  - apply orb_false_iff in H as [H1 H2]. rewrite H1, (IH H2).
    destruct (split_all sep b); reflexivity.
Qed.

Lemma split_all_sub_in sep a m b :
  contains sep m = false -> exists seg x y, In seg (split_all sep (a ++ m ++ b)) /\ seg = x ++ m ++ y.
Proof.
  intro Hm. induction a as [|c r IH]; cbn [append].
  - rewrite (split_all_nosep_app sep m b Hm). destruct (split_all sep b) as [|x xs].
    + exists m, "", "". split; [left; reflexivity|]. cbn. rewrite app_nil_r_s. reflexivity.
    + exists (m ++ x), "", x. split; [left; reflexivity|reflexivity].
  - destruct IH as (seg & x & y & Hin & ->). cbn [split_all]. destruct (Ascii.eqb c sep).
    + exists (x ++ m ++ y), x, y. split; [right; exact Hin|reflexivity].
    + destruct (split_all sep (r ++ m ++ b)) as [|z zs]; [destruct Hin|]. destruct Hin as [->|Hin].
      * exists (String c (x ++ m ++ y)), (String c x), y. split; [left; reflexivity|reflexivity].
      * exists (x ++ m ++ y), x, y. split; [right; exact Hin|reflexivity].
Qed.

Lemma pat_matches_iff p k : pat_matches p k = true <-> Matches p k.
Proof.
  destruct p as [n]. cbn [pat_matches Matches]. rewrite existsb_exists. split.
  - intros (seg & Hin & Hn). apply Nat.leb_le in Hn. destruct (split_all_in_sub _ _ _ Hin) as (a & b & -> & Hc).
    exists a, seg, b. auto.
  - intros (a & m & b & -> & Hc & Hn). destruct (split_all_sub_in LF a m b Hc) as (seg & x & y & Hin & ->).
    exists (x ++ m ++ y). split; [exact Hin|]. apply Nat.leb_le. rewrite !nchars_app. lia.
Qed.

Lemma pats_clause f pats :
  Forall (fun ps => forall d, validate (snd ps) d = true <-> Valid (snd ps) d) pats ->
  (pats_ok f pats = true <-> (forall k v p s', In (k, v) f -> In (p, s') pats -> Matches p k -> Valid s' v)).
Proof.
  intro IH. rewrite Forall_forall in IH. unfold pats_ok. rewrite forallb_forall. split.
  - intros H k v p s' Hf Hp Hm. specialize (H (p, s') Hp). rewrite forallb_forall in H. specialize (H (k, v) Hf).
    cbn [fst snd] in H. apply pat_matches_iff in Hm. rewrite Hm in H. apply (IH (p, s') Hp). exact H.
  - intros H [p s'] Hp. apply forallb_forall. intros [k v] Hf. cbn [fst snd].
    destruct (pat_matches p k) eqn:E; [|reflexivity]. apply (IH (p, s') Hp). apply (H k v p s' Hf Hp).
    apply pat_matches_iff. exact E.
Qed.

Lemma is_additional_iff (props : list (string * schema)) (pats : list (kpat * schema)) k :
  is_additional props pats k = true <->
  (forall s', ~ In (k, s') props) /\ (forall p s', In (p, s') pats -> ~ Matches p k).
Proof.
  unfold is_additional. rewrite andb_true_iff, !negb_true_iff. split.
  - intros [H1 H2]. split.
    + intros s' Hin. assert (E : mem_s k (map fst props) = true); [|congruence].
      unfold mem_s. apply existsb_exists. exists k. split; [|apply String.eqb_refl].
      apply in_map_iff. exists (k, s'). auto.
    + intros p s' Hin Hm. assert (E : existsb (fun p => pat_matches p k) (map fst pats) = true); [|congruence].
      apply existsb_exists. exists p. split; [|apply pat_matches_iff; exact Hm]. apply in_map_iff. exists (p, s'). auto.
  - intros [H1 H2]. split.
    + destruct (mem_s k (map fst props)) eqn:E; [|reflexivity]. exfalso. unfold mem_s in E.
      apply existsb_exists in E as (x & Hin & E). apply String.eqb_eq in E. subst x.
      apply in_map_iff in Hin as ((k' & s') & E & Hin). cbn in E. subst k'. exact (H1 s' Hin).
    + destruct (existsb (fun p => pat_matches p k) (map fst pats)) eqn:E; [|reflexivity]. exfalso.
      apply existsb_exists in E as (p & Hin & E). apply in_map_iff in Hin as ((p' & s') & E' & Hin). cbn in E'. subst p'.
      apply (H2 p s' Hin). apply pat_matches_iff. exact E.
Qed.

Lemma addl_clause f props pats addl :
  (forall sa, addl = Some sa -> forall d, validate sa d = true <-> Valid sa d) ->
  (addl_ok f props pats addl = true <->
   (forall k v sa, In (k, v) f -> addl = Some sa ->
      (forall s', ~ In (k, s') props) -> (forall p s', In (p, s') pats -> ~ Matches p k) -> Valid sa v)).
Proof.
  intro IH. destruct addl as [sa|]; cbn [addl_ok].
  - specialize (IH sa eq_refl). rewrite forallb_forall. split.
    + intros H k v sa' Hf E H1 H2. inversion E; subst sa'. specialize (H (k, v) Hf). cbn [fst snd] in H.
      assert (A : is_additional props pats k = true) by (apply is_additional_iff; auto). rewrite A in H. apply IH. exact H.
    + intros H [k v] Hf. cbn [fst snd]. destruct (is_additional props pats k) eqn:A; [|reflexivity].
      apply is_additional_iff in A as [H1 H2]. apply IH. exact (H k v sa Hf eq_refl H1 H2).
  - split; [intros _ k v sa _ E; discriminate|reflexivity].
Qed.

Lemma items_clause l items :
  (forall si, items = Some si -> forall d, validate si d = true <-> Valid si d) ->
  (items_ok l items = true <-> (forall si x, items = Some si -> In x l -> Valid si x)).
Proof.
  intro IH. destruct items as [si|]; cbn [items_ok].
  - specialize (IH si eq_refl). rewrite forallb_forall. split.
    + intros H si' x E Hin. inversion E; subst si'. apply IH. auto.
    + intros H x Hin. apply IH. exact (H si x eq_refl Hin).
  - split; [intros _ si x E; discriminate|reflexivity].
Qed.

(* ---------------- the main theorem ---------------- *)
Theorem validate_iff_Valid : forall s d, validate s d = true <-> Valid s d.
Proof.
  induction s as [kw|b|ty props req items pats addl mn mx IHp IHi IHq IHa] using schema_ind'; intro d.
  - cbn. split; [discriminate|inversion 1].
  - destruct b; cbn; split; intro H; try constructor; try discriminate. inversion H.
  - rewrite validate_node, !andb_true_iff. split.
    + intros [[Ht Hr] Hd]. constructor.
      * apply type_clause. exact Ht.
      * apply range_clause. exact Hr.
      * intros f r ->. rewrite !andb_true_iff in Hd. apply required_clause. tauto.
      * intros f k v s' ->. rewrite !andb_true_iff in Hd. apply (props_clause f props IHp). tauto.
      * intros f k v p s' ->. rewrite !andb_true_iff in Hd. apply (pats_clause f pats IHq). tauto.
      * intros f k v sa -> Hf E. rewrite !andb_true_iff in Hd.
        exact (proj1 (addl_clause f props pats addl IHa) (proj2 Hd) k v sa Hf E).
      * intros l si x -> E Hin. exact (proj1 (items_clause l items IHi) Hd si x E Hin).
    + intro V. inversion V as [|? ? ? ? ? ? ? ? ? Ht Hr Hreq Hp Hq Ha Hi]; subst.
      split; [split|].
      * apply type_clause. exact Ht.
      * apply range_clause. exact Hr.
      * destruct d; try reflexivity.
        -- apply (items_clause l items IHi). intros si x E Hin. exact (Hi l si x eq_refl E Hin).
        -- rewrite !andb_true_iff. repeat split.
           ++ apply required_clause. intros r Hin. exact (Hreq l r eq_refl Hin).
           ++ apply (props_clause l props IHp). intros k v s' Hf Hin. exact (Hp l k v s' eq_refl Hf Hin).
           ++ apply (pats_clause l pats IHq). intros k v p s' Hf Hin Hm. exact (Hq l k v p s' eq_refl Hf Hin Hm).
           ++ apply (addl_clause l props pats addl IHa). intros k v sa Hf E H1 H2. exact (Ha l k v sa eq_refl Hf E H1 H2).
Qed.

Corollary validate_false_iff s d : validate s d = false <-> ~ Valid s d.
Proof.
  rewrite <- validate_iff_Valid. destruct (validate s d); split; intro H.
  - discriminate.
  - exfalso. apply H. reflexivity.
  - discriminate.
  - reflexivity.
Qed.

(* ---------------- three-valued validation agrees with the validator inside the fragment ---------------- *)
Lemma and3_some a b : and3 (Some a) (Some b) = Some (a && b).
Proof. destruct a, b; reflexivity. Qed.

Lemma forall3_some {A} (f : A -> option bool) (g : A -> bool) l :
  (forall x, In x l -> f x = Some (g x)) -> forall3 f l = Some (forallb g l).
Proof.
  induction l as [|x r IH]; intro H; [reflexivity|]. cbn [forall3 forallb].
  rewrite (H x (or_introl eq_refl)), IH, and3_some; [reflexivity|]. intros y Hy. apply H. right. exact Hy.
Qed.

Lemma in_fragment_node ty props req items pats addl mn mx :
  in_fragment (SNode ty props req items pats addl mn mx) = true ->
  Forall (fun ks => in_fragment (snd ks) = true) props /\ (forall si, items = Some si -> in_fragment si = true) /\
  Forall (fun ps => in_fragment (snd ps) = true) pats /\ (forall sa, addl = Some sa -> in_fragment sa = true).
Proof.
  cbn [in_fragment]. rewrite !andb_true_iff. intros [[[Hp Hi] Hq] Ha]. repeat split.
  - clear - Hp. induction props as [|[k s'] r IH]; [constructor|]. apply andb_true_iff in Hp as [H1 H2]. constructor; [exact H1|exact (IH H2)].
  - intros si ->. exact Hi.
  - clear - Hq. induction pats as [|[p s'] r IH]; [constructor|]. apply andb_true_iff in Hq as [H1 H2]. constructor; [exact H1|exact (IH H2)].
  - intros sa ->. exact Ha.
Qed.

Theorem validate3_in_fragment : forall s d, in_fragment s = true -> validate3 s d = Some (validate s d).
Proof.
  induction s as [kw|b|ty props req items pats addl mn mx IHp IHi IHq IHa] using schema_ind'; intros d F.
  - discriminate.
  - reflexivity.
  - apply in_fragment_node in F as (Fp & Fi & Fq & Fa). rewrite validate_node.
    cbn [validate3]. destruct d; try (rewrite and3_some; reflexivity).
    + (* arrays *)
      destruct items as [si|]; [|rewrite and3_some; reflexivity]. cbn [items_ok].
      rewrite (forall3_some (validate3 si) (validate si)); [rewrite and3_some; reflexivity|].
      intros x _. apply (IHi si eq_refl). apply Fi. reflexivity.
    + (* objects *)
      assert (P : (fix vprops (ps : list (string * schema)) : option bool :=
                     match ps with
                     | [] => Some true
                     | (k', s') :: rest =>
                         and3 (forall3 (fun kv => if String.eqb (fst kv) k' then validate3 s' (snd kv) else Some true) l) (vprops rest)
                     end) props = Some (props_ok l props)).
      { clear - IHp Fp. induction props as [|[k s'] r IH]; [reflexivity|]. inversion IHp; subst. inversion Fp; subst.
        rewrite IH by assumption. cbn [props_ok forallb fst snd].
        rewrite (forall3_some _ (fun kv => if String.eqb (fst kv) k then validate s' (snd kv) else true)); [apply and3_some|].
        intros kv _. destruct (String.eqb (fst kv) k); [|reflexivity]. cbn [snd] in *. auto. }
      assert (Q : (fix vpats (ps : list (kpat * schema)) : option bool :=
                     match ps with
                     | [] => Some true
                     | (p, s') :: rest =>
                         and3 (forall3 (fun kv => if pat_matches p (fst kv) then validate3 s' (snd kv) else Some true) l) (vpats rest)
                     end) pats = Some (pats_ok l pats)).
      { clear - IHq Fq. induction pats as [|[p s'] r IH]; [reflexivity|]. inversion IHq; subst. inversion Fq; subst.
        rewrite IH by assumption. cbn [pats_ok forallb fst snd].
        rewrite (forall3_some _ (fun kv => if pat_matches p (fst kv) then validate s' (snd kv) else true)); [apply and3_some|].
        intros kv _. destruct (pat_matches p (fst kv)); [|reflexivity]. cbn [snd] in *. auto. }
      assert (A : match addl with
                  | Some sa => forall3 (fun kv => if is_additional props pats (fst kv) then validate3 sa (snd kv) else Some true) l
                  | None => Some true
                  end = Some (addl_ok l props pats addl)).
      { destruct addl as [sa|]; [|reflexivity]. cbn [addl_ok].
        apply forall3_some. intros kv _. destruct (is_additional props pats (fst kv)); [|reflexivity].
        apply (IHa sa eq_refl). apply Fa. reflexivity. }
      rewrite P, Q, A, !and3_some, !andb_assoc. reflexivity.
Qed.

(* ---------------- the shipped schema ---------------- *)
Lemma builtin_in_fragment : in_fragment builtin = true.
Proof. vm_compute. reflexivity. Qed.

(* the shipped schema only accepts objects *)
Lemma builtin_object_only d : validate builtin d = true -> exists f, d = DObj f.
Proof.
  unfold builtin. rewrite validate_node. destruct d; cbn [type_ok existsb has_type_b orb andb]; try discriminate. eauto.
Qed.

(* ---------------- entry points ---------------- *)
Lemma run_data_schema s d : contents_ok d = true -> top_decodable d = true -> run_data (CfgSchema s) d = validate s d.
Proof. intros C T. unfold run_data. rewrite C, T, andb_true_r. reflexivity. Qed.

(* for any compiled schema, on documents that ValidateData can decode (top-level object or null) *)
Theorem entry_points_agree_any s d :
  annotations_wf d -> top_decodable d = true ->
  Forall (fun ep => ep (CfgSchema s) d = validate s d) entry_points.
Proof.
  intros C T. unfold entry_points, v_type, v_reader, v_file_json, v_data_json, v_data_yaml, v_file_yaml, v_file_other_json.
  repeat constructor; try reflexivity; apply run_data_schema; assumption.
Qed.

(* for the builtin schema no condition on the top level is needed: it rejects everything but objects *)
Theorem entry_points_agree d :
  annotations_wf d -> Forall (fun ep => ep (CfgSchema builtin) d = validate builtin d) entry_points.
Proof.
  intro C. destruct (top_decodable d) eqn:T; [apply entry_points_agree_any; assumption|].
  assert (V : validate builtin d = false).
  { destruct (validate builtin d) eqn:V; [|reflexivity]. destruct (builtin_object_only d V) as (f & ->). discriminate. }
  unfold entry_points, v_type, v_reader, v_file_json, v_data_json, v_data_yaml, v_file_yaml, v_file_other_json.
  repeat constructor; try reflexivity; unfold run_data; rewrite T, V; reflexivity.
Qed.

(* the verdict of an entry point that takes both encodings does not depend on the encoding *)
Theorem encoding_invariant c d : v_data_json c d = v_data_yaml c d /\ v_file_other_json c d = v_file_yaml c d.
Proof. split; reflexivity. Qed.

(* ... which failed before fix 6c1c860 (shown for the schema that accepts everything, so that the witness does not depend
   on the shipped schema files) *)
Definition odd_annotations_doc : doc :=
  DObj [("cdiVersion", DStr "1.0.0"); ("kind", DStr "vendor.com/class"); ("annotations", DObj [("a b", DStr "v")]);
        ("devices", DArr [DObj [("name", DStr "d"); ("containerEdits", DObj [("env", DArr [DStr "A=b"])])]])].
Theorem encoding_invariant_pinned_refuted : exists c d, v_data_json_pinned c d <> v_data_yaml c d.
Proof. exists (CfgSchema (SBool true)), odd_annotations_doc. vm_compute. discriminate. Qed.

(* the no-op schema accepts whatever can be decoded, at every entry point *)
Theorem nop_accepts d : top_decodable d = true -> Forall (fun ep => ep CfgNop d = true) entry_points.
Proof.
  intro T. unfold entry_points, v_type, v_reader, v_file_json, v_data_json, v_data_yaml, v_file_yaml, v_file_other_json.
  repeat constructor; unfold run_data; rewrite ?T; reflexivity.
Qed.
Theorem nop_funnel_accepts d : v_type CfgNop d = true /\ v_reader CfgNop d = true /\ v_file_json CfgNop d = true.
Proof. repeat split. Qed.
(* before fix 748fe15 the no-op schema still ran the annotation content check in ValidateData / ValidateFile(x.yaml):
   "the none schema never rejects a parseable document" was false of that code *)
Theorem nop_accepts_pinned_refuted : exists d, top_decodable d = true /\ run_data_pinned_nop CfgNop d = false.
Proof. exists odd_annotations_doc. vm_compute. split; reflexivity. Qed.

(* a nil schema accepts whatever can be decoded *)
Theorem nil_accepts d : top_decodable d = true -> Forall (fun ep => ep CfgNil d = true) entry_points.
Proof.
  intro T. unfold entry_points, v_type, v_reader, v_file_json, v_data_json, v_data_yaml, v_file_yaml, v_file_other_json.
  repeat constructor; unfold run_data; rewrite ?T; reflexivity.
Qed.

(* hypotheses are satisfiable, the verdicts are not constant.  The examples use a schema written here (not the shipped
   one, so that they say nothing a maintainer of the schema files could invalidate): a DeviceNode-like object. *)
Definition good_doc : doc :=
  DObj [("cdiVersion", DStr "1.0.0"); ("kind", DStr "vendor.com/class"); ("annotations", DObj [("a.b/c", DStr "v")]);
        ("devices", DArr [DObj [("name", DStr "d");
                                 ("containerEdits", DObj [("deviceNodes", DArr [DObj [("path", DStr "/dev/x"); ("major", DInt 9223372036854775807)]])])]])].
Example good_doc_wf : annotations_wf good_doc /\ top_decodable good_doc = true.
Proof. split; vm_compute; reflexivity. Qed.

Definition example_schema : schema :=
  SNode (Some [TObject])
    [("path", SNode (Some [TString]) [] [] None [] None None None);
     ("uid", SNode (Some [TInteger]) [] [] None [] None (Some 0%Z) (Some 4294967295%Z));
     ("ratio", SNode (Some [TNumber]) [] [] None [] None (Some 0%Z) (Some 1%Z));
     ("opts", SNode (Some [TArray]) [] [] (Some (SNode (Some [TString; TNull]) [] [] None [] None None None)) [] None None None)]
    ["path"] None [(PMin 2, SNode (Some [TString; TInteger; TNumber; TArray]) [] [] None [] None None None)] (Some (SBool false)) None None.
Example example_verdicts :
  validate example_schema (DObj [("path", DStr "/dev/x"); ("uid", DInt 4294967295); ("ratio", DFrac 1 2); ("opts", DArr [DStr "ro"; DNull])]) = true /\
  validate example_schema (DObj [("uid", DInt 1)]) = false /\                                   (* required *)
  validate example_schema (DObj [("path", DInt 1)]) = false /\                                  (* type *)
  validate example_schema (DObj [("path", DStr "p"); ("uid", DInt 4294967296)]) = false /\      (* maximum *)
  validate example_schema (DObj [("path", DStr "p"); ("uid", DFrac 3 2)]) = false /\            (* integer by value *)
  validate example_schema (DObj [("path", DStr "p"); ("ratio", DFrac 3 2)]) = false /\          (* maximum on a fraction *)
  validate example_schema (DObj [("path", DStr "p"); ("opts", DArr [DInt 1])]) = false /\       (* items *)
  validate example_schema (DObj [("path", DStr "p"); ("xy", DBool true)]) = false /\            (* patternProperties *)
  validate example_schema (DObj [("path", DStr "p"); ("x", DStr "s")]) = false /\               (* additionalProperties *)
  validate example_schema (DArr []) = false.
Proof. vm_compute. repeat split. Qed.
