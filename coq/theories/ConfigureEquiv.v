(* ConfigureEquiv.v — after any history, a (re)configured cache behaves like one created with the options that took
   effect so far (C20: configure_equiv_new, default_cache_same). *)
From Coq Require Import String Ascii List Bool Arith Lia.
From CDI Require Import Base Paths Configure ConfigureProofs ConfigureRes ConfigureSim.
Import ListNotations.
Open Scope string_scope.

Definition is_some {A} (o : option A) : bool := match o with Some _ => true | None => false end.

(* the configuration in force: of the cache if there is one, else what a cache created now without options would get *)
Definition cur_cfg (w : world) : list string * bool :=
  match cache w with Some c => (dirs c, auto c) | None => (map clean (defdirs w), true) end.

Lemma configure_cur_cfg w c os :
  res_pre w (watcher c) ->
  cur_cfg (configure w c os) = fold_left apply_cfg os (dirs c, auto c) /\
  defdirs (configure w c os) = defdirs w /\ is_some (cache (configure w c os)) = true.
Proof.
  intros P. destruct (configure_spec w c os P) as (D & _ & _ & c' & C & Di & A & _).
  unfold cur_cfg. rewrite C, Di, A, <- surjective_pairing. auto.
Qed.

Lemma set_cache_cur_cfg w c c' :
  cache w = Some c -> dirs c' = dirs c -> auto c' = auto c -> cur_cfg (set_cache w c') = cur_cfg w.
Proof. intros C D A. unfold cur_cfg. cbn [set_cache cache]. rewrite C, D, A. reflexivity. Qed.

Lemma step_cfg w o :
  Inv w ->
  defdirs (fst (step w o)) = defdirs w /\
  cur_cfg (fst (step w o)) = fold_left apply_cfg (applied (is_some (cache w)) [o]) (cur_cfg w) /\
  forall r, applied (is_some (cache w)) (o :: r) =
            (applied (is_some (cache w)) [o] ++ applied (is_some (cache (fst (step w o)))) r)%list.
Proof.
  intros I. destruct o; cbn [step fst applied].
  - (* New *)
    destruct (cache w) as [c|] eqn:C; cbn [is_some].
    + rewrite C. cbn. auto.
    + destruct (configure_cur_cfg w (blank w) os (inv_blank w I C)) as (E & D & S).
      unfold new_cache. rewrite E, D, S, app_nil_r. unfold cur_cfg. rewrite C. cbn. auto.
  - (* Configure *)
    destruct (cache w) as [c|] eqn:C; cbn [is_some].
    + destruct os as [|o os].
      * rewrite C. cbn. auto.
      * destruct (configure_cur_cfg w c (o :: os) (inv_some w c I C)) as (E & D & S).
        rewrite E, D, S, app_nil_r. unfold cur_cfg. rewrite C. auto.
    + rewrite C. cbn. auto.
  - (* SetFdShortage *)
    unfold cur_cfg. cbn. auto.
  - (* FsOp *)
    destruct (cache w) as [c|] eqn:C.
    + assert (G : forall w' : world, defdirs w' = defdirs w -> cache w' = Some c ->
                 defdirs w' = defdirs w /\ cur_cfg w' = cur_cfg w /\
                 forall r, applied (is_some (Some c)) r = ([] ++ applied (is_some (cache w')) r)%list).
      { intros w' D' C'. unfold cur_cfg. rewrite C, C'. auto. }
      destruct (fires (fs w) f) as [[d self]|]; [|apply G; reflexivity].
      destruct (live w c && is_tracked c d); [|apply G; reflexivity].
      set (w' := mkW (defdirs w) (fs_apply (fs w) f) (fd_ok w) (next w) (open w) (gors w) (Some c)).
      destruct (deliver_keeps w' c d self) as (K1 & K2 & _).
      unfold cur_cfg. cbn [set_cache cache defdirs is_some]. rewrite C, K1, K2. auto.
    + unfold cur_cfg. cbn. rewrite C. auto.
  - (* Query *)
    destruct (cache w) as [c|] eqn:C; cbn [fst].
    + destruct (rir_keeps w c false) as (K1 & K2 & _).
      rewrite (set_cache_cur_cfg w c _ C K1 K2). cbn. auto.
    + rewrite C. cbn. auto.
  - (* Refresh *)
    destruct (cache w) as [c|] eqn:C.
    + destruct (rir_keeps w c (negb (auto c))) as (K1 & K2 & _).
      rewrite (set_cache_cur_cfg w c _ C K1 K2). cbn. auto.
    + rewrite C. cbn. auto.
  - (* DefaultConfigure *)
    destruct (cache w) as [c|] eqn:C; cbn [is_some].
    + destruct os as [|o os].
      * rewrite C. cbn. auto.
      * destruct (configure_cur_cfg w c (o :: os) (inv_some w c I C)) as (E & D & S).
        rewrite E, D, S, app_nil_r. unfold cur_cfg. rewrite C. auto.
    + destruct (configure_cur_cfg w (blank w) os (inv_blank w I C)) as (E & D & S).
      unfold new_cache. rewrite E, D, S, app_nil_r. unfold cur_cfg. rewrite C. cbn. auto.
  - (* DefaultGet *)
    destruct (cache w) as [c|] eqn:C; cbn [is_some].
    + rewrite C. cbn. auto.
    + destruct (configure_cur_cfg w (blank w) [] (inv_blank w I C)) as (E & D & S).
      unfold new_cache. rewrite E, D, S. unfold cur_cfg. rewrite C. cbn. auto.
Qed.

Lemma run_cfg ops : forall w, Inv w ->
  defdirs (run w ops) = defdirs w /\
  cur_cfg (run w ops) = fold_left apply_cfg (applied (is_some (cache w)) ops) (cur_cfg w).
Proof.
  induction ops as [|o r IH]; intros w I; [cbn; auto|].
  destruct (step_cfg w o I) as (D & E & A). destruct (IH _ (step_inv w o I)) as (D' & E').
  cbn [run fold_left]. unfold run in D', E'. rewrite D', E', D, E, (A r), fold_left_app. auto.
Qed.

(* ---------- observations of similar worlds coincide ---------- *)
Lemma observe_wsim w1 w2 : wsim w1 w2 -> observe w1 = observe w2.
Proof.
  intros S. unfold observe, settled_answer.
  destruct (step_wsim w1 w2 Refresh S) as (S1 & _). destruct (step_wsim _ _ Query S1) as (_ & E). rewrite E.
  destruct S as (_ & _ & _ & _ & _ & C).
  destruct (cache w1) as [c1|], (cache w2) as [c2|]; try contradiction; [|reflexivity].
  destruct C as (D & A & _ & _ & T). unfold tracked_keys. rewrite D, <- A.
  destruct (auto c1); [destruct (T eq_refl) as (-> & _)|]; reflexivity.
Qed.

(* ---------- reconfiguring equals creating ---------- *)
Definition reconf (o : op) (os : list copt) : Prop := o = Configure os \/ o = DefaultConfigure os.

Lemma fresh_wsim w c o os opts :
  Inv w -> cache w = Some c -> reconf o os -> os <> [] ->
  fold_left apply_cfg opts (map clean (defdirs w), true) = (dirs c, auto c) ->
  wsim (fst (step w o)) (fresh w (opts ++ os)).
Proof.
  intros I C R N E.
  assert (S : fst (step w o) = configure w c os).
  { destruct R as [-> | ->]; cbn [step fst]; rewrite C; destruct os; congruence. }
  rewrite S. unfold fresh, new_cache. apply configure_wsim; auto.
  - eapply inv_some; eauto.
  - cbn. auto.
  - unfold blank. cfields. rewrite fold_left_app, E. reflexivity.
Qed.

Theorem configure_equiv_new defs fs0 pre o os tail :
  let w := run (world0 defs fs0) pre in
  cache w <> None -> reconf o os -> os <> [] ->
  let w1 := fst (step w o) in
  let w2 := fresh w (applied false pre ++ os) in
  run_outs w1 tail = run_outs w2 tail /\ observe (run w1 tail) = observe (run w2 tail) /\ wsim (run w1 tail) (run w2 tail).
Proof.
  intros w C R N w1 w2.
  assert (I : Inv w) by apply run_inv, inv_world0.
  destruct (cache w) as [c|] eqn:Cw; [clear C|congruence].
  destruct (run_cfg pre (world0 defs fs0) (inv_world0 defs fs0)) as (D & E). fold w in D, E.
  assert (S : wsim w1 w2).
  { eapply fresh_wsim; eauto. rewrite D. unfold cur_cfg in E. rewrite Cw in E. cbn in E. symmetry. exact E. }
  destruct (run_wsim tail _ _ S) as (O & S'). auto using observe_wsim.
Qed.

(* the same at creation time: a cache created in the middle of a process' life (directories already changed, descriptors
   short or not, explicit or default) is the cache a fresh process would create with the same options *)
Definition creates (o : op) (os : list copt) : Prop :=
  o = New os \/ o = DefaultConfigure os \/ (o = DefaultGet /\ os = []).

Theorem create_equiv_new defs fs0 pre o os tail :
  let w := run (world0 defs fs0) pre in
  cache w = None -> creates o os ->
  let w1 := fst (step w o) in
  let w2 := fresh w os in
  run_outs w1 tail = run_outs w2 tail /\ observe (run w1 tail) = observe (run w2 tail) /\ wsim (run w1 tail) (run w2 tail).
Proof.
  intros w C O w1 w2.
  assert (I : Inv w) by apply run_inv, inv_world0.
  assert (S1 : w1 = new_cache w os).
  { subst w1. destruct O as [-> | [-> | [-> ->]]]; cbn [step fst]; rewrite C; reflexivity. }
  assert (S : wsim w1 w2).
  { rewrite S1. unfold w2, fresh, new_cache. apply configure_wsim; auto.
    - apply inv_blank; auto.
    - cbn. auto. }
  destruct (run_wsim tail _ _ S) as (E & S'). auto using observe_wsim.
Qed.
