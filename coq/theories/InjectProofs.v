(* InjectProofs.v — InjectDevices on a refreshed cache refines the declarative inject_spec: for every scanned file list in
   ascending priority order with unique device names per file, every host oracle, every OCI spec (or nil) and EVERY
   request list (resolvable, unknown, malformed, repeated names alike). *)
From Coq Require Import String Ascii List Bool Arith ZArith Lia.
From CDI Require Import Base SpecModel Parser Paths Oci Apply Cache CacheProofs InjectSpec.
Import ListNotations.
Open Scope string_scope.

Lemma same_file_iff a b : same_file a b = true <-> lf_prio a = lf_prio b /\ lf_path a = lf_path b.
Proof.
  unfold same_file. rewrite andb_true_iff, Nat.eqb_eq, String.eqb_eq. tauto.
Qed.
Lemma same_file_sym a b : same_file a b = same_file b a.
Proof. unfold same_file. rewrite Nat.eqb_sym, String.eqb_sym. reflexivity. Qed.
Lemma same_file_trans_l f g h : same_file f g = true -> same_file g h = same_file f h.
Proof.
  intro H. apply same_file_iff in H as [H1 H2]. unfold same_file. rewrite H1, H2. reflexivity.
Qed.

Lemma fold_append_app l1 l2 e :
  fold_left append_edits (l1 ++ l2) e = fold_left append_edits l2 (fold_left append_edits l1 e).
Proof. apply fold_left_app. Qed.

Section Walk.
  Variable c : cache.
  Variable fl : list lfile.
  Hypothesis Hres : forall n, get_device c n = resolve_spec fl n.

  Lemma walk_spec names : forall before unres seen acc,
    (forall g, existsb (same_file g) seen = existsb (resolves_to fl g) before) ->
    exists seen',
      fold_left (inj_step c) names (unres, seen, acc) =
      ((unres ++ filter (unresolvable fl) names)%list, seen', fold_left append_edits (contributions fl before names) acc).
  Proof.
    induction names as [|n r IH]; intros before unres seen acc Hs; cbn [fold_left filter contributions].
    - exists seen. rewrite app_nil_r. reflexivity.
    - unfold inj_step at 2. rewrite Hres. unfold unresolvable at 1.
      destruct (resolve_spec fl n) as [cd|] eqn:R.
      + (* resolvable *)
        rewrite (Hs (cd_file cd)).
        assert (Hs' : forall seen1,
                  (forall g, existsb (same_file g) seen1 = existsb (same_file g) seen || same_file (cd_file cd) g) ->
                  forall g, existsb (same_file g) seen1 = existsb (resolves_to fl g) (before ++ [n])).
        { intros seen1 H1 g. rewrite H1, existsb_app. cbn [existsb]. rewrite orb_false_r, Hs.
          change (resolves_to fl g n) with (match resolve_spec fl n with Some cd0 => same_file (cd_file cd0) g | None => false end).
          rewrite R. reflexivity. }
        destruct (existsb (resolves_to fl (cd_file cd)) before) eqn:Eb.
        * destruct (IH (before ++ [n])%list unres seen (append_edits acc (d_edits (cd_dev cd)))) as [s' Hw].
          { apply Hs'. intro g. destruct (same_file (cd_file cd) g) eqn:Eg; [|rewrite orb_false_r; reflexivity].
            rewrite orb_true_r. rewrite Hs. rewrite <- Hs in Eb.
            (* the file of cd is among seen, and g is the same file *)
            clear - Eb Eg Hs. rewrite <- Hs.
            apply existsb_exists in Eb as [x [Hx Ex]]. apply existsb_exists. exists x. split; [exact Hx|].
            rewrite (same_file_trans_l _ _ _ Eg). exact Ex. }
          exists s'. rewrite Hw. cbn [app fold_left]. reflexivity.
        * destruct (IH (before ++ [n])%list unres (cd_file cd :: seen)
                      (append_edits (append_edits acc (s_edits (lf_spec (cd_file cd)))) (d_edits (cd_dev cd)))) as [s' Hw].
          { apply Hs'. intro g. cbn [existsb]. rewrite (same_file_sym g). apply orb_comm. }
          exists s'. rewrite Hw. cbn [app fold_left]. reflexivity.
      + (* unresolvable *)
        destruct (IH (before ++ [n])%list (unres ++ [n])%list seen acc) as [s' Hw].
        { intro g. rewrite existsb_app. cbn [existsb].
          change (resolves_to fl g n) with (match resolve_spec fl n with Some cd0 => same_file (cd_file cd0) g | None => false end).
          rewrite R. rewrite !orb_false_r. apply Hs. }
        exists s'. rewrite Hw. rewrite <- app_assoc. reflexivity.
  Qed.

  Theorem inject_eq_spec host o names : inject host c o names = inject_spec host fl o names.
  Proof.
    unfold inject, inject_spec. destruct o as [o0|]; [|reflexivity].
    unfold inj_walk. destruct (walk_spec names [] [] [] empty_edits) as [s' Hw]; [reflexivity|].
    rewrite Hw. cbn [app]. unfold combined.
    destruct (filter (unresolvable fl) names); reflexivity.
  Qed.
End Walk.

(* C02 + C04 (+ C14: the result is a function of the current host oracle, the cache content, the OCI spec and the request
   only, and the cache is not an output) *)
Theorem inject_refines_spec host files o names :
  sorted (loaded files) -> unique_names files ->
  inject host (refresh_files files) o names = inject_spec host (loaded files) o names.
Proof.
  intros S U. apply inject_eq_spec. intro n. apply refresh_resolves; assumption.
Qed.
Theorem inject_refines_spec_fs host fs o names :
  unique_names (scan fs) -> inject host (refresh fs) o names = inject_spec host (loaded (scan fs)) o names.
Proof. intro U. apply inject_refines_spec; [apply scan_sorted|exact U]. Qed.

(* C04, spelled out *)
Theorem inject_unresolved host fl o names :
  (exists n, In n names /\ resolve_spec fl n = None) ->
  inject_spec host fl (Some o) names = (filter (unresolvable fl) names, 1, Some o).
Proof.
  intros [n [Hin Hn]]. unfold inject_spec.
  destruct (filter (unresolvable fl) names) as [|x r] eqn:F; [|reflexivity].
  assert (X : In n (filter (unresolvable fl) names)) by (apply filter_In; split; [exact Hin|unfold unresolvable; rewrite Hn; reflexivity]).
  rewrite F in X. destruct X.
Qed.
Theorem inject_nil host fl names : inject_spec host fl None names = (names, 1, None).
Proof. reflexivity. Qed.

(* C02, spelled out: all names resolvable -> exactly one application of the combined edits *)
Theorem inject_all_resolvable host fl o names :
  (forall n, In n names -> resolve_spec fl n <> None) ->
  inject_spec host fl (Some o) names = ([], snd (apply host (combined fl names) o), Some (fst (apply host (combined fl names) o))).
Proof.
  intro H. unfold inject_spec.
  replace (filter (unresolvable fl) names) with (@nil string).
  - destruct (apply host (combined fl names) o); reflexivity.
  - symmetry. induction names as [|n r IH]; cbn [filter]; [reflexivity|].
    unfold unresolvable at 1. destruct (resolve_spec fl n) eqn:R; [|exfalso; apply (H n); [left; reflexivity|exact R]].
    apply IH. intros m Hm. apply H. right. exact Hm.
Qed.

(* provenance: every contribution is the spec-level edit list of a file some requested name resolves to, or the edit
   list of the definition a requested name resolves to; nothing of unrequested devices, shadowed or uninvolved files *)
Theorem contributions_provenance fl names : forall before e,
  In e (contributions fl before names) ->
  exists n cd, In n names /\ resolve_spec fl n = Some cd /\ (e = s_edits (lf_spec (cd_file cd)) \/ e = d_edits (cd_dev cd)).
Proof.
  induction names as [|n r IH]; intros before e H; cbn [contributions] in H; [destruct H|].
  destruct (resolve_spec fl n) as [cd|] eqn:R.
  - apply in_app_or in H as [H|H].
    + destruct (existsb (resolves_to fl (cd_file cd)) before); [destruct H|].
      destruct H as [<-|[]]. exists n, cd. split; [left; reflexivity|]. split; [exact R|left; reflexivity].
    + cbn [app] in H. destruct H as [<-|H].
      * exists n, cd. split; [left; reflexivity|]. split; [exact R|right; reflexivity].
      * destruct (IH _ _ H) as [m [cd' [Hm [Rm He]]]]. exists m, cd'. split; [right; exact Hm|]. split; assumption.
  - destruct (IH _ _ H) as [m [cd' [Hm [Rm He]]]]. exists m, cd'. split; [right; exact Hm|]. split; assumption.
Qed.

(* the spec-level edits of a file are contributed at most once: for a request of distinct resolvable names the
   number of contributions is (number of names) + (number of distinct files they resolve to) *)
Fixpoint distinct_files (fl : list lfile) (before names : list string) : nat :=
  match names with
  | [] => 0
  | n :: r => match resolve_spec fl n with
              | None => distinct_files fl (before ++ [n]) r
              | Some cd => (if existsb (resolves_to fl (cd_file cd)) before then 0 else 1) + distinct_files fl (before ++ [n]) r
              end
  end.
Theorem contributions_count fl names : forall before,
  length (contributions fl before names) =
  length (filter (fun n => negb (unresolvable fl n)) names) + distinct_files fl before names.
Proof.
  induction names as [|n r IH]; intro bef; cbn [contributions filter distinct_files length]; [reflexivity|].
  unfold unresolvable at 1. destruct (resolve_spec fl n) as [cd|]; cbn [negb].
  - rewrite app_length. cbn [app length]. rewrite IH.
    destruct (existsb (resolves_to fl (cd_file cd)) bef); cbn [length]; lia.
  - apply IH.
Qed.
