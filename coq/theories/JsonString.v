(* JsonString.v — C09, the JSON side of the text layer at the level of one string: what encoding/json writes between the
   quotes of a string literal (json_escape) and what the yaml.v2-derived scanner behind sigs.k8s.io/yaml — the reader of EVERY
   Spec file, .json included — returns for the bytes between the quotes of a double-quoted flow scalar (yaml_dq_scan).
   Byte strings are Coq strings; code points are N.  No proofs here (JsonStringProofs.v).

   Sources mirrored (go1.23 / sigs.k8s.io/yaml v1.4.0):
     encoding/json/encode.go   appendString (escapeHTML = true, the json.Marshal default), tables.go htmlSafeSet
     goyaml.v2/readerc.go      yaml_parser_update_buffer: UTF-8 decoding, the allowed-character check, re-encoding
     goyaml.v2/scannerc.go     yaml_parser_scan_flow_scalar (single = false), skip / skip_line / read / read_line
     goyaml.v2/yamlprivateh.go is_blank, is_break, is_blankz, is_hex, as_hex *)
From Coq Require Import String Ascii List Bool NArith.
Import ListNotations.
Open Scope string_scope.
Open Scope N_scope.

Definition b (c : ascii) : N := N_of_ascii c.
Definition ch (n : N) : ascii := ascii_of_N n.

(* ------------------------------------------------------------------------------------------------------------------ *)
(* UTF-8.  One decoding step as RFC 3629 prescribes it — the set accepted by Go's utf8.DecodeRuneInString (shortest form, no
   surrogates, at most U+10FFFF) and by the YAML reader (width by the leading octet's mask, trailing octets & 0xC0 = 0x80,
   "invalid length of a UTF-8 sequence", "invalid Unicode character"): the code point, the bytes consumed, the rest. *)
Definition cont (c : ascii) : bool := (128 <=? b c) && (b c <=? 191).
Definition scalar (v : N) : bool := ((v <? 55296) || (57343 <? v)) && (v <=? 1114111).

Definition utf8_next (s : string) : option (N * string * string) :=
  match s with
  | EmptyString => None
  | String c1 r1 =>
      let o := b c1 in
      if o <? 128 then Some (o, String c1 "", r1)                        (* octet & 0x80 = 0x00 *)
      else if o <? 192 then None                                          (* a trailing octet in leading position *)
      else if o <? 224 then                                               (* octet & 0xE0 = 0xC0 *)
        match r1 with
        | String c2 r2 =>
            let v := (o - 192) * 64 + (b c2 - 128) in
            if cont c2 && (128 <=? v) then Some (v, String c1 (String c2 ""), r2) else None
        | _ => None
        end
      else if o <? 240 then                                               (* octet & 0xF0 = 0xE0 *)
        match r1 with
        | String c2 (String c3 r3) =>
            let v := (o - 224) * 4096 + (b c2 - 128) * 64 + (b c3 - 128) in
            if cont c2 && cont c3 && (2048 <=? v) && scalar v then Some (v, String c1 (String c2 (String c3 "")), r3) else None
        | _ => None
        end
      else if o <? 248 then                                               (* octet & 0xF8 = 0xF0 *)
        match r1 with
        | String c2 (String c3 (String c4 r4)) =>
            let v := (o - 240) * 262144 + (b c2 - 128) * 4096 + (b c3 - 128) * 64 + (b c4 - 128) in
            if cont c2 && cont c3 && cont c4 && (65536 <=? v) && scalar v
            then Some (v, String c1 (String c2 (String c3 (String c4 ""))), r4) else None
        | _ => None
        end
      else None
  end.

(* a Go string as `for range` / utf8.DecodeRuneInString walks it: runes with their source bytes; an invalid byte is consumed alone *)
Inductive chunk := Rune (v : N) (raw : string) | Bad (c : ascii).
Fixpoint go_runes_fuel (n : nat) (s : string) : list chunk :=
  match n with
  | O => []
  | S n' =>
      match s with
      | EmptyString => []
      | String c r =>
          match utf8_next s with
          | Some (v, raw, rest) => Rune v raw :: go_runes_fuel n' rest
          | None => Bad c :: go_runes_fuel n' r
          end
      end
  end.
Definition go_runes (s : string) : list chunk := go_runes_fuel (String.length s) s.

Definition is_rune (k : chunk) : bool := match k with Rune _ _ => true | Bad _ => false end.
Definition valid_utf8 (s : string) : bool := forallb is_rune (go_runes s).       (* utf8.ValidString *)

(* the encoder both the YAML reader (into its working buffer) and the scanner (for escape codes) use *)
Definition utf8_enc (v : N) : string :=
  if v <=? 127 then String (ch v) ""
  else if v <=? 2047 then String (ch (192 + v / 64)) (String (ch (128 + v mod 64)) "")
  else if v <=? 65535 then String (ch (224 + v / 4096)) (String (ch (128 + (v / 64) mod 64)) (String (ch (128 + v mod 64)) ""))
  else String (ch (240 + v / 262144)) (String (ch (128 + (v / 4096) mod 64)) (String (ch (128 + (v / 64) mod 64)) (String (ch (128 + v mod 64)) ""))).
Fixpoint utf8_encs (l : list N) : string := match l with [] => "" | v :: r => utf8_enc v ++ utf8_encs r end.

(* ------------------------------------------------------------------------------------------------------------------ *)
(* encoding/json appendString, escapeHTML = true *)
Definition hexd (n : N) : ascii := if n <? 10 then ch (48 + n) else ch (87 + n).      (* "0123456789abcdef"[n] *)
Definition esc_rune (v : N) (raw : string) : string :=
  if v <? 128 then
    if v =? 34 then "\"""                                                  (* backslash, quote *)
    else if v =? 92 then "\\"
    else if v =? 8 then "\b" else if v =? 12 then "\f" else if v =? 10 then "\n" else if v =? 13 then "\r" else if v =? 9 then "\t"
    else if (v <? 32) || (v =? 60) || (v =? 62) || (v =? 38)               (* other controls, and < > & *)
    then "\u00" ++ String (hexd (v / 16)) (String (hexd (v mod 16)) "")
    else raw                                                               (* htmlSafeSet: 0x20..0x7F otherwise, DEL included *)
  else if (v =? 8232) || (v =? 8233) then "\u202" ++ String (hexd (v mod 16)) ""
  else raw.
Definition esc_chunk (k : chunk) : string := match k with Rune v raw => esc_rune v raw | Bad _ => "\ufffd" end.
Fixpoint concat_s (l : list string) : string := match l with [] => "" | x :: r => x ++ concat_s r end.
Definition json_escape (s : string) : string := concat_s (map esc_chunk (go_runes s)).

(* ------------------------------------------------------------------------------------------------------------------ *)
(* the YAML reader: every character of the input is decoded and must lie in the allowed set
   #x9 | #xA | #xD | [#x20-#x7E] | #x85 | [#xA0-#xD7FF] | [#xE000-#xFFFD] | [#x10000-#x10FFFF]
   ("control characters are not allowed" otherwise — the whole document is then unreadable) *)
Definition yaml_printable (v : N) : bool :=
  (v =? 9) || (v =? 10) || (v =? 13) || ((32 <=? v) && (v <=? 126)) || (v =? 133) ||
  ((160 <=? v) && (v <=? 55295)) || ((57344 <=? v) && (v <=? 65533)) || ((65536 <=? v) && (v <=? 1114111)).
Fixpoint reader_chunks (l : list chunk) : option (list N) :=
  match l with
  | [] => Some []
  | Rune v _ :: r => if yaml_printable v then option_map (cons v) (reader_chunks r) else None
  | Bad _ :: _ => None
  end.
Definition yaml_reader (t : string) : option (list N) := reader_chunks (go_runes t).

(* ------------------------------------------------------------------------------------------------------------------ *)
(* yaml_parser_scan_flow_scalar, single = false, on the characters after the opening quote.  The end of the list is the closing
   quote.  State between characters: NB — inside the run of non-blank characters (column > 0); BL — inside a run of blanks and
   line breaks: col0 (the last character consumed was a line break: mark.column = 0), leading_blanks, whitespaces,
   leading_break, trailing_breaks.  (The three buffers are empty at the top of every iteration of the scanner's outer loop, so
   they live in BL only.)  The output is built front to back instead of appended to an accumulator. *)
Inductive sstate := NB | BL (col0 lbl : bool) (ws lb tb : string).

Definition is_blank (v : N) : bool := (v =? 32) || (v =? 9).
Definition is_break (v : N) : bool := (v =? 13) || (v =? 10) || (v =? 133) || (v =? 8232) || (v =? 8233).
Definition is_blankz (v : N) : bool := is_blank v || is_break v || (v =? 0).

(* a blank: kept in whitespaces unless a line break was already seen *)
Definition add_blank (st : sstate) (v : N) : sstate :=
  match st with
  | NB => BL false false (utf8_enc v) "" ""
  | BL _ lbl ws lb tb => if lbl then BL false lbl ws lb tb else BL false false (ws ++ utf8_enc v) lb tb
  end.
(* a line break, x = what read_line copies: the first one empties whitespaces and becomes leading_break, later ones are trailing *)
Definition add_break (st : sstate) (x : string) : sstate :=
  match st with
  | NB => BL true true "" x ""
  | BL _ lbl ws lb tb => if lbl then BL true true ws lb (tb ++ x) else BL true true "" x ""
  end.
(* "Join the whitespaces or fold line breaks." *)
Definition flush (st : sstate) : string :=
  match st with
  | NB => ""
  | BL _ lbl ws lb tb =>
      if lbl then
        match lb with
        | String c _ => if b c =? 10 then (match tb with EmptyString => " " | _ => tb end) else lb ++ tb
        | EmptyString => lb ++ tb
        end
      else ws
  end.
Definition col0_of (st : sstate) : bool := match st with NB => false | BL c _ _ _ _ => c end.

(* "---" or "..." followed by a blank, a break or NUL (the closing quote is none of these) *)
Definition doc_indicator (cs : list N) : bool :=
  match cs with
  | x :: y :: z :: r =>
      (((x =? 45) && (y =? 45) && (z =? 45)) || ((x =? 46) && (y =? 46) && (z =? 46))) &&
      match r with w :: _ => is_blankz w | [] => false end
  | _ => false
  end.

Definition hexv (v : N) : option N :=
  if (48 <=? v) && (v <=? 57) then Some (v - 48)
  else if (65 <=? v) && (v <=? 70) then Some (v - 55)
  else if (97 <=? v) && (v <=? 102) then Some (v - 87)
  else None.
Fixpoint hexs (acc : N) (ds : list N) : option N :=
  match ds with
  | [] => Some acc
  | d :: r => match hexv d with Some x => hexs (acc * 16 + x) r | None => None end
  end.
Definition prepend (x : string) (o : option string) : option string := option_map (append x) o.
(* "Check the value and write the character." *)
Definition emit_code (ds : list N) (k : option string) : option string :=
  match hexs 0 ds with
  | Some v => if scalar v then prepend (utf8_enc v) k else None
  | None => None
  end.
(* the one-character escapes (this scanner knows no \/ ) *)
Definition esc_simple (e : N) : option string :=
  if e =? 48 then Some (String (ch 0) "") else if e =? 97 then Some (String (ch 7) "") else if e =? 98 then Some (String (ch 8) "")
  else if (e =? 116) || (e =? 9) then Some (String (ch 9) "") else if e =? 110 then Some (String (ch 10) "")
  else if e =? 118 then Some (String (ch 11) "") else if e =? 102 then Some (String (ch 12) "") else if e =? 114 then Some (String (ch 13) "")
  else if e =? 101 then Some (String (ch 27) "") else if e =? 32 then Some " " else if e =? 34 then Some (String (ch 34) "")
  else if e =? 39 then Some "'" else if e =? 92 then Some "\"
  else if e =? 78 then Some (utf8_enc 133) else if e =? 95 then Some (utf8_enc 160)
  else if e =? 76 then Some (utf8_enc 8232) else if e =? 80 then Some (utf8_enc 8233)
  else None.

Definition nl : string := String (ch 10) "".

Fixpoint scan (st : sstate) (cs : list N) {struct cs} : option string :=
  match cs with
  | [] => Some (flush st)                                                  (* the closing quote *)
  | c :: r =>
      if is_blank c then scan (add_blank st c) r
      else if c =? 13 then                                                 (* read_line: CR LF | CR -> LF *)
        match r with
        | d :: r' => if d =? 10 then scan (add_break st nl) r' else scan (add_break st nl) r
        | [] => scan (add_break st nl) r
        end
      else if (c =? 10) || (c =? 133) then scan (add_break st nl) r        (* LF | NEL -> LF *)
      else if (c =? 8232) || (c =? 8233) then scan (add_break st (utf8_enc c)) r   (* LS | PS copied *)
      else
        (* top of the outer loop, on a non-blank character *)
        if col0_of st && doc_indicator cs then None                        (* "found unexpected document indicator" *)
        else if c =? 0 then None                                           (* "found unexpected end of stream" (never passes the reader) *)
        else if c =? 34 then None                                          (* a raw quote: the input was not the inside of ONE literal *)
        else
          prepend (flush st)
            (if c =? 92 then
               match r with
               | [] => None                                                (* backslash-quote, then the stream ends *)
               | e :: r1 =>
                   if is_break e then                                      (* escaped line break: skip, skip_line; leading_blanks = true *)
                     (if e =? 13 then
                        match r1 with
                        | d :: r2 => if d =? 10 then scan (BL true true "" "" "") r2 else scan (BL true true "" "" "") r1
                        | [] => scan (BL true true "" "" "") r1
                        end
                      else scan (BL true true "" "" "") r1)
                   else
                     match esc_simple e with
                     | Some x => prepend x (scan NB r1)
                     | None =>
                         if e =? 120 then                                  (* \xHH *)
                           match r1 with h1 :: h2 :: r2 => emit_code [h1; h2] (scan NB r2) | _ => None end
                         else if e =? 117 then                             (* \uHHHH; a surrogate value is an error, pairs are not combined *)
                           match r1 with h1 :: h2 :: h3 :: h4 :: r2 => emit_code [h1; h2; h3; h4] (scan NB r2) | _ => None end
                         else if e =? 85 then                              (* \UHHHHHHHH *)
                           match r1 with
                           | h1 :: h2 :: h3 :: h4 :: h5 :: h6 :: h7 :: h8 :: r2 => emit_code [h1; h2; h3; h4; h5; h6; h7; h8] (scan NB r2)
                           | _ => None
                           end
                         else None                                         (* "found unknown escape character" *)
                     end
               end
             else prepend (utf8_enc c) (scan NB r))                        (* read *)
  end.

(* the reader runs ahead of the scanner over the same bytes: any disallowed character before the closing quote fails the scan *)
Definition yaml_dq_scan (t : string) : option string :=
  match yaml_reader t with Some cs => scan NB cs | None => None end.

(* ------------------------------------------------------------------------------------------------------------------ *)
(* the classes of the known findings, on UTF-8 bytes *)
Fixpoint has_c1 (s : string) : bool :=      (* U+007F..U+009F except U+0085, U+FFFE, U+FFFF *)
  match s with
  | EmptyString => false
  | String c r =>
      N.eqb (b c) 127 ||
      match r with
      | String d r2 =>
          (N.eqb (b c) 194 && N.leb 128 (b d) && N.leb (b d) 159 && negb (N.eqb (b d) 133)) ||
          match r2 with
          | String e _ => N.eqb (b c) 239 && N.eqb (b d) 191 && (N.eqb (b e) 190 || N.eqb (b e) 191)
          | EmptyString => false
          end
      | EmptyString => false
      end || has_c1 r
  end.
Fixpoint has_nel (s : string) : bool :=     (* U+0085 = C2 85 *)
  match s with
  | EmptyString => false
  | String c r => match r with String d _ => N.eqb (b c) 194 && N.eqb (b d) 133 | EmptyString => false end || has_nel r
  end.
