(* Judge17.v — evaluation of harness cases for C17. *)
From Coq Require Import String Ascii List Bool Arith ZArith.
From CDI Require Import Base SpecModel Doc Schema.
From CDIGen Require Import SchemaGen.
Import ListNotations.
Open Scope string_scope.

(* schema configuration of a case: Load("builtin") / BuiltinSchema(); Load(path) of a variant schema written to disk,
   given as the term the translator tools/gen_schema.py produced for that very file; Load("none") / NopSchema(); nil *)
Inductive cfg17 := KBuiltin | KVariant (s : schema) | KNop | KNil.

(* observed verdict per entry point: 0 accepted, 1 rejected, 2 panicked, 3 not run.  Order:
   0 ValidateData(JSON bytes)      1 ValidateData(YAML bytes)     2 ValidateFile(x.json)   3 ValidateFile(x.yaml)
   4 ValidateFile(x.txt with JSON) 5 ValidateReader(JSON)         6 ReadAndValidate(JSON, returned bytes = input)
   7 ValidateType(decoded tree)    8 package-level ValidateData after Set (JSON)
   9 Validate(spec) — only when the document is the image of a Spec value
   10 ValidateFile(.json file under an unusual path: blanks, non-ASCII, '?', '=&;', relative, ...)
   11 ValidateData(flow-style YAML bytes)
   12 package-level ValidateReader / ReadAndValidate / ValidateFile(x.json) / ValidateType after Set, in turn
   (4 is a file holding JSON under some name not ending in ".json"; 8 is ValidateData(JSON) or ValidateFile of that file) *)
Inductive case17 := C17 (k : cfg17) (d : doc) (obs : list nat).

Definition config_of (k : cfg17) : config :=
  match k with KBuiltin => CfgSchema builtin | KVariant s => CfgSchema s | KNop => CfgNop | KNil => CfgNil end.

Definition eps17 : list (config -> doc -> bool) :=
  [v_data_json; v_data_yaml; v_file_json; v_file_yaml; v_file_other_json; v_reader; v_reader; v_type; v_data_json; v_type;
   v_file_json; v_data_yaml; v_type].
(* entry points that may be left out: the YAML ones (when the YAML text layer cannot carry the document) and Validate(spec) *)
Definition optional17 : list bool := [false; true; false; true; false; false; false; false; false; true; false; true; false].
(* the entry points that funnel straight into the schema (no decoding into a map, no content check) *)
Definition funnel17 : list bool := [false; false; true; false; false; true; true; true; false; true; true; false; true].

Definition verdict_code (b : bool) : nat := if b then 0 else 1.

Fixpoint corr_list (c : config) (d : doc) (eps : list (config -> doc -> bool)) (opt : list bool) (obs : list nat) : bool :=
  match eps, opt, obs with
  | [], [], [] => true
  | ep :: eps', o :: opt', x :: obs' =>
      ((o && Nat.eqb x 3) || Nat.eqb x (verdict_code (ep c d))) && corr_list c d eps' opt' obs'
  | _, _, _ => false
  end.

Definition corr17_spec (c : case17) : bool :=
  match c with C17 k d obs => corr_list (config_of k) d eps17 optional17 obs end.

(* the same, evaluating the two functions all entry points are instances of once per case instead of once per entry
   point: [codes17 c d] is, member by member, [verdict_code (ep c d)] for ep in eps17 (codes17_eps, by computation) *)
Definition codes17 (c : config) (d : doc) : list nat :=
  let rv := verdict_code (run_validate c d) in
  let rd := verdict_code (run_data c d) in
  [rd; rd; rv; rd; rd; rv; rv; rv; rd; rv; rv; rd; rv].
Fixpoint corr_codes (codes : list nat) (opt : list bool) (obs : list nat) : bool :=
  match codes, opt, obs with
  | [], [], [] => true
  | v :: codes', o :: opt', x :: obs' => ((o && Nat.eqb x 3) || Nat.eqb x v) && corr_codes codes' opt' obs'
  | _, _, _ => false
  end.
Definition corr17 (c : case17) : bool :=
  match c with C17 k d obs => corr_codes (codes17 (config_of k) d) optional17 obs end.

Lemma codes17_eps c d : codes17 c d = map (fun ep => verdict_code (ep c d)) eps17.
Proof. reflexivity. Qed.
Lemma corr_codes_list c d eps opt obs :
  corr_codes (map (fun ep => verdict_code (ep c d)) eps) opt obs = corr_list c d eps opt obs.
Proof.
  revert opt obs. induction eps as [|ep eps IH]; intros [|o opt] [|x obs]; cbn; try reflexivity.
  rewrite IH. reflexivity.
Qed.
Lemma corr17_is_spec c : corr17 c = corr17_spec c.
Proof. destruct c as [k d obs]. unfold corr17, corr17_spec. rewrite codes17_eps. apply corr_codes_list. Qed.

(* ---- the property, on the observed verdicts ---- *)
Definition ran_all (p : nat -> bool) (obs : list nat) : bool := forallb (fun x => Nat.eqb x 3 || p x) obs.
Fixpoint select (mask : list bool) (obs : list nat) : list nat :=
  match mask, obs with
  | m :: mask', x :: obs' => if m then x :: select mask' obs' else select mask' obs'
  | _, _ => []
  end.
Definition same_when_run (a b : nat) : bool := Nat.eqb a 3 || Nat.eqb b 3 || Nat.eqb a b.

(* the reference verdict: the declarative semantics of the schema files, decided by [validate] (validate_iff_Valid);
   computed three-valued so that a schema which has left the modelled fragment (unmodelled keyword, unresolvable $ref)
   yields no reference where the verdict depends on the unknown part — there the entry points must still agree with
   each other — but still yields one where the rest of the schema decides *)
Definition ref3 (s : schema) (d : doc) : option nat := option_map verdict_code (validate3 s d).
Definition agree (r : option nat) (obs : list nat) : bool :=
  match r with
  | Some v => ran_all (Nat.eqb v) obs
  | None => match filter (fun x => negb (Nat.eqb x 3)) obs with [] => true | x :: rest => forallb (Nat.eqb x) rest end
  end.

Definition oracle17 (c : case17) : bool :=
  match c with
  | C17 k d obs =>
      Nat.eqb (length obs) 13 && forallb (fun x => negb (Nat.eqb x 2)) obs &&
      (* one entry point, two (three) encodings: same verdict; one file route, two paths: same verdict *)
      same_when_run (nth 0 obs 3) (nth 1 obs 3) && same_when_run (nth 4 obs 3) (nth 3 obs 3) &&
      same_when_run (nth 0 obs 3) (nth 11 obs 3) && same_when_run (nth 2 obs 3) (nth 10 obs 3) &&
      match k with
      | KBuiltin =>
          let r := ref3 builtin d in
          agree r (select funnel17 obs) && (negb (contents_ok d) || agree r obs)
      | KVariant s =>
          let r := ref3 s d in
          agree r (select funnel17 obs) && (negb (contents_ok d && top_decodable d) || agree r obs)
      | KNop =>
          ran_all (Nat.eqb 0) (select funnel17 obs) && (negb (top_decodable d) || ran_all (Nat.eqb 0) obs)
      | KNil =>
          ran_all (Nat.eqb 0) (select funnel17 obs) && (negb (top_decodable d) || ran_all (Nat.eqb 0) obs)
      end
  end.

Definition judge17 (cases : list case17) : list nat * list nat :=
  (bad_indices corr17 0 cases, bad_indices oracle17 0 cases).
