(* DecodeProofs.v — C05, decoding side: the strict decoder never panics; a member that matches no
   field of its struct, in ANY object of the document tree (every level, every position), makes the
   whole document undecodable. *)
From Coq Require Import String Ascii List Bool Arith NArith ZArith Lia.
From CDI Require Import Base SpecModel Doc Decode.
Import ListNotations.
Open Scope string_scope.

(* ---------------- results ---------------- *)
Lemma bind_np {A B} (r : result A) (f : A -> result B) :
  r <> Panic -> (forall a, f a <> Panic) -> bind r f <> Panic.
Proof. destruct r; cbn; auto; congruence. Qed.

Lemma bind_ok {A B} (r : result A) (f : A -> result B) b :
  bind r f = Ok b <-> exists a, r = Ok a /\ f a = Ok b.
Proof.
  destruct r; cbn; split; try discriminate.
  - intro H. eauto.
  - intros (a' & E & H). inversion E; subst. exact H.
  - intros (a' & E & _). discriminate.
  - intros (a' & E & _). discriminate.
Qed.

Lemma bind_err_l {A B} (r : result A) (f : A -> result B) : r = Err -> bind r f = Err.
Proof. intros ->. reflexivity. Qed.

(* ---------------- the decoder never panics ---------------- *)
Lemma dec_string_np d : dec_string d <> Panic.
Proof. destruct d; discriminate. Qed.
Lemma dec_int_np lo hi d : dec_int lo hi d <> Panic.
Proof. destruct d; cbn; try discriminate. destruct (in_range lo hi z); discriminate. Qed.
Lemma dec_optint_np lo hi d : dec_optint lo hi d <> Panic.
Proof.
  destruct d; cbn; try discriminate.
  destruct (in_range lo hi z); discriminate.
Qed.
Lemma dec_bool_np d : dec_bool d <> Panic.
Proof. destruct d; discriminate. Qed.

Lemma map_result_np {A B} (f : A -> result B) l : (forall x, f x <> Panic) -> map_result f l <> Panic.
Proof.
  intro H. induction l as [|x r IH]; cbn; [discriminate|].
  apply bind_np; [apply H|]. intro y. apply bind_np; [exact IH|]. discriminate.
Qed.
Lemma dec_list_np {A} (elem : doc -> result A) d : (forall x, elem x <> Panic) -> dec_list elem d <> Panic.
Proof. intro H. destruct d; cbn; try discriminate. apply map_result_np. exact H. Qed.
Lemma dec_ptr_np {A} (dec : doc -> result A) d : (forall x, dec x <> Panic) -> dec_ptr dec d <> Panic.
Proof. intro H. destruct d; cbn; try discriminate; (apply bind_np; [apply H|discriminate]). Qed.
Lemma dec_struct_np {A} names (zero : A) build d :
  (forall f, build f <> Panic) -> dec_struct names zero build d <> Panic.
Proof. intro H. destruct d; cbn; try discriminate. destruct (all_known names l); [apply H|discriminate]. Qed.
Lemma dec_strings_np d : dec_strings d <> Panic.
Proof. apply dec_list_np. apply dec_string_np. Qed.
Lemma dec_annots_np d : dec_annots d <> Panic.
Proof.
  destruct d; cbn; try discriminate. apply map_result_np. intro kv.
  apply bind_np; [apply dec_string_np|discriminate].
Qed.

Ltac np_step :=
  first [ apply dec_string_np | apply dec_int_np | apply dec_optint_np | apply dec_bool_np | apply dec_strings_np
        | apply dec_annots_np | discriminate ].
Ltac np_chain := repeat (apply bind_np; [try np_step | intro]); try np_step.

Lemma build_devnode_np f : build_devnode f <> Panic.
Proof. unfold build_devnode, dec_int64. np_chain. Qed.
Lemma dec_devnode_np d : dec_devnode d <> Panic.
Proof. apply dec_struct_np. apply build_devnode_np. Qed.
Lemma build_mount_np f : build_mount f <> Panic.
Proof. unfold build_mount. np_chain. Qed.
Lemma dec_mount_np d : dec_mount d <> Panic.
Proof. apply dec_struct_np. apply build_mount_np. Qed.
Lemma build_hook_np f : build_hook f <> Panic.
Proof. unfold build_hook. np_chain. Qed.
Lemma dec_hook_np d : dec_hook d <> Panic.
Proof. apply dec_struct_np. apply build_hook_np. Qed.
Lemma build_rdt_np f : build_rdt f <> Panic.
Proof. unfold build_rdt. np_chain. Qed.
Lemma dec_rdt_np d : dec_rdt d <> Panic.
Proof. apply dec_struct_np. apply build_rdt_np. Qed.

Lemma dec_nodes_np d : dec_list (dec_ptr dec_devnode) d <> Panic.
Proof. apply dec_list_np. intro. apply dec_ptr_np. apply dec_devnode_np. Qed.
Lemma dec_hooks_np d : dec_list (dec_ptr dec_hook) d <> Panic.
Proof. apply dec_list_np. intro. apply dec_ptr_np. apply dec_hook_np. Qed.
Lemma dec_mounts_np d : dec_list (dec_ptr dec_mount) d <> Panic.
Proof. apply dec_list_np. intro. apply dec_ptr_np. apply dec_mount_np. Qed.
Lemma dec_rdtp_np d : dec_ptr dec_rdt d <> Panic.
Proof. apply dec_ptr_np. apply dec_rdt_np. Qed.
Lemma dec_gids_np d : dec_list dec_uint32 d <> Panic.
Proof. apply dec_list_np. intro. apply dec_int_np. Qed.

Lemma build_edits_np f : build_edits f <> Panic.
Proof.
  unfold build_edits.
  apply bind_np; [apply dec_strings_np|intro]. apply bind_np; [apply dec_nodes_np|intro].
  apply bind_np; [apply dec_hooks_np|intro]. apply bind_np; [apply dec_mounts_np|intro].
  apply bind_np; [apply dec_rdtp_np|intro]. apply bind_np; [apply dec_gids_np|intro]. discriminate.
Qed.
Lemma dec_edits_np d : dec_edits d <> Panic.
Proof. apply dec_struct_np. apply build_edits_np. Qed.
Lemma build_device_np f : build_device f <> Panic.
Proof.
  unfold build_device. apply bind_np; [apply dec_string_np|intro]. apply bind_np; [apply dec_annots_np|intro].
  apply bind_np; [apply dec_edits_np|intro]. discriminate.
Qed.
Lemma dec_device_np d : dec_device d <> Panic.
Proof. apply dec_struct_np. apply build_device_np. Qed.
Lemma dec_devices_np d : dec_list dec_device d <> Panic.
Proof. apply dec_list_np. apply dec_device_np. Qed.
Lemma build_spec_np f : build_spec f <> Panic.
Proof.
  unfold build_spec. apply bind_np; [apply dec_string_np|intro]. apply bind_np; [apply dec_string_np|intro].
  apply bind_np; [apply dec_annots_np|intro]. apply bind_np; [apply dec_devices_np|intro].
  apply bind_np; [apply dec_edits_np|intro]. discriminate.
Qed.

Theorem spec_of_doc_total d : spec_of_doc d <> Panic.
Proof. destruct d; cbn; try discriminate. destruct (all_known spec_fields l); [apply build_spec_np|discriminate]. Qed.

(* ---------------- unknown members, anywhere in the tree ---------------- *)
Inductive skind := KSpec | KDevice | KEdits | KNode | KHook | KMount | KRdt.

Definition fields_of (k : skind) : list string :=
  match k with
  | KSpec => spec_fields | KDevice => device_fields | KEdits => edits_fields | KNode => devnode_fields
  | KHook => hook_fields | KMount => mount_fields | KRdt => rdt_fields
  end.

(* struct-valued members of a struct: name, is it a list of structs, kind of the struct *)
Definition children_of (k : skind) : list (string * bool * skind) :=
  match k with
  | KSpec => [("devices", true, KDevice); ("containerEdits", false, KEdits)]
  | KDevice => [("containerEdits", false, KEdits)]
  | KEdits => [("deviceNodes", true, KNode); ("hooks", true, KHook); ("mounts", true, KMount); ("intelRdt", false, KRdt)]
  | _ => []
  end.

(* [Unknown k d]: the document d, read as a struct of kind k, has a member matching no field — in d itself,
   in a struct-valued member, or in any element of a list-valued member, recursively *)
Inductive Unknown : skind -> doc -> Prop :=
| U_here k f key v :
    In (key, v) f -> known_key (fields_of k) key = false -> Unknown k (DObj f)
| U_member k f name k' d :
    In (name, false, k') (children_of k) -> field name f = Some d -> Unknown k' d -> Unknown k (DObj f)
| U_element k f name k' l d :
    In (name, true, k') (children_of k) -> field name f = Some (DArr l) -> In d l -> Unknown k' d ->
    Unknown k (DObj f).

Lemma all_known_false names f key v :
  In (key, v) f -> known_key names key = false -> all_known names f = false.
Proof.
  intros Hin Hk. unfold all_known. destruct (forallb _ f) eqn:E; [|reflexivity].
  rewrite forallb_forall in E. specialize (E _ Hin). cbn in E. congruence.
Qed.

Lemma dec_struct_unknown {A} names (zero : A) build f key v :
  In (key, v) f -> known_key names key = false -> dec_struct names zero build (DObj f) = Err.
Proof. intros Hin Hk. cbn. rewrite (all_known_false _ _ _ _ Hin Hk). reflexivity. Qed.

Lemma map_result_err {A B} (f : A -> result B) l x :
  (forall y, f y <> Panic) -> In x l -> f x = Err -> map_result f l = Err.
Proof.
  intros Hnp Hin Hx. induction l as [|y r IH]; [destruct Hin|]. cbn.
  destruct Hin as [->|Hin].
  - rewrite Hx. reflexivity.
  - destruct (f y) eqn:E; cbn; [|reflexivity|exfalso; exact (Hnp _ E)].
    rewrite (IH Hin). reflexivity.
Qed.

Lemma unknown_is_obj k d : Unknown k d -> exists f, d = DObj f.
Proof. intros [? f ? ? ? ?|? f ? ? ? ? ? ?|? f ? ? ? ? ? ? ? ?]; exists f; reflexivity. Qed.

Lemma dec_ptr_err {A} (dec : doc -> result A) k d : Unknown k d -> dec d = Err -> dec_ptr dec d = Err.
Proof. intros U H. destruct (unknown_is_obj _ _ U) as (f & ->). cbn. rewrite H. reflexivity. Qed.

Lemma unknown_leaf k d : children_of k = [] -> Unknown k d ->
  exists f key v, d = DObj f /\ In (key, v) f /\ known_key (fields_of k) key = false.
Proof.
  intros Hc U. inversion U; subst.
  - eauto 6.
  - rewrite Hc in H. destruct H.
  - rewrite Hc in H. destruct H.
Qed.

Lemma unknown_node d : Unknown KNode d -> dec_devnode d = Err.
Proof. intro U. destruct (unknown_leaf KNode d eq_refl U) as (f & key & v & -> & Hin & Hk). exact (dec_struct_unknown _ _ _ _ _ _ Hin Hk). Qed.
Lemma unknown_hook d : Unknown KHook d -> dec_hook d = Err.
Proof. intro U. destruct (unknown_leaf KHook d eq_refl U) as (f & key & v & -> & Hin & Hk). exact (dec_struct_unknown _ _ _ _ _ _ Hin Hk). Qed.
Lemma unknown_mount d : Unknown KMount d -> dec_mount d = Err.
Proof. intro U. destruct (unknown_leaf KMount d eq_refl U) as (f & key & v & -> & Hin & Hk). exact (dec_struct_unknown _ _ _ _ _ _ Hin Hk). Qed.
Lemma unknown_rdt d : Unknown KRdt d -> dec_rdt d = Err.
Proof. intro U. destruct (unknown_leaf KRdt d eq_refl U) as (f & key & v & -> & Hin & Hk). exact (dec_struct_unknown _ _ _ _ _ _ Hin Hk). Qed.

Lemma fld_some name f d : field name f = Some d -> fld name f = d.
Proof. unfold fld. intros ->. reflexivity. Qed.

(* in a chain of binds none of whose links can panic, one failing link fails the chain *)
Ltac chain_err Hbad :=
  repeat first
    [ rewrite Hbad; reflexivity
    | match goal with
      | |- bind ?r _ = Err =>
          let E := fresh "E" in
          destruct r eqn:E; cbn [bind];
          [ | reflexivity
            | exfalso; revert E;
              first [ apply dec_string_np | apply dec_strings_np | apply dec_annots_np | apply dec_nodes_np
                    | apply dec_hooks_np | apply dec_mounts_np | apply dec_rdtp_np | apply dec_gids_np
                    | apply dec_edits_np | apply dec_devices_np ] ]
      end ].

Lemma list_elem_err {A} (dec : doc -> result A) k l d :
  (forall x, dec x <> Panic) -> In d l -> Unknown k d -> dec d = Err ->
  dec_list (dec_ptr dec) (DArr l) = Err.
Proof.
  intros Hnp Hin U H. cbn. apply (map_result_err _ _ d); [intro; apply dec_ptr_np; exact Hnp|exact Hin|].
  exact (dec_ptr_err _ _ _ U H).
Qed.

Lemma unknown_edits d : Unknown KEdits d -> dec_edits d = Err.
Proof.
  intro U. inversion U as [k f key v Hin Hk | k f name k' d' Hc Hf U' | k f name k' l d' Hc Hf Hin U']; subst.
  - exact (dec_struct_unknown _ _ _ _ _ _ Hin Hk).
  - cbn. destruct (all_known edits_fields f); [|reflexivity].
    cbn in Hc. repeat (destruct Hc as [Hc|Hc]; [inversion Hc; subst|]); try destruct Hc.
    assert (Hbad : dec_ptr dec_rdt (fld "intelRdt" f) = Err).
    { rewrite (fld_some _ _ _ Hf). exact (dec_ptr_err _ _ _ U' (unknown_rdt _ U')). }
    unfold build_edits. chain_err Hbad.
  - cbn. destruct (all_known edits_fields f); [|reflexivity].
    cbn in Hc. repeat (destruct Hc as [Hc|Hc]; [inversion Hc; subst|]); try destruct Hc.
    + assert (Hbad : dec_list (dec_ptr dec_devnode) (fld "deviceNodes" f) = Err).
      { rewrite (fld_some _ _ _ Hf). exact (list_elem_err _ _ _ _ dec_devnode_np Hin U' (unknown_node _ U')). }
      unfold build_edits. chain_err Hbad.
    + assert (Hbad : dec_list (dec_ptr dec_hook) (fld "hooks" f) = Err).
      { rewrite (fld_some _ _ _ Hf). exact (list_elem_err _ _ _ _ dec_hook_np Hin U' (unknown_hook _ U')). }
      unfold build_edits. chain_err Hbad.
    + assert (Hbad : dec_list (dec_ptr dec_mount) (fld "mounts" f) = Err).
      { rewrite (fld_some _ _ _ Hf). exact (list_elem_err _ _ _ _ dec_mount_np Hin U' (unknown_mount _ U')). }
      unfold build_edits. chain_err Hbad.
Qed.

Lemma unknown_device d : Unknown KDevice d -> dec_device d = Err.
Proof.
  intro U. inversion U as [k f key v Hin Hk | k f name k' d' Hc Hf U' | k f name k' l d' Hc Hf Hin U']; subst.
  - exact (dec_struct_unknown _ _ _ _ _ _ Hin Hk).
  - cbn. destruct (all_known device_fields f); [|reflexivity].
    cbn in Hc. repeat (destruct Hc as [Hc|Hc]; [inversion Hc; subst|]); try destruct Hc.
    assert (Hbad : dec_edits (fld "containerEdits" f) = Err).
    { rewrite (fld_some _ _ _ Hf). exact (unknown_edits _ U'). }
    unfold build_device. chain_err Hbad.
  - cbn in Hc. repeat (destruct Hc as [Hc|Hc]; [inversion Hc; subst|]); try destruct Hc.
Qed.

Theorem unknown_key_rejects d : Unknown KSpec d -> spec_of_doc d = Err.
Proof.
  intro U. inversion U as [k f key v Hin Hk | k f name k' d' Hc Hf U' | k f name k' l d' Hc Hf Hin U']; subst.
  - unfold spec_of_doc. change (fields_of KSpec) with spec_fields in Hk.
    rewrite (all_known_false _ _ _ _ Hin Hk). reflexivity.
  - unfold spec_of_doc. destruct (all_known spec_fields f); [|reflexivity].
    cbn in Hc. repeat (destruct Hc as [Hc|Hc]; [inversion Hc; subst|]); try destruct Hc.
    assert (Hbad : dec_edits (fld "containerEdits" f) = Err).
    { rewrite (fld_some _ _ _ Hf). exact (unknown_edits _ U'). }
    unfold build_spec. chain_err Hbad.
  - unfold spec_of_doc. destruct (all_known spec_fields f); [|reflexivity].
    cbn in Hc. repeat (destruct Hc as [Hc|Hc]; [inversion Hc; subst|]); try destruct Hc.
    assert (Hbad : dec_list dec_device (fld "devices" f) = Err).
    { rewrite (fld_some _ _ _ Hf). cbn. apply (map_result_err _ _ d'); [apply dec_device_np|exact Hin|].
      exact (unknown_device _ U'). }
    unfold build_spec. chain_err Hbad.
Qed.

(* ---------------- facts about null placements (DESIGN.md section 11) ---------------- *)
Lemma null_pointer_entry {A} (dec : doc -> result A) : dec_ptr dec DNull = Ok None.
Proof. reflexivity. Qed.
Lemma null_string_entry : dec_string DNull = Ok "".
Proof. reflexivity. Qed.
Lemma top_level_null : spec_of_doc DNull = Err.
Proof. reflexivity. Qed.

(* ---------------- the decoder's field names are the encoder's member names ---------------- *)
Lemma layout_names_agree : map (fun p => (fst p, fst (snd p))) encoder_probes = decoder_fields.
Proof. reflexivity. Qed.

(* ---------------- examples ---------------- *)
Example key_fold_examples :
  key_fold "deviceNodes" = "devicenodes" /\ key_matches "kind" "KIND" = true /\
  key_matches "kind" (String (ascii_of_N 226) (String (ascii_of_N 132) (String (ascii_of_N 170) "ind"))) = true /\
  key_matches "hooks" (String "h" (String "o" (String "o" (String "k" (String (ascii_of_N 197) (String (ascii_of_N 191) "")))))) = true /\
  key_matches "kind" "kin" = false /\ key_matches "kind" "kind " = false.
Proof. vm_compute. repeat split. Qed.
Example number_text_examples :
  z_text 0 = "0" /\ z_text (-5) = "-5" /\ z_text 18446744073709551615 = "18446744073709551615" /\
  frac_text 3 2 = "1.5" /\ frac_text (-1) 4 = "-0.25" /\ frac_text 1 10 = "0.1".
Proof. vm_compute. repeat split. Qed.
Example decode_full : spec_of_doc (doc_of_spec full_spec) = Ok full_spec.
Proof. vm_compute. reflexivity. Qed.
Example unknown_example :
  Unknown KSpec (DObj [("devices", DArr [DObj [("name", DStr "d");
                        ("containerEdits", DObj [("hooks", DArr [DNull; DObj [("hookName", DStr "prestart"); ("pth", DStr "/p")]])])]])]).
Proof.
  eapply U_element; [cbn; left; reflexivity|reflexivity|left; reflexivity|].
  eapply U_member; [cbn; left; reflexivity|reflexivity|].
  eapply U_element; [cbn; right; left; reflexivity|reflexivity|right; left; reflexivity|].
  eapply U_here; [right; left; reflexivity|reflexivity].
Qed.

(* ---------------- exact duplicate member names ---------------- *)
(* [HasDup d]: some object of the tree d — d itself, a member value or a list element, recursively — has two
   members with the same name *)
Inductive HasDup : doc -> Prop :=
| HD_here f pre k v1 mid v2 post :
    f = (pre ++ (k, v1) :: mid ++ (k, v2) :: post)%list -> HasDup (DObj f)
| HD_member f k v : In (k, v) f -> HasDup v -> HasDup (DObj f)
| HD_element l x : In x l -> HasDup x -> HasDup (DArr l).

Lemma existsb_eqb_in x l : existsb (String.eqb x) l = true <-> In x l.
Proof.
  rewrite existsb_exists. split.
  - intros (y & Hy & E). apply String.eqb_eq in E. subst. exact Hy.
  - intro H. exists x. split; [exact H|apply String.eqb_refl].
Qed.

Lemma dup_names_iff l :
  dup_names l = true <-> exists pre k mid post, l = (pre ++ k :: mid ++ k :: post)%list.
Proof.
  induction l as [|x r IH]; cbn [dup_names].
  - split; [discriminate|]. intros (pre & k & mid & post & E). destruct pre; discriminate.
  - rewrite orb_true_iff, existsb_eqb_in, IH. split.
    + intros [H|(pre & k & mid & post & E)].
      * apply in_split in H as (mid & post & E). exists [], x, mid, post. rewrite E. reflexivity.
      * exists (x :: pre), k, mid, post. rewrite E. reflexivity.
    + intros (pre & k & mid & post & E). destruct pre as [|y pre]; cbn in E; inversion E; subst.
      * left. apply in_or_app. right. left. reflexivity.
      * right. exists pre, k, mid, post. reflexivity.
Qed.

Lemma map_fst_split (f : list (string * doc)) pre k mid post :
  map fst f = (pre ++ k :: mid ++ k :: post)%list ->
  exists pre' v1 mid' v2 post', f = (pre' ++ (k, v1) :: mid' ++ (k, v2) :: post')%list.
Proof.
  intro E. apply map_eq_app in E as (pre' & r1 & -> & _ & E).
  destruct r1 as [|[k1 v1] r1]; [discriminate|]. cbn in E. injection E as Ek E'. subst k1.
  apply map_eq_app in E' as (mid' & r2 & -> & _ & E').
  destruct r2 as [|[k2 v2] r2]; [discriminate|]. cbn in E'. injection E' as Ek2 _. subst k2.
  exists pre', v1, mid', v2, r2. reflexivity.
Qed.

Definition go_arr := fix go (l : list doc) : bool := match l with [] => false | x :: r => has_dup x || go r end.
Definition go_obj := fix go (f : list (string * doc)) : bool := match f with [] => false | (_, x) :: r => has_dup x || go r end.

Lemma has_dup_arr l : has_dup (DArr l) = go_arr l.
Proof. reflexivity. Qed.
Lemma has_dup_obj f : has_dup (DObj f) = dup_names (map fst f) || go_obj f.
Proof. reflexivity. Qed.

Lemma go_arr_iff l : go_arr l = true <-> exists x, In x l /\ has_dup x = true.
Proof.
  induction l as [|y r IH]; cbn [go_arr].
  - split; [discriminate|intros (x & [] & _)].
  - fold go_arr. rewrite orb_true_iff, IH. split.
    + intros [H|(x & Hx & H)]; [exists y; split; [left; reflexivity|exact H]|exists x; split; [right; exact Hx|exact H]].
    + intros (x & [->|Hx] & H); [left; exact H|right; exists x; split; assumption].
Qed.
Lemma go_obj_iff f : go_obj f = true <-> exists k x, In (k, x) f /\ has_dup x = true.
Proof.
  induction f as [|[k0 y] r IH]; cbn [go_obj].
  - split; [discriminate|intros (k & x & [] & _)].
  - fold go_obj. rewrite orb_true_iff, IH. split.
    + intros [H|(k & x & Hx & H)]; [exists k0, y; split; [left; reflexivity|exact H]|exists k, x; split; [right; exact Hx|exact H]].
    + intros (k & x & [E|Hx] & H); [inversion E; subst; left; exact H|right; exists k, x; split; assumption].
Qed.

(* size of a tree, for the induction over nested lists *)
Fixpoint dsize (d : doc) : nat :=
  match d with
  | DArr l => S ((fix go (l : list doc) : nat := match l with [] => 0 | x :: r => dsize x + go r end) l)
  | DObj f => S ((fix go (f : list (string * doc)) : nat := match f with [] => 0 | (_, x) :: r => dsize x + go r end) f)
  | _ => 1
  end.
Lemma dsize_elem l x : In x l -> dsize x < dsize (DArr l).
Proof.
  cbn [dsize]. induction l as [|y r IH]; [intros []|]. intros [->|H]; [lia|]. specialize (IH H). lia.
Qed.
Lemma dsize_member f k x : In (k, x) f -> dsize x < dsize (DObj f).
Proof.
  cbn [dsize]. induction f as [|[k0 y] r IH]; [intros []|]. intros [E|H]; [inversion E; subst; lia|]. specialize (IH H). lia.
Qed.

Theorem has_dup_iff d : has_dup d = true <-> HasDup d.
Proof.
  split.
  - remember (dsize d) as n eqn:En. revert d En. induction n as [n IH] using lt_wf_ind. intros d En H.
    destruct d as [| | | | |l|f]; try discriminate.
    + rewrite has_dup_arr in H. apply go_arr_iff in H as (x & Hx & H).
      apply (HD_element l x Hx). apply (IH (dsize x)); [subst n; apply dsize_elem; exact Hx|reflexivity|exact H].
    + rewrite has_dup_obj in H. apply orb_true_iff in H as [H|H].
      * apply dup_names_iff in H as (pre & k & mid & post & E).
        apply map_fst_split in E as (pre' & v1 & mid' & v2 & post' & E). exact (HD_here _ _ _ _ _ _ _ E).
      * apply go_obj_iff in H as (k & x & Hx & H). apply (HD_member f k x Hx).
        apply (IH (dsize x)); [subst n; apply (dsize_member f k); exact Hx|reflexivity|exact H].
  - induction 1 as [f pre k v1 mid v2 post E|f k v Hin _ IH|l x Hin _ IH].
    + rewrite has_dup_obj. apply orb_true_iff. left. apply dup_names_iff.
      exists (map fst pre), k, (map fst mid), (map fst post). subst f. rewrite map_app. cbn [map fst]. rewrite map_app. reflexivity.
    + rewrite has_dup_obj. apply orb_true_iff. right. apply go_obj_iff. exists k, v. split; assumption.
    + rewrite has_dup_arr. apply go_arr_iff. exists x. split; assumption.
Qed.

(* a document with a duplicate member name is refused before any typed decoding *)
Theorem duplicate_key_undecodable d : HasDup d -> strict_of_doc d = Err.
Proof. intro H. apply has_dup_iff in H. unfold strict_of_doc. rewrite H. reflexivity. Qed.
Theorem strict_without_dup d : ~ HasDup d -> strict_of_doc d = spec_of_doc d.
Proof.
  intro H. unfold strict_of_doc. destruct (has_dup d) eqn:E; [|reflexivity]. exfalso. apply H, has_dup_iff, E.
Qed.
Theorem strict_of_doc_total d : strict_of_doc d <> Panic.
Proof. unfold strict_of_doc. destruct (has_dup d); [discriminate|apply spec_of_doc_total]. Qed.
